/*
 * Shared part of all correspondence harnesses: line protocol, hex text, errno
 * names.  One operation per input line; `#case <id>` starts a new case (state
 * reset, echoed as `@ <id>`).  Output is line buffered so that everything
 * printed before a sanitizer abort reaches the runner.
 */
#ifndef VERIF_HARNESS_COMMON_H
#define VERIF_HARNESS_COMMON_H

#include <errno.h>
#include <inttypes.h>
#include <stdbool.h>
#include <stdint.h>
#include <stdio.h>
#include <stdlib.h>
#include <string.h>
#include <unistd.h>

#define MAXTOK 64

static const char *
errname(int e)
{
    static char buf[32];
    if (e < 0) e = -e;
    switch (e) {
    case EINVAL: return "einval";
    case ENOMEM: return "enomem";
    case ENODATA: return "enodata";
    case EILSEQ: return "eilseq";
    case EIO: return "eio";
    case EINTR: return "eintr";
    case EAGAIN: return "eagain";
    case EPIPE: return "epipe";
    case EOVERFLOW: return "eoverflow";
    case EBADMSG: return "ebadmsg";
    case EPROTO: return "eproto";
    case EFAULT: return "efault";
    case EBUSY: return "ebusy";
    case EMSGSIZE: return "emsgsize";
    case ENOBUFS: return "enobufs";
    case ERANGE: return "erange";
    case EBADF: return "ebadf";
    default:
        snprintf(buf, sizeof buf, "errno%d", e);
        return buf;
    }
}

static int
errbyname(const char *s)
{
    static const struct { const char *n; int e; } tab[] = {
        {"einval", EINVAL}, {"enomem", ENOMEM}, {"enodata", ENODATA}, {"eilseq", EILSEQ},
        {"eio", EIO}, {"eintr", EINTR}, {"eagain", EAGAIN}, {"epipe", EPIPE},
        {"eoverflow", EOVERFLOW}, {"ebadmsg", EBADMSG}, {"eproto", EPROTO},
        {"efault", EFAULT}, {"ebusy", EBUSY}, {"emsgsize", EMSGSIZE},
        {"enobufs", ENOBUFS}, {"erange", ERANGE}, {"ebadf", EBADF},
    };
    for (size_t i = 0; i < sizeof tab / sizeof *tab; i++)
        if (strcmp(tab[i].n, s) == 0) return tab[i].e;
    return 0;
}

/* rc >= 0: "ok:<rc>", rc < 0: errno name */
static void
print_rc(long long rc)
{
    if (rc >= 0) printf("ok:%lld", rc);
    else printf("%s", errname((int)-rc));
}

static void
print_hex(const unsigned char *p, size_t n)
{
    if (n == 0) { putchar('-'); return; }
    for (size_t i = 0; i < n; i++) printf("%02x", p[i]);
}

static int
hexval(int c)
{
    if (c >= '0' && c <= '9') return c - '0';
    if (c >= 'a' && c <= 'f') return c - 'a' + 10;
    if (c >= 'A' && c <= 'F') return c - 'A' + 10;
    return -1;
}

/* Parses hex text into a heap block of EXACTLY the decoded size (so that ASan
 * sees every access beyond it); "-" is the empty string (1-octet block is
 * never handed out: size 0 gives malloc(0)-like unique pointer of size 1 but
 * *n == 0).  Returns NULL on malformed text. */
static unsigned char *
parse_hex(const char *s, size_t *n)
{
    if (strcmp(s, "-") == 0) { *n = 0; return malloc(1); }
    size_t len = strlen(s);
    if (len % 2) return NULL;
    unsigned char *p = malloc(len / 2 ? len / 2 : 1);
    for (size_t i = 0; i < len / 2; i++) {
        int a = hexval(s[2 * i]), b = hexval(s[2 * i + 1]);
        if (a < 0 || b < 0) { free(p); return NULL; }
        p[i] = (unsigned char)(a * 16 + b);
    }
    *n = len / 2;
    return p;
}

static unsigned long long
parse_u64(const char *s)
{
    return strtoull(s, NULL, 0);
}

/* implemented by each harness */
#ifdef HARNESS_NOISE
static void harness_noise(void);
#endif
static void harness_reset(void);
static void harness_op(int argc, char **argv);

static int
harness_main(void)
{
    char *line = NULL;
    size_t cap = 0;
    setvbuf(stdout, NULL, _IOLBF, 0);
    harness_reset();
    bool first_op = true;
    unsigned nops = 0;        /* of the process: nothing of the library has run yet */
    while (getline(&line, &cap, stdin) > 0) {
        char *argv[MAXTOK];
        int argc = 0;
        for (char *t = strtok(line, " \t\r\n"); t && argc < MAXTOK; t = strtok(NULL, " \t\r\n"))
            argv[argc++] = t;
        if (argc == 0) continue;
        if (strcmp(argv[0], "#case") == 0 && argc >= 2) {
            printf("@ %s\n", argv[1]);
            harness_reset();
            alarm(20);
            continue;
        }
#ifdef HARNESS_NOISE
        /* between any two operations a second, unrelated object of the same kind is used (harness_noise): what the
         * library answers for the object under test must not depend on it - the library keeps no state of its own */
        if (!first_op) harness_noise();
#endif
        first_op = false;
        /* what an earlier library call of the application left in errno is no business of the code under test */
        errno = (nops++ % 3 == 0) ? ERANGE : (nops % 3 == 1 ? EINTR : 0);
        harness_op(argc, argv);
        putchar('\n');
    }
    free(line);
    return 0;
}

#endif
