/* Correspondence harness for the buffer group: byte buffer (C18), ring buffer (C19). */
#define HARNESS_NOISE
#include "common.h"

#include <ufw/byte-buffer.h>

/* ---- byte buffer --------------------------------------------------- */

static ByteBuffer bb;
static unsigned char *bbmem;   /* exact-size heap block */

static void
bb_view(long long rc, const unsigned char *out, size_t outn, bool full)
{
    print_rc(rc);
    printf(" size=%zu used=%zu off=%zu mem=", bb.size, bb.used, bb.offset);
    print_hex(bb.data, bb.data ? (bb.used <= bb.size ? bb.used : bb.size) : 0);
    printf(" out=");
    print_hex(out, outn);
    if (full) { printf(" full="); print_hex(bb.data, bb.data ? bb.size : 0); }
    /* spec view */
    printf(" ## ");
    print_rc(rc);
    printf(" out=");
    print_hex(out, outn);
    printf(" unread=");
    if (bb.data && bb.offset <= bb.used && bb.used <= bb.size)
        print_hex(bb.data + bb.offset, bb.used - bb.offset);
    else
        printf(bb.data ? "?" : "-");
    /* through the library's accessors */
    printf(" avail=%zu rest=%zu", byte_buffer_avail(&bb), byte_buffer_rest(&bb));
}

static void
bb_op(int argc, char **argv)
{
    const char *op = argv[0];
    if (strcmp(op, "bb.null") == 0) {
        byte_buffer_null(&bb);
        printf("ok");
    } else if ((strcmp(op, "bb.set") == 0 && argc == 5) || ((strcmp(op, "bb.space") == 0 || strcmp(op, "bb.use") == 0) && argc == 3)) {
        size_t n = 0;
        unsigned char *m = NULL;
        if (strcmp(argv[1], "null") != 0) {
            m = parse_hex(argv[1], &n);
            if (!m) { printf("bad-op"); return; }
        }
        /* bb.space / bb.use: the two convenience set-ups (an empty buffer / a buffer that is completely filled) */
        int rc = op[3] == 's' && op[4] == 'e' ? byte_buffer_set(&bb, m, parse_u64(argv[2]), parse_u64(argv[3]), parse_u64(argv[4]))
               : op[3] == 's' ? byte_buffer_space(&bb, m, parse_u64(argv[2]))
               : byte_buffer_use(&bb, m, parse_u64(argv[2]));
        if (rc == 0) { free(bbmem); bbmem = m; } else free(m);
        bb_view(rc, NULL, 0, true);
    } else if (strcmp(op, "bb.add") == 0 && argc == 2) {
        size_t n = 0;
        unsigned char *d = parse_hex(argv[1], &n);
        if (!d) { printf("bad-op"); return; }
        int rc = byte_buffer_add(&bb, d, n);
        free(d);
        bb_view(rc, NULL, 0, false);
    } else if ((strcmp(op, "bb.consume") == 0 || strcmp(op, "bb.atmost") == 0) && argc == 2) {
        size_t n = parse_u64(argv[1]);
        /* exact size: overrun is an ASan report.  Lengths no allocation can have (up to SIZE_MAX) get a
         * destination as large as the whole buffer: the library may never move more than that */
        size_t cap = n <= ((size_t)1 << 24) ? (n ? n : 1) : (bb.size ? bb.size : 1);
        unsigned char *dst = malloc(cap);
        memset(dst, 0xee, cap);
        if (op[3] == 'c') {
            int rc = byte_buffer_consume(&bb, dst, n);
            bb_view(rc, dst, rc == 0 ? (n < cap ? n : cap) : 0, false);
        } else {
            ssize_t rc = byte_buffer_consume_at_most(&bb, dst, n);
            bb_view(rc, dst, rc > 0 ? (size_t)rc : 0, false);
        }
        free(dst);
    } else if (strcmp(op, "bb.rewind") == 0) {
        bb_view(byte_buffer_rewind(&bb), NULL, 0, false);
    } else if (strcmp(op, "bb.clear") == 0) {
        byte_buffer_clear(&bb);
        bb_view(0, NULL, 0, true);
        /* spec view: clear "empties and zeroes" the buffer - every one of its size octets */
        int wiped = 1;
        for (size_t k = 0; bb.data && k < bb.size; ++k)
            if (bb.data[k] != 0) wiped = 0;
        printf(" wiped=%d", wiped);
    } else if (strcmp(op, "bb.reset") == 0) {
        byte_buffer_reset(&bb);
        bb_view(0, NULL, 0, false);
    } else if (strcmp(op, "bb.repeat") == 0) {
        byte_buffer_repeat(&bb);
        bb_view(0, NULL, 0, false);
    } else {
        printf("bad-op");
    }
}

/* ---- ring buffer ---------------------------------------------------- */

#include <assert.h>
#include <ufw/octet-ring.h>

RING_BUFFER_API(ring16, uint16_t)
RING_BUFFER_ITER_API(ring16, uint16_t)
RING_BUFFER(ring16, uint16_t)
RING_BUFFER_ITER(ring16, uint16_t)
RING_BUFFER_API(ring32, uint32_t)
RING_BUFFER_ITER_API(ring32, uint32_t)
RING_BUFFER(ring32, uint32_t)
RING_BUFFER_ITER(ring32, uint32_t)
RING_BUFFER_API(ring8, uint8_t)
RING_BUFFER_ITER_API(ring8, uint8_t)
RING_BUFFER(ring8, uint8_t)
RING_BUFFER_ITER(ring8, uint8_t)

static int rbtype;            /* 0 octet_ring, 1 ring8, 2 ring16, 3 ring32 */
static void *rbdata;          /* exact-size heap block */
static octet_ring r0; static ring8 r1; static ring16 r2; static ring32 r3;

#define RB_DISPATCH(EXPR0, EXPR1, EXPR2, EXPR3) \
    (rbtype == 0 ? (EXPR0) : rbtype == 1 ? (EXPR1) : rbtype == 2 ? (EXPR2) : (EXPR3))

static void
rb_iterate(rb_iter_mode mode)
{
    rb_iter it;
    size_t n = 0;
    memset(&it, 0xa5, sizeof it);     /* whatever an earlier, abandoned traversal may have left in the object */
    switch (rbtype) {
    case 0: octet_ring_iter(&it, &r0, mode); break;
    case 1: ring8_iter(&it, &r1, mode); break;
    case 2: ring16_iter(&it, &r2, mode); break;
    default: ring32_iter(&it, &r3, mode); break;
    }
    for (; !rb_iter_done(&it); rb_iter_advance(&it)) {
        unsigned long v = RB_DISPATCH(octet_ring_inspect(&r0, &it), ring8_inspect(&r1, &it),
                                      ring16_inspect(&r2, &it), ring32_inspect(&r3, &it));
        printf("%s%lu", n ? "," : "", v);
        /* more steps than the buffer has slots: the iterator runs away (its step count is not the queue's size) */
        if (++n > 2 * RB_DISPATCH(r0.datasize, r1.datasize, r2.datasize, r3.datasize) + 8) { printf(",runaway"); break; }
    }
    if (n == 0) putchar('-');
}

static void
rb_view1(const char *ret)
{
    size_t size = RB_DISPATCH(octet_ring_size(&r0), ring8_size(&r1), ring16_size(&r2), ring32_size(&r3));
    bool empty = RB_DISPATCH(octet_ring_empty(&r0), ring8_empty(&r1), ring16_empty(&r2), ring32_empty(&r3));
    bool full = RB_DISPATCH(octet_ring_full(&r0), ring8_full(&r1), ring16_full(&r2), ring32_full(&r3));
    printf("%s size=%zu empty=%s full=%s o2n=", ret, size, empty ? "true" : "false", full ? "true" : "false");
    rb_iterate(RING_BUFFER_ITER_OLD_TO_NEW);
    printf(" n2o=");
    rb_iterate(RING_BUFFER_ITER_NEW_TO_OLD);
}

static void
rb_view(const char *ret)
{
    rb_view1(ret);
    printf(" ## ");
    rb_view1(ret);
}

static void
rb_op(int argc, char **argv)
{
    const char *op = argv[0];
    char ret[40] = "ok";
    if (strcmp(op, "rb.init") == 0 && argc == 3) {
        size_t cap = parse_u64(argv[2]);
        const char *t = argv[1];
        rbtype = strcmp(t, "o8") == 0 ? 0 : strcmp(t, "u8") == 0 ? 1 : strcmp(t, "u16") == 0 ? 2 : 3;
        size_t es = rbtype <= 1 ? 1 : rbtype == 2 ? 2 : 4;
        free(rbdata);
        rbdata = malloc(cap * es);
        memset(rbdata, 0xee, cap * es);
        switch (rbtype) {
        case 0: memset(&r0, 0xa5, sizeof r0); octet_ring_init(&r0, rbdata, cap); break;
        case 1: memset(&r1, 0xa5, sizeof r1); ring8_init(&r1, rbdata, cap); break;
        case 2: memset(&r2, 0xa5, sizeof r2); ring16_init(&r2, rbdata, cap); break;
        default: memset(&r3, 0xa5, sizeof r3); ring32_init(&r3, rbdata, cap); break;
        }
    } else if (rbdata == NULL) {
        printf("bad-op");
        return;
    } else if (strcmp(op, "rb.put") == 0 && argc == 2) {
        unsigned long v = parse_u64(argv[1]);
        switch (rbtype) {
        case 0: octet_ring_put(&r0, v); break;
        case 1: ring8_put(&r1, v); break;
        case 2: ring16_put(&r2, v); break;
        default: ring32_put(&r3, v); break;
        }
    } else if (strcmp(op, "rb.get") == 0) {
        unsigned long v = RB_DISPATCH(octet_ring_get(&r0), ring8_get(&r1), ring16_get(&r2), ring32_get(&r3));
        snprintf(ret, sizeof ret, "val:%lu", v);
    } else if (strcmp(op, "rb.clear") == 0) {
        switch (rbtype) {
        case 0: octet_ring_clear(&r0); break;
        case 1: ring8_clear(&r1); break;
        case 2: ring16_clear(&r2); break;
        default: ring32_clear(&r3); break;
        }
    } else if (strcmp(op, "rb.ovr") == 0 && argc == 2) {
        bool b = argv[1][0] == '1';
        switch (rbtype) {
        case 0: octet_ring_override_if_full(&r0, b); break;
        case 1: ring8_override_if_full(&r1, b); break;
        case 2: ring16_override_if_full(&r2, b); break;
        default: ring32_override_if_full(&r3, b); break;
        }
    } else {
        printf("bad-op");
        return;
    }
    rb_view(ret);
}

/* a second byte buffer and a second ring, used between the operations on the objects under test */
static void
harness_noise(void)
{
    static unsigned char m[5];
    static ByteBuffer sb;
    static octet_ring sr;
    static uint8_t sd[3];
    static unsigned k;
    if (k == 0) {
        byte_buffer_space(&sb, m, sizeof m);
        octet_ring_init(&sr, sd, 3);
        octet_ring_override_if_full(&sr, true);
    }
    unsigned char d[2] = { 1, (unsigned char)k }, o[3];
    if (byte_buffer_add(&sb, d, 2) < 0) byte_buffer_reset(&sb);
    (void)byte_buffer_consume_at_most(&sb, o, 1 + k % 3);
    if (k % 3 == 0) byte_buffer_rewind(&sb);
    octet_ring_put(&sr, (uint8_t)k);
    if (k % 4 == 0) (void)octet_ring_get(&sr);
    rb_iter it;
    octet_ring_iter(&it, &sr, k % 2 ? RING_BUFFER_ITER_NEW_TO_OLD : RING_BUFFER_ITER_OLD_TO_NEW);
    if (!rb_iter_done(&it)) rb_iter_advance(&it);      /* a traversal that is abandoned after one step */
    k++;
}

static void
harness_reset(void)
{
    free(bbmem);
    bbmem = NULL;
    byte_buffer_null(&bb);
    free(rbdata);
    rbdata = NULL;
}

static void
harness_op(int argc, char **argv)
{
    if (strncmp(argv[0], "bb.", 3) == 0) bb_op(argc, argv);
    else if (strncmp(argv[0], "rb.", 3) == 0) rb_op(argc, argv);
    else printf("bad-op");
}

int
main(void)
{
    return harness_main();
}
