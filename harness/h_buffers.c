/* Correspondence harness for the buffer group: byte buffer (C18), ring buffer (C19). */
#include "common.h"

#include <ufw/byte-buffer.h>

/* ---- byte buffer --------------------------------------------------- */

static ByteBuffer bb;
static unsigned char *bbmem;   /* exact-size heap block */

static void
bb_view(long long rc, const unsigned char *out, size_t outn, bool full)
{
    print_rc(rc);
    printf(" size=%zu used=%zu off=%zu mem=", bb.size, bb.used, bb.offset);
    print_hex(bb.data, bb.data ? (bb.used <= bb.size ? bb.used : bb.size) : 0);
    printf(" out=");
    print_hex(out, outn);
    if (full) { printf(" full="); print_hex(bb.data, bb.data ? bb.size : 0); }
    /* spec view */
    printf(" ## ");
    print_rc(rc);
    printf(" out=");
    print_hex(out, outn);
    printf(" unread=");
    if (bb.data && bb.offset <= bb.used && bb.used <= bb.size)
        print_hex(bb.data + bb.offset, bb.used - bb.offset);
    else
        printf(bb.data ? "?" : "-");
    printf(" avail=%zu", bb.size - bb.used);
}

static void
bb_op(int argc, char **argv)
{
    const char *op = argv[0];
    if (strcmp(op, "bb.null") == 0) {
        byte_buffer_null(&bb);
        printf("ok");
    } else if (strcmp(op, "bb.set") == 0 && argc == 5) {
        size_t n = 0;
        unsigned char *m = NULL;
        if (strcmp(argv[1], "null") != 0) {
            m = parse_hex(argv[1], &n);
            if (!m) { printf("bad-op"); return; }
        }
        int rc = byte_buffer_set(&bb, m, parse_u64(argv[2]), parse_u64(argv[3]), parse_u64(argv[4]));
        if (rc == 0) { free(bbmem); bbmem = m; } else free(m);
        bb_view(rc, NULL, 0, true);
    } else if (strcmp(op, "bb.add") == 0 && argc == 2) {
        size_t n = 0;
        unsigned char *d = parse_hex(argv[1], &n);
        if (!d) { printf("bad-op"); return; }
        int rc = byte_buffer_add(&bb, d, n);
        free(d);
        bb_view(rc, NULL, 0, false);
    } else if ((strcmp(op, "bb.consume") == 0 || strcmp(op, "bb.atmost") == 0) && argc == 2) {
        size_t n = parse_u64(argv[1]);
        unsigned char *dst = malloc(n ? n : 1);   /* exact size: overrun is an ASan report */
        memset(dst, 0xee, n ? n : 1);
        if (op[3] == 'c') {
            int rc = byte_buffer_consume(&bb, dst, n);
            bb_view(rc, dst, rc == 0 ? n : 0, false);
        } else {
            ssize_t rc = byte_buffer_consume_at_most(&bb, dst, n);
            bb_view(rc, dst, rc > 0 ? (size_t)rc : 0, false);
        }
        free(dst);
    } else if (strcmp(op, "bb.rewind") == 0) {
        bb_view(byte_buffer_rewind(&bb), NULL, 0, false);
    } else if (strcmp(op, "bb.clear") == 0) {
        byte_buffer_clear(&bb);
        bb_view(0, NULL, 0, true);
    } else if (strcmp(op, "bb.reset") == 0) {
        byte_buffer_reset(&bb);
        bb_view(0, NULL, 0, false);
    } else if (strcmp(op, "bb.repeat") == 0) {
        byte_buffer_repeat(&bb);
        bb_view(0, NULL, 0, false);
    } else {
        printf("bad-op");
    }
}

static void
harness_reset(void)
{
    free(bbmem);
    bbmem = NULL;
    byte_buffer_null(&bb);
}

static void
harness_op(int argc, char **argv)
{
    if (strncmp(argv[0], "bb.", 3) == 0) bb_op(argc, argv);
    else printf("bad-op");
}

int
main(void)
{
    return harness_main();
}
