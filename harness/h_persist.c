/* Correspondence harness for persistent storage (C10, C11). */
#define HARNESS_NOISE
#include "common.h"

#include <ufw/crc/crc16-arc.h>
#include <ufw/persistent-storage.h>

static unsigned char *medium;     /* exact-size heap block */
static size_t msize;
static PersistentStorage store;
static unsigned char *auxbuf;
static char kindname[16];

/* access log of the current operation */
static char logbuf[8192];
static size_t loglen;
static bool in_region;

/* fault script: -1 = behaves, k >= 0 = only k octets are transferred */
static long faults[256];
static size_t nfaults, fidx;

static uint32_t next_base;
static uint32_t base;      /* the medium's window starts here (0 unless ps.relocate) */

static void
log_access(char rw, uint32_t addr, size_t n)
{
    /* reported relative to the window base (ps.relocate): where the medium's window lies in the 32-bit address
     * space is invisible to the model */
    loglen += snprintf(logbuf + loglen, sizeof logbuf - loglen, "%s%c@%" PRIu32 "+%zu", loglen ? "," : "", rw, (uint32_t)(addr - base), n);
    uint64_t lo = (uint32_t)(store.checksum.address - base), hi = (uint64_t)(uint32_t)(store.data.address - base) + store.data.size;
    if ((uint32_t)(addr - base) < lo || (uint64_t)(uint32_t)(addr - base) + n > hi) in_region = false;
}

static long
next_fault(void)
{
    return fidx < nfaults ? faults[fidx++] : -1;
}

static size_t
med_read(void *dst, uint32_t addr, size_t n)
{
    log_access('r', addr, n);
    long f = next_fault();
    uint32_t rel = addr - base;
    size_t full = ((uint64_t)rel + n <= msize) ? n : 0;
    size_t k = (f >= 0 && (size_t)f < full) ? (size_t)f : full;
    if (k) memcpy(dst, medium + rel, k);
    return k;
}

static size_t
med_write(uint32_t addr, const void *src, size_t n)
{
    log_access('w', addr, n);
    long f = next_fault();
    uint32_t rel = addr - base;
    size_t full = ((uint64_t)rel + n <= msize) ? n : 0;
    size_t k = (f >= 0 && (size_t)f < full) ? (size_t)f : full;
    if (k) memcpy(medium + rel, src, k);
    return k;
}

static uint16_t
crc16_adapter(const unsigned char *data, size_t n, uint16_t init)
{
    return ufw_crc16_arc(init, data, n);
}

static uint32_t
sum32(const unsigned char *data, size_t n, uint32_t init)
{
    for (size_t i = 0; i < n; i++) init = init * 31u + data[i];
    return init;
}

static const char *
accname(PersistentAccess a)
{
    switch (a) {
    case PERSISTENT_ACCESS_SUCCESS: return "success";
    case PERSISTENT_ACCESS_INVALID_DATA: return "invalid-data";
    case PERSISTENT_ACCESS_IO_ERROR: return "io-error";
    case PERSISTENT_ACCESS_ADDRESS_OUT_OF_RANGE: return "out-of-range";
    default: return "unknown";
    }
}

static void
begin_op(void)
{
    loglen = 0;
    logbuf[0] = 0;
    in_region = true;
}

static void
view(PersistentAccess a, const unsigned char *data, size_t dn, bool with_data)
{
    for (int v = 0; v < 2; v++) {
        printf("%s", accname(a));
        if (with_data) { printf(" data="); print_hex(data, a == PERSISTENT_ACCESS_SUCCESS ? dn : 0); }
        if (v == 0) printf(" log=%s ## ", loglen ? logbuf : "-");
        else { printf(" medium="); print_hex(medium, msize); printf(" inregion=%s", in_region ? "true" : "false"); }
    }
}

/* a second store on a medium of its own, used between the operations on the store under test */
static unsigned char smed[48];
static size_t smed_read(void *dst, uint32_t addr, size_t n) { if (addr + n > sizeof smed) return 0; memcpy(dst, smed + addr, n); return n; }
static size_t smed_write(uint32_t addr, const void *src, size_t n) { if (addr + n > sizeof smed) return 0; memcpy(smed + addr, src, n); return n; }
static uint32_t sh_sum32(const unsigned char *d, size_t n, uint32_t init) { for (size_t i = 0; i < n; i++) init = init * 33u + d[i]; return init; }

static void
harness_noise(void)
{
    static PersistentStorage sh;
    static unsigned k;
    static unsigned char aux[5];
    unsigned char data[9] = { 9, 8, 7, 6, 5, 4, 3, 2, (unsigned char)k };
    if (k % 7 == 0) {
        persistent_init(&sh, 9, smed_read, smed_write);
        persistent_place(&sh, 3);
        if (k % 2) persistent_sum32(&sh, sh_sum32, 0xffff0001u);
        if (k % 3 == 0) persistent_buffer(&sh, aux, sizeof aux);
    }
    switch (k++ % 4) {
    case 0: (void)persistent_store(&sh, data); break;
    case 1: (void)persistent_validate(&sh); break;
    case 2: (void)persistent_store_part(&sh, data, 2, 3); break;
    default: (void)persistent_fetch(data, &sh); break;
    }
}

static void
harness_reset(void)
{
    free(medium); medium = NULL; msize = 0;
    free(auxbuf); auxbuf = NULL;
    nfaults = fidx = 0;
}

static void
harness_op(int argc, char **argv)
{
    const char *op = argv[0];
    begin_op();
    if (strcmp(op, "ps.relocate") == 0 && argc == 2) {
        /* the next ps.init places its medium window at this address (e.g. 2^32 - size: the store ends with the address space) */
        next_base = (uint32_t)parse_u64(argv[1]);
        printf("ok");
    } else if (strcmp(op, "ps.init") == 0 && argc == 8) {
        harness_reset();
        base = next_base; next_base = 0;
        msize = parse_u64(argv[1]);
        medium = malloc(msize ? msize : 1);
        memset(medium, (int)strtoul(argv[2], NULL, 16), msize ? msize : 1);
        memset(&store, 0xa5, sizeof store);     /* an object fresh from the stack or the heap: the initialiser must set every field it relies on */
        persistent_init(&store, parse_u64(argv[6]), med_read, med_write);
        snprintf(kindname, sizeof kindname, "%s", argv[4]);
        unsigned long init = parse_u64(argv[5]);
        if (strcmp(argv[4], "crc16") == 0) persistent_sum16(&store, crc16_adapter, (uint16_t)init);
        else if (strcmp(argv[4], "sum32") == 0) persistent_sum32(&store, sum32, (uint32_t)init);
        else if (init != 0) {
            /* trivialsum is file-local: re-registering it is not possible; the default instance uses init 0 */
            printf("bad-op"); return;
        }
        persistent_place(&store, base + (uint32_t)parse_u64(argv[3]));
        if (strcmp(argv[7], "none") != 0) {
            size_t bs = parse_u64(argv[7]);
            auxbuf = malloc(bs ? bs : 1);       /* exact size */
            persistent_buffer(&store, auxbuf, bs);
        }
        printf("ok");
    } else if (!medium) {
        printf("bad-op");
    } else if (strcmp(op, "ps.resum") == 0 && argc == 3) {
        /* the checksum of a live instance is configured again (a format migration): no persistent_init() in between */
        unsigned long init = parse_u64(argv[2]);
        if (strcmp(argv[1], "crc16") == 0) persistent_sum16(&store, crc16_adapter, (uint16_t)init);
        else if (strcmp(argv[1], "sum32") == 0) persistent_sum32(&store, sum32, (uint32_t)init);
        else { printf("bad-op"); return; }
        snprintf(kindname, sizeof kindname, "%s", argv[1]);
        printf("ok");
    } else if (strcmp(op, "ps.faults") == 0 && argc == 2) {
        nfaults = fidx = 0;
        if (strcmp(argv[1], "-") != 0) {
            char *dup = strdup(argv[1]), *save = NULL;
            for (char *t = strtok_r(dup, ",", &save); t && nfaults < 256; t = strtok_r(NULL, ",", &save))
                faults[nfaults++] = t[0] == 'n' ? -1 : strtol(t + 1, NULL, 10);
            free(dup);
        }
        printf("ok");
    } else if (strcmp(op, "ps.poke") == 0 && argc == 3) {
        size_t n; unsigned char *d = parse_hex(argv[2], &n);
        size_t a = parse_u64(argv[1]);
        if (!d || a + n > msize) { printf("bad-op"); return; }
        memcpy(medium + a, d, n);
        free(d);
        printf("ok");
    } else if (strcmp(op, "ps.store") == 0 && argc == 2) {
        size_t n; unsigned char *d = parse_hex(argv[1], &n);
        if (!d) { printf("bad-op"); return; }
        /* persistent_store reads data.size octets from src: hand it exactly what the op says */
        PersistentAccess a = (n == store.data.size) ? persistent_store(&store, d) : persistent_store_part(&store, d, 0, n);
        view(a, NULL, 0, false);
        free(d);
    } else if (strcmp(op, "ps.storepart") == 0 && argc == 3) {
        size_t n; unsigned char *d = parse_hex(argv[1], &n);
        if (!d) { printf("bad-op"); return; }
        view(persistent_store_part(&store, d, parse_u64(argv[2]), n), NULL, 0, false);
        free(d);
    } else if (strcmp(op, "ps.storeraw") == 0 && argc == 3) {
        unsigned char dummy[1] = { 0 };
        view(persistent_store_part(&store, dummy, parse_u64(argv[1]), parse_u64(argv[2])), NULL, 0, false);
    } else if (strcmp(op, "ps.fetchraw") == 0 && argc == 3) {
        unsigned char dummy[1] = { 0 };
        view(persistent_fetch_part(dummy, &store, parse_u64(argv[1]), parse_u64(argv[2])), NULL, 0, false);
    } else if (strcmp(op, "ps.validate") == 0) {
        view(persistent_validate(&store), NULL, 0, false);
    } else if (strcmp(op, "ps.fetch") == 0) {
        size_t n = store.data.size;
        unsigned char *dst = malloc(n ? n : 1);
        PersistentAccess a = persistent_fetch(dst, &store);
        view(a, dst, n, true);
        free(dst);
    } else if (strcmp(op, "ps.fetchpart") == 0 && argc == 3) {
        size_t n = parse_u64(argv[2]);
        unsigned char *dst = malloc(n ? n : 1);
        PersistentAccess a = persistent_fetch_part(dst, &store, parse_u64(argv[1]), n);
        view(a, dst, n, true);
        free(dst);
    } else if (strcmp(op, "ps.reset") == 0 && argc == 2) {
        view(persistent_reset(&store, (unsigned char)strtoul(argv[1], NULL, 16)), NULL, 0, false);
    } else {
        printf("bad-op");
    }
}

int
main(void)
{
    return harness_main();
}
