/* Correspondence harness for the stream group: SLIP (C12), endpoints (C17), length prefix (C13). */
#include "common.h"

#include <ufw/byte-buffer.h>
#include <ufw/endpoints.h>
#include <ufw/rfc1055.h>

/* ---- scripted octet source / octet sink ------------------------------ */

struct osrc {
    const unsigned char *p;
    size_t n, pos;        /* octets delivered so far */
    long err_at;          /* inject `err` before octet number err_at (once); -1: never */
    int err;
    bool err_done;
};

static int
osrc_get(void *drv, void *data)
{
    struct osrc *s = drv;
    if (!s->err_done && s->err_at >= 0 && (size_t)s->err_at == s->pos) {
        s->err_done = true;
        return -s->err;
    }
    if (s->pos >= s->n) return -ENODATA;
    *(unsigned char *)data = s->p[s->pos++];
    return 1;
}

struct osnk {
    unsigned char *buf;   /* exact-size heap block of `room` octets */
    size_t room, n;
    int full;             /* errno answered when full */
};

static int
osnk_put(void *drv, unsigned char c)
{
    struct osnk *s = drv;
    if (s->n >= s->room) return -s->full;
    s->buf[s->n++] = c;
    return 1;
}

static bool
parse_err_at(const char *k, const char *e, struct osrc *s)
{
    s->err_at = -1;
    s->err = 0;
    s->err_done = false;
    if (strcmp(k, "-") == 0) return true;
    s->err_at = strtol(k, NULL, 10);
    s->err = errbyname(e);
    return s->err != 0;
}

static const char *
slip_state(const RFC1055Context *c)
{
    switch (c->state) {
    case RFC1055_SEARCH_FOR_START: return "start";
    case RFC1055_SEARCH_FOR_END: return "end";
    default: return "normal";
    }
}

static bool
slip_ctx(RFC1055Context *c, const char *sof, const char *st)
{
    memset(c, 0xa5, sizeof *c);                 /* the initialiser must set every field it relies on */
    rfc1055_context_init(c, sof[0] == '1' ? RFC1055_WITH_SOF : RFC1055_DEFAULT);
    if (!st) return true;
    if (strcmp(st, "start") == 0) c->state = RFC1055_SEARCH_FOR_START;
    else if (strcmp(st, "end") == 0) c->state = RFC1055_SEARCH_FOR_END;
    else if (strcmp(st, "normal") == 0) c->state = RFC1055_NORMAL;
    else return false;
    return true;
}

static void
print_rc_strict(long long rc)
{
    if (rc >= 0) printf("ok:%lld", rc); else printf("err:%s", errname((int)-rc));
}

static void
slip_op(int argc, char **argv)
{
    const char *op = argv[0];
    if (strcmp(op, "slip.enc") == 0 && argc == 6) {
        size_t n; unsigned char *p = parse_hex(argv[2], &n);
        struct osrc sd = { p, n, 0, -1, 0, false };
        if (!p || !parse_err_at(argv[4], argv[5], &sd)) { printf("bad-op"); return; }
        size_t room = parse_u64(argv[3]);
        struct osnk kd = { malloc(room ? room : 1), room, 0, ENOMEM };
        Source src = OCTET_SOURCE_INIT(osrc_get, &sd);
        Sink snk = OCTET_SINK_INIT(osnk_put, &kd);
        RFC1055Context ctx;
        slip_ctx(&ctx, argv[1], NULL);
        int rc = rfc1055_encode(&ctx, &src, &snk);
        for (int view = 0; view < 2; view++) {
            if (view) printf(" ## ");
            print_rc_strict(rc);
            printf(" out=");
            print_hex(kd.buf, kd.n);
        }
        free(kd.buf); free(p);
    } else if (strcmp(op, "slip.dec") == 0 && argc == 7) {
        size_t n; unsigned char *p = parse_hex(argv[3], &n);
        struct osrc sd = { p, n, 0, -1, 0, false };
        RFC1055Context ctx;
        if (!p || !parse_err_at(argv[5], argv[6], &sd) || !slip_ctx(&ctx, argv[1], argv[2])) { printf("bad-op"); return; }
        size_t room = parse_u64(argv[4]);
        struct osnk kd = { malloc(room ? room : 1), room, 0, ENOMEM };
        Source src = OCTET_SOURCE_INIT(osrc_get, &sd);
        Sink snk = OCTET_SINK_INIT(osnk_put, &kd);
        int rc = rfc1055_decode(&ctx, &src, &snk);
        print_rc_strict(rc);
        printf(" st=%s consumed=%zu out=", slip_state(&ctx), sd.pos);
        print_hex(kd.buf, kd.n);
        free(kd.buf); free(p);
    } else if (strcmp(op, "slip.stream") == 0 && argc == 4) {
        size_t n; unsigned char *p = parse_hex(argv[3], &n);
        struct osrc sd = { p, n, 0, -1, 0, false };
        RFC1055Context ctx;
        if (!p || !slip_ctx(&ctx, argv[1], argv[2])) { printf("bad-op"); return; }
        struct osnk kd = { malloc(n ? n : 1), n, 0, ENOMEM };   /* never emits more than it consumes */
        Source src = OCTET_SOURCE_INIT(osrc_get, &sd);
        Sink snk = OCTET_SINK_INIT(osnk_put, &kd);
        char *full = NULL, *brief = NULL;
        size_t fl = 0, bl = 0;
        FILE *ff = open_memstream(&full, &fl), *fb = open_memstream(&brief, &bl);
        bool first = true;
        for (size_t guard = 0; guard <= 2 * n + 2; guard++) {
            kd.n = 0;
            int rc = rfc1055_decode(&ctx, &src, &snk);
            if (rc == -ENODATA) break;
            if (rc == 1 || rc == -EILSEQ) {
                fprintf(ff, "%s%s:", first ? "" : " ", rc == 1 ? "F" : "I");
                fprintf(fb, "%s%s", first ? "" : " ", rc == 1 ? "F:" : "I");
                if (kd.n == 0) { fprintf(ff, "-"); if (rc == 1) fprintf(fb, "-"); }
                for (size_t i = 0; i < kd.n; i++) { fprintf(ff, "%02x", kd.buf[i]); if (rc == 1) fprintf(fb, "%02x", kd.buf[i]); }
                first = false;
            } else {
                fprintf(ff, "%sunexpected:%d", first ? "" : " ", rc);
                fprintf(fb, "%sunexpected:%d", first ? "" : " ", rc);
                break;
            }
        }
        fprintf(ff, " | st=%s pending=", slip_state(&ctx));
        if (kd.n == 0) fprintf(ff, "-");
        for (size_t i = 0; i < kd.n; i++) fprintf(ff, "%02x", kd.buf[i]);
        fclose(ff); fclose(fb);
        printf("%s ## %s", full, brief);
        free(full); free(brief); free(kd.buf); free(p);
    } else if (strcmp(op, "slip.rt") == 0 && argc == 4) {
        size_t n, tn; unsigned char *p = parse_hex(argv[2], &n), *tr = parse_hex(argv[3], &tn);
        if (!p || !tr) { printf("bad-op"); return; }
        struct osrc sd = { p, n, 0, -1, 0, false };
        size_t room = 2 * n + 2;
        struct osnk kd = { malloc(room + tn), room, 0, ENOMEM };
        Source src = OCTET_SOURCE_INIT(osrc_get, &sd);
        Sink snk = OCTET_SINK_INIT(osnk_put, &kd);
        RFC1055Context ctx;
        slip_ctx(&ctx, argv[1], NULL);
        rfc1055_encode(&ctx, &src, &snk);
        size_t en = kd.n;
        memcpy(kd.buf + en, tr, tn);
        struct osrc sd2 = { kd.buf, en + tn, 0, -1, 0, false };
        struct osnk kd2 = { malloc(n + tn ? n + tn : 1), n + tn, 0, ENOMEM };
        Source src2 = OCTET_SOURCE_INIT(osrc_get, &sd2);
        Sink snk2 = OCTET_SINK_INIT(osnk_put, &kd2);
        slip_ctx(&ctx, argv[1], NULL);
        int rc = rfc1055_decode(&ctx, &src2, &snk2);
        for (int view = 0; view < 2; view++) {
            if (view) printf(" ## ");
            printf("enc="); print_hex(kd.buf, en); putchar(' ');
            print_rc_strict(rc);
            printf(" st=%s consumed=%zu out=", slip_state(&ctx), sd2.pos);
            print_hex(kd2.buf, kd2.n);
        }
        free(kd.buf); free(kd2.buf); free(p); free(tr);
    } else if (strcmp(op, "slip.frames") == 0 && argc == 5) {
        size_t gn; unsigned char *g = parse_hex(argv[3], &gn);
        RFC1055Context ctx;
        if (!g || !slip_ctx(&ctx, argv[1], argv[2])) { printf("bad-op"); return; }
        /* build the stream: garbage ++ encodings of the payloads (by the library's encoder) */
        size_t cap = gn + 2 * strlen(argv[4]) + 64, len = gn, np = 0;
        unsigned char *stream = malloc(cap);
        memcpy(stream, g, gn);
        char *list = strdup(argv[4]);
        for (char *t = strtok(list, ","); t; t = strtok(NULL, ",")) {
            size_t n; unsigned char *p = parse_hex(t, &n);
            struct osrc sd = { p, n, 0, -1, 0, false };
            struct osnk kd = { stream + len, cap - len, 0, ENOMEM };
            Source src = OCTET_SOURCE_INIT(osrc_get, &sd);
            Sink snk = OCTET_SINK_INIT(osnk_put, &kd);
            RFC1055Context ectx;
            slip_ctx(&ectx, argv[1], NULL);
            rfc1055_encode(&ectx, &src, &snk);
            len += kd.n;
            np++;
            free(p);
        }
        free(list);
        size_t expect = argv[1][0] == '1' ? (np ? np - 1 : 0) : np;
        struct osrc sd = { stream, len, 0, -1, 0, false };
        struct osnk kd = { malloc(len ? len : 1), len, 0, ENOMEM };
        Source src = OCTET_SOURCE_INIT(osrc_get, &sd);
        Sink snk = OCTET_SINK_INIT(osnk_put, &kd);
        char **evs = calloc(2 * len + 4, sizeof *evs);
        size_t nev = 0;
        for (size_t guard = 0; guard <= 2 * len + 2; guard++) {
            kd.n = 0;
            int rc = rfc1055_decode(&ctx, &src, &snk);
            if (rc == -ENODATA) break;
            char *e = malloc(2 * kd.n + 8), *w = e;
            w += sprintf(w, "%s:", rc == 1 ? "F" : rc == -EILSEQ ? "I" : "X");
            if (kd.n == 0) w += sprintf(w, "-");
            for (size_t i = 0; i < kd.n; i++) w += sprintf(w, "%02x", kd.buf[i]);
            evs[nev++] = e;
        }
        for (int view = 0; view < 2; view++) {
            if (view) printf(" ## ");
            printf("tail=");
            size_t from = nev >= expect ? nev - expect : 0;
            for (size_t i = from; i < nev; i++) printf("%s%s", i > from ? " " : "", evs[i]);
            printf(" st=%s", slip_state(&ctx));
        }
        for (size_t i = 0; i < nev; i++) free(evs[i]);
        free(evs); free(kd.buf); free(stream); free(g);
    } else {
        printf("bad-op");
    }
}

/* ---- scripted drivers for C17 ----------------------------------------- */

enum { ST_XFER, ST_ZERO, ST_EINTR, ST_EAGAIN, ST_HARD };
struct step { int kind; size_t k; int err; };
struct script { struct step s[64]; size_t n, idx, calls; };

static bool
parse_script(const char *txt, struct script *sc)
{
    memset(sc, 0, sizeof *sc);
    if (strcmp(txt, "-") == 0) return true;
    char *dup = strdup(txt), *save = NULL;
    for (char *t = strtok_r(dup, ",", &save); t; t = strtok_r(NULL, ",", &save)) {
        struct step *st = &sc->s[sc->n++];
        if (sc->n > 64) { free(dup); return false; }
        if (strcmp(t, "z") == 0) st->kind = ST_ZERO;
        else if (strcmp(t, "i") == 0) st->kind = ST_EINTR;
        else if (strcmp(t, "a") == 0) st->kind = ST_EAGAIN;
        else if (t[0] == 'k') { st->kind = ST_XFER; st->k = strtoull(t + 1, NULL, 10); }
        else if (t[0] == 'h' && t[1] == ':') { st->kind = ST_HARD; st->err = errbyname(t + 2); if (!st->err) { free(dup); return false; } }
        else { free(dup); return false; }
    }
    free(dup);
    return true;
}

struct ssrc { struct script sc; const unsigned char *stream; size_t len, pos; ByteBuffer bb; bool buffered; };
struct ssnk { struct script sc; unsigned char *got; size_t cap, n; ByteBuffer bb; bool buffered; };

/* next step of a script: returns <0 error / 0 zero / limit (SIZE_MAX when the script is used up) */
static long long
script_next(struct script *sc, size_t *limit)
{
    sc->calls++;
    *limit = (size_t)-1;
    if (sc->idx >= sc->n) return 1;
    struct step *st = &sc->s[sc->idx++];
    switch (st->kind) {
    case ST_ZERO: return 0;
    case ST_EINTR: return -EINTR;
    case ST_EAGAIN: return -EAGAIN;
    case ST_HARD: return -st->err;
    default: *limit = st->k; return 1;
    }
}

static ssize_t
ssrc_chunk(void *drv, void *buf, size_t n)
{
    struct ssrc *s = drv;
    size_t limit;
    long long r = script_next(&s->sc, &limit);
    if (r <= 0) return (ssize_t)r;
    if (s->pos >= s->len) return -ENODATA;
    size_t m = n < limit ? n : limit;
    if (m > s->len - s->pos) m = s->len - s->pos;
    memcpy(buf, s->stream + s->pos, m);
    s->pos += m;
    return (ssize_t)m;
}

static int
ssrc_octet(void *drv, void *buf)
{
    return (int)ssrc_chunk(drv, buf, 1);
}

static ssize_t
ssnk_chunk(void *drv, const void *buf, size_t n)
{
    struct ssnk *s = drv;
    size_t limit;
    long long r = script_next(&s->sc, &limit);
    if (r <= 0) return (ssize_t)r;
    size_t m = n < limit ? n : limit;
    if (s->n + m > s->cap) { s->cap = 2 * (s->n + m) + 16; s->got = realloc(s->got, s->cap); }
    memcpy(s->got + s->n, buf, m);
    s->n += m;
    return (ssize_t)m;
}

static int
ssnk_octet(void *drv, unsigned char c)
{
    return (int)ssnk_chunk(drv, &c, 1);
}

/* kind "b": the library's own buffer-backed endpoints (endpoints/buffer.c) instead of a scripted driver - the
 * source reads the stream out of a ByteBuffer, the sink "b:<cap>" fills a ByteBuffer of that capacity.  The
 * script of the operation line then describes the same behaviour for the model (computed by the generator). */
static void
mk_source(Source *src, const char *kind, struct ssrc *d)
{
    if (kind[0] == 'b') {
        d->buffered = true;
        d->bb = (ByteBuffer){ .data = (unsigned char *)d->stream, .size = d->len, .used = d->len, .offset = 0 };
        source_from_buffer(src, &d->bb);
    } else if (kind[0] == 'o') octet_source_init(src, ssrc_octet, d);
    else chunk_source_init(src, ssrc_chunk, d);
}

static void
ep_sync(struct ssrc *sd, struct ssnk *kd)
{
    if (sd && sd->buffered) sd->pos = sd->bb.offset;
    if (kd && kd->buffered) { kd->got = kd->bb.data; kd->n = kd->bb.used; }
}

static void
mk_sink(Sink *snk, const char *kind, struct ssnk *d)
{
    if (kind[0] == 'b' && kind[1] == ':') {
        size_t cap = strtoull(kind + 2, NULL, 10);
        d->buffered = true;
        d->bb = (ByteBuffer){ .data = malloc(cap ? cap : 1), .size = cap, .used = 0, .offset = 0 };
        d->got = d->bb.data;
        sink_to_buffer(snk, &d->bb);
    } else if (kind[0] == 'o') octet_sink_init(snk, ssnk_octet, d);
    else chunk_sink_init(snk, ssnk_chunk, d);
}

static bool
is_prefix(const unsigned char *a, size_t an, const unsigned char *b, size_t bn)
{
    return an <= bn && (an == 0 || memcmp(a, b, an) == 0);
}

#include <sys/mman.h>
struct hdrv { size_t first, calls, total; int misplaced; unsigned char *base; };

static ssize_t
hdrv_step(struct hdrv *s, const void *buf, size_t n)
{
    s->calls++;
    if ((const unsigned char *)buf != s->base + s->total) s->misplaced = 1;
    size_t m = (s->calls == 1 && s->first < n) ? s->first : n;
    s->total += m;
    return (ssize_t)m;
}

static ssize_t hsrc_chunk(void *drv, void *buf, size_t n) { return hdrv_step(drv, buf, n); }
static ssize_t hsnk_chunk(void *drv, const void *buf, size_t n) { return hdrv_step(drv, buf, n); }

static void
ep_op(int argc, char **argv)
{
    const char *op = argv[0];
    if ((strcmp(op, "ep.get") == 0 || strcmp(op, "ep.getmost") == 0) && argc == 5) {
        struct ssrc d = { .pos = 0 };
        size_t len; unsigned char *stream = parse_hex(argv[2], &len);
        if (!stream || !parse_script(argv[3], &d.sc)) { printf("bad-op"); return; }
        d.stream = stream; d.len = len;
        size_t n = parse_u64(argv[4]);
        unsigned char *buf = malloc(n ? n : 1);          /* exact size */
        memset(buf, 0xee, n ? n : 1);
        Source src; mk_source(&src, argv[1], &d);
        ssize_t rc = op[6] == 'm' ? source_get_chunk_atmost(&src, buf, n) : source_get_chunk(&src, buf, n);
        ep_sync(&d, NULL);
        print_rc_strict(rc);
        printf(" data="); print_hex(buf, rc > 0 ? (size_t)rc : 0);
        printf(" consumed=%zu ## ", d.pos);
        print_rc_strict(rc);
        printf(" data="); print_hex(buf, rc > 0 ? (size_t)rc : 0);
        free(buf); free(stream);
    } else if ((strcmp(op, "ep.put") == 0 || strcmp(op, "ep.putmost") == 0) && argc == 4) {
        struct ssnk d = { .n = 0 };
        size_t n; unsigned char *data = parse_hex(argv[3], &n);      /* exact size */
        if (!data || !parse_script(argv[2], &d.sc)) { printf("bad-op"); return; }
        Sink snk; mk_sink(&snk, argv[1], &d);
        ssize_t rc = op[6] == 'm' ? sink_put_chunk_atmost(&snk, data, n) : sink_put_chunk(&snk, data, n);
        ep_sync(NULL, &d);
        for (int view = 0; view < 2; view++) {
            print_rc_strict(rc);
            if (rc >= 0) { printf(" got="); print_hex(view ? data : d.got, view ? (size_t)rc : d.n); }
            else printf(" prefix=%s", is_prefix(d.got, d.n, data, n) ? "true" : "false");
            if (!view) { printf(" gotraw="); print_hex(d.got, d.n); printf(" ## "); }
        }
        /* on success the sink must hold exactly the first rc octets */
        free(d.got); free(data);
    } else if (strcmp(op, "ep.big") == 0 && argc == 3) {
        unsigned char small[2] = { 1, 2 };
        size_t n = (size_t)1 << 63;
        if (strcmp(argv[1], "get") == 0) {
            struct ssrc d = { .stream = small, .len = 2 };
            Source src; mk_source(&src, argv[2], &d);
            unsigned char buf[2];
            ssize_t rc = source_get_chunk(&src, buf, n);
            print_rc_strict(rc); printf(" calls=%zu", d.sc.calls);
        } else {
            struct ssnk d = { .n = 0 };
            Sink snk; mk_sink(&snk, argv[2], &d);
            ssize_t rc = sink_put_chunk(&snk, small, n);
            print_rc_strict(rc); printf(" calls=%zu", d.sc.calls);
            free(d.got);
        }
    } else if (strcmp(op, "ep.huge") == 0 && argc == 4) {
        /* transfer counts beyond 32 bits: a chunk driver that never touches the memory it is handed reports
         * `first` octets on its first call and everything that is left on the second; the caller's buffer is an
         * address range only (PROT_NONE).  What is checked: the result is N, the driver moved N in total and
         * every call was handed buffer + octets moved so far. */
        size_t first = parse_u64(argv[2]), n = parse_u64(argv[3]);
        unsigned char *base = mmap(NULL, n, PROT_NONE, MAP_PRIVATE | MAP_ANONYMOUS | MAP_NORESERVE, -1, 0);
        bool mapped = base != MAP_FAILED;
        if (!mapped) base = (unsigned char *)(uintptr_t)0x100000000000ull;
        struct hdrv d = { .first = first, .base = base };
        ssize_t rc;
        if (strcmp(argv[1], "get") == 0) {
            Source src; chunk_source_init(&src, hsrc_chunk, &d);
            rc = source_get_chunk(&src, base, n);
        } else {
            Sink snk; chunk_sink_init(&snk, hsnk_chunk, &d);
            rc = sink_put_chunk(&snk, base, n);
        }
        print_rc_strict(rc);
        printf(" total=%zu calls=%zu placed=%s", d.total, d.calls, d.misplaced ? "false" : "true");
        if (mapped) munmap(base, n);
    } else if (strcmp(op, "sts") == 0 && argc == 11) {
        struct ssrc sd = { .pos = 0 };
        struct ssnk kd = { .n = 0 };
        size_t len; unsigned char *stream = parse_hex(argv[3], &len);
        if (!stream || !parse_script(argv[4], &sd.sc) || !parse_script(argv[6], &kd.sc)) { printf("bad-op"); return; }
        sd.stream = stream; sd.len = len;
        Source src; mk_source(&src, argv[2], &sd);
        Sink snk; mk_sink(&snk, argv[5], &kd);
        size_t n = parse_u64(argv[7]), asize = parse_u64(argv[8]), aused = parse_u64(argv[9]), aoff = parse_u64(argv[10]);
        unsigned char *amem = malloc(asize ? asize : 1);
        memset(amem, 0xee, asize ? asize : 1);
        ByteBuffer aux = { .data = amem, .size = asize, .used = aused, .offset = aoff };
        const char *fn = argv[1];
        ssize_t rc;
        bool rewound = false;
        if (strcmp(fn, "cbc") == 0) rc = sts_cbc(&src, &snk);
        else if (strcmp(fn, "n_cbc") == 0) rc = sts_n_cbc(&src, &snk, n);
        else if (strcmp(fn, "drain_cbc") == 0) rc = sts_drain_cbc(&src, &snk);
        else if (strcmp(fn, "atmost") == 0) rc = sts_atmost(&src, &snk, n);
        else if (strcmp(fn, "some") == 0) rc = sts_some(&src, &snk);
        else if (strcmp(fn, "n") == 0) rc = sts_n(&src, &snk, n);
        else if (strcmp(fn, "drain") == 0) rc = sts_drain(&src, &snk);
        else if (strcmp(fn, "some_aux") == 0) rc = sts_some_aux(&src, &snk, &aux);
        else if (strcmp(fn, "atmost_aux") == 0) rc = sts_atmost_aux(&src, &snk, &aux, n);
        else if (strcmp(fn, "n_aux") == 0) { rc = sts_n_aux(&src, &snk, &aux, n); rewound = true; }
        else if (strcmp(fn, "drain_aux") == 0) { rc = sts_drain_aux(&src, &snk, &aux); rewound = true; }
        else { printf("bad-op"); return; }
        ep_sync(&sd, &kd);
        bool clean = true;
        for (size_t i = 0; i < asize; i++) {
            bool inside = (aoff <= i && i < aused) || (rewound && aused >= aoff && i < aused - aoff);
            if (!inside && amem[i] != 0xee) clean = false;
        }
        print_rc_strict(rc);
        printf(" got="); print_hex(kd.got, kd.n);
        printf(" consumed=%zu ## ", sd.pos);
        print_rc_strict(rc);
        printf(" prefix=%s auxclean=%s", is_prefix(kd.got, kd.n, stream, len) ? "true" : "false", clean ? "true" : "false");
        free(amem); free(kd.got); free(stream);
    } else {
        printf("bad-op");
    }
}

/* ---- length prefix (C13) ------------------------------------------------- */

#include <ufw/length-prefix.h>

static int
lenp_kind(const char *k)
{
    static const char *names[] = { "var", "octet", "le16", "le32", "be16", "be32" };
    for (int i = 0; i < 6; i++) if (strcmp(names[i], k) == 0) return i;
    return -1;
}

/* "hex:used:off" -> ByteBuffer over an exact-size heap block */
static bool
parse_buf(const char *txt, ByteBuffer *b)
{
    char *dup = strdup(txt), *save = NULL;
    char *mem = strtok_r(dup, ":", &save), *used = strtok_r(NULL, ":", &save), *off = strtok_r(NULL, ":", &save);
    if (!mem || !used || !off) { free(dup); return false; }
    size_t n; unsigned char *m = parse_hex(mem, &n);
    if (!m) { free(dup); return false; }
    b->data = m; b->size = n; b->used = strtoull(used, NULL, 10); b->offset = strtoull(off, NULL, 10);
    free(dup);
    return true;
}

static void
print_buf(const ByteBuffer *b)
{
    printf("used=%zu off=%zu mem=", b->used, b->offset);
    print_hex(b->data, b->used <= b->size ? b->used : b->size);
}

static void
print_encoded(int rc, const LengthPrefixBuffer *lpb)
{
    if (rc < 0) { print_rc_strict(rc); return; }
    printf("ok:0 prefix=");
    print_hex(lpb->prefix.data + lpb->prefix.offset, lpb->prefix.used - lpb->prefix.offset);
    printf(" plen=%zu", lpb->payload.size);
}

static void
lenp_op(int argc, char **argv)
{
    const char *op = argv[0];
    int k = argc > 1 ? lenp_kind(argv[1]) : -1;
    if (k < 0) { printf("bad-op"); return; }
    if (strcmp(op, "lenp.memenc") == 0 && argc == 3) {
        unsigned char dummy[1] = { 0 };
        LengthPrefixBuffer lpb;
        memset(&lpb, 0, sizeof lpb);
        int rc = flenp_memory_encode(k, &lpb, dummy, parse_u64(argv[2]));
        print_encoded(rc, &lpb);
        printf(" ## ");
        print_encoded(rc, &lpb);
    } else if (strcmp(op, "lenp.bufenc") == 0 && argc == 3) {
        ByteBuffer b; LengthPrefixBuffer lpb;
        if (!parse_buf(argv[2], &b)) { printf("bad-op"); return; }
        memset(&lpb, 0, sizeof lpb);
        int rc = flenp_buffer_encode(k, &lpb, &b);
        print_encoded(rc, &lpb);
        free(b.data);
    } else if (strcmp(op, "lenp.bufenc_n") == 0 && argc == 4) {
        ByteBuffer b; LengthPrefixBuffer lpb;
        if (!parse_buf(argv[2], &b)) { printf("bad-op"); return; }
        memset(&lpb, 0, sizeof lpb);
        int rc = flenp_buffer_encode_n(k, &lpb, &b, parse_u64(argv[3]));
        print_encoded(rc, &lpb);
        putchar(' ');
        print_buf(&b);
        free(b.data);
    } else if ((strcmp(op, "lenp.chunksuse") == 0 && argc == 4) || (strcmp(op, "lenp.chunks2sink") == 0 && argc == 6)) {
        ByteBuffer cb[16]; size_t nc = 0;
        char *dup = strdup(argv[2]), *save = NULL;
        for (char *t = strtok_r(dup, "|", &save); t && nc < 16; t = strtok_r(NULL, "|", &save))
            if (!parse_buf(t, &cb[nc++])) { printf("bad-op"); return; }
        free(dup);
        ByteChunks chunks = { .chunks = nc, .active = parse_u64(argv[3]), .chunk = cb };
        if (op[11] == 'u') {
            LengthPrefixChunks lpc;
            memset(&lpc, 0, sizeof lpc);
            lpc.payload = chunks;
            int rc = flenp_chunks_use(k, &lpc);
            if (rc < 0) print_rc_strict(rc);
            else { printf("ok:0 prefix="); print_hex(lpc.prefix.data + lpc.prefix.offset, lpc.prefix.used - lpc.prefix.offset); }
        } else {
            /* the same list once more with all chunks laid out back to back in ONE block (a frame put together in one
             * piece of memory and merely described by a chunk list): what goes out must not depend on where the chunks lie */
            size_t total = 0;
            for (size_t i = 0; i < nc; i++) total += cb[i].size;
            unsigned char *one = malloc(total ? total : 1);
            ByteBuffer cb2[16];
            size_t at = 0;
            for (size_t i = 0; i < nc; i++) {
                cb2[i] = cb[i];
                cb2[i].data = one + at;
                if (cb[i].size) memcpy(cb2[i].data, cb[i].data, cb[i].size);
                at += cb[i].size;
            }
            ByteChunks chunks2 = { .chunks = nc, .active = chunks.active, .chunk = cb2 };
            struct ssnk kd = { .n = 0 };
            if (!parse_script(argv[5], &kd.sc)) { printf("bad-op"); return; }
            Sink snk; mk_sink(&snk, argv[4], &kd);
            ssize_t rc = flenp_chunks_to_sink(k, &snk, &chunks);
            struct ssnk kd2 = { .n = 0 };
            parse_script(argv[5], &kd2.sc);
            Sink snk2; mk_sink(&snk2, argv[4], &kd2);
            ssize_t rc2 = flenp_chunks_to_sink(k, &snk2, &chunks2);
            bool same = rc == rc2 && kd.n == kd2.n && (kd.n == 0 || memcmp(kd.got, kd2.got, kd.n) == 0);
            for (int view = 0; view < 2; view++) {
                if (view) printf(" ## ");
                print_rc_strict(rc); printf(" got="); print_hex(kd.got, kd.n);
                if (!same) { printf(" back-to-back:"); print_rc_strict(rc2); printf(" got="); print_hex(kd2.got, kd2.n); }
            }
            free(kd.got); free(kd2.got); free(one);
        }
        for (size_t i = 0; i < nc; i++) free(cb[i].data);
    } else if (strcmp(op, "lenp.mem2sink") == 0 && argc == 5) {
        size_t n; unsigned char *p = parse_hex(argv[2], &n);
        struct ssnk kd = { .n = 0 };
        if (!p || !parse_script(argv[4], &kd.sc)) { printf("bad-op"); return; }
        Sink snk; mk_sink(&snk, argv[3], &kd);
        ssize_t rc = flenp_memory_to_sink(k, &snk, p, n);
        for (int view = 0; view < 2; view++) {
            if (view) printf(" ## ");
            print_rc_strict(rc); printf(" got="); print_hex(kd.got, kd.n);
        }
        free(kd.got); free(p);
    } else if (strcmp(op, "lenp.big2sink") == 0 && argc == 4) {
        unsigned char dummy[1] = { 0 };
        struct ssnk kd = { .n = 0 };
        Sink snk; mk_sink(&snk, argv[3], &kd);
        ssize_t rc = flenp_memory_to_sink(k, &snk, dummy, parse_u64(argv[2]));
        print_rc_strict(rc); printf(" got="); print_hex(kd.got, kd.n);
        free(kd.got);
    } else if ((strcmp(op, "lenp.buf2sink") == 0 && argc == 5) || (strcmp(op, "lenp.buf2sink_n") == 0 && argc == 6)) {
        bool withn = argc == 6;
        ByteBuffer b;
        struct ssnk kd = { .n = 0 };
        if (!parse_buf(argv[2], &b) || !parse_script(argv[withn ? 5 : 4], &kd.sc)) { printf("bad-op"); return; }
        Sink snk; mk_sink(&snk, argv[withn ? 4 : 3], &kd);
        ssize_t rc = withn ? flenp_buffer_to_sink_n(k, &snk, &b, parse_u64(argv[3])) : flenp_buffer_to_sink(k, &snk, &b);
        for (int view = 0; view < 2; view++) {
            if (view) printf(" ## ");
            print_rc_strict(rc); printf(" got="); print_hex(kd.got, kd.n);
            if (withn) printf(" off=%zu", b.offset);
        }
        free(kd.got); free(b.data);
    } else if ((strcmp(op, "lenp.mem_from") == 0 && argc == 6) || (strcmp(op, "lenp.buf_from") == 0 && argc == 6)) {
        struct ssrc sd = { .pos = 0 };
        size_t len; unsigned char *stream = parse_hex(argv[2], &len);
        if (!stream || !parse_script(argv[4], &sd.sc)) { printf("bad-op"); return; }
        sd.stream = stream; sd.len = len;
        Source src; mk_source(&src, argv[3], &sd);
        if (op[5] == 'm') {
            size_t size = parse_u64(argv[5]);
            unsigned char *mem = malloc(size ? size : 1);       /* exact size */
            ssize_t rc = flenp_memory_from_source(k, &src, mem, size);
            print_rc_strict(rc); printf(" data="); print_hex(mem, rc > 0 ? (size_t)rc : 0);
            printf(" consumed=%zu", sd.pos);
            free(mem);
        } else {
            ByteBuffer b;
            if (!parse_buf(argv[5], &b)) { printf("bad-op"); return; }
            ssize_t rc = flenp_buffer_from_source(k, &src, &b);
            print_rc_strict(rc); putchar(' '); print_buf(&b);
            printf(" consumed=%zu", sd.pos);
            free(b.data);
        }
        free(stream);
    } else if (strcmp(op, "lenp.s2s") == 0 && argc == 7) {
        struct ssrc sd = { .pos = 0 };
        struct ssnk kd = { .n = 0 };
        size_t len; unsigned char *stream = parse_hex(argv[2], &len);
        if (!stream || !parse_script(argv[4], &sd.sc) || !parse_script(argv[6], &kd.sc)) { printf("bad-op"); return; }
        sd.stream = stream; sd.len = len;
        Source src; mk_source(&src, argv[3], &sd);
        Sink snk; mk_sink(&snk, argv[5], &kd);
        ssize_t rc = flenp_decode_source_to_sink(k, &src, &snk);
        print_rc_strict(rc); printf(" got="); print_hex(kd.got, kd.n); printf(" consumed=%zu", sd.pos);
        free(kd.got); free(stream);
    } else if (strcmp(op, "lenp.frames") == 0 && argc == 6) {
        /* encode each payload with the library into one wire image, decode frame by frame */
        struct ssnk wire = { .n = 0 };
        Sink wsnk; mk_sink(&wsnk, "c", &wire);
        char *list = strdup(argv[2]), *save = NULL;
        char *payloads[64]; size_t np = 0;
        for (char *t = strtok_r(list, ",", &save); t && np < 64; t = strtok_r(NULL, ",", &save)) payloads[np++] = t;
        for (size_t i = 0; i < np; i++) {
            size_t n; unsigned char *p = parse_hex(payloads[i], &n);
            flenp_memory_to_sink(k, &wsnk, p, n);
            free(p);
        }
        struct ssrc sd = { .pos = 0 };
        if (!parse_script(argv[4], &sd.sc)) { printf("bad-op"); return; }
        sd.stream = wire.got; sd.len = wire.n;
        Source src; mk_source(&src, argv[3], &sd);
        size_t cap = parse_u64(argv[5]);
        char *out = NULL; size_t ol = 0;
        FILE *f = open_memstream(&out, &ol);
        for (size_t i = 0; i < np; i++) {
            unsigned char *mem = malloc(cap ? cap : 1);
            ssize_t rc = flenp_memory_from_source(k, &src, mem, cap);
            if (i) fputc(',', f);
            if (rc < 0) { fprintf(f, "err:%s", errname((int)-rc)); free(mem); break; }
            if (rc == 0) fputc('-', f);
            for (ssize_t j = 0; j < rc; j++) fprintf(f, "%02x", mem[j]);
            free(mem);
        }
        fclose(f);
        for (int view = 0; view < 2; view++) {
            if (view) printf(" ## ");
            printf("wire="); print_hex(wire.got, wire.n); printf(" frames=%s", out);
        }
        free(out); free(list); free(wire.got);
    } else {
        printf("bad-op");
    }
}

/* ---- SLIP encoder over scripted endpoint drivers (C12 on top of C17) ---- */

static void
slipx_op(int argc, char **argv)
{
    if (strcmp(argv[0], "slipx.enc") == 0 && argc == 7) {
        struct ssrc sd = { .pos = 0 };
        struct ssnk kd = { .n = 0 };
        size_t len; unsigned char *stream = parse_hex(argv[3], &len);     /* exact size */
        if (!stream || !parse_script(argv[4], &sd.sc) || !parse_script(argv[6], &kd.sc)) { printf("bad-op"); return; }
        sd.stream = stream; sd.len = len;
        Source src; mk_source(&src, argv[2], &sd);
        Sink snk; mk_sink(&snk, argv[5], &kd);
        RFC1055Context ctx;
        slip_ctx(&ctx, argv[1], NULL);
        int rc = rfc1055_encode(&ctx, &src, &snk);
        for (int view = 0; view < 2; view++) {
            if (view) printf(" ## ");
            print_rc_strict(rc);
            printf(" out="); print_hex(kd.got, kd.n);
            printf(" consumed=%zu", sd.pos);
        }
        free(kd.got); free(stream);
    } else {
        printf("bad-op");
    }
}

static void
harness_reset(void)
{
}

static void
harness_op(int argc, char **argv)
{
    if (strncmp(argv[0], "slipx.", 6) == 0) slipx_op(argc, argv);
    else if (strncmp(argv[0], "slip.", 5) == 0) slip_op(argc, argv);
    else if (strncmp(argv[0], "ep.", 3) == 0 || strcmp(argv[0], "sts") == 0) ep_op(argc, argv);
    else if (strncmp(argv[0], "lenp.", 5) == 0) lenp_op(argc, argv);
    else printf("bad-op");
}

int
main(void)
{
    return harness_main();
}
