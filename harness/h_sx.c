/* Correspondence harness for the s-expression reader (C20). */
#define HARNESS_NOISE
#include "common.h"

#include <ufw/sx.h>

/* Allocation ledger.  The harness is compiled with -Dmalloc=hx_malloc -Dcalloc=hx_calloc -Dfree=hx_free (see
 * vf.HARNESS_FLAGS), so that every allocation and release of src/sx.c passes through the counters below while
 * `hx_on` is set.  C20: "no allocation leaked". */
#undef malloc
#undef calloc
#undef free
extern void *malloc(size_t);
extern void *calloc(size_t, size_t);
extern void free(void *);
static size_t hx_allocs, hx_frees;
static bool hx_on;
void *hx_malloc(size_t n) { if (hx_on) hx_allocs++; return malloc(n); }
void *hx_calloc(size_t a, size_t b) { if (hx_on) hx_allocs++; return calloc(a, b); }
void hx_free(void *p) { if (hx_on && p) hx_frees++; free(p); }
#define malloc hx_malloc
#define calloc hx_calloc
#define free hx_free

static const char *
status_name(enum sx_status s)
{
    switch (s) {
    case SXS_SUCCESS: return "success";
    case SXS_FOUND_LIST: return "found-list";
    case SXS_BROKEN_INTEGER: return "broken-integer";
    case SXS_BROKEN_SYMBOL: return "broken-symbol";
    case SXS_UNKNOWN_INPUT: return "unknown-input";
    case SXS_UNEXPECTED_END: return "unexpected-end";
    default: return "unknown-status";
    }
}

static void
show_tree(FILE *f, const struct sx_node *n)
{
    if (n == NULL) { fprintf(f, "NULL"); return; }
    switch (n->type) {
    case SXT_SYMBOL:
        fprintf(f, "S");
        if (n->data.symbol[0] == 0) fprintf(f, "-");
        for (const char *p = n->data.symbol; *p; p++) fprintf(f, "%02x", (unsigned char)*p);
        break;
    case SXT_INTEGER: fprintf(f, "I%" PRIu64, n->data.u64); break;
    case SXT_EMPTY_LIST: fprintf(f, "N"); break;
    case SXT_PAIR:
        fprintf(f, "(");
        show_tree(f, n->data.pair->car);
        fprintf(f, ".");
        show_tree(f, n->data.pair->cdr);
        fprintf(f, ")");
        break;
    }
}

static void
harness_reset(void)
{
}

static void
harness_noise(void)
{
    /* other texts read in between, most of them rejected half-way */
    static const char *junk[] = { "(a (b", "((((((", ") x", "#x", "(1 2 (3 #xZ", "(ok)", "((a) ((b" };
    static unsigned k;
    const char *s = junk[k++ % (sizeof junk / sizeof *junk)];
    struct sx_parse_result r = sx_parse(s, strlen(s), 0);
    sx_destroy(&r.node);
}

static void
harness_op(int argc, char **argv)
{
    if ((strcmp(argv[0], "sx.parse") == 0 && argc == 2) || (strcmp(argv[0], "sx.render") == 0 && argc == 3)) {
        size_t n;
        unsigned char *s = parse_hex(argv[1], &n);        /* exact-size heap block, no terminator */
        if (!s) { printf("bad-op"); return; }
        hx_allocs = hx_frees = 0; hx_on = true;
        struct sx_parse_result r = sx_parse((const char *)s, n, 0);
        hx_on = false;
        size_t made = hx_allocs, released = hx_frees;
        char *out = NULL; size_t ol = 0;
        FILE *f = open_memstream(&out, &ol);
        fprintf(f, "%s tree=", status_name(r.status));
        if (r.node) show_tree(f, r.node); else fprintf(f, "-");
        if (r.status == SXS_SUCCESS) fprintf(f, " pos=%zu", r.position);
        fclose(f);
        /* the other entry points read the same text: length-delimited from position 0, and - when the text holds no
         * NUL - as a terminated string; they must answer like sx_parse(s, n, 0) */
        const char *entry = "same";
        {
            char *o2 = NULL; size_t l2 = 0;
            struct sx_parse_result r2 = sx_parse_stringn((const char *)s, n);
            FILE *f2 = open_memstream(&o2, &l2);
            fprintf(f2, "%s tree=", status_name(r2.status));
            if (r2.node) show_tree(f2, r2.node); else fprintf(f2, "-");
            if (r2.status == SXS_SUCCESS) fprintf(f2, " pos=%zu", r2.position);
            fclose(f2);
            if (strcmp(o2, out) != 0) entry = "stringn-differs";
            free(o2);
            sx_destroy(&r2.node);
            if (memchr(s, 0, n) == NULL) {
                char *z = malloc(n + 1);
                memcpy(z, s, n); z[n] = 0;
                struct sx_parse_result r3 = sx_parse_string(z);
                char *o3 = NULL; size_t l3 = 0;
                FILE *f3 = open_memstream(&o3, &l3);
                fprintf(f3, "%s tree=", status_name(r3.status));
                if (r3.node) show_tree(f3, r3.node); else fprintf(f3, "-");
                if (r3.status == SXS_SUCCESS) fprintf(f3, " pos=%zu", r3.position);
                fclose(f3);
                if (strcmp(o3, out) != 0) entry = "string-differs";
                free(o3);
                sx_destroy(&r3.node);
                free(z);
            }
        }
        hx_frees = 0; hx_on = true;
        sx_destroy(&r.node);
        hx_on = false;
        /* allocations made by the reader / released before it returned / released by destroying what it returned */
        /* model view: the three counts (how the reader allocates is the code's business); property view: what is
         * still allocated once the returned tree has been destroyed - nothing may be */
        printf("%s heap=%zu/%zu/%zu ## %s leaked=%ld entry=%s", out, made, released, hx_frees, out, (long)made - (long)released - (long)hx_frees, entry);
        free(out);
        free(s);
    } else if (strcmp(argv[0], "sx.deep") == 0 && argc == 3) {
        /* nesting depth n: "open" = n opening parentheses and nothing else (no complete expression),
         * "nested" = the empty list wrapped n times in a one-element list; only status, depth of the first-element
         * chain and position are printed (the tree has n nodes) */
        size_t n = parse_u64(argv[2]);
        bool nested = strcmp(argv[1], "nested") == 0;
        size_t len = nested ? 2 * n + 2 : n;
        char *s = malloc(len ? len : 1);
        memset(s, '(', nested ? n + 1 : n);
        if (nested) memset(s + n + 1, ')', n + 1);
        struct sx_parse_result r = sx_parse(s, len, 0);
        size_t depth = 0;
        for (const struct sx_node *k = r.node; k && k->type == SXT_PAIR; k = k->data.pair->car) depth++;
        printf("%s depth=%zu", status_name(r.status), depth);
        if (r.status == SXS_SUCCESS) printf(" pos=%zu", r.position);
        sx_destroy(&r.node);
        free(s);
    } else {
        printf("bad-op");
    }
}

int
main(void)
{
    return harness_main();
}
