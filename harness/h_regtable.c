/* Correspondence harness for the typed register table (C01-C05). */
#define HARNESS_NOISE
#include "common.h"

#include <ufw/register-table.h>

#define MAXA 8
#define MAXE 64

static RegisterArea areas[MAXA + 1];
static RegisterEntry entries[MAXE + 1];
static RegisterTable table;
static RegisterTable *the_table(void) { return &table; }
static size_t na, ne;
static RegisterAtom *store[MAXA];       /* exact-size heap blocks: storage of every area */
static bool is_mem[MAXA];

/* ---- callback-backed areas -------------------------------------------- */

static size_t
area_index(const RegisterArea *a)
{
    return (size_t)(a - areas);
}

static RegisterAccess
cb_read(const RegisterArea *a, RegisterAtom *dest, RegisterOffset offset, RegisterOffset n)
{
    RegisterAccess rv = REG_ACCESS_RESULT_INIT;
    size_t i = area_index(a);
    if ((uint64_t)offset + n > a->size) { rv.code = REG_ACCESS_IO_ERROR; rv.address = 0xdead; return rv; }
    memcpy(dest, store[i] + offset, n * sizeof *dest);
    return rv;
}

/* area kind with an 'X': the write hook looks at another register through the library before it commits what it
 * was handed (a write-protect key, a log of the old value ...) - the accessors must cope with being re-entered */
static bool reenter[16];
static int cb_depth;
static RegisterTable *the_table(void);

static RegisterAccess
cb_write(RegisterArea *a, const RegisterAtom *src, RegisterOffset offset, RegisterOffset n)
{
    RegisterAccess rv = REG_ACCESS_RESULT_INIT;
    size_t i = area_index(a);
    if (reenter[i] && cb_depth == 0) {
        RegisterValue probe;
        cb_depth++;
        (void)register_get(the_table(), 0, &probe);
        cb_depth--;
    }
    if ((uint64_t)offset + n > a->size) { rv.code = REG_ACCESS_IO_ERROR; rv.address = 0xdead; return rv; }
    memcpy(store[i] + offset, src, n * sizeof *src);
    return rv;
}

/* ---- validator callbacks (ids shared with the model) --------------------- */

static uint64_t
pattern_of(RegisterValue v)
{
    switch (v.type) {
    case REG_TYPE_UINT16: return v.value.u16;
    case REG_TYPE_SINT16: return (uint16_t)v.value.s16;
    case REG_TYPE_UINT32: return v.value.u32;
    case REG_TYPE_SINT32: return (uint32_t)v.value.s32;
    case REG_TYPE_FLOAT32: { uint32_t u; memcpy(&u, &v.value.f32, 4); return u; }
    case REG_TYPE_UINT64: return v.value.u64;
    case REG_TYPE_SINT64: return (uint64_t)v.value.s64;
    case REG_TYPE_FLOAT64: { uint64_t u; memcpy(&u, &v.value.f64, 8); return u; }
    default: return 0;
    }
}

static bool v_even(const RegisterEntry *e, RegisterValue v) { (void)e; return pattern_of(v) % 2 == 0; }
static bool v_never(const RegisterEntry *e, RegisterValue v) { (void)e; (void)v; return false; }
static bool v_always(const RegisterEntry *e, RegisterValue v) { (void)e; (void)v; return true; }
static bool v_mod3(const RegisterEntry *e, RegisterValue v) { (void)e; return pattern_of(v) % 3 == 0; }

static validatorFunction
validator(unsigned id)
{
    switch (id) { case 0: return v_even; case 1: return v_never; case 2: return v_always; default: return v_mod3; }
}

/* ---- parsing ---------------------------------------------------------- */

static int
type_of(const char *s)
{
    static const char *n[] = { "u16", "u32", "u64", "s16", "s32", "s64", "f32", "f64" };
    static const int t[] = { REG_TYPE_UINT16, REG_TYPE_UINT32, REG_TYPE_UINT64, REG_TYPE_SINT16, REG_TYPE_SINT32,
                             REG_TYPE_SINT64, REG_TYPE_FLOAT32, REG_TYPE_FLOAT64 };
    for (int i = 0; i < 8; i++) if (strcmp(n[i], s) == 0) return t[i];
    return -1;
}

static const char *
type_name(RegisterType t)
{
    switch (t) {
    case REG_TYPE_UINT16: return "u16"; case REG_TYPE_UINT32: return "u32"; case REG_TYPE_UINT64: return "u64";
    case REG_TYPE_SINT16: return "s16"; case REG_TYPE_SINT32: return "s32"; case REG_TYPE_SINT64: return "s64";
    case REG_TYPE_FLOAT32: return "f32"; case REG_TYPE_FLOAT64: return "f64"; default: return "invalid";
    }
}

static int
type_bits(RegisterType t)
{
    switch (t) {
    case REG_TYPE_UINT16: case REG_TYPE_SINT16: return 16;
    case REG_TYPE_UINT32: case REG_TYPE_SINT32: case REG_TYPE_FLOAT32: return 32;
    default: return 64;
    }
}

static RegisterValueU
union_of(RegisterType t, uint64_t bits)
{
    RegisterValueU u;
    memset(&u, 0, sizeof u);
    switch (t) {
    case REG_TYPE_UINT16: u.u16 = (uint16_t)bits; break;
    case REG_TYPE_SINT16: u.s16 = (int16_t)(uint16_t)bits; break;
    case REG_TYPE_UINT32: u.u32 = (uint32_t)bits; break;
    case REG_TYPE_SINT32: u.s32 = (int32_t)(uint32_t)bits; break;
    case REG_TYPE_FLOAT32: { uint32_t x = (uint32_t)bits; memcpy(&u.f32, &x, 4); break; }
    case REG_TYPE_UINT64: u.u64 = bits; break;
    case REG_TYPE_SINT64: u.s64 = (int64_t)bits; break;
    case REG_TYPE_FLOAT64: memcpy(&u.f64, &bits, 8); break;
    default: break;
    }
    return u;
}

static const char *
code_name(RegisterAccessCode c)
{
    switch (c) {
    case REG_ACCESS_SUCCESS: return "success"; case REG_ACCESS_FAILURE: return "failure";
    case REG_ACCESS_UNINITIALISED: return "uninitialised"; case REG_ACCESS_NOENTRY: return "noentry";
    case REG_ACCESS_RANGE: return "range"; case REG_ACCESS_INVALID: return "invalid";
    case REG_ACCESS_READONLY: return "readonly"; case REG_ACCESS_IO_ERROR: return "io-error";
    default: return "unknown";
    }
}

static void
print_access(RegisterAccess a)
{
    if (a.code == REG_ACCESS_SUCCESS) printf("success");
    else printf("%s@%" PRIu32, code_name(a.code), (uint32_t)a.address);
}

static void
print_atoms(const RegisterAtom *p, size_t n)
{
    if (n == 0) { putchar('-'); return; }
    for (size_t i = 0; i < n; i++) printf("%04x", p[i]);
}

static void
print_state(void)
{
    printf(" mem=");
    for (size_t i = 0; i < na; i++) {
        if (i) putchar('/');
        print_atoms(store[i], areas[i].size);
    }
    printf(" touched=");
    if (ne == 0) putchar('-');
    for (size_t i = 0; i < ne; i++) putchar((entries[i].flags & REG_EF_TOUCHED) ? '1' : '0');
}

static void
free_table(void)
{
    for (size_t i = 0; i < MAXA; i++) { free(store[i]); store[i] = NULL; }
    na = ne = 0;
}

/* `keep`: the description is edited in place and initialised again - what register_init() or other operations
 * left behind in the structures (entry -> area link and offset, touched marks, the run of entries recorded in each
 * area, the table's flags, the storage content of areas whose size stays) is still there, as it is when an
 * application changes its table and calls register_init() a second time */
static bool init_attempted;
static RegisterHandle ui_fail_at;
static unsigned ui_calls;

static int
ui_cb(RegisterTable *t, RegisterHandle h, void *user)
{
    (void)t; (void)user;
    ui_calls++;
    return h == ui_fail_at ? -1 : 0;
}

static bool
parse_table(const char *be, char *as, char *es, bool keep)
{
    if (!keep) init_attempted = false;
    static RegisterArea old_areas[MAXA + 1];
    static RegisterEntry old_entries[MAXE + 1];
    RegisterAtom *old_store[MAXA];
    size_t old_na = na, old_ne = ne;
    uint16_t old_flags = table.flags;
    AreaHandle old_tareas = table.areas;
    RegisterHandle old_tentries = table.entries;
    memcpy(old_areas, areas, sizeof areas);
    memcpy(old_entries, entries, sizeof entries);
    for (size_t i = 0; i < MAXA; i++) { old_store[i] = keep ? store[i] : NULL; if (keep) store[i] = NULL; }
    free_table();
    memset(areas, 0, sizeof areas);
    memset(entries, 0, sizeof entries);
    char *save = NULL;
    if (strcmp(as, "-") != 0) {
        for (char *t = strtok_r(as, "|", &save); t; t = strtok_r(NULL, "|", &save)) {
            if (na >= MAXA) return false;
            char *s2 = NULL;
            char *base = strtok_r(t, ":", &s2), *size = strtok_r(NULL, ":", &s2), *flags = strtok_r(NULL, ":", &s2), *kind = strtok_r(NULL, ":", &s2);
            if (!base || !size || !flags || !kind) return false;
            RegisterArea *a = &areas[na];
            a->base = (RegisterAddress)parse_u64(base);
            a->size = (RegisterOffset)parse_u64(size);
            a->flags = (strchr(flags, 'r') ? REG_AF_READABLE : 0) | (strchr(flags, 'w') ? REG_AF_WRITEABLE : 0) |
                       (strchr(flags, 's') ? REG_AF_SKIP_DEFAULTS : 0);
            store[na] = malloc(a->size ? a->size * sizeof(RegisterAtom) : 1);   /* exact size */
            is_mem[na] = kind[0] == 'M';
            for (size_t i = 0; i < a->size; i++) store[na][i] = is_mem[na] ? 0xeeee : 0xa5a5;
            if (is_mem[na]) { a->read = reg_mem_read; a->write = reg_mem_write; a->mem = store[na]; }
            else { a->read = strchr(kind, 'R') ? cb_read : NULL; a->write = strchr(kind, 'W') ? cb_write : NULL; a->mem = NULL; }
            reenter[na] = strchr(kind, 'X') != NULL;
            /* what initialisation has to establish is not what a static initialiser happens to leave: the record of an area's
             * registers starts as left-over from some earlier table (an area array that is reused, or one on the stack) */
            memset(&a->entry, 0xa5, sizeof a->entry);
            na++;
        }
    }
    areas[na] = (RegisterArea)REGISTER_AREA_END;
    if (strcmp(es, "-") != 0) {
        for (char *t = strtok_r(es, "|", &save); t; t = strtok_r(NULL, "|", &save)) {
            if (ne >= MAXE) return false;
            char *s2 = NULL;
            char *ty = strtok_r(t, ":", &s2), *addr = strtok_r(NULL, ":", &s2), *dflt = strtok_r(NULL, ":", &s2), *chk = strtok_r(NULL, ":", &s2);
            if (!ty || !addr || !dflt || !chk || type_of(ty) < 0) return false;
            RegisterEntry *e = &entries[ne];
            e->type = (RegisterType)type_of(ty);
            e->address = (RegisterAddress)parse_u64(addr);
            e->default_value = union_of(e->type, strtoull(dflt, NULL, 16));
            switch (chk[0]) {
            case 't': e->check.type = REGV_TYPE_TRIVIAL; break;
            case 'f': e->check.type = REGV_TYPE_FAIL; break;
            case 'm': e->check.type = REGV_TYPE_MIN; e->check.arg.min = union_of(e->type, strtoull(chk + 1, NULL, 16)); break;
            case 'x': e->check.type = REGV_TYPE_MAX; e->check.arg.max = union_of(e->type, strtoull(chk + 1, NULL, 16)); break;
            case 'r': {
                char *dash = strchr(chk, '-');
                if (!dash) return false;
                e->check.type = REGV_TYPE_RANGE;
                e->check.arg.range.min = union_of(e->type, strtoull(chk + 1, NULL, 16));
                e->check.arg.range.max = union_of(e->type, strtoull(dash + 1, NULL, 16));
                break; }
            case 'c': e->check.type = REGV_TYPE_CALLBACK; e->check.arg.cb = validator((unsigned)strtoul(chk + 1, NULL, 10)); break;
            default: return false;
            }
            ne++;
        }
    }
    entries[ne] = (RegisterEntry)REGISTER_ENTRY_END;
    memset(&table, 0, sizeof table);
    table.area = areas;
    table.entry = entries;
    if (keep) {
        table.flags = old_flags;
        table.areas = old_tareas;
        table.entries = old_tentries;
        for (size_t i = 0; i < na && i < old_na; i++) {
            areas[i].entry = old_areas[i].entry;
            if (areas[i].size == old_areas[i].size && old_store[i])
                memcpy(store[i], old_store[i], areas[i].size * sizeof(RegisterAtom));
        }
        for (size_t i = 0; i < ne && i < old_ne; i++) {
            /* the link points into areas[] (same array): keep the index */
            entries[i].area = old_entries[i].area;
            entries[i].offset = old_entries[i].offset;
            entries[i].flags = old_entries[i].flags;
        }
        for (size_t i = 0; i < MAXA; i++) free(old_store[i]);
    }
    register_make_bigendian(&table, be[0] == '1');
    return true;
}

static const char *
init_name(RegisterInitCode c)
{
    switch (c) {
    case REG_INIT_SUCCESS: return "success"; case REG_INIT_TABLE_INVALID: return "table-invalid";
    case REG_INIT_NO_AREAS: return "no-areas"; case REG_INIT_TOO_MANY_AREAS: return "too-many-areas";
    case REG_INIT_AREA_INVALID_ORDER: return "area-invalid-order"; case REG_INIT_AREA_ADDRESS_OVERLAP: return "area-address-overlap";
    case REG_INIT_TOO_MANY_ENTRIES: return "too-many-entries"; case REG_INIT_ENTRY_INVALID_ORDER: return "entry-invalid-order";
    case REG_INIT_ENTRY_ADDRESS_OVERLAP: return "entry-address-overlap"; case REG_INIT_ENTRY_IN_MEMORY_HOLE: return "entry-in-memory-hole";
    case REG_INIT_ENTRY_INVALID_DEFAULT: return "entry-invalid-default"; default: return "unknown";
    }
}

struct visit { long script[32]; size_t n, idx; RegisterHandle seen[64]; size_t nseen; };

static int
visit_cb(RegisterTable *t, RegisterHandle h, void *arg)
{
    (void)t;
    struct visit *v = arg;
    if (v->nseen < 64) v->seen[v->nseen++] = h;
    return v->idx < v->n ? (int)v->script[v->idx++] : 0;
}

/* a second table, used between the operations on the table under test */
static void
harness_noise(void)
{
    static RegisterAtom smem[6];
    static RegisterArea sareas[2];
    static RegisterEntry sentries[3];
    static RegisterTable stable;
    static unsigned k;
    if (k % 11 == 0) {
        memset(sareas, 0, sizeof sareas); memset(sentries, 0, sizeof sentries); memset(&stable, 0, sizeof stable);
        sareas[0].base = 100; sareas[0].size = 6; sareas[0].flags = REG_AF_READABLE | REG_AF_WRITEABLE;
        sareas[0].read = reg_mem_read; sareas[0].write = reg_mem_write; sareas[0].mem = smem;
        sareas[1] = (RegisterArea)REGISTER_AREA_END;
        sentries[0].type = REG_TYPE_UINT32; sentries[0].address = 100;
        sentries[0].default_value.u32 = 0xa1b2c3d4u; sentries[0].check.type = REGV_TYPE_TRIVIAL;
        sentries[1].type = REG_TYPE_UINT16; sentries[1].address = 103;
        sentries[1].default_value.u16 = 7; sentries[1].check.type = REGV_TYPE_MAX;
        sentries[1].check.arg.max.u16 = 9;
        sentries[2] = (RegisterEntry)REGISTER_ENTRY_END;
        stable.area = sareas; stable.entry = sentries;
        register_make_bigendian(&stable, k % 2);
        (void)register_init(&stable);
    }
    RegisterValue v = { .type = REG_TYPE_UINT16 };
    RegisterAtom w[3] = { 0x1111, (RegisterAtom)k, 0x0005 };
    switch (k++ % 5) {
    case 0: v.value.u16 = (uint16_t)(k % 13); (void)register_set(&stable, 1, v); break;
    case 1: (void)register_get(&stable, 0, &v); break;
    case 2: (void)register_block_write(&stable, 101, 3, w); break;
    case 3: (void)register_block_read(&stable, 100, 3, w); break;
    default: (void)register_sanitise(&stable); break;
    }
}

static void
harness_reset(void)
{
    free_table();
    memset(&table, 0, sizeof table);
    areas[0] = (RegisterArea)REGISTER_AREA_END;
    entries[0] = (RegisterEntry)REGISTER_ENTRY_END;
    table.area = areas;
    table.entry = entries;
}

static void
harness_op(int argc, char **argv)
{
    const char *op = argv[0];
    if (strcmp(op, "rt.table") == 0 && argc == 4) {
        printf(parse_table(argv[1], argv[2], argv[3], false) ? "ok" : "bad-op");
    } else if (strcmp(op, "rt.edit") == 0 && argc == 4) {
        printf(parse_table(argv[1], argv[2], argv[3], true) ? "ok" : "bad-op");
    } else if (strcmp(op, "rt.init") == 0) {
        init_attempted = true;
        RegisterInit r = register_init(&table);
        bool init = (table.flags & REG_TF_INITIALISED) != 0;
        printf("%s", init_name(r.code));
        if (r.code != REG_INIT_SUCCESS) printf("@%" PRIu32, (uint32_t)r.pos.entry);
        printf(" init=%s", init ? "true" : "false");
        if (r.code == REG_INIT_SUCCESS) {
            printf(" links=");
            for (size_t i = 0; i < na; i++)
                printf("%s%" PRIu32 ",%" PRIu32 ",%" PRIu32, i ? "/" : "", (uint32_t)areas[i].entry.first, (uint32_t)areas[i].entry.last, (uint32_t)areas[i].entry.count);
            print_state();
        }
    } else if ((strcmp(op, "rt.set") == 0 || strcmp(op, "rt.setu") == 0 || strcmp(op, "rt.bset") == 0 || strcmp(op, "rt.bclr") == 0) && argc == 4) {
        int ty = type_of(argv[2]);
        if (ty < 0) { printf("bad-op"); return; }
        RegisterValue v = { .type = (RegisterType)ty, .value = union_of((RegisterType)ty, strtoull(argv[3], NULL, 16)) };
        RegisterHandle h = (RegisterHandle)parse_u64(argv[1]);
        RegisterAccess a = strcmp(op, "rt.set") == 0 ? register_set(&table, h, v)
                         : strcmp(op, "rt.setu") == 0 ? register_set_unsafe(&table, h, v)
                         : strcmp(op, "rt.bset") == 0 ? register_bit_set(&table, h, v) : register_bit_clear(&table, h, v);
        print_access(a);
        print_state();
    } else if ((strcmp(op, "rt.get") == 0 || strcmp(op, "rt.default") == 0) && argc == 2) {
        RegisterValue v;
        memset(&v, 0, sizeof v);
        RegisterHandle h = (RegisterHandle)parse_u64(argv[1]);
        RegisterAccess a = op[3] == 'g' ? register_get(&table, h, &v) : register_default(&table, h, &v);
        print_access(a);
        if (a.code == REG_ACCESS_SUCCESS) printf(" %s:%0*" PRIx64, type_name(v.type), type_bits(v.type) / 4, pattern_of(v));
    } else if (strcmp(op, "rt.bread") == 0 && argc == 3) {
        size_t n = parse_u64(argv[2]);
        RegisterAtom *buf = malloc(n ? n * sizeof *buf : 1);       /* exact size: overrun is an ASan report */
        for (size_t i = 0; i < n; i++) buf[i] = 0xcccc;
        RegisterAccess a = register_block_read(&table, (RegisterAddress)parse_u64(argv[1]), (RegisterOffset)n, buf);
        print_access(a);
        printf(" data=");
        if (a.code == REG_ACCESS_SUCCESS) print_atoms(buf, n); else putchar('-');
        free(buf);
    } else if (strcmp(op, "rt.bwrite") == 0 && argc == 3) {
        size_t len = strcmp(argv[2], "-") == 0 ? 0 : strlen(argv[2]) / 4;
        RegisterAtom *buf = malloc(len ? len * sizeof *buf : 1);   /* exact size */
        for (size_t i = 0; i < len; i++) { char tmp[5]; memcpy(tmp, argv[2] + 4 * i, 4); tmp[4] = 0; buf[i] = (RegisterAtom)strtoul(tmp, NULL, 16); }
        RegisterAccess a = register_block_write(&table, (RegisterAddress)parse_u64(argv[1]), (RegisterOffset)len, buf);
        print_access(a);
        print_state();
        free(buf);
    } else if (strcmp(op, "rt.userinit") == 0 && argc == 2) {
        /* register_user_init() with a callback that reports failure for entry <k> (never, when k is beyond the table) and
         * looks at nothing: the table afterwards is the table before */
        ui_fail_at = (RegisterHandle)parse_u64(argv[1]);
        ui_calls = 0;
        RegisterAccess a = register_user_init(&table, ui_cb);
        print_access(a);
        printf(" calls=%u", ui_calls);
        print_state();
    } else if (strcmp(op, "rt.hole") == 0 && argc == 3) {
        /* the hole query does not look at the initialised flag but at what register_init() counted: before the first
         * register_init() of a description there is nothing it could answer from */
        if (!init_attempted) { printf("bad-op"); return; }
        if (parse_u64(argv[1]) > UINT32_MAX || parse_u64(argv[2]) > UINT32_MAX) { printf("bad-op"); return; }   /* not a RegisterAddress / RegisterOffset */
        print_access(register_block_touches_hole(&table, (RegisterAddress)parse_u64(argv[1]), (RegisterOffset)parse_u64(argv[2])));
    } else if (strcmp(op, "rt.sanitise") == 0) {
        print_access(register_sanitise(&table));
        print_state();
    } else if (strcmp(op, "rt.foreach") == 0 && argc == 4) {
        struct visit v;
        memset(&v, 0, sizeof v);
        if (strcmp(argv[3], "-") != 0) {
            char *save = NULL;
            for (char *t = strtok_r(argv[3], ",", &save); t && v.n < 32; t = strtok_r(NULL, ",", &save)) v.script[v.n++] = strtol(t, NULL, 10);
        }
        RegisterAccess a = register_foreach_in(&table, (RegisterAddress)parse_u64(argv[1]), (RegisterOffset)parse_u64(argv[2]), visit_cb, &v);
        print_access(a);
        printf(" visited=");
        if (v.nseen == 0) putchar('-');
        for (size_t i = 0; i < v.nseen; i++) printf("%s%" PRIu32, i ? "," : "", (uint32_t)v.seen[i]);
    } else if (strcmp(op, "rt.poke") == 0 && argc == 4) {
        size_t ai = parse_u64(argv[1]), off = parse_u64(argv[2]);
        size_t len = strlen(argv[3]) / 4;
        if (ai >= na || off + len > areas[ai].size) { printf("bad-op"); return; }
        for (size_t i = 0; i < len; i++) { char tmp[5]; memcpy(tmp, argv[3] + 4 * i, 4); tmp[4] = 0; store[ai][off + i] = (RegisterAtom)strtoul(tmp, NULL, 16); }
        printf("ok");
    } else {
        printf("bad-op");
    }
}

int
main(void)
{
    return harness_main();
}
