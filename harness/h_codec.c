/* Correspondence harness for the codec group: varint (C14), CRC-16/ARC (C16), endian codecs (C15). */
#include "common.h"
#include <sys/mman.h>

#include <ufw/byte-buffer.h>
#include <ufw/endpoints.h>
#include <ufw/variable-length-integer.h>

/* ---- scripted octet source / chunk sink ----------------------------- */

struct osrc { const unsigned char *p; size_t n, pos; size_t failat; int failwith; bool failed; };

static int
osrc_get(void *drv, void *data)
{
    struct osrc *s = drv;
    if (s->failwith != 0 && !s->failed && s->pos == s->failat) { s->failed = true; return s->failwith; }
    if (s->pos >= s->n) return -ENODATA;
    *(unsigned char *)data = s->p[s->pos++];
    return 1;
}

struct csnk { unsigned char buf[64]; size_t n; };

static ssize_t
csnk_put(void *drv, const void *data, size_t n)
{
    struct csnk *s = drv;
    if (s->n + n > sizeof s->buf) return -ENOMEM;
    memcpy(s->buf + s->n, data, n);
    s->n += n;
    return (ssize_t)n;
}

/* ---- varint --------------------------------------------------------- */

static void
print_dec_result(int rc, const char *ty, uint64_t u)
{
    if (rc < 0) { printf("err:%s", errname(rc)); return; }
    printf("ok:%d value=", rc);
    if (strcmp(ty, "u32") == 0) printf("%" PRIu32, (uint32_t)u);
    else if (strcmp(ty, "s32") == 0) printf("%" PRId32, (int32_t)(uint32_t)u);
    else if (strcmp(ty, "u64") == 0) printf("%" PRIu64, u);
    else printf("%" PRId64, (int64_t)u);
}

static void
vi_op(int argc, char **argv)
{
    const char *op = argv[0];
    const char *ty = argc > 1 ? argv[1] : "";
    bool is32 = ty[1] == '3', sgn = ty[0] == 's';
    if (strcmp(op, "vi.len") == 0 && argc == 3) {
        size_t n;
        if (is32 && sgn) n = varint_s32_length((int32_t)strtoll(argv[2], NULL, 10));
        else if (is32) n = varint_u32_length((uint32_t)strtoull(argv[2], NULL, 10));
        else if (sgn) n = varint_s64_length(strtoll(argv[2], NULL, 10));
        else n = varint_u64_length(strtoull(argv[2], NULL, 10));
        printf("%zu", n);
    } else if (strcmp(op, "vi.enc") == 0 && argc == 6) {
        size_t size = parse_u64(argv[3]);
        unsigned char *mem = calloc(size ? size : 1, 1);
        ByteBuffer b = { .data = mem, .size = size, .used = parse_u64(argv[4]), .offset = parse_u64(argv[5]) };
        int rc;
        if (is32 && sgn) rc = varint_encode_s32(&b, (int32_t)strtoll(argv[2], NULL, 10));
        else if (is32) rc = varint_encode_u32(&b, (uint32_t)strtoull(argv[2], NULL, 10));
        else if (sgn) rc = varint_encode_s64(&b, strtoll(argv[2], NULL, 10));
        else rc = varint_encode_u64(&b, strtoull(argv[2], NULL, 10));
        if (rc < 0) printf("err:%s", errname(rc)); else printf("ok:%d", rc);
        printf(" used=%zu off=%zu mem=", b.used, b.offset);
        print_hex(mem, size);
        free(mem);
    } else if (strcmp(op, "vi.decbuf") == 0 && argc == 5) {
        size_t n;
        unsigned char *mem = parse_hex(argv[2], &n);      /* exact-size heap block */
        if (!mem) { printf("bad-op"); return; }
        size_t off = parse_u64(argv[3]);
        ByteBuffer b = { .data = mem, .size = n, .used = strcmp(argv[4], "full") == 0 ? n : 0, .offset = off };
        if (b.used < off) b.used = off <= n ? off : n;
        uint64_t u = 0; uint32_t u32v = 0; int32_t s32v = 0; int64_t s64v = 0;
        int rc;
        if (is32 && sgn) { rc = varint_decode_s32(&b, &s32v); u = (uint32_t)s32v; }
        else if (is32) { rc = varint_decode_u32(&b, &u32v); u = u32v; }
        else if (sgn) { rc = varint_decode_s64(&b, &s64v); u = (uint64_t)s64v; }
        else rc = varint_decode_u64(&b, &u);
        print_dec_result(rc, ty, u);
        printf(" off=%zu", b.offset);
        free(mem);
    } else if (strcmp(op, "vi.decseq") == 0 && argc == 5) {
        /* decode again and again from ONE buffer (exact-size block) until an error or four values: the read mark a
         * successful decode leaves is where the next one starts, whatever the fill mark says */
        size_t n;
        unsigned char *mem = parse_hex(argv[2], &n);
        if (!mem) { printf("bad-op"); return; }
        size_t off = parse_u64(argv[3]);
        ByteBuffer b = { .data = mem, .size = n, .used = strcmp(argv[4], "full") == 0 ? n : 0, .offset = off };
        if (b.used < off) b.used = off <= n ? off : n;
        for (int round = 0; round < 4; round++) {
            uint64_t u = 0; uint32_t u32v = 0; int32_t s32v = 0; int64_t s64v = 0;
            int rc;
            if (is32 && sgn) { rc = varint_decode_s32(&b, &s32v); u = (uint32_t)s32v; }
            else if (is32) { rc = varint_decode_u32(&b, &u32v); u = u32v; }
            else if (sgn) { rc = varint_decode_s64(&b, &s64v); u = (uint64_t)s64v; }
            else rc = varint_decode_u64(&b, &u);
            if (round) putchar(' ');
            print_dec_result(rc, ty, u);
            printf(" off=%zu", b.offset);
            if (rc < 0) break;
        }
        free(mem);
    } else if (strcmp(op, "vi.decsrc") == 0 && argc == 3) {
        size_t n;
        unsigned char *mem = parse_hex(argv[2], &n);
        if (!mem) { printf("bad-op"); return; }
        struct osrc drv = { mem, n, 0 };
        Source src = OCTET_SOURCE_INIT(osrc_get, &drv);
        uint64_t u = 0; uint32_t u32v = 0; int32_t s32v = 0; int64_t s64v = 0;
        int rc;
        if (is32 && sgn) { rc = varint_s32_from_source(&src, &s32v); u = (uint32_t)s32v; }
        else if (is32) { rc = varint_u32_from_source(&src, &u32v); u = u32v; }
        else if (sgn) { rc = varint_s64_from_source(&src, &s64v); u = (uint64_t)s64v; }
        else rc = varint_u64_from_source(&src, &u);
        print_dec_result(rc, ty, u);
        if (rc >= 0) printf(" taken=%zu", drv.pos);
        free(mem);
    } else if (strcmp(op, "vi.decsrcb") == 0 && argc == 5) {
        /* the source answers <err> once, in front of octet <k>, and carries on afterwards.  Left view: what the decoder
         * answers.  Right view: `sound` when it either hands that error on or answers exactly what it answers for the
         * undisturbed source (same verdict, value, octets taken) - never a value put together across the gap */
        size_t n;
        unsigned char *mem = parse_hex(argv[2], &n);
        if (!mem) { printf("bad-op"); return; }
        size_t k = parse_u64(argv[3]);
        int e = strcmp(argv[4], "eagain") == 0 ? -EAGAIN : strcmp(argv[4], "eintr") == 0 ? -EINTR : strcmp(argv[4], "eio") == 0 ? -EIO : 0;
        if (e == 0) { free(mem); printf("bad-op"); return; }
        int rcs[2]; uint64_t us[2]; size_t taken[2];
        for (int round = 0; round < 2; round++) {
            struct osrc drv = { mem, n, 0, k, round == 0 ? e : 0, false };
            Source src = OCTET_SOURCE_INIT(osrc_get, &drv);
            uint64_t u = 0; uint32_t u32v = 0; int32_t s32v = 0; int64_t s64v = 0;
            int rc;
            if (is32 && sgn) { rc = varint_s32_from_source(&src, &s32v); u = (uint32_t)s32v; }
            else if (is32) { rc = varint_u32_from_source(&src, &u32v); u = u32v; }
            else if (sgn) { rc = varint_s64_from_source(&src, &s64v); u = (uint64_t)s64v; }
            else rc = varint_u64_from_source(&src, &u);
            rcs[round] = rc; us[round] = rc >= 0 ? u : 0; taken[round] = drv.pos;
        }
        print_dec_result(rcs[0], ty, us[0]);
        if (rcs[0] >= 0) printf(" taken=%zu", taken[0]);
        bool sound = rcs[0] == e || (rcs[0] == rcs[1] && us[0] == us[1] && (rcs[0] < 0 || taken[0] == taken[1]));
        printf(" ## %s", sound ? "sound" : "a-value-across-the-gap");
        free(mem);
    } else if (strcmp(op, "vi.decchunks") == 0 && argc == 4) {
        /* the octets come from a chunk list (source_from_chunks) cut at the given positions; a position given twice is
         * an empty chunk.  How the octets are scattered is invisible to the decoder; behind the value the next octet
         * of the source is asked for as well */
        size_t n;
        unsigned char *mem = parse_hex(argv[2], &n);
        if (!mem) { printf("bad-op"); return; }
        size_t cuts[16]; size_t nc = 0;
        if (strcmp(argv[3], "-") != 0) {
            char *save = NULL;
            for (char *t = strtok_r(argv[3], ",", &save); t && nc < 15; t = strtok_r(NULL, ",", &save)) cuts[nc++] = parse_u64(t);
        }
        ByteBuffer cb[17]; unsigned char *blk[17];
        size_t from = 0;
        for (size_t k = 0; k <= nc; k++) {
            size_t to = k < nc ? cuts[k] : n;
            if (to < from || to > n) { printf("bad-op"); free(mem); for (size_t q = 0; q < k; q++) free(blk[q]); return; }
            blk[k] = malloc(to - from ? to - from : 1);                    /* exact size */
            memcpy(blk[k], mem + from, to - from);
            byte_buffer_use(&cb[k], blk[k], to - from);
            if (to == from) { cb[k].data = blk[k]; cb[k].size = 0; cb[k].used = 0; cb[k].offset = 0; }
            from = to;
        }
        ByteChunks bc = { .chunk = cb, .chunks = nc + 1, .active = 0 };
        Source src;
        source_from_chunks(&src, &bc);
        uint64_t u = 0; uint32_t u32v = 0; int32_t s32v = 0; int64_t s64v = 0;
        int rc;
        if (is32 && sgn) { rc = varint_s32_from_source(&src, &s32v); u = (uint32_t)s32v; }
        else if (is32) { rc = varint_u32_from_source(&src, &u32v); u = u32v; }
        else if (sgn) { rc = varint_s64_from_source(&src, &s64v); u = (uint64_t)s64v; }
        else rc = varint_u64_from_source(&src, &u);
        print_dec_result(rc, ty, u);
        if (rc >= 0) {
            unsigned char nx = 0;
            int r2 = source_get_octet(&src, &nx);
            printf(" taken=%d", rc);
            if (r2 > 0) printf(" next=%02x", nx); else printf(" next=none");
        }
        for (size_t k = 0; k <= nc; k++) free(blk[k]);
        free(mem);
    } else if (strcmp(op, "vi.tosink") == 0 && argc == 3) {
        struct csnk drv = { .n = 0 };
        Sink snk = CHUNK_SINK_INIT(csnk_put, &drv);
        int rc;
        if (is32 && sgn) rc = varint_s32_to_sink(&snk, (int32_t)strtoll(argv[2], NULL, 10));
        else if (is32) rc = varint_u32_to_sink(&snk, (uint32_t)strtoull(argv[2], NULL, 10));
        else if (sgn) rc = varint_s64_to_sink(&snk, strtoll(argv[2], NULL, 10));
        else rc = varint_u64_to_sink(&snk, strtoull(argv[2], NULL, 10));
        if (rc < 0) printf("err:%s", errname(rc)); else printf("ok:%d", rc);
        printf(" out=");
        print_hex(drv.buf, drv.n);
    } else {
        printf("bad-op");
    }
}

/* ---- CRC-16/ARC ------------------------------------------------------ */

#include <ufw/crc/crc16-arc.h>
#define HAVE_CRC_OPS

/* The checksum of an octet sequence must not depend on where the sequence lies in memory: run it at
 * every start alignment 0..7 (data placed at the END of an exact-size heap block, so an over-read is an
 * ASan report).  Returns the value at alignment 0; *dep is set to 1 + the first alignment that differs. */
static uint16_t
crc_all_alignments(uint16_t init, const unsigned char *buf, size_t n, int *dep)
{
    uint16_t ref = 0;
    for (unsigned a = 0; a < 8; ++a) {
        /* malloc results are 16-aligned; the data ends exactly at the end of the block */
        unsigned char *blk = malloc(n + a ? n + a : 1);
        unsigned char *p = blk + a;
        if (n) memcpy(p, buf, n);
        uint16_t v = ufw_crc16_arc(init, p, n);
        if (a == 0) ref = v;
        else if (v != ref && *dep == 0) *dep = 1 + (int)a;
        free(blk);
    }
    return ref;
}

static void
crc_op(int argc, char **argv)
{
    const char *op = argv[0];
    char out[2048];
    if (strcmp(op, "crc.buf") == 0 && argc == 3) {
        size_t n; unsigned char *buf = parse_hex(argv[2], &n);
        if (!buf) { printf("bad-op"); return; }
        int dep = 0;
        uint16_t v = crc_all_alignments((uint16_t)strtoul(argv[1], NULL, 16), buf, n, &dep);
        if (dep) snprintf(out, sizeof out, "%04x depends-on-alignment:%d", v, dep - 1);
        else snprintf(out, sizeof out, "%04x", v);
        free(buf);
    } else if (strcmp(op, "crc.split") == 0 && argc == 4) {
        size_t n; unsigned char *buf = parse_hex(argv[2], &n);
        if (!buf) { printf("bad-op"); return; }
        size_t k = parse_u64(argv[3]); if (k > n) k = n;
        uint16_t init = (uint16_t)strtoul(argv[1], NULL, 16);
        /* second part in its own exact-size block */
        unsigned char *b2 = malloc(n - k ? n - k : 1);
        memcpy(b2, buf + k, n - k);
        uint16_t whole = ufw_crc16_arc(init, buf, n);
        uint16_t split = ufw_crc16_arc(ufw_crc16_arc(init, buf, k), b2, n - k);
        /* ... and continued in place (the second part starts wherever the first one ended) */
        uint16_t inplace = ufw_crc16_arc(ufw_crc16_arc(init, buf, k), buf + k, n - k);
        if (inplace != split)
            snprintf(out, sizeof out, "whole=%04x split=%04x in-place=%04x", whole, split, inplace);
        else
        snprintf(out, sizeof out, "whole=%04x split=%04x", whole, split);
        free(b2); free(buf);
    } else if (strcmp(op, "crc.u16") == 0 && argc == 3) {
        size_t n; unsigned char *buf = parse_hex(argv[2], &n);
        if (!buf) { printf("bad-op"); return; }
        /* the word variant at every word-aligned start address modulo 8 (data ends at the end of an exact-size
         * block), and continued in place after every prefix */
        uint16_t init = (uint16_t)strtoul(argv[1], NULL, 16);
        size_t wn = n / 2;
        uint16_t ref = 0; int dep = 0;
        for (unsigned a = 0; a < 8; a += 2) {
            unsigned char *blk = malloc(wn * 2 + a ? wn * 2 + a : 2);
            uint16_t *w = (uint16_t *)(void *)(blk + a);
            if (wn) memcpy(w, buf, wn * 2);
            uint16_t v = ufw_crc16_arc_u16(init, w, wn);
            if (a == 0) ref = v; else if (v != ref && !dep) dep = 1 + (int)a;
            for (size_t k = 0; k <= wn && !dep; k++)
                if (ufw_crc16_arc_u16(ufw_crc16_arc_u16(init, w, k), w + k, wn - k) != v) dep = 100 + (int)k;
            free(blk);
        }
        if (dep) snprintf(out, sizeof out, "%04x depends-on-alignment-or-split:%d", ref, dep);
        else snprintf(out, sizeof out, "%04x", ref);
        free(buf);
    } else if (strcmp(op, "crc.mid") == 0 && argc == 4) {
        /* a dense buffer of n octets (up to a few MiB) made by rule - octet i is bits 7..14 of i * 2654435761 - so that
         * lengths far beyond what a line of hex can carry are compared with the model's value, whole and in two parts */
        uint16_t init = (uint16_t)strtoul(argv[1], NULL, 16);
        size_t n = parse_u64(argv[2]), k = parse_u64(argv[3]);
        if (n > (16u << 20) || k > n) { printf("bad-op"); return; }
        unsigned char *m = malloc(n ? n : 1);
        for (size_t i = 0; i < n; i++) m[i] = (unsigned char)((i * 2654435761ull) >> 7);
        uint16_t whole = ufw_crc16_arc(init, m, n);
        uint16_t split = ufw_crc16_arc(ufw_crc16_arc(init, m, k), m + k, n - k);
        uint16_t words = (n % 2 == 0) ? ufw_crc16_arc_u16(init, (const uint16_t *)(const void *)m, n / 2) : whole;
        free(m);
        snprintf(out, sizeof out, "whole=%04x split=%04x words=%04x", whole, split, words);
    } else if (strcmp(op, "crc.huge") == 0 && argc == 4) {
        /* a buffer beyond 32 bits of length (address space only, a few octets set): the checksum of the whole must equal
         * the checksum continued over its two parts, each of which is shorter than 2^32 - the concatenation law of the
         * statement, the implementation against itself */
        uint16_t init = (uint16_t)strtoul(argv[1], NULL, 16);
        size_t n = parse_u64(argv[2]), split = parse_u64(argv[3]);
        alarm(900);      /* three passes over gigabytes: more than the per-case watchdog allows */
        unsigned char *m = mmap(NULL, n, PROT_READ | PROT_WRITE, MAP_PRIVATE | MAP_ANONYMOUS | MAP_NORESERVE, -1, 0);
        if (m == MAP_FAILED || split > n) { printf("bad-op"); return; }
        for (size_t i = 0; i < n; i += (n / 61) | 1) m[i] = (unsigned char)(i * 2654435761u >> 7);
        uint16_t whole = ufw_crc16_arc(init, m, n);
        uint16_t a = ufw_crc16_arc(init, m, split);
        uint16_t b = ufw_crc16_arc(a, m + split, n - split);
        munmap(m, n);
        snprintf(out, sizeof out, "split=%s", whole == b ? "same" : "differs");
    } else if (strcmp(op, "crc.huge16") == 0 && argc == 4) {
        /* the same for the word variant: n words (>= 2^32) of address space */
        uint16_t init = (uint16_t)strtoul(argv[1], NULL, 16);
        size_t n = parse_u64(argv[2]), split = parse_u64(argv[3]);
        alarm(1800);
        uint16_t *m = mmap(NULL, 2 * n, PROT_READ | PROT_WRITE, MAP_PRIVATE | MAP_ANONYMOUS | MAP_NORESERVE, -1, 0);
        if (m == MAP_FAILED || split > n) { printf("bad-op"); return; }
        for (size_t i = 0; i < n; i += (n / 61) | 1) m[i] = (uint16_t)(i * 2654435761u >> 5);
        uint16_t whole = ufw_crc16_arc_u16(init, m, n);
        uint16_t a = ufw_crc16_arc_u16(init, m, split);
        uint16_t b = ufw_crc16_arc_u16(a, m + split, n - split);
        munmap(m, 2 * n);
        snprintf(out, sizeof out, "split=%s", whole == b ? "same" : "differs");
    } else if (strcmp(op, "crc.initial") == 0 && argc == 2) {
        size_t n; unsigned char *buf = parse_hex(argv[1], &n);
        if (!buf) { printf("bad-op"); return; }
        uint16_t v0 = ufw_buffer_crc16_arc(buf, n);
        unsigned char *odd = malloc(n + 1);
        if (n) memcpy(odd + 1, buf, n);
        uint16_t v1 = ufw_buffer_crc16_arc(odd + 1, n);
        if (v0 != v1) snprintf(out, sizeof out, "%04x depends-on-alignment:1", v0);
        else snprintf(out, sizeof out, "%04x", v0);
        free(odd);
        free(buf);
    } else if (strcmp(op, "crc.table") == 0) {
        for (unsigned i = 0; i < 256; i++) {
            unsigned char d = (unsigned char)i;
            snprintf(out + 4 * i, 5, "%04x", ufw_crc16_arc(0, &d, 1));
        }
    } else if (strcmp(op, "crc.sweep") == 0 && argc == 3) {
        unsigned long lo = parse_u64(argv[1]), hi = parse_u64(argv[2]);
        unsigned long long acc = 0;
        for (unsigned long s = lo; s < hi; s++)
            for (unsigned d = 0; d < 256; d++) {
                unsigned char o = (unsigned char)d;
                acc = (unsigned long long)(((unsigned __int128)acc * 31 + ufw_crc16_arc((uint16_t)s, &o, 1) + 1) % 18446744073709551557ull);
            }
        snprintf(out, sizeof out, "%llu", acc);
    } else {
        printf("bad-op");
        return;
    }
    printf("%s ## %s", out, out);
}
/* ---- endian codecs ---------------------------------------------------- */

#include <ufw/binary-format.h>
#define HAVE_BF_OPS

/* X(kind letter, bits, C type, return-register width) */
#define BF_WIDTHS_US(X, k, T16, T32, T64) \
    X(k, 16, T16, 16) X(k, 24, T32, 32) X(k, 32, T32, 32) X(k, 40, T64, 64) \
    X(k, 48, T64, 64) X(k, 56, T64, 64) X(k, 64, T64, 64)

struct bf_ref_entry { const char *name; int nbytes; int rw; uint64_t (*call)(const void *); };
struct bf_set_entry { const char *name; int nbytes; int pw; void *(*call)(void *, uint64_t); };

#define REF_U(k, bits, T, W) \
    static uint64_t r_##k##bits##n(const void *p) { return (uint64_t)bf_ref_##k##bits##n(p); } \
    static uint64_t r_##k##bits##b(const void *p) { return (uint64_t)bf_ref_##k##bits##b(p); } \
    static uint64_t r_##k##bits##l(const void *p) { return (uint64_t)bf_ref_##k##bits##l(p); }
#define REF_S(k, bits, T, W) \
    static uint64_t r_##k##bits##n(const void *p) { return (uint64_t)(uint##W##_t)bf_ref_##k##bits##n(p); } \
    static uint64_t r_##k##bits##b(const void *p) { return (uint64_t)(uint##W##_t)bf_ref_##k##bits##b(p); } \
    static uint64_t r_##k##bits##l(const void *p) { return (uint64_t)(uint##W##_t)bf_ref_##k##bits##l(p); }
#define SET_US(k, bits, T, W) \
    static void *s_##k##bits##n(void *p, uint64_t v) { return bf_set_##k##bits##n(p, (T)v); } \
    static void *s_##k##bits##b(void *p, uint64_t v) { return bf_set_##k##bits##b(p, (T)v); } \
    static void *s_##k##bits##l(void *p, uint64_t v) { return bf_set_##k##bits##l(p, (T)v); }
BF_WIDTHS_US(REF_U, u, uint16_t, uint32_t, uint64_t)
BF_WIDTHS_US(REF_S, s, int16_t, int32_t, int64_t)
BF_WIDTHS_US(SET_US, u, uint16_t, uint32_t, uint64_t)
BF_WIDTHS_US(SET_US, s, int16_t, int32_t, int64_t)
/* floats travel as bit patterns (memcpy, no arithmetic) */
#define REF_F(bits, T, U, o) \
    static uint64_t r_f##bits##o(const void *p) { T f = bf_ref_f##bits##o(p); U u; memcpy(&u, &f, sizeof u); return u; }
#define SET_F(bits, T, U, o) \
    static void *s_f##bits##o(void *p, uint64_t v) { U u = (U)v; T f; memcpy(&f, &u, sizeof f); return bf_set_f##bits##o(p, f); }
REF_F(32, float, uint32_t, n) REF_F(32, float, uint32_t, b) REF_F(32, float, uint32_t, l)
REF_F(64, double, uint64_t, n) REF_F(64, double, uint64_t, b) REF_F(64, double, uint64_t, l)
SET_F(32, float, uint32_t, n) SET_F(32, float, uint32_t, b) SET_F(32, float, uint32_t, l)
SET_F(64, double, uint64_t, n) SET_F(64, double, uint64_t, b) SET_F(64, double, uint64_t, l)

#define REF_ROW(k, bits, T, W) \
    { "bf_ref_" #k #bits "n", bits / 8, W, r_##k##bits##n }, { "bf_ref_" #k #bits "b", bits / 8, W, r_##k##bits##b }, \
    { "bf_ref_" #k #bits "l", bits / 8, W, r_##k##bits##l },
#define SET_ROW(k, bits, T, W) \
    { "bf_set_" #k #bits "n", bits / 8, W, s_##k##bits##n }, { "bf_set_" #k #bits "b", bits / 8, W, s_##k##bits##b }, \
    { "bf_set_" #k #bits "l", bits / 8, W, s_##k##bits##l },
static const struct bf_ref_entry bf_refs[] = {
    BF_WIDTHS_US(REF_ROW, u, 0, 0, 0) BF_WIDTHS_US(REF_ROW, s, 0, 0, 0)
    REF_ROW(f, 32, 0, 32) REF_ROW(f, 64, 0, 64)
};
static const struct bf_set_entry bf_sets[] = {
    BF_WIDTHS_US(SET_ROW, u, 0, 0, 0) BF_WIDTHS_US(SET_ROW, s, 0, 0, 0)
    SET_ROW(f, 32, 0, 32) SET_ROW(f, 64, 0, 64)
};

/* exact-size block that starts on a page boundary: an offset of 4089..4095 puts a datum across the end of a page, an
 * address-dependent fast path (wide loads away from page ends, octet loops near them) then takes its rare branch */
static unsigned char *
page_block(size_t size)
{
    void *p = NULL;
    if (posix_memalign(&p, 4096, size ? size : 1) != 0) { printf("bad-op"); exit(3); }
    return p;
}

/* store / load / store / load / store / load in ONE function, calls written out (no table, no wrapper): the optimiser sees
 * all six calls together - a reader it may assume not to look at memory would be merged with the one before */
struct bf_rsr_entry { const char *name; int rw; void (*call)(unsigned char *, uint64_t, uint64_t, uint64_t *); };
#define RSR_US(k, bits, T, W) RSR_1(k, bits, T, W, n) RSR_1(k, bits, T, W, b) RSR_1(k, bits, T, W, l)
#define RSR_1(k, bits, T, W, o) \
    static void rsr_##k##bits##o(unsigned char *p, uint64_t v1, uint64_t v2, uint64_t *out) { \
        bf_set_##k##bits##o(p, (T)v1); out[0] = (uint64_t)(uint##W##_t)bf_ref_##k##bits##o(p); \
        bf_set_##k##bits##o(p, (T)v2); out[1] = (uint64_t)(uint##W##_t)bf_ref_##k##bits##o(p); \
        bf_set_##k##bits##o(p, (T)v1); out[2] = (uint64_t)(uint##W##_t)bf_ref_##k##bits##o(p); }
#define RSR_F(bits, T, U, o) \
    static void rsr_f##bits##o(unsigned char *p, uint64_t v1, uint64_t v2, uint64_t *out) { \
        U u; T f; \
        u = (U)v1; memcpy(&f, &u, sizeof f); bf_set_f##bits##o(p, f); f = bf_ref_f##bits##o(p); memcpy(&u, &f, sizeof u); out[0] = u; \
        u = (U)v2; memcpy(&f, &u, sizeof f); bf_set_f##bits##o(p, f); f = bf_ref_f##bits##o(p); memcpy(&u, &f, sizeof u); out[1] = u; \
        u = (U)v1; memcpy(&f, &u, sizeof f); bf_set_f##bits##o(p, f); f = bf_ref_f##bits##o(p); memcpy(&u, &f, sizeof u); out[2] = u; }
BF_WIDTHS_US(RSR_US, u, uint16_t, uint32_t, uint64_t)
BF_WIDTHS_US(RSR_US, s, int16_t, int32_t, int64_t)
RSR_F(32, float, uint32_t, n) RSR_F(32, float, uint32_t, b) RSR_F(32, float, uint32_t, l)
RSR_F(64, double, uint64_t, n) RSR_F(64, double, uint64_t, b) RSR_F(64, double, uint64_t, l)
#define RSR_ROW(k, bits, T, W) \
    { "bf_ref_" #k #bits "n", W, rsr_##k##bits##n }, { "bf_ref_" #k #bits "b", W, rsr_##k##bits##b }, { "bf_ref_" #k #bits "l", W, rsr_##k##bits##l },
static const struct bf_rsr_entry bf_rsrs[] = {
    BF_WIDTHS_US(RSR_ROW, u, 0, 0, 0) BF_WIDTHS_US(RSR_ROW, s, 0, 0, 0)
    RSR_ROW(f, 32, 0, 32) RSR_ROW(f, 64, 0, 64)
};

static void
bf_op(int argc, char **argv)
{
    const char *op = argv[0];
    char out[256];
    if (strcmp(op, "bf.ref") == 0 && argc == 4) {
        size_t n; unsigned char *octs = parse_hex(argv[2], &n);
        size_t align = parse_u64(argv[3]);
        if (!octs) { printf("bad-op"); return; }
        for (size_t i = 0; i < sizeof bf_refs / sizeof *bf_refs; i++) {
            if (strcmp(bf_refs[i].name, argv[1]) == 0 && (size_t)bf_refs[i].nbytes == n) {
                unsigned char *blk = page_block(align + n);      /* exact size, value at offset align of a page */
                memcpy(blk + align, octs, n);
                uint64_t v = bf_refs[i].call(blk + align);
                snprintf(out, sizeof out, "%0*" PRIx64, bf_refs[i].rw / 4, v);
                printf("%s ## %s", out, out);
                free(blk); free(octs);
                return;
            }
        }
        free(octs);
        printf("bad-op");
    } else if (strcmp(op, "bf.set") == 0 && argc == 4) {
        uint64_t v = strtoull(argv[2], NULL, 16);
        size_t align = parse_u64(argv[3]);
        for (size_t i = 0; i < sizeof bf_sets / sizeof *bf_sets; i++) {
            if (strcmp(bf_sets[i].name, argv[1]) == 0) {
                size_t n = (size_t)bf_sets[i].nbytes;
                unsigned char *blk = page_block(align + n);
                memset(blk, 0xee, align + n);
                unsigned char *ret = bf_sets[i].call(blk + align, v);
                bool pre = true;
                for (size_t k = 0; k < align; k++) pre = pre && blk[k] == 0xee;
                int len = snprintf(out, sizeof out, "ret=%td out=", ret - (blk + align));
                for (size_t k = 0; k < n; k++) len += snprintf(out + len, sizeof out - len, "%02x", blk[align + k]);
                snprintf(out + len, sizeof out - len, " pre=%s", pre ? "ok" : "bad");
                printf("%s ## %s", out, out);
                free(blk);
                return;
            }
        }
        printf("bad-op");
    } else if (strcmp(op, "bf.rsr") == 0 && argc == 5) {
        uint64_t v1 = strtoull(argv[2], NULL, 16), v2 = strtoull(argv[3], NULL, 16);
        size_t align = parse_u64(argv[4]);
        for (size_t i = 0; i < sizeof bf_rsrs / sizeof *bf_rsrs; i++) {
            if (strcmp(bf_rsrs[i].name, argv[1]) == 0) {
                unsigned char *blk = page_block(align + 8);
                memset(blk, 0xee, align + 8);
                uint64_t o[3] = { 0, 0, 0 };
                bf_rsrs[i].call(blk + align, v1, v2, o);
                int w = bf_rsrs[i].rw / 4;
                snprintf(out, sizeof out, "%0*" PRIx64 " %0*" PRIx64 " %0*" PRIx64, w, o[0], w, o[1], w, o[2]);
                printf("%s ## %s", out, out);
                free(blk);
                return;
            }
        }
        printf("bad-op");
    } else if (strcmp(op, "bf.setc") == 0 && argc == 4) {
        /* the k-th call of bf_consts.inc: the argument is a literal, so the compiler sees a constant where the
         * table-driven operations above hand over run-time values */
        size_t k = parse_u64(argv[1]);
        unsigned char blk[4 + 8 + 4];
        memset(blk, 0xee, sizeof blk);
        unsigned char *ret = NULL;
        size_t n = 0;
        const char *nm = NULL;
        uint64_t pat = 0;
        switch (k) {
#define X(idx, fn, nbytes, lit, pattern) \
        case idx: ret = (unsigned char *)fn(blk + 4, lit); n = nbytes; nm = #fn; pat = pattern; break;
#include "bf_consts.inc"
#undef X
        default: printf("bad-op"); return;
        }
        if (strcmp(nm, argv[2]) != 0 || pat != strtoull(argv[3], NULL, 16)) { printf("bad-op"); return; }
        bool pre = blk[0] == 0xee && blk[1] == 0xee && blk[2] == 0xee && blk[3] == 0xee;
        for (size_t i = 4 + n; i < sizeof blk; i++) pre = pre && blk[i] == 0xee;
        int len = snprintf(out, sizeof out, "ret=%td out=", ret - (blk + 4));
        for (size_t i = 0; i < n; i++) len += snprintf(out + len, sizeof out - len, "%02x", blk[4 + i]);
        snprintf(out + len, sizeof out - len, " pre=%s", pre ? "ok" : "bad");
        printf("%s ## %s", out, out);
    } else if (strcmp(op, "bf.sweep") == 0 && argc == 4) {
        const char *nm = argv[1];
        uint64_t lo = parse_u64(argv[2]), hi = parse_u64(argv[3]);
        unsigned long long acc = 0;
#define MIX(a, r) ((unsigned long long)(((unsigned __int128)(a) * 31 + (r) + 1) % 18446744073709551557ull))
        bool found = false;
        for (size_t i = 0; i < sizeof bf_refs / sizeof *bf_refs && !found; i++) {
            if (strcmp(bf_refs[i].name, nm) == 0) {
                size_t n = (size_t)bf_refs[i].nbytes;
                unsigned char *blk = malloc(n);
                for (uint64_t v = lo; v < hi; v++) {
                    for (size_t k = 0; k < n; k++) blk[k] = (unsigned char)(v >> (8 * k));
                    acc = MIX(acc, bf_refs[i].call(blk));
                }
                free(blk);
                found = true;
            }
        }
        for (size_t i = 0; i < sizeof bf_sets / sizeof *bf_sets && !found; i++) {
            if (strcmp(bf_sets[i].name, nm) == 0) {
                size_t n = (size_t)bf_sets[i].nbytes;
                unsigned char *blk = malloc(n);
                for (uint64_t v = lo; v < hi; v++) {
                    bf_sets[i].call(blk, v);
                    unsigned long long a = 0;
                    for (size_t k = 0; k < n; k++) a = MIX(a, blk[k]);
                    acc = MIX(acc, a);
                }
                free(blk);
                found = true;
            }
        }
        if (!found) {
            for (uint64_t v = lo; v < hi; v++) {
                uint64_t r;
                if (strcmp(nm, "bf_swap16") == 0) r = bf_swap16((uint16_t)v);
                else if (strcmp(nm, "bf_swap24") == 0) r = bf_swap24((uint32_t)v);
                else if (strcmp(nm, "bf_swap32") == 0) r = bf_swap32((uint32_t)v);
                else if (strcmp(nm, "bf_swap40") == 0) r = bf_swap40(v);
                else if (strcmp(nm, "bf_swap48") == 0) r = bf_swap48(v);
                else if (strcmp(nm, "bf_swap56") == 0) r = bf_swap56(v);
                else if (strcmp(nm, "bf_swap64") == 0) r = bf_swap64(v);
                else if (strcmp(nm, "bf_inrange_u24") == 0) r = bf_inrange_u24((uint32_t)v);
                else if (strcmp(nm, "bf_inrange_s24") == 0) r = bf_inrange_s24((int32_t)(uint32_t)v);
                else if (strcmp(nm, "bf_inrange_u40") == 0) r = bf_inrange_u40(v);
                else if (strcmp(nm, "bf_inrange_s40") == 0) r = bf_inrange_s40((int64_t)v);
                else if (strcmp(nm, "bf_inrange_u48") == 0) r = bf_inrange_u48(v);
                else if (strcmp(nm, "bf_inrange_s48") == 0) r = bf_inrange_s48((int64_t)v);
                else if (strcmp(nm, "bf_inrange_u56") == 0) r = bf_inrange_u56(v);
                else if (strcmp(nm, "bf_inrange_s56") == 0) r = bf_inrange_s56((int64_t)v);
                else { printf("bad-op"); return; }
                acc = MIX(acc, r);
            }
        }
        printf("%llu ## %llu", acc, acc);
    } else if (strcmp(op, "bf.swap") == 0 && argc == 3) {
        uint64_t v = strtoull(argv[2], NULL, 16), r; int w;
        const char *nm = argv[1];
        if (strcmp(nm, "bf_swap16") == 0) { r = bf_swap16((uint16_t)v); w = 16; }
        else if (strcmp(nm, "bf_swap24") == 0) { r = bf_swap24((uint32_t)v); w = 32; }
        else if (strcmp(nm, "bf_swap32") == 0) { r = bf_swap32((uint32_t)v); w = 32; }
        else if (strcmp(nm, "bf_swap40") == 0) { r = bf_swap40(v); w = 64; }
        else if (strcmp(nm, "bf_swap48") == 0) { r = bf_swap48(v); w = 64; }
        else if (strcmp(nm, "bf_swap56") == 0) { r = bf_swap56(v); w = 64; }
        else if (strcmp(nm, "bf_swap64") == 0) { r = bf_swap64(v); w = 64; }
        else { printf("bad-op"); return; }
        snprintf(out, sizeof out, "%0*" PRIx64, w / 4, r);
        printf("%s ## %s", out, out);
    } else if (strcmp(op, "bf.inrange") == 0 && argc == 3) {
        uint64_t v = strtoull(argv[2], NULL, 16); bool r;
        const char *nm = argv[1];
        if (strcmp(nm, "bf_inrange_u24") == 0) r = bf_inrange_u24((uint32_t)v);
        else if (strcmp(nm, "bf_inrange_s24") == 0) r = bf_inrange_s24((int32_t)(uint32_t)v);
        else if (strcmp(nm, "bf_inrange_u40") == 0) r = bf_inrange_u40(v);
        else if (strcmp(nm, "bf_inrange_s40") == 0) r = bf_inrange_s40((int64_t)v);
        else if (strcmp(nm, "bf_inrange_u48") == 0) r = bf_inrange_u48(v);
        else if (strcmp(nm, "bf_inrange_s48") == 0) r = bf_inrange_s48((int64_t)v);
        else if (strcmp(nm, "bf_inrange_u56") == 0) r = bf_inrange_u56(v);
        else if (strcmp(nm, "bf_inrange_s56") == 0) r = bf_inrange_s56((int64_t)v);
        else { printf("bad-op"); return; }
        printf("%s ## %s", r ? "true" : "false", r ? "true" : "false");
    } else {
        printf("bad-op");
    }
}

static void
harness_reset(void)
{
}

static void
harness_op(int argc, char **argv)
{
    if (strncmp(argv[0], "vi.", 3) == 0) vi_op(argc, argv);
#ifdef HAVE_CRC_OPS
    else if (strncmp(argv[0], "crc.", 4) == 0) crc_op(argc, argv);
#endif
#ifdef HAVE_BF_OPS
    else if (strncmp(argv[0], "bf.", 3) == 0) bf_op(argc, argv);
#endif
    else printf("bad-op");
}

int
main(void)
{
    return harness_main();
}
