/* Correspondence harness for the codec group: varint (C14), CRC-16/ARC (C16), endian codecs (C15). */
#include "common.h"

#include <ufw/byte-buffer.h>
#include <ufw/endpoints.h>
#include <ufw/variable-length-integer.h>

/* ---- scripted octet source / chunk sink ----------------------------- */

struct osrc { const unsigned char *p; size_t n, pos; };

static int
osrc_get(void *drv, void *data)
{
    struct osrc *s = drv;
    if (s->pos >= s->n) return -ENODATA;
    *(unsigned char *)data = s->p[s->pos++];
    return 1;
}

struct csnk { unsigned char buf[64]; size_t n; };

static ssize_t
csnk_put(void *drv, const void *data, size_t n)
{
    struct csnk *s = drv;
    if (s->n + n > sizeof s->buf) return -ENOMEM;
    memcpy(s->buf + s->n, data, n);
    s->n += n;
    return (ssize_t)n;
}

/* ---- varint --------------------------------------------------------- */

static void
print_dec_result(int rc, const char *ty, uint64_t u)
{
    if (rc < 0) { printf("err:%s", errname(rc)); return; }
    printf("ok:%d value=", rc);
    if (strcmp(ty, "u32") == 0) printf("%" PRIu32, (uint32_t)u);
    else if (strcmp(ty, "s32") == 0) printf("%" PRId32, (int32_t)(uint32_t)u);
    else if (strcmp(ty, "u64") == 0) printf("%" PRIu64, u);
    else printf("%" PRId64, (int64_t)u);
}

static void
vi_op(int argc, char **argv)
{
    const char *op = argv[0];
    const char *ty = argc > 1 ? argv[1] : "";
    bool is32 = ty[1] == '3', sgn = ty[0] == 's';
    if (strcmp(op, "vi.len") == 0 && argc == 3) {
        size_t n;
        if (is32 && sgn) n = varint_s32_length((int32_t)strtoll(argv[2], NULL, 10));
        else if (is32) n = varint_u32_length((uint32_t)strtoull(argv[2], NULL, 10));
        else if (sgn) n = varint_s64_length(strtoll(argv[2], NULL, 10));
        else n = varint_u64_length(strtoull(argv[2], NULL, 10));
        printf("%zu", n);
    } else if (strcmp(op, "vi.enc") == 0 && argc == 6) {
        size_t size = parse_u64(argv[3]);
        unsigned char *mem = calloc(size ? size : 1, 1);
        ByteBuffer b = { .data = mem, .size = size, .used = parse_u64(argv[4]), .offset = parse_u64(argv[5]) };
        int rc;
        if (is32 && sgn) rc = varint_encode_s32(&b, (int32_t)strtoll(argv[2], NULL, 10));
        else if (is32) rc = varint_encode_u32(&b, (uint32_t)strtoull(argv[2], NULL, 10));
        else if (sgn) rc = varint_encode_s64(&b, strtoll(argv[2], NULL, 10));
        else rc = varint_encode_u64(&b, strtoull(argv[2], NULL, 10));
        if (rc < 0) printf("err:%s", errname(rc)); else printf("ok:%d", rc);
        printf(" used=%zu off=%zu mem=", b.used, b.offset);
        print_hex(mem, size);
        free(mem);
    } else if (strcmp(op, "vi.decbuf") == 0 && argc == 5) {
        size_t n;
        unsigned char *mem = parse_hex(argv[2], &n);      /* exact-size heap block */
        if (!mem) { printf("bad-op"); return; }
        size_t off = parse_u64(argv[3]);
        ByteBuffer b = { .data = mem, .size = n, .used = strcmp(argv[4], "full") == 0 ? n : 0, .offset = off };
        if (b.used < off) b.used = off <= n ? off : n;
        uint64_t u = 0; uint32_t u32v = 0; int32_t s32v = 0; int64_t s64v = 0;
        int rc;
        if (is32 && sgn) { rc = varint_decode_s32(&b, &s32v); u = (uint32_t)s32v; }
        else if (is32) { rc = varint_decode_u32(&b, &u32v); u = u32v; }
        else if (sgn) { rc = varint_decode_s64(&b, &s64v); u = (uint64_t)s64v; }
        else rc = varint_decode_u64(&b, &u);
        print_dec_result(rc, ty, u);
        printf(" off=%zu", b.offset);
        free(mem);
    } else if (strcmp(op, "vi.decsrc") == 0 && argc == 3) {
        size_t n;
        unsigned char *mem = parse_hex(argv[2], &n);
        if (!mem) { printf("bad-op"); return; }
        struct osrc drv = { mem, n, 0 };
        Source src = OCTET_SOURCE_INIT(osrc_get, &drv);
        uint64_t u = 0; uint32_t u32v = 0; int32_t s32v = 0; int64_t s64v = 0;
        int rc;
        if (is32 && sgn) { rc = varint_s32_from_source(&src, &s32v); u = (uint32_t)s32v; }
        else if (is32) { rc = varint_u32_from_source(&src, &u32v); u = u32v; }
        else if (sgn) { rc = varint_s64_from_source(&src, &s64v); u = (uint64_t)s64v; }
        else rc = varint_u64_from_source(&src, &u);
        print_dec_result(rc, ty, u);
        if (rc >= 0) printf(" taken=%zu", drv.pos);
        free(mem);
    } else if (strcmp(op, "vi.tosink") == 0 && argc == 3) {
        struct csnk drv = { .n = 0 };
        Sink snk = CHUNK_SINK_INIT(csnk_put, &drv);
        int rc;
        if (is32 && sgn) rc = varint_s32_to_sink(&snk, (int32_t)strtoll(argv[2], NULL, 10));
        else if (is32) rc = varint_u32_to_sink(&snk, (uint32_t)strtoull(argv[2], NULL, 10));
        else if (sgn) rc = varint_s64_to_sink(&snk, strtoll(argv[2], NULL, 10));
        else rc = varint_u64_to_sink(&snk, strtoull(argv[2], NULL, 10));
        if (rc < 0) printf("err:%s", errname(rc)); else printf("ok:%d", rc);
        printf(" out=");
        print_hex(drv.buf, drv.n);
    } else {
        printf("bad-op");
    }
}

/* ---- CRC-16/ARC ------------------------------------------------------ */

#include <ufw/crc/crc16-arc.h>
#define HAVE_CRC_OPS

static void
crc_op(int argc, char **argv)
{
    const char *op = argv[0];
    char out[2048];
    if (strcmp(op, "crc.buf") == 0 && argc == 3) {
        size_t n; unsigned char *buf = parse_hex(argv[2], &n);
        if (!buf) { printf("bad-op"); return; }
        snprintf(out, sizeof out, "%04x", ufw_crc16_arc((uint16_t)strtoul(argv[1], NULL, 16), buf, n));
        free(buf);
    } else if (strcmp(op, "crc.split") == 0 && argc == 4) {
        size_t n; unsigned char *buf = parse_hex(argv[2], &n);
        if (!buf) { printf("bad-op"); return; }
        size_t k = parse_u64(argv[3]); if (k > n) k = n;
        uint16_t init = (uint16_t)strtoul(argv[1], NULL, 16);
        /* second part in its own exact-size block */
        unsigned char *b2 = malloc(n - k ? n - k : 1);
        memcpy(b2, buf + k, n - k);
        uint16_t whole = ufw_crc16_arc(init, buf, n);
        uint16_t split = ufw_crc16_arc(ufw_crc16_arc(init, buf, k), b2, n - k);
        snprintf(out, sizeof out, "whole=%04x split=%04x", whole, split);
        free(b2); free(buf);
    } else if (strcmp(op, "crc.u16") == 0 && argc == 3) {
        size_t n; unsigned char *buf = parse_hex(argv[2], &n);
        if (!buf) { printf("bad-op"); return; }
        uint16_t *w = malloc((n / 2) * 2 ? (n / 2) * 2 : 2);
        memcpy(w, buf, (n / 2) * 2);
        snprintf(out, sizeof out, "%04x", ufw_crc16_arc_u16((uint16_t)strtoul(argv[1], NULL, 16), w, n / 2));
        free(w); free(buf);
    } else if (strcmp(op, "crc.initial") == 0 && argc == 2) {
        size_t n; unsigned char *buf = parse_hex(argv[1], &n);
        if (!buf) { printf("bad-op"); return; }
        snprintf(out, sizeof out, "%04x", ufw_buffer_crc16_arc(buf, n));
        free(buf);
    } else if (strcmp(op, "crc.table") == 0) {
        for (unsigned i = 0; i < 256; i++) {
            unsigned char d = (unsigned char)i;
            snprintf(out + 4 * i, 5, "%04x", ufw_crc16_arc(0, &d, 1));
        }
    } else if (strcmp(op, "crc.sweep") == 0 && argc == 3) {
        unsigned long lo = parse_u64(argv[1]), hi = parse_u64(argv[2]);
        unsigned long long acc = 0;
        for (unsigned long s = lo; s < hi; s++)
            for (unsigned d = 0; d < 256; d++) {
                unsigned char o = (unsigned char)d;
                acc = (unsigned long long)(((unsigned __int128)acc * 31 + ufw_crc16_arc((uint16_t)s, &o, 1) + 1) % 18446744073709551557ull);
            }
        snprintf(out, sizeof out, "%llu", acc);
    } else {
        printf("bad-op");
        return;
    }
    printf("%s ## %s", out, out);
}
#ifdef HAVE_BF_OPS
static void bf_op(int argc, char **argv);
#endif

static void
harness_reset(void)
{
}

static void
harness_op(int argc, char **argv)
{
    if (strncmp(argv[0], "vi.", 3) == 0) vi_op(argc, argv);
#ifdef HAVE_CRC_OPS
    else if (strncmp(argv[0], "crc.", 4) == 0) crc_op(argc, argv);
#endif
#ifdef HAVE_BF_OPS
    else if (strncmp(argv[0], "bf.", 3) == 0) bf_op(argc, argv);
#endif
    else printf("bad-op");
}

int
main(void)
{
    return harness_main();
}
