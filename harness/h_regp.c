/* Correspondence harness for the register protocol (C06-C09).
 *
 * The instance talks to a scripted octet source (octets and error codes; exhausted =
 * -ENODATA), an octet sink with limited room, an allocator that hands out heap blocks of
 * EXACTLY the configured block size (ASan sees every access beyond them), fails according
 * to a script and keeps a ledger, and a memory backend that records every call together
 * with the room between the buffer it was handed and the end of the block. */
#include "common.h"

#include <ufw/allocator.h>
#include <ufw/endpoints.h>
#include <ufw/register-protocol.h>

static RegP p;
static RPMaybeFrame mf;
static RPFrame *stale_frame;   /* what the caller's RPMaybeFrame still points to after regp_free() */
static bool frame_freed;
static bool ready;
static bool mem16;

/* source */
static int *events;
static size_t nev, evcap, evpos;
/* sink */
static unsigned char *out;
static size_t nout, outcap, mark;
static size_t room;
static int fullerr;
/* allocator */
static BlockAllocator alloc;
static char ascript[256];
static size_t apos;
#define MAXLIVE 16
static void *liveblk[MAXLIVE];
static size_t nlive;
static bool ledger_bad;
static unsigned char *lastblk;
/* backend */
static unsigned bestatus, beaddr, beseed;
static char calls[16384];
static size_t callslen;

static void
ev_push(int e)
{
    if (nev == evcap) { evcap = evcap ? evcap * 2 : 256; events = realloc(events, evcap * sizeof *events); }
    events[nev++] = e;
}

static int
src_octet(void *driver, void *data)
{
    (void)driver;
    if (evpos >= nev) return -ENODATA;
    int e = events[evpos++];
    if (e < 0) return e;
    *(unsigned char *)data = (unsigned char)e;
    return 1;
}

/* a sink that is busy once: the busy_at-th call from now answers -EAGAIN / -EINTR and takes nothing */
static long busy_at = -1;
static int busy_err = EAGAIN;

static bool
busy_now(void)
{
    if (busy_at < 0) return false;
    if (busy_at-- == 0) return true;
    return false;
}

static int
snk_octet(void *driver, unsigned char c)
{
    (void)driver;
    if (busy_now()) return -busy_err;
    if (room == 0) return -fullerr;
    if (nout == outcap) { outcap = outcap ? outcap * 2 : 256; out = realloc(out, outcap); }
    out[nout++] = c;
    room--;
    return 1;
}

/* the same sink in chunk style: takes at most `trickle` octets per call (what a socket or a pipe does) */
static size_t trickle = 0;

static ssize_t
snk_chunk(void *driver, const void *buf, size_t n)
{
    (void)driver;
    if (busy_now()) return -busy_err;
    if (room == 0) return -fullerr;
    size_t k = n;
    if (trickle && k > trickle) k = trickle;
    if (k > room) k = room;
    const unsigned char *b = buf;
    for (size_t i = 0; i < k; i++) {
        if (nout == outcap) { outcap = outcap ? outcap * 2 : 256; out = realloc(out, outcap); }
        out[nout++] = b[i];
    }
    room -= k;
    return (ssize_t)k;
}

static int
my_alloc(void *driver, void **m, size_t n)
{
    (void)driver;
    bool fail = ascript[apos] == 'f';
    if (ascript[apos]) apos++;
    if (fail || nlive == MAXLIVE) { *m = NULL; return -ENOMEM; }
    *m = malloc(n);
    liveblk[nlive++] = *m;
    lastblk = *m;
    return 0;
}

static void
my_free(void *driver, void *m)
{
    (void)driver;
    for (size_t i = 0; i < nlive; i++) {
        if (liveblk[i] == m) {
            liveblk[i] = liveblk[--nlive];
            free(m);
            return;
        }
    }
    ledger_bad = true;      /* released twice, or never handed out */
}

static void
print_live(void)
{
    if (ledger_bad) printf("BAD"); else printf("%zu", nlive);
}

static long
room_of(const void *buf)
{
    const unsigned char *b = buf;
    if (lastblk && b >= lastblk && b <= lastblk + alloc.blocksize) return (long)(lastblk + alloc.blocksize - b);
    return -1;
}

static void
log_call(const char *kind, uint32_t addr, size_t bsize, const void *buf, size_t octets, bool write)
{
    callslen += snprintf(calls + callslen, sizeof calls - callslen, "%s%s@%" PRIu32 "+%zu/%ld",
                         callslen ? "," : "", kind, addr, bsize, room_of(buf));
    if (write) {
        callslen += snprintf(calls + callslen, sizeof calls - callslen, ":");
        const unsigned char *b = buf;
        if (octets == 0) callslen += snprintf(calls + callslen, sizeof calls - callslen, "-");
        for (size_t i = 0; i < octets && callslen + 3 < sizeof calls; i++)
            callslen += snprintf(calls + callslen, sizeof calls - callslen, "%02x", b[i]);
    }
}

static RPBlockAccess
be_result(void)
{
    RPBlockAccess rv = { .status = (RPResponse)bestatus, .address = beaddr };
    return rv;
}

static void
fill(void *buf, size_t octets)
{
    unsigned char *b = buf;
    for (size_t i = 0; i < octets; i++) b[i] = (unsigned char)(beseed + 7 * i);
}

static RPBlockAccess
be_read16(uint32_t addr, size_t bsize, uint16_t *buf)
{
    log_call("r16", addr, bsize, buf, 0, false);
    if (bestatus == 0) fill(buf, bsize * 2);
    return be_result();
}

static RPBlockAccess
be_write16(uint32_t addr, size_t bsize, const uint16_t *buf)
{
    log_call("w16", addr, bsize, buf, bsize * 2, true);
    return be_result();
}

static RPBlockAccess
be_read8(uint32_t addr, size_t bsize, uint8_t *buf)
{
    log_call("r8", addr, bsize, buf, 0, false);
    if (bestatus == 0) fill(buf, bsize);
    return be_result();
}

static RPBlockAccess
be_write8(uint32_t addr, size_t bsize, const uint8_t *buf)
{
    log_call("w8", addr, bsize, buf, bsize, true);
    return be_result();
}

static void
release_all(void)
{
    for (size_t i = 0; i < nlive; i++) free(liveblk[i]);
    nlive = 0;
    lastblk = NULL;
    ledger_bad = false;
}

static void
harness_reset(void)
{
    release_all();
    nev = evpos = 0;
    nout = mark = 0;
    ready = false;
    memset(&mf, 0, sizeof mf);
    stale_frame = NULL; frame_freed = false;
    ascript[0] = 0; apos = 0;
    bestatus = beaddr = beseed = 0;
}

static void
print_rc0(int rc)
{
    if (rc == 0) printf("ok");
    else if (rc > 0) printf("pos%d", rc);
    else printf("%s", errname(-rc));
}

static void
print_reply(void)
{
    if (nout == mark) putchar('-'); else print_hex(out + mark, nout - mark);
}

static bool
parsed(void)
{
    return mf.frame != NULL && (mf.error.id == 0 || mf.error.id == EFAULT || mf.error.id == EPROTO);
}

static void
print_frame(bool with_crcs)
{
    if (mf.frame == NULL) { printf("null"); return; }
    if (!parsed()) { printf("raw"); return; }
    const RPFrame *f = mf.frame;
    printf("t=%d,o=%u,m=%u,s=%u,a=%" PRIu32 ",n=%" PRIu32, (int)f->header.type, (unsigned)f->header.options,
           f->header.meta.raw, (unsigned)f->header.sequence, f->header.address, f->header.blocksize);
    if (with_crcs) printf(",hc=%u,pc=%u", (unsigned)f->header.hdcrc, (unsigned)f->header.plcrc);
    printf(",pl=");
    print_hex(f->payload.data, f->payload.size);
}

static const char *
verdict(int rc)
{
    switch (mf.error.id) {
    case 0: return (rc < 0 && mf.frame == NULL) ? "chan" : "accept";
    case EBADMSG: return "enc";
    case EILSEQ: return "hcrc";
    case EFAULT: return "size";
    case EPROTO: return "pcrc";
    case EBUSY: return "busy";
    case ENOMEM: return "overflow";
    default: return errname(mf.error.id);
    }
}

static char dbg_first[4096];
static bool alignment_matters;   /* set by the emitters that run twice with the payload at different addresses */

static void
emit_line(int rc, bool with_seq)
{
    for (int v = 0; v < 2; v++) {
        printf("rc="); print_rc0(rc);
        if (with_seq) printf(" seq=%u", (unsigned)p.session.sequence);
        printf(" wire="); print_reply();
        if (alignment_matters) printf(" depends-on-payload-alignment(first=%s)", dbg_first);
        if (v == 0) printf(" ## ");
    }
    alignment_matters = false;
}

static int
respcode(const char *n, bool *has_value)
{
    static const struct { const char *n; int c; bool v; } tab[] = {
        {"ewordsize", 1, false}, {"epayloadcrc", 2, false}, {"epayloadsize", 3, false}, {"erxoverflow", 4, true},
        {"etxoverflow", 5, true}, {"ebusy", 6, false}, {"eunmapped", 7, true}, {"eaccess", 8, true},
        {"erange", 9, true}, {"einvalid", 10, true}, {"eio", 11, false},
    };
    for (size_t i = 0; i < sizeof tab / sizeof *tab; i++)
        if (strcmp(tab[i].n, n) == 0) { *has_value = tab[i].v; return tab[i].c; }
    return -1;
}

static void
harness_op(int argc, char **argv)
{
    const char *op = argv[0];
    mark = nout;
    callslen = 0; calls[0] = 0;
    if (strcmp(op, "rp.cfg") == 0 && argc == 5) {
        size_t B = parse_u64(argv[3]), F = parse_u64(argv[4]);
        bool m8 = strcmp(argv[1], "8") == 0, m16 = strcmp(argv[1], "16") == 0;
        bool ser = strcmp(argv[2], "serial") == 0, tcp = strcmp(argv[2], "tcp") == 0;
        if (!(m8 || m16) || !(ser || tcp) || B == 0) { printf("bad-op"); return; }
        harness_reset();
        memset(&p, 0xa5, sizeof p);             /* the initialiser must set every field it relies on */
        regp_init(&p);
        mem16 = m16;
        if (m16) regp_use_memory16(&p, be_read16, be_write16);
        else regp_use_memory8(&p, be_read8, be_write8);
        Source src; Sink snk;
        octet_source_init(&src, src_octet, NULL);
        octet_sink_init(&snk, snk_octet, NULL);
        regp_use_channel(&p, ser ? RP_EP_SERIAL : RP_EP_TCP, src, snk);
        BlockAllocator a = MAKE_GENERIC_BLOCKALLOC(NULL, my_alloc, my_free, B);
        alloc = a;
        regp_use_allocator(&p, &alloc);
        room = 1000000; fullerr = ENOMEM;
        ready = true;
        printf("ok F=%zu", sizeof(RPFrame));
        return;
    }
    if (!ready) { printf("bad-op"); return; }
    if (strcmp(op, "rp.alloc") == 0 && argc == 2) {
        snprintf(ascript, sizeof ascript, "%s", strcmp(argv[1], "-") == 0 ? "" : argv[1]);
        apos = 0;
        printf("ok");
    } else if (strcmp(op, "rp.sinkmode") == 0 && argc == 2) {
        /* what reaches the wire must not depend on the style of the sink driver: octet by octet, or chunks of
         * which the driver takes at most k octets per call (chunk:0 = everything it is offered) */
        Sink snk;
        if (strcmp(argv[1], "octet") == 0) octet_sink_init(&snk, snk_octet, NULL);
        else if (strncmp(argv[1], "chunk:", 6) == 0) { trickle = parse_u64(argv[1] + 6); chunk_sink_init(&snk, snk_chunk, NULL); }
        else { printf("bad-op"); return; }
        p.ep.sink = snk;
        printf("ok");
    } else if (strcmp(op, "rp.sinkbusy") == 0 && argc == 3) {
        int e = errbyname(argv[2]);
        if (!e) { printf("bad-op"); return; }
        busy_at = strcmp(argv[1], "never") == 0 ? -1 : (long)parse_u64(argv[1]);
        busy_err = e;
        printf("ok");
    } else if (strcmp(op, "rp.sink") == 0 && argc == 3) {
        int e = errbyname(argv[2]);
        if (!e) { printf("bad-op"); return; }
        room = strcmp(argv[1], "inf") == 0 ? 1000000 : parse_u64(argv[1]);
        fullerr = e;
        printf("ok");
    } else if (strcmp(op, "rp.src") == 0) {
        /* validate first, then append */
        for (int i = 1; i < argc; i++) {
            if (argv[i][0] == '!') { if (!errbyname(argv[i] + 1)) { printf("bad-op"); return; } }
            else { size_t n; unsigned char *d = parse_hex(argv[i], &n); if (!d) { printf("bad-op"); return; } free(d); }
        }
        /* compact the consumed part */
        if (nev > evpos) memmove(events, events + evpos, (nev - evpos) * sizeof *events);
        nev -= evpos; evpos = 0;
        for (int i = 1; i < argc; i++) {
            if (argv[i][0] == '!') ev_push(-errbyname(argv[i] + 1));
            else {
                size_t n; unsigned char *d = parse_hex(argv[i], &n);
                for (size_t k = 0; k < n; k++) ev_push(d[k]);
                free(d);
            }
        }
        printf("ok");
    } else if (strcmp(op, "rp.loopback") == 0 && argc == 1) {
        for (size_t k = 0; k < nout; k++) ev_push(out[k]);
        printf("ok n=%zu", nout);
        nout = mark = 0;
    } else if (strcmp(op, "rp.seq") == 0 && argc == 2) {
        p.session.sequence = (uint16_t)parse_u64(argv[1]);
        printf("ok");
    } else if (strcmp(op, "rp.backend") == 0 && argc == 4) {
        bestatus = (unsigned)parse_u64(argv[1]);
        beaddr = (unsigned)parse_u64(argv[2]);
        beseed = (unsigned)parse_u64(argv[3]);
        printf("ok");
    } else if ((strcmp(op, "rp.recv") == 0 && argc == 1) || (strcmp(op, "rp.recvx") == 0 && argc == 3)) {
        /* rp.recvx <tag> <hex>: a damaged copy of a valid frame (in its envelope) is fed and received in one
         * operation; the tag is for the property-level view of the model driver only */
        if (argc == 3) {
            size_t n; unsigned char *d = parse_hex(argv[2], &n);
            if (!d) { printf("bad-op"); return; }
            for (size_t k = 0; k < n; k++) ev_push(d[k]);
            free(d);
        }
        if (mf.frame != NULL) { printf("bad-op"); return; }
        /* the documented receive loop reuses one RPMaybeFrame and does not clear it after regp_free(): hand
         * regp_recv() exactly that - a structure whose frame member still holds the released block */
        if (frame_freed) { mf.frame = stale_frame; frame_freed = false; }
        int rc = regp_recv(&p, &mf);
        printf("rc="); print_rc0(rc);
        printf(" err=%s fsz=%zu frame=", mf.error.id ? errname(mf.error.id) : "0", mf.error.framesize);
        print_frame(true);
        printf(" live="); print_live();
        printf(" reply="); print_reply();
        printf(" ## v=%s frame=", verdict(rc));
        print_frame(false);
        printf(" live="); print_live();
        printf(" reply="); print_reply();
    } else if (strcmp(op, "rp.process") == 0 && argc == 1) {
        int rc = regp_process(&p, &mf);
        printf("rc="); print_rc0(rc);
        printf(" calls=%s reply=", callslen ? calls : "-"); print_reply();
        printf(" ## calls=%s reply=", callslen ? calls : "-"); print_reply();
    } else if (strcmp(op, "rp.free") == 0 && argc == 1) {
        regp_free(&p, mf.frame);
        if (mf.frame != NULL) { stale_frame = mf.frame; frame_freed = true; }
        mf.frame = NULL;
        printf("live="); print_live();
    } else if (strcmp(op, "rp.req") == 0 && (argc == 4 || argc == 5)) {
        uint32_t a = (uint32_t)parse_u64(argv[2]);
        size_t n = parse_u64(argv[3]);
        int rc;
        if (argc == 4) {
            if (strcmp(argv[1], "r8") == 0) rc = regp_req_read8(&p, a, n);
            else if (strcmp(argv[1], "r16") == 0) rc = regp_req_read16(&p, a, n);
            else { printf("bad-op"); return; }
        } else {
            size_t len; unsigned char *d = parse_hex(argv[4], &len);
            bool w16 = strcmp(argv[1], "w16") == 0;
            if (!d || !(w16 || strcmp(argv[1], "w8") == 0) || len != n * (w16 ? 2 : 1)) { free(d); printf("bad-op"); return; }
            /* what goes on the wire must not depend on where the caller's payload lies in memory: emit once from a
             * shifted copy (odd address for octets, 2 mod 4 for words; exact-size block), take that back, emit again */
            size_t shift = w16 ? 2 : 1;
            unsigned char *sh = malloc(len + shift);
            memcpy(sh + shift, d, len);
            uint16_t seq0 = p.session.sequence;
            size_t room0 = room;
            int rc1 = w16 ? regp_req_write16(&p, a, n, (const uint16_t *)(void *)(sh + shift)) : regp_req_write8(&p, a, n, sh + shift);
            size_t n1 = nout - mark;
            unsigned char *w1 = malloc(n1 ? n1 : 1);
            if (n1) memcpy(w1, out + mark, n1);
            nout = mark; p.session.sequence = seq0; room = room0;
            free(sh);
            rc = w16 ? regp_req_write16(&p, a, n, (const uint16_t *)(void *)d) : regp_req_write8(&p, a, n, d);
            alignment_matters = rc1 != rc || n1 != nout - mark || (n1 && memcmp(w1, out + mark, n1) != 0);
            { size_t q = 0; q += snprintf(dbg_first, sizeof dbg_first, "rc%d:", rc1); for (size_t k = 0; k < n1 && q + 3 < sizeof dbg_first; k++) q += snprintf(dbg_first + q, 3, "%02x", w1[k]); }
            free(w1);
            free(d);
        }
        emit_line(rc, true);
    } else if (strcmp(op, "rp.resp") == 0 && (argc == 5 || argc == 6)) {
        bool hv; int code = respcode(argv[1], &hv);
        if (code < 0 || hv != (argc == 6)) { printf("bad-op"); return; }
        RPFrame f; memset(&f, 0, sizeof f);
        f.header.type = (RPFrameType)parse_u64(argv[2]);
        f.header.sequence = (uint16_t)parse_u64(argv[3]);
        f.header.address = (uint32_t)parse_u64(argv[4]);
        uint32_t v = hv ? (uint32_t)parse_u64(argv[5]) : 0;
        int rc;
        switch (code) {
        case 1: rc = regp_resp_ewordsize(&p, &f); break;
        case 2: rc = regp_resp_epayloadcrc(&p, &f); break;
        case 3: rc = regp_resp_epayloadsize(&p, &f); break;
        case 4: rc = regp_resp_erxoverflow(&p, &f, v); break;
        case 5: rc = regp_resp_etxoverflow(&p, &f, v); break;
        case 6: rc = regp_resp_ebusy(&p, &f); break;
        case 7: rc = regp_resp_eunmapped(&p, &f, v); break;
        case 8: rc = regp_resp_eaccess(&p, &f, v); break;
        case 9: rc = regp_resp_erange(&p, &f, v); break;
        case 10: rc = regp_resp_einvalid(&p, &f, v); break;
        default: rc = regp_resp_eio(&p, &f); break;
        }
        emit_line(rc, false);
    } else if (strcmp(op, "rp.ack") == 0 && argc == 6) {
        RPFrame f; memset(&f, 0, sizeof f);
        f.header.type = (RPFrameType)parse_u64(argv[1]);
        f.header.sequence = (uint16_t)parse_u64(argv[2]);
        f.header.address = (uint32_t)parse_u64(argv[3]);
        size_t n = parse_u64(argv[4]);
        int rc;
        if (strcmp(argv[5], "null") == 0) rc = regp_resp_ack(&p, &f, NULL, n);
        else {
            size_t len; unsigned char *d = parse_hex(argv[5], &len);
            if (!d || len != n * (mem16 ? 2 : 1)) { free(d); printf("bad-op"); return; }
            size_t shift = mem16 ? 2 : 1;
            unsigned char *sh = malloc(len + shift);
            memcpy(sh + shift, d, len);
            size_t room0 = room;
            int rc1 = regp_resp_ack(&p, &f, sh + shift, n);
            size_t n1 = nout - mark;
            unsigned char *w1 = malloc(n1 ? n1 : 1);
            if (n1) memcpy(w1, out + mark, n1);
            nout = mark; room = room0;
            free(sh);
            rc = regp_resp_ack(&p, &f, d, n);
            alignment_matters = rc1 != rc || n1 != nout - mark || (n1 && memcmp(w1, out + mark, n1) != 0);
            free(w1);
            free(d);
        }
        emit_line(rc, false);
    } else if (strcmp(op, "rp.meta") == 0 && argc == 2) {
        int rc = regp_resp_meta(&p, (uint_least8_t)parse_u64(argv[1]));
        emit_line(rc, false);
    } else {
        printf("bad-op");
    }
}

int
main(void)
{
    return harness_main();
}
