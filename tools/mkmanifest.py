#!/usr/bin/env python3
"""Writes MANIFEST.json from the per-property modules in tools/props (claimed
checks) and tools/not_applicable.json (everything else, with a reason)."""
import importlib
import json
import os
import sys

HERE = os.path.dirname(os.path.abspath(__file__))
sys.path.insert(0, os.path.join(HERE, "lib"))
sys.path.insert(0, HERE)
ROOT = os.path.dirname(HERE)

ALL = ["C%02d" % i for i in range(1, 21)]
props = sorted(f[:-3] for f in os.listdir(os.path.join(HERE, "props")) if f.startswith("C") and f.endswith(".py"))
checks = []
for p in props:
    m = importlib.import_module("props." + p)
    checks.append({
        "property_id": p,
        "quick_cmd": "python3 tools/check.py %s --tier quick" % p,
        "thorough_cmd": "python3 tools/check.py %s --tier thorough" % p,
        "evidence_file": "/verif/evidence/%s.json" % p,
        "replay_cmd_template": "python3 tools/check.py %s --replay {path}" % p,
        "engine": "lean4-proof+correspondence",
        "level_claimed": {"category": "proof", "text": m.LEVEL_TEXT, "design_ref": m.DESIGN_REF},
        "level_note": m.LEVEL_NOTE,
        "technique": m.TECHNIQUE,
    })
na = json.load(open(os.path.join(HERE, "not_applicable.json")))
manifest = {
    "version": 1,
    "setup_cmd": "python3 tools/setup.py",
    "hooks": {
        "guard": "FT_UFW_VERIF",
        "enable": "none needed: every observation point is reachable through the public API; the harnesses compile /repo's sources unchanged",
        "baseline_off_cmd": "sh tools/baseline.sh",
        "source_commits": [],
        "add_only": True,
    },
    "engines": [{
        "name": "lean4-proof+correspondence",
        "path": "tools/check.py",
        "serves_properties": props,
        "kind_free_text": "Lean 4 theorems over an executable model (lean/Ufw), model tied to /repo on every run by translators "
                          "(tools/gen -> lean/Ufw/Gen) and by a differential correspondence check of compiled model driver vs. "
                          "ASan/UBSan harness linking /repo's sources",
    }],
    "checks": checks,
    "not_applicable": [{"property_id": p, "reason": na[p]} for p in ALL if p not in props],
    "notes": "See DESIGN.md. KNOWN_FINDINGS.txt lists repaired defects (fixed:) and recorded ones (known:).",
}
missing = [p for p in ALL if p not in props and p not in na]
assert not missing, missing
with open(os.path.join(ROOT, "MANIFEST.json"), "w") as f:
    json.dump(manifest, f, indent=1)
    f.write("\n")
print("claimed:", props)
