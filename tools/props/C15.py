"""C15 – endian codecs: tie A (translator of binary-format.h) + correspondence cases."""
import os
import random
import sys
from vf import Case
sys.path.insert(0, os.path.join(os.path.dirname(os.path.abspath(__file__)), ".."))
from gen import binfmt

ID = "C15"
DRIVER = "drv_codec"
HARNESS = "h_codec"
GEN = [binfmt.gen]
GEN_IMPORTS = ["Ufw.Gen.BinFmtLEProofs", "Ufw.Gen.BinFmtBEProofs"]
ALLOW_BV = True
WIDTHS = [16, 24, 32, 40, 48, 56, 64]
RULE = ("every bf_ref_*/bf_set_* function (96) with: every octet lane x octet values {00,01,7f,80,ff,random}, all single-bit "
        "patterns, all-ones/sign boundaries, float classes (f32/f64: +-0, subnormals, normals, infinities, quiet and signalling NaNs with "
        "payloads), seeded random values, at offsets 0..7 and 4087..4097 from a page boundary (data across the end of a 4 KiB page) in exact-size heap blocks (ASan) with a pre-filled prefix; all 65536 "
        "values of the 16-bit functions and sampled (thorough: all 2^24) values of the 24-bit functions by in-process sweeps compared through "
        "a rolling hash; swaps and range predicates at boundaries +-1, single bits, random.  Three-way: C vs generated definitions vs "
        "arithmetic spec.  Non-trivial = every case (each exercises a codec on a non-empty value); distinct = distinct operation text.")
EXHAUSTIVE = {"quick": False, "thorough": False}
ASSUMPTIONS = [
    "tie A: every function of binary-format.h is re-translated from the preprocessed header (little- and big-endian host configuration, "
    "mask/shift swap code) on every run and 2 x 310 obligations over the translated definitions are re-checked by Lean",
    "the translator's reading of C (integer promotions, usual arithmetic conversions, literal suffixes, lane of dst[i] in a punned integer) is trusted; "
    "on this little-endian host it is cross-checked by the differential run (both with __builtin_bswap and with the mask/shift code in the thorough tier)",
    "big-endian host configuration cannot be executed here: covered by the translated definitions and their theorems only",
    "floats are bit patterns; that the hardware moves float/double values (incl. signalling NaNs) unchanged is observed by the run, not proved",
]
TRUSTED = ["translator tools/gen/binfmt.py", "harness/h_codec.c + tools/lib/vf.py",
           "bv_decide axioms (one per generated obligation; LRAT certificate checked by compiled Lean code)"]
DESIGN_REF = "DESIGN.md section 0.2 (as built) and section 8, C15"
TECHNIQUE = "translation of binary-format.h to Lean bit-vector definitions regenerated on every run + per-function theorems (bv_decide) against the name-derived spec and an arithmetic spec; differential three-way correspondence"
LEVEL_TEXT = ("Machine-checked proof over definitions regenerated from the source: each of the 111 functions of binary-format.h, in the little- "
              "and the big-endian host configuration, equals the codec its name promises (most/least significant octet first, sign extension, "
              "bit-identical floats), stores write exactly width/8 octets and return the address just past them, load-after-store is the identity "
              "on representable values, swaps are involutions reversing the low width/8 octets, range predicates accept exactly the representable "
              "values - for all inputs.  The arithmetic spec itself is proved to have the listed properties for every octet count.  The C code as "
              "compiled here is compared three-way on lane/boundary/random values, all 16-bit values, and alignment offsets 0..7.")
LEVEL_NOTE = ("Trusted: Lean kernel; axioms propext/Classical.choice/Quot.sound plus one bv_decide axiom per generated obligation; the C-subset "
              "translator; the harness.")


def gen_theorems():
    return getattr(binfmt.gen, "obligations", [])


GEN_OBLIGATIONS = []


def theorem_for(d):
    return "Ufw.Gen.BinFmtLE.<function>_eq_spec / _arith / roundtrip_* (the compiled function disagrees with its codec spec)"


def rw(bits):
    return 16 if bits <= 16 else 32 if bits <= 32 else 64


def float_patterns(bits):
    if bits == 32:
        return [0x00000000, 0x80000000, 0x00000001, 0x807fffff, 0x00800000, 0x7f7fffff, 0xff7fffff, 0x7f800000, 0xff800000,
                0x7fc00000, 0xffc00001, 0x7f800001, 0xff923456, 0x3f800000, 0x7fffffff]
    return [0x0, 0x8000000000000000, 0x1, 0x800fffffffffffff, 0x0010000000000000, 0x7fefffffffffffff, 0x7ff0000000000000,
            0xfff0000000000000, 0x7ff8000000000000, 0xfff8000000000001, 0x7ff0000000000001, 0xfff123456789abcd, 0x3ff0000000000000]


def values_for(bits, W, rnd, nrand):
    n = bits // 8
    vs = {0, (1 << bits) - 1, 1 << (bits - 1), (1 << (bits - 1)) - 1, 1, (1 << W) - 1}
    for lane in range(n):
        for o in (0x01, 0x7f, 0x80, 0xff, rnd.getrandbits(8)):
            vs.add(o << (8 * lane))
            vs.add(((1 << bits) - 1) ^ (o << (8 * lane)))
    for b in range(W):
        vs.add(1 << b)
    x = 0
    for lane in range(n):
        x |= (lane + 1) << (8 * lane)     # 0x0807...0201: every lane distinct
    vs.add(x)
    for _ in range(nrand):
        vs.add(rnd.getrandbits(W))
    return sorted(vs)



# ---- calls with compile-time constant arguments -------------------------------------------------------------------
# An inline function may treat a literal argument differently from a run-time value (constant folding paths guarded
# by __builtin_constant_p, as in linux/swab.h): harness/bf_consts.inc holds one literal call per table row, written
# from this table on every run.

def const_table():
    rows = []
    k = 0
    for kind in "us":
        for bits in WIDTHS:
            W = rw(bits)
            n = bits // 8
            if kind == "u":
                vals = [1, (1 << bits) - 1, 1 << (bits - 1), sum((lane + 1) << (8 * lane) for lane in range(n)),
                        (1 << W) - 1, (0xa5a5a5a5a5a5a5a5 & ((1 << W) - 1))]
            else:
                vals = [-1, -2, -(1 << (bits - 1)), (1 << (bits - 1)) - 1, -4660 if bits > 16 else -466, -500, 0x12,
                        -(sum((lane + 1) << (8 * lane) for lane in range(n)) >> 1)]
            for order in "nbl":
                for v in vals:
                    pat = v & ((1 << W) - 1)
                    if kind == "u":
                        lit = "0x%xu" % v if W < 64 else "0x%xull" % v
                    else:
                        if W == 64:
                            lit = "(-%dll - 1)" % (-v - 1) if v < 0 else "%dll" % v
                        else:
                            lit = "(%d)" % v
                    rows.append((k, "bf_set_%s%d%s" % (kind, bits, order), n, lit, pat, W))
                    k += 1
    return rows


def gen_consts():
    import os, vf
    lines = ["/* GENERATED by tools/props/C15.py (const_table) - do not edit: one call with a literal argument per row */"]
    for k, name, n, lit, pat, W in const_table():
        lines.append("X(%d, %s, %d, %s, 0x%xull)" % (k, name, n, lit, pat))
    vf.write_if_changed(os.path.join(vf.HARNESS, "bf_consts.inc"), "\n".join(lines) + "\n")
    return {"bf_consts.inc": "generated(%d literal calls)" % len(const_table())}


GEN.append(gen_consts)


def place(rnd):
    """offset of the datum from a page boundary: mostly 0..7, one in four across or next to the end of a 4 KiB page"""
    return rnd.randint(0, 7) if rnd.random() < 0.75 else rnd.randint(4096 - 9, 4096 + 1)


def cases(tier, seed):
    rnd = random.Random(seed)
    cs = []
    nrand = 40 if tier == "quick" else 2000
    kinds = [("u", WIDTHS), ("s", WIDTHS), ("f", [32, 64])]
    for kind, widths in kinds:
        for bits in widths:
            W = rw(bits)
            n = bits // 8
            for order in "nbl":
                vals = values_for(bits, W, rnd, nrand)
                if kind == "f":
                    vals = sorted(set(vals) | set(float_patterns(bits)))
                ops = []
                for v in vals:
                    ops.append("bf.set bf_set_%s%d%s %0*x %d" % (kind, bits, order, W // 4, v, place(rnd)))
                    ops.append("bf.ref bf_ref_%s%d%s %0*x %d" % (kind, bits, order, 2 * n, v & ((1 << bits) - 1), place(rnd)))
                # store / load / store / load / store / load inside one function of the harness (calls the optimiser sees together)
                sample = vals if len(vals) <= 24 else rnd.sample(vals, 24)
                for v in sample:
                    v2 = rnd.choice(vals)
                    ops.append("bf.rsr bf_ref_%s%d%s %0*x %0*x %d" % (kind, bits, order, W // 4, v, W // 4, v2, place(rnd)))
                for i in range(0, len(ops), 200):
                    cs.append(Case("%s%d%s-%d" % (kind, bits, order, i), ops[i:i + 200], ("codec", "%s%d" % (kind, bits))))
                # sweeps
                if kind != "f":
                    if bits == 16:
                        cs.append(Case("sweep-%s16%s" % (kind, order), ["bf.sweep bf_ref_%s16%s 0 65536" % (kind, order),
                                                                         "bf.sweep bf_set_%s16%s 0 65536" % (kind, order)], ("sweep",)))
                    elif bits == 24:
                        if tier == "thorough":
                            for lo in range(0, 1 << 24, 1 << 20):
                                cs.append(Case("sweep-%s24%s-%d" % (kind, order, lo), [
                                    "bf.sweep bf_ref_%s24%s %d %d" % (kind, order, lo, lo + (1 << 20)),
                                    "bf.sweep bf_set_%s24%s %d %d" % (kind, order, lo, lo + (1 << 20))], ("sweep",)))
                        else:
                            lo = rnd.choice([0, 0x7f0000, 0x800000 - 0x8000, 0xff0000]) + rnd.randint(0, 0x7fff)
                            cs.append(Case("sweep-%s24%s" % (kind, order), ["bf.sweep bf_ref_%s24%s %d %d" % (kind, order, lo, lo + 0x8000),
                                                                             "bf.sweep bf_set_%s24%s %d %d" % (kind, order, lo, lo + 0x8000)], ("sweep",)))
    # literal arguments
    cs.append(Case("consts", ["bf.setc %d %s %0*x" % (k, name, W // 4, pat) for k, name, n, lit, pat, W in const_table()], ("codec", "constant-arguments")))
    # swaps
    ops = []
    for bits in WIDTHS:
        W = rw(bits)
        for v in values_for(bits, W, rnd, nrand):
            ops.append("bf.swap bf_swap%d %0*x" % (bits, W // 4, v))
    for i in range(0, len(ops), 200):
        cs.append(Case("swap-%d" % i, ops[i:i + 200], ("swap",)))
    cs.append(Case("sweep-swap", ["bf.sweep bf_swap16 0 65536", "bf.sweep bf_swap24 %d %d" % (0x7f8000, 0x808000)], ("sweep",)))
    # range predicates
    ops = []
    for bits in (24, 40, 48, 56):
        W = rw(bits)
        M = (1 << W) - 1
        pts = set()
        for c in (0, 1 << bits, 1 << (bits - 1), (1 << W) - (1 << (bits - 1)), 1 << (W - 1), M):
            for d in (-2, -1, 0, 1, 2):
                pts.add((c + d) & M)
        for b in range(W):
            pts.add(1 << b)
            pts.add(M ^ (1 << b))
        for _ in range(nrand):
            pts.add(rnd.getrandbits(W))
            pts.add(rnd.getrandbits(bits))
        for v in sorted(pts):
            ops.append("bf.inrange bf_inrange_u%d %0*x" % (bits, W // 4, v))
            ops.append("bf.inrange bf_inrange_s%d %0*x" % (bits, W // 4, v))
    for i in range(0, len(ops), 200):
        cs.append(Case("inrange-%d" % i, ops[i:i + 200], ("inrange",)))
    cs.append(Case("sweep-inrange", ["bf.sweep bf_inrange_u24 %d %d" % ((1 << 24) - 5000, (1 << 24) + 5000),
                                     "bf.sweep bf_inrange_s24 %d %d" % ((1 << 23) - 5000, (1 << 23) + 5000),
                                     "bf.sweep bf_inrange_s24 %d %d" % ((1 << 32) - (1 << 23) - 5000, (1 << 32) - (1 << 23) + 5000)], ("sweep",)))
    return cs


def nontrivial(case, lines):
    return True
