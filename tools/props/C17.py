"""C17 – endpoints: case generation for the correspondence check."""
import itertools
import random
from vf import Case
from gen import constants, cloops

ID = "C17"
DRIVER = "drv_streams"
HARNESS = "h_streams"
QUICK_LEVEL = "thorough"      # the larger case set costs only seconds
THOROUGH_SEEDS = 3
GEN = [constants.gen, cloops.endp_gen]
TIE = ['Ufw.Tie.Misc']
tie_modules = cloops.endp_tie_modules     # obligations over the functions of endpoints/core.c the translator delivered
SYMS = ["k1", "k2", "k9", "z", "i", "a", "h:eio", "h:enomem"]
RULE = ("every driver script up to a length bound (quick 3, thorough 5; longer ones sampled) over {1, 2, many, 0, EINTR, EAGAIN, hard EIO, "
        "hard ENOMEM} as source script and as sink script, for octet- and chunk-style drivers, through source_get_chunk / _atmost and "
        "sink_put_chunk / _atmost with N in {1,3,6} (and N = 0, N = SSIZE_MAX+1); all nine plumbing functions with sampled script pairs on "
        "both sides, counts around the stream length and several auxiliary-buffer states (0xEE-filled memory to observe every octet touched); "
        "random long transfers.  Zero-length returns of octet-style drivers inside the per-octet plumbing are outside the model (DESIGN.md). "
        "Non-trivial = at least one octet moved; distinct = distinct operation text.")
EXHAUSTIVE = {"quick": True, "thorough": True}
ASSUMPTIONS = [
    "tie A: source_get_octet, sink_put_octet, source_adapt, sink_adapt, once_source_get_chunk, once_sink_put_chunk, source_get_chunk, sink_put_chunk and the "
    "two atmost variants are translated from clang's typed AST on every run (tools/gen/cloops.py -> Gen/EndpFns.lean: `continue`, calls through the driver "
    "callbacks as calls of the prelude's scripted drivers, a Source / Sink as kind + driver data, `return c ? f() : g()` with only the chosen call run); proved "
    "over the translation: gen_sink_adapt, gen_source_adapt, gen_once_sink_put_chunk, gen_sink_put_chunk, gen_once_source_get_chunk, gen_source_get_chunk (both driver styles, refusal of empty and oversized chunks), gen_source_get_octet, gen_sink_put_octet, gen_sts_cbc (the sink asked again while it takes nothing), gen_sts_drain_cbc and gen_sts_n_cbc - whenever the model's loop ends, the C loop run against the same driver script ends (with any "
    "fuel beyond the model's) in the same return value, the same driver state and, for the source, the octets moved at the front of the caller's block with the "
    "rest untouched: every octet offered / fetched once and in order, retried after EINTR / EAGAIN (Ufw.Tie.EndpFns.*); the atmost variants are translated (evidence); "
    "the getbuffer shortcuts and the auxiliary-buffer plumbing are compared by running only",
    "lean/Ufw/Model/Endpoints.lean is a hand transcription of src/endpoints/core.c for endpoints without the getbuffer extension (no endpoint of the library provides it); "
    "tied to the code by the correspondence run with scripted drivers owned by the harness",
    "octet-style drivers return 1 for a moved octet (the convention of every driver in the library)",
    "drivers answering 0 (nothing for the moment) are inside the model and the theorems since fix 516baad (sts_cbc asks again / hands on nothing)",
]
TRUSTED = ["translator tools/gen/cloops.py + prelude lean/Ufw/Tie/CPre.lean (scripted drivers: move up to k octets or answer a code; -ENODATA from an exhausted source)",
           "correspondence harness harness/h_streams.c + tools/lib/vf.py (return value incl. exact errno, octets delivered to the caller / received by the sink; "
           "spec view: delivered = next N of the stream, sink content a prefix of the stream, auxiliary buffer untouched outside its region; "
           "octets taken from the source driver are compared with the model only)"]
DESIGN_REF = "DESIGN.md section 0.2 (as built) and section 8, C17"
TECHNIQUE = "Lean 4 proofs by induction over fuel/driver scripts on a scripted-driver model of the endpoint plumbing (exactness, prefix property, error pass-through, termination bound) + differential correspondence over all short scripts"
LEVEL_TEXT = ("Machine-checked proof over the Lean model of endpoints/core.c: for every driver script, stream and count, a chunk read/write that succeeds has moved "
              "exactly the next N octets in order, a failing one returns the driver's error unchanged with a prefix moved, N = 0 and N > SSIZE_MAX are refused "
              "without a driver call, the at-most variants move at most N and return the count, every plumbing variant delivers a prefix of the stream (exactly "
              "the requested count on success) and touches the auxiliary buffer only inside its region, and all loops end within script length + count + 1 "
              "iterations.  Tied to the C code by running all short scripts over {1,2,many,0,EINTR,EAGAIN,hard} for octet and chunk drivers on both sides.")
LEVEL_NOTE = "Trusted: Lean kernel, axioms propext/Classical.choice/Quot.sound; hand-written model tied by the correspondence harness; getbuffer extension paths not modelled."


def theorem_for(d):
    return "Ufw.Props.C17 (get_chunk_exact / put_chunk_exact / atmost_le / sts_prefix / aux_region)"


def scripts(maxlen):
    out = ["-"]
    for L in range(1, maxlen + 1):
        out += [",".join(t) for t in itertools.product(SYMS, repeat=L)]
    return out


def rscript(rnd, L, syms=SYMS):
    return ",".join(rnd.choice(syms) for _ in range(L)) or "-"


STREAM = "a1a2a3a4a5a6a7a8"


def cases(tier, seed):
    rnd = random.Random(seed)
    cs = []
    maxlen = 3 if tier == "quick" else 5
    scs = scripts(maxlen)
    for _ in range(400 if tier == "quick" else 5000):
        scs.append(rscript(rnd, rnd.randint(maxlen + 1, 8)))
    for i in range(0, len(scs), 40):
        ops = []
        for sc in scs[i:i + 40]:
            for kind in "oc":
                for n in (1, 3, 6):
                    ops.append("ep.get %s %s %s %d" % (kind, STREAM[:2 * rnd.choice([8, 8, n, 2])], sc, n))
                    ops.append("ep.getmost %s %s %s %d" % (kind, STREAM, sc, n))
                    ops.append("ep.put %s %s %s" % (kind, sc, STREAM[:2 * n]))
                    ops.append("ep.putmost %s %s %s" % (kind, sc, STREAM[:2 * n]))
        cs.append(Case("scr-%d" % i, ops, ("scripts",)))
    cs.append(Case("refusals", ["ep.big get o", "ep.big get c", "ep.big put o", "ep.big put c", "ep.get o 0102 - 0", "ep.get c 0102 k1 0",
                                "ep.put o - -", "ep.put c k1 -", "ep.getmost c 0102 - 0"], ("refusal",)))
    # the library's own buffer-backed endpoints (source_from_buffer / sink_to_buffer) in place of scripted drivers: the
    # source hands out what the buffer holds (like a chunk driver without script), the sink takes a chunk whole or
    # refuses it with ENOMEM - the script on the line says the same for the model
    ops = []
    for slen in (0, 1, 2, 5, 8):
        for n in range(0, slen + 3):
            ops.append("ep.get b %s - %d" % (STREAM[:2 * slen] or "-", n))
            ops.append("ep.getmost b %s - %d" % (STREAM[:2 * slen] or "-", n))
    for cap in (0, 1, 2, 4, 7):
        for n in range(1, 9):
            sc = ("k%d" % n) if n <= cap else "h:enomem"
            ops.append("ep.put b:%d %s %s" % (cap, sc, STREAM[:2 * n]))
            ops.append("ep.putmost b:%d %s %s" % (cap, sc, STREAM[:2 * n]))
    for fn in ("cbc", "n_cbc", "drain_cbc", "n", "drain"):
        for slen in (0, 1, 3, 6, 8):
            for cap in (0, 1, 3, 6, 8, 12):
                for n in sorted({0, 1, 2, slen, slen + 1, cap, cap + 1}):
                    ksc = ",".join(["k1"] * cap + ["h:enomem"])
                    for sk, kk in (("b", "b:%d" % cap), ("b", rnd.choice("oc")), (rnd.choice("oc"), "b:%d" % cap)):
                        ops.append("sts %s %s %s - %s %s %d 4 0 0" % (fn, sk, STREAM[:2 * slen] or "-", kk,
                                                                     ksc if kk.startswith("b") else "-", n))
    for i in range(0, len(ops), 300):
        cs.append(Case("buffers-%d" % i, ops[i:i + 300], ("buffer-endpoints",)))
    # transfer counts that do not fit 32 bits: every residue an errno could alias (2^32 - e for the errno values the
    # loops test for and their neighbours), powers of two and their neighbours; the caller's buffer is address space only
    huge = []
    for base in (2 ** 31, 2 ** 32, 2 ** 33):
        for d in list(range(-40, 3)) + [-(2 ** 15), -(2 ** 16)]:
            huge.append(base + d)
    ops = []
    for f in sorted(set(huge)):
        for what in ("get", "put"):
            ops.append("ep.huge %s %d %d" % (what, f, f + 100))
            ops.append("ep.huge %s %d %d" % (what, f, f + 1))
    ops += ["ep.huge get 5 %d" % (2 ** 63), "ep.huge put 5 %d" % (2 ** 63), "ep.huge get 1 %d" % (2 ** 63 - 1)]
    for i in range(0, len(ops), 100):
        cs.append(Case("huge-%d" % i, ops[i:i + 100], ("huge-counts",)))
    # plumbing
    fns = ["cbc", "n_cbc", "drain_cbc", "n", "drain", "some_aux", "atmost_aux", "n_aux", "drain_aux", "atmost", "some"]
    nozero = [s for s in SYMS if s != "z"]
    npairs = 60 if tier == "quick" else 1500
    ops = []
    for fn in fns:
        for _ in range(npairs):
            sk, kk = rnd.choice("oc"), rnd.choice("oc")
            # drivers that answer 0 ("nothing for the moment") on either side, in every variant
            ssyms = SYMS
            ksyms = SYMS
            ssc = rscript(rnd, rnd.choice([0, 0, 1, 2, 3, 5]), ssyms)
            ksc = rscript(rnd, rnd.choice([0, 0, 1, 2, 3, 5]), ksyms)
            slen = rnd.choice([0, 1, 3, 6, 8])
            n = rnd.choice([0, 1, 2, slen, slen + 1, 5])
            if rnd.random() < 0.15:
                # "no limit": counts at the top of the size_t range (a limit added to a read mark must not wrap)
                n = rnd.choice([2 ** 64 - 1, 2 ** 64 - 2, 2 ** 64 - 4, 2 ** 63, 2 ** 63 - 1])
            asize = rnd.choice([1, 2, 4, 8])
            aused = rnd.randint(0, asize)
            aoff = rnd.randint(0, aused)
            if rnd.random() < 0.5:
                aused, aoff = asize, 0
            ops.append("sts %s %s %s %s %s %s %d %d %d %d" % (fn, sk, STREAM[:2 * slen] or "-", ssc, kk, ksc, n, asize, aused, aoff))
    for i in range(0, len(ops), 60):
        cs.append(Case("sts-%d" % i, ops[i:i + 60], ("plumbing",)))
    # long random transfers
    for i in range(10 if tier == "quick" else 100):
        L = rnd.randint(50, 600)
        stream = "".join("%02x" % rnd.getrandbits(8) for _ in range(L))
        long_s = rscript(rnd, rnd.randint(5, 40), ["k1", "k2", "k9", "k64", "z", "i", "a"])
        long_k = rscript(rnd, rnd.randint(5, 40), ["k1", "k2", "k9", "k64", "z", "i", "a"])
        n = rnd.randint(1, L)
        cs.append(Case("long-%d" % i, [
            "ep.get c %s %s %d" % (stream, long_s, n), "ep.get o %s %s %d" % (stream, long_s, n),
            "ep.put c %s %s" % (long_k, stream[:2 * n]), "ep.put o %s %s" % (long_k, stream[:2 * n]),
            "sts n_aux c %s %s c %s %d 16 16 0" % (stream, long_s, long_k, n),
            "sts drain_aux o %s %s o %s 0 7 7 0" % (stream, long_s.replace("z", "i"), long_k),
            "sts n c %s - c - %d 0 0 0" % (stream, n),
        ], ("long",)))
    return cs


def nontrivial(case, lines):
    return any(("data=" in l and "data=-" not in l) or ("got=" in l and "got=-" not in l) for l in lines)
