"""C10 – persistent store round trip and region: case generation."""
import random
from vf import Case
from gen import cloops

ID = "C10"
DRIVER = "drv_persist"
KEEP_PREFIX = 1        # ps.init
HARNESS = "h_persist"
GEN = [cloops.pst_gen]              # tie A: trivialsum and the layout helpers of persistent-storage.c, translated from clang's AST
tie_modules = cloops.pst_tie_modules
RULE = ("data sizes 1..12 (quick) / 1..40 (thorough) x placements {0, 1, 7, 1000} x {trivial sum, CRC-16/ARC, 32-bit sum} x auxiliary buffer "
        "sizes none, 0..size+1: full store, validate, fetch; every (offset, length) partial store and partial fetch incl. lengths/offsets "
        "one past the end and pairs whose sum wraps in size_t; every single-octet alteration of checksum field and data followed by validate; "
        "reset with several fill values; the medium is an exact-size heap block, every callback invocation is logged and checked against the "
        "instance's region.  Non-trivial = at least one medium access; distinct = distinct operation text.")
EXHAUSTIVE = {"quick": False, "thorough": False}
ASSUMPTIONS = [
    "lean/Ufw/Model/Persist.lean is a hand transcription of src/persistent-storage.c, tied to the code by the correspondence run (access log compared call by call)",
    "checksum functions are parameters; theorems assume they are streamable (f (a ++ b) i = f b (f a i) up to the checksum width), proved for the three functions used",
    "uint32_t address arithmetic does not wrap: placement + checksum size + data size < 2^32",
    "the checksum field is kept in host byte order (little endian here)",
]
TRUSTED = ["correspondence harness harness/h_persist.c + tools/lib/vf.py (result code, fetched data, complete medium image after every operation, "
           "region containment of every access; the (address, length) sequence of accesses is compared with the model only)"]
DESIGN_REF = "DESIGN.md section 0.2 (as built) and section 8, C10"
TECHNIQUE = "Lean 4 proofs over a medium/callback model (chunked checksum = checksum of the image for any buffer size by induction; store/validate/fetch round trip; bounds) + differential correspondence with a logging medium"
LEVEL_TEXT = ("Machine-checked proof over the Lean model of persistent-storage.c: for every data size, placement, checksum width, streamable checksum function and "
              "auxiliary buffer size the chunked checksum equals the function applied to the whole data image; after a successful full or partial store validation "
              "succeeds and fetch returns the image; validation reports invalid data exactly when the stored checksum differs from the image's; part accesses "
              "beyond the data size (as natural numbers, i.e. including pairs whose sum wraps) are refused without touching the medium.  Tied to the C code by a "
              "differential run over sizes x placements x algorithms x buffer sizes x every (offset, length) x every single-octet alteration.")
LEVEL_NOTE = "Trusted: Lean kernel, axioms propext/Classical.choice/Quot.sound (+ bv_decide axioms inherited from the CRC lemmas for the CRC instance); hand-written model tied by the harness."
ALLOW_BV = True
KINDS = [("sum16", 0), ("crc16", 0), ("crc16", 0xffff), ("sum32", 7)]


def theorem_for(d):
    return "Ufw.Props.C10 (store_validate_fetch / checksum_chunking / validate_iff / part_bounds)"


def rhex(rnd, n):
    return "".join("%02x" % rnd.getrandbits(8) for _ in range(n)) or "-"


def cases(tier, seed):
    rnd = random.Random(seed)
    cs = []
    sizes = list(range(1, 13)) if tier == "quick" else list(range(1, 41))
    n = 0
    for ds in sizes:
        for place in (0, 1, 7, 1000):
            kind, init = KINDS[(ds + place) % len(KINDS)]
            w = 4 if kind == "sum32" else 2
            bufs = ["none"] + [str(b) for b in ([0, 1, 2, 3, ds - 1, ds, ds + 1] if tier == "quick" else range(0, ds + 2))]
            for buf in sorted(set(bufs), key=str):
                if buf != "none" and int(buf) < 0:
                    continue
                msize = place + w + ds + 3
                data = rhex(rnd, ds)
                pre = []
                if buf in ("1", str(ds)):
                    # the same store in a window that ends with the 32-bit address space (last data octet at 0xffffffff)
                    msize = place + w + ds
                    pre = ["ps.relocate %d" % (2 ** 32 - msize)]
                ops = pre + ["ps.init %d %02x %d %s %d %d %s" % (msize, rnd.choice([0, 0xff, 0xa5]), place, kind, init, ds, buf),
                       "ps.validate", "ps.store %s" % data, "ps.validate", "ps.fetch"]
                # partial stores / fetches: every (offset, length) once in a while, sampled otherwise
                pairs = [(o, l) for o in range(0, ds + 2) for l in range(0, ds + 2)]
                # every pair for the small sizes, a sample beyond (the op count grows with size^3 otherwise)
                limit = 30 if tier == "quick" else 120
                if len(pairs) > limit:
                    pairs = rnd.sample(pairs, limit)
                for (o, l) in pairs:
                    ops.append("ps.storepart %s %d" % (rhex(rnd, l), o))
                    ops.append("ps.validate")
                    ops.append("ps.fetchpart %d %d" % (o, l))
                ops.append("ps.fetch")
                for (o, l) in [(2 ** 64 - 1, 2), (2 ** 64 - 1, 1), (1, 2 ** 64 - 1), (2 ** 63, 2 ** 63), (ds, 2 ** 64 - ds), (2 ** 32, 1)]:
                    ops.append("ps.storeraw %d %d" % (o, l))
                    ops.append("ps.fetchraw %d %d" % (o, l))
                # alterations
                ops.append("ps.store %s" % data)
                for a in range(place, place + w + ds):
                    ops += ["ps.poke %d %02x" % (a, rnd.getrandbits(8)), "ps.validate", "ps.store %s" % data]
                ops += ["ps.reset %02x" % rnd.getrandbits(8), "ps.validate", "ps.fetch", "ps.store %s" % data, "ps.validate"]
                # partial stores (also empty ones) on a medium whose checksum does NOT match: a successful store leaves a valid image
                for (o, l) in [(0, 0), (ds, 0), (ds // 2, 0), (0, 1), (ds - 1, 1)]:
                    ops += ["ps.reset %02x" % rnd.choice([0xff, 0x00, 0x5a]), "ps.storepart %s %d" % (rhex(rnd, l), o), "ps.validate", "ps.fetch"]
                cs.append(Case("g%d" % n, ops, ("grid", kind)))
                n += 1
    # a live instance whose checksum is configured again (width and algorithm change, no new init): what an earlier
    # configuration left in the instance must not show
    m = 0
    for ds in (1, 2, 5, 9):
        for place in (0, 3):
            for buf in ("none", "0", "2", str(ds + 1)):
                for first, second in ((("sum32", 0xffffffff), ("crc16", 0)), (("sum32", 0x12345678), ("crc16", 0xffff)),
                                      (("crc16", 0xffff), ("sum32", 0)), (("sum32", 0xffff0000), ("sum32", 1))):
                    msize = place + 4 + ds + 3
                    ops = ["ps.init %d %02x %d %s %d %d %s" % (msize, rnd.choice([0, 0xff, 0xa5]), place, first[0], first[1], ds, buf),
                           "ps.store %s" % rhex(rnd, ds), "ps.validate",
                           "ps.resum %s %d" % second, "ps.validate", "ps.store %s" % rhex(rnd, ds), "ps.validate", "ps.fetch"]
                    for (o, l) in [(0, 1), (ds - 1, 1), (0, ds), (ds // 2, 0)]:
                        ops += ["ps.storepart %s %d" % (rhex(rnd, l), o), "ps.validate", "ps.fetch"]
                    ops += ["ps.resum %s %d" % first, "ps.validate", "ps.store %s" % rhex(rnd, ds), "ps.validate", "ps.fetch"]
                    cs.append(Case("resum%d" % m, ops, ("reconfigured",)))
                    m += 1
    # two different images with the same checksum, stored one after the other: what is fetched is the second one
    # (a store may not take an equal checksum for an unchanged image)
    def crc16(data, init):
        c = init
        for o in data:
            c ^= o
            for _ in range(8):
                c = (c >> 1) ^ 0xa001 if c & 1 else c >> 1
        return c

    def colliding(kind, init, ds):
        """[(a, b)]: different images of ds octets with equal checksums"""
        out = []
        for _ in range(6):
            a = [rnd.getrandbits(8) for _ in range(ds)]
            b = None
            if kind == "sum16" and ds >= 2:
                b = list(a)
                i, j = rnd.sample(range(ds), 2)
                if rnd.random() < 0.5 and a[i] != a[j]:
                    b[i], b[j] = a[j], a[i]
                else:
                    d = rnd.randint(1, 255)
                    a[i] = rnd.randint(0, 255 - d)
                    a[j] = rnd.randint(d, 255)
                    b = list(a)
                    b[i] += d
                    b[j] -= d
            elif kind == "sum32" and ds >= 2:
                i = rnd.randrange(ds - 1)
                a[i] = rnd.randint(0, 254)
                a[i + 1] = rnd.randint(31, 255)
                b = list(a)
                b[i] += 1
                b[i + 1] -= 31
            elif kind == "crc16" and ds >= 3:
                seen = {}
                for _ in range(20000):
                    x = tuple(rnd.getrandbits(8) for _ in range(ds))
                    c = crc16(x, init)
                    if c in seen and seen[c] != x:
                        a, b = list(seen[c]), list(x)
                        break
                    seen[c] = x
            if b is not None and b != a:
                out.append(("".join("%02x" % o for o in a), "".join("%02x" % o for o in b)))
        return out

    m = 0
    for ds in (2, 3, 4, 7, 12):
        for kind, init in KINDS:
            for buf in ("none", "0", "3", str(ds)):
                w = 4 if kind == "sum32" else 2
                ops = ["ps.init %d %02x %d %s %d %d %s" % (2 + w + ds + 3, rnd.choice([0, 0xff, 0xa5]), 2, kind, init, ds, buf)]
                for (a, b) in colliding(kind, init, ds):
                    ops += ["ps.store %s" % a, "ps.validate", "ps.fetch", "ps.store %s" % b, "ps.validate", "ps.fetch",
                            "ps.store %s" % b, "ps.fetch", "ps.store %s" % a, "ps.validate", "ps.fetch"]
                if len(ops) > 1:
                    cs.append(Case("collide%d" % m, ops, ("equal-checksums", kind)))
                    m += 1
    return cs


def nontrivial(case, lines):
    return any("log=" in l and "log=-" not in l for l in lines)
