"""C01 – typed set/get: case generation."""
import random
from vf import Case
from gen import constants
from props.regcommon import TYPES, SIZE, BITS, BOUNDS, pat, checks, values, hexv, default_for

ID = "C01"
DRIVER = "drv_regtable"
HARNESS = "h_regtable"
QUICK_LEVEL = "thorough"      # the larger case set costs only seconds
THOROUGH_SEEDS = 4
GEN = [constants.gen]
TIE = ['Ufw.Tie.RegTable']
RULE = ("table family: one target register of each of the 8 types x 8 constraint kinds (none, always-fail, min, max, range, three callbacks) "
        "x {little, big endian} x {memory-backed, callback-backed, no-write-callback} area, with a 16-bit neighbour register on either side; degenerate "
        "bounds per type (inverted, one-point and full ranges, minimum at the top / maximum at the bottom of the type) in areas that skip defaults; "
        "values: type extremes, constraint bounds -1/0/+1, every single bit, all float classes (+-0, subnormals, smallest/largest normal, "
        "infinities, quiet/signalling NaNs with payloads), random (thorough: all 2^16 values of the 16-bit types); through checked set, unchecked "
        "set, get, with mismatched value types; handles 0..entries+2 and UINT32_MAX.  After every call the complete storage of all areas is "
        "compared.  Non-trivial = a set that succeeded; distinct = distinct operation text.")
EXHAUSTIVE = {"quick": False, "thorough": False}
ASSUMPTIONS = [
    "lean/Ufw/Model/RegTable.lean is a hand transcription of src/registers/core.c tied to the code by the correspondence run (result code, address, value, complete storage image)",
    "floats are IEEE-754 bit patterns; isnormal / == 0 / <= / >= are modelled on the fields (host FPU behaviour observed by the run)",
    "address arithmetic does not wrap (address + size < 2^32); user validator callbacks are pure functions of the value",
    "the harness is built with NDEBUG like the shipped library (asserts compiled out)",
]
TRUSTED = ["correspondence harness harness/h_regtable.c + tools/lib/vf.py"]
DESIGN_REF = "DESIGN.md section 0.2 (as built) and section 8, C01"
TECHNIQUE = "Lean 4 proofs over the register-table model (set/get round trip through the endian spec, storage frame, refusal characterisation, unchecked variant) + differential correspondence over a type x constraint x byte-order x area-kind family"
LEVEL_TEXT = ("Machine-checked proof over the Lean model of the typed register access: a successful set stores exactly the value's image in the table's byte order at the "
              "register's offset and changes no other atom; get then returns the identical value; set is refused with unchanged storage for a foreign type, a violated "
              "constraint, a non-finite or subnormal float, a missing write callback or a handle that is no register of the table (no-such-entry, also unchecked); the "
              "unchecked variant differs only in skipping type and constraint checks.  All for every value, bound, handle, both byte orders.  Tied to the C code by the "
              "correspondence run over the table family described in the rule.")
LEVEL_NOTE = "Trusted: Lean kernel, axioms propext/Classical.choice/Quot.sound; hand-written model tied by the harness; IEEE comparisons modelled on bit fields."


def theorem_for(d):
    return "Ufw.Props.C01 (set_get / set_storage / set_refused / set_unsafe_spec)"


AREAS = {"mem": "16:12:rw:M", "cb": "16:12:rw:CRW", "cbx": "16:12:rw:CRWX",      # cbx: the write hook re-enters register_get
         "nowrite": "16:12:rw:CR-", "ro-flag": "16:12:r:M"}


def table_line(be, akind, ty, chk):
    tgt = "%s:18:%s:%s" % (ty, default_for(ty, chk), chk)
    ents = "u16:16:1111:t|%s|u16:%d:2222:t" % (tgt, 18 + SIZE[ty])
    return "rt.table %d %s %s" % (be, AREAS[akind], ents)


def cases(tier, seed):
    rnd = random.Random(seed)
    cs = []
    n = 0
    for ty in TYPES:
        cks = checks(ty)
        for cname, chk in cks.items():
            for be in (0, 1):
                for akind in ("mem", "cb", "cbx"):
                    nrand = 12 if tier == "quick" else 200
                    if tier == "thorough" and BITS[ty] == 16 and cname in ("trivial", "range") and akind == "mem":
                        vals = list(range(65536))
                    else:
                        vals = values(ty, rnd, nrand)
                    ops = [table_line(be, akind, ty, chk), "rt.init", "rt.get 1"]
                    for v in vals:
                        ops.append("rt.%s 1 %s %s" % (rnd.choice(["set", "set", "setu"]), ty, hexv(ty, v)))
                        ops.append("rt.get 1")
                    # wrong types, bad handles
                    for oty in TYPES:
                        if oty != ty:
                            ops.append("rt.set 1 %s %s" % (oty, hexv(oty, rnd.getrandbits(BITS[oty]))))
                    for h in (0, 2, 3, 4, 5, 4294967295):
                        ops.append("rt.set %d u16 0042" % h)
                        ops.append("rt.setu %d u16 0043" % h)
                        ops.append("rt.get %d" % h)
                        ops.append("rt.default %d" % h)
                    # a user initialisation that fails half-way (or not at all) and a sanitise pass in between: what is
                    # accepted afterwards is what was accepted before
                    for k in (0, 1, 2, 7):
                        ops.append("rt.userinit %d" % k)
                        for v in vals[:6]:
                            ops.append("rt.set 1 %s %s" % (ty, hexv(ty, v)))
                            ops.append("rt.get 1")
                    for i in range(0, len(ops) - 2, 400):
                        chunk = ops[:2] + ops[2 + i:2 + i + 400] if i else ops[:402]
                        cs.append(Case("t%d" % n, chunk, ("typed", ty, cname)))
                        n += 1
        # "all constraint kinds and bounds": degenerate bounds - a range whose minimum lies above its maximum (no value
        # satisfies it), a one-point range, the full range of the type, a minimum at the top and a maximum at the bottom of
        # the type.  The area skips defaults (a default that no bound admits would make initialisation fail).
        lo, hi = BOUNDS[ty]
        plo, phi = hexv(ty, pat(ty, lo)), hexv(ty, pat(ty, hi))
        if ty[0] == "f":
            tmin, tmax = (hexv(ty, 0xff7fffff), hexv(ty, 0x7f7fffff)) if ty == "f32" else (hexv(ty, 0xffefffffffffffff), hexv(ty, 0x7fefffffffffffff))
        elif ty[0] == "u":
            tmin, tmax = hexv(ty, 0), hexv(ty, (1 << BITS[ty]) - 1)
        else:
            tmin, tmax = hexv(ty, 1 << (BITS[ty] - 1)), hexv(ty, (1 << (BITS[ty] - 1)) - 1)
        for bname, chk in (("inverted", "r%s-%s" % (phi, plo)), ("point", "r%s-%s" % (plo, plo)), ("full", "r%s-%s" % (tmin, tmax)),
                           ("inverted-full", "r%s-%s" % (tmax, tmin)), ("min-top", "m" + tmax), ("max-bottom", "x" + tmin)):
            for akind in ("16:12:rws:M", "16:12:rws:CRW"):
                ents = "u16:16:1111:t|%s:18:%s:%s|u16:%d:2222:t" % (ty, hexv(ty, 0), chk, 18 + SIZE[ty])
                ops = ["rt.table %d %s %s" % (rnd.randint(0, 1), akind, ents), "rt.init", "rt.get 1"]
                for v in values(ty, rnd, 4 if tier == "quick" else 40):
                    ops.append("rt.%s 1 %s %s" % (rnd.choice(["set", "set", "set", "setu"]), ty, hexv(ty, v)))
                    ops.append("rt.get 1")
                cs.append(Case("b%d" % n, ops, ("typed", ty, "bounds-" + bname)))
                n += 1
        # state left behind by OTHER operations must not change what a set does: sanitise runs that are cut short
        # (a register of a second area cannot be written back), refused block writes, failing iteration callbacks
        for cname in ("fail", "range", "trivial"):
            chk = cks[cname]
            for second in ("26:3:rw:CR-", "26:3:rw:M", "26:3:rw:CRW"):
                ents = "u16:16:1111:t|%s:18:%s:%s|u16:26:0200:r0100-0300" % (ty, default_for(ty, chk), chk)
                ops = ["rt.table %d 16:8:rw:M|%s %s" % (rnd.randint(0, 1), second, ents), "rt.init", "rt.get 1"]
                for v in values(ty, rnd, 2)[:: (3 if tier == "quick" else 1)]:
                    pre = rnd.choice([["rt.poke 1 0 ffff", "rt.sanitise"], ["rt.poke 0 2 7ff87ff8", "rt.sanitise"], ["rt.sanitise"],
                                      ["rt.bwrite 25 00010002"], ["rt.foreach 16 12 0,-1"], ["rt.bset 2 u16 8000"], []])
                    ops += pre + ["rt.%s 1 %s %s" % (rnd.choice(["set", "set", "setu"]), ty, hexv(ty, v)), "rt.get 1"]
                cs.append(Case("t%d" % n, ops, ("typed", ty, "interference")))
                n += 1
        # the table is initialised a second time after the register was moved inside its area (description edited in
        # place): sets and gets use the new place
        for cname in ("trivial", "range"):
            chk = cks[cname]
            for be in (0, 1):
                def line(op, at):
                    return "rt.%s %d 16:12:rw:M u16:16:1111:t|%s:%d:%s:%s|u16:%d:2222:t" % (op, be, ty, at, default_for(ty, chk), chk, at + SIZE[ty] + 1)
                ops = [line("table", 18), "rt.init", "rt.set 1 %s %s" % (ty, hexv(ty, values(ty, rnd, 1)[0])), line("edit", 19), "rt.init", "rt.get 1"]
                for v in values(ty, rnd, 2)[::4]:
                    ops += ["rt.%s 1 %s %s" % (rnd.choice(["set", "setu"]), ty, hexv(ty, v)), "rt.get 1", "rt.bread 16 12"]
                ops += [line("edit", 17), "rt.init", "rt.set 1 %s %s" % (ty, default_for(ty, chk)), "rt.get 1", "rt.bread 16 12"]
                cs.append(Case("t%d" % n, ops, ("typed", ty, "re-initialised")))
                n += 1
        # areas that cannot be written / uninitialised table
        for akind in ("nowrite", "ro-flag"):
            ops = [table_line(0, akind, ty, "t"), "rt.set 1 %s %s" % (ty, hexv(ty, 5)), "rt.get 1", "rt.init",
                   "rt.set 1 %s %s" % (ty, hexv(ty, 6)), "rt.setu 1 %s %s" % (ty, hexv(ty, 6)), "rt.get 1"]
            cs.append(Case("t%d" % n, ops, ("typed", ty, akind)))
            n += 1
    return cs


def nontrivial(case, lines):
    return any(l.startswith("success mem=") for l in lines[2:])


KEEP_PREFIX = 2
