"""Shared pieces of the register-table case generators (C01-C05)."""
import struct

TYPES = ["u16", "u32", "u64", "s16", "s32", "s64", "f32", "f64"]
SIZE = {"u16": 1, "s16": 1, "u32": 2, "s32": 2, "f32": 2, "u64": 4, "s64": 4, "f64": 4}
BITS = {t: 16 * s for t, s in SIZE.items()}


def f32(x):
    return struct.unpack("<I", struct.pack("<f", x))[0]


def f64(x):
    return struct.unpack("<Q", struct.pack("<d", x))[0]


def pat(ty, v):
    """bit pattern of a python number for the type"""
    if ty == "f32":
        return f32(v)
    if ty == "f64":
        return f64(v)
    return v & ((1 << BITS[ty]) - 1)


def hexv(ty, bits):
    return "%0*x" % (BITS[ty] // 4, bits & ((1 << BITS[ty]) - 1))


# (lo, hi) bounds per type, as python numbers
BOUNDS = {"u16": (0x0100, 0xff00), "u32": (0x00010000, 0xffff0000), "u64": (1 << 32, (1 << 64) - (1 << 32)),
          "s16": (-100, 100), "s32": (-100000, 100000), "s64": (-(1 << 40), 1 << 40),
          "f32": (-1.5, 1000.0), "f64": (-1.5, 1e100)}


def checks(ty):
    lo, hi = BOUNDS[ty]
    return {"trivial": "t", "fail": "f", "min": "m" + hexv(ty, pat(ty, lo)), "max": "x" + hexv(ty, pat(ty, hi)),
            "range": "r%s-%s" % (hexv(ty, pat(ty, lo)), hexv(ty, pat(ty, hi))), "cb-even": "c0", "cb-never": "c1", "cb-mod3": "c3"}


def float_classes(ty):
    if ty == "f32":
        return [0x00000000, 0x80000000, 0x00000001, 0x007fffff, 0x807fffff, 0x00800000, 0x80800000, 0x7f7fffff, 0xff7fffff,
                0x7f800000, 0xff800000, 0x7fc00000, 0xffc00001, 0x7f800001, 0xff923456, 0x3f800000, 0xbfc00000, 0x447a0000, 0x447a0001]
    return [0x0, 0x8000000000000000, 0x1, 0x000fffffffffffff, 0x800fffffffffffff, 0x0010000000000000, 0x8010000000000000,
            0x7fefffffffffffff, 0xffefffffffffffff, 0x7ff0000000000000, 0xfff0000000000000, 0x7ff8000000000000, 0xfff8000000000001,
            0x7ff0000000000001, 0xfff123456789abcd, 0x3ff0000000000000, 0xbff8000000000000, f64(1e100), f64(1e100) + 1]


def values(ty, rnd, nrand):
    b = BITS[ty]
    vs = {0, 1, (1 << b) - 1, 1 << (b - 1), (1 << (b - 1)) - 1, (1 << (b - 1)) + 1}
    lo, hi = BOUNDS[ty]
    if ty[0] == "f":
        vs |= set(float_classes(ty))
        for x in (lo, hi):
            p = pat(ty, x)
            vs |= {p, p + 1, p - 1}
    else:
        for x in (lo, hi):
            for d in (-1, 0, 1):
                vs.add(pat(ty, x + d))
    for i in range(b):
        vs.add(1 << i)
    for _ in range(nrand):
        vs.add(rnd.getrandbits(b))
        vs.add(rnd.getrandbits(rnd.choice([8, 16, b])))
    return sorted(v & ((1 << b) - 1) for v in vs)


def default_for(ty, check):
    """a default that satisfies every check kind used (even, multiple of 3, inside the bounds)"""
    if ty[0] == "f":
        return hexv(ty, 0)       # +0.0: inside [-1.5, hi], even, multiple of 3
    if ty[0] == "u":
        return hexv(ty, pat(ty, BOUNDS[ty][0]) // 6 * 6 + 6)
    return hexv(ty, 6)
