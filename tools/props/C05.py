"""C05 – register constraints as a history invariant: case generation."""
import random
from vf import Case
from gen import constants
from props.regcommon import TYPES, SIZE, BITS, checks, hexv, pat, BOUNDS, default_for, values, float_classes

ID = "C05"
DRIVER = "drv_regtable"
HARNESS = "h_regtable"
QUICK_LEVEL = "thorough"      # the larger case set costs only seconds
THOROUGH_SEEDS = 8
GEN = [constants.gen]
TIE = ['Ufw.Tie.RegTable']
RULE = ("operation sequences (typed set, unchecked set excluded, bit set, bit clear, block write, sanitise, interleaved with reads of every "
        "register) of length 100 (thorough 600) over generated tables (one area, register-free writable neighbours, registers split over two areas that touch or leave a hole) mixing all register types and constraint kinds, operands biased to the "
        "constraint bounds; arbitrary out-of-band corruption (random atoms, NaN/subnormal patterns, out-of-range values) poked into the storage "
        "before sanitise.  After every operation the complete storage, touched marks and every register's value are compared.  Non-trivial = "
        "every sequence; distinct = distinct operation text.")
EXHAUSTIVE = {"quick": False, "thorough": False}
ASSUMPTIONS = ["model assumptions as for C01", "sanitise part: tables whose registers use no/min/max/range/callback constraints (an always-fail register cannot be reset to its default after initialisation)"]
TRUSTED = ["correspondence harness harness/h_regtable.c + tools/lib/vf.py"]
DESIGN_REF = "DESIGN.md section 0.2 (as built) and section 8, C05"
TECHNIQUE = "Lean 4 invariant proof by induction over operation histories of the register-table model (typed set, bit set/clear, block write, sanitise: constraints hold after every checked operation, refused operations change nothing; sanitise loop invariant from arbitrary storage content) + random/biased histories with out-of-band corruption in the differential correspondence"
LEVEL_TEXT = ("Machine-checked proof over the Lean model: history_preserves_constraints - from a table in the state register_init leaves (structure + every register satisfying its "
              "constraint; goodTable_good shows the state is inhabited) every history of typed sets, bit set/clear, block writes and sanitise runs keeps every register decoding and "
              "satisfying its constraint; every refused typed set, bit operation or block write leaves the whole table unchanged; bit set/clear exist on unsigned registers only and "
              "change exactly the requested bits; block_write_frame (C02) bounds what a block write changes.  sanitise_restores/sanitise_values: from ANY storage content a sanitise "
              "run that reports success leaves every register satisfying its constraint and untouched, registers that decoded and satisfied their constraint read as before and all "
              "others read as their default; sanitise_succeeds: it reports success whenever nothing needs repair.  Tied to the C code by long biased operation sequences with "
              "out-of-band corruption before sanitise.")
LEVEL_NOTE = "Trusted: as C01."
KEEP_PREFIX = 2


def theorem_for(d):
    return "Ufw.Props.C05 (history_preserves_constraints / sanitise_restores / sanitise_values / *_refused_unchanged / bit_op_spec)"


def make_table(rnd, with_fail):
    kinds = ["trivial", "min", "max", "range", "cb-even", "cb-mod3"] + (["fail"] if with_fail else [])
    ents, addr = [], 16
    for _ in range(rnd.randint(3, 7)):
        ty = rnd.choice(TYPES)
        kind = rnd.choice(kinds)
        ents.append((ty, addr, kind))
        addr += SIZE[ty] + rnd.choice([0, 0, 1])
    end = addr + 1
    # mostly plain read-write memory; also callback-backed, write-only (block reads deliver zeroes there, which must
    # not leak into validation) and areas whose content cannot be written back (sanitise is cut short)
    flags, akind = rnd.choice([("rw", "M"), ("rw", "M"), ("rw", "CRW"), ("w", "M"), ("w", "CRW"), ("rw", "CR-"), ("r", "M")])
    # layouts: one area; a register-free writable neighbour directly behind or in front of it (a block may start or
    # end there); the registers split over two areas that touch or leave a hole
    layout = rnd.choice(["single", "single", "tail-empty", "head-empty", "both-empty", "split-adjacent", "split-hole"])
    areas = []
    if layout in ("head-empty", "both-empty"):
        k = rnd.randint(1, 3)
        areas.append((16 - k, k, "rw", "M"))
    if layout.startswith("split") and len(ents) >= 2:
        cut = rnd.randint(1, len(ents) - 1)
        cut_addr = ents[cut][1]
        if layout == "split-hole":
            # move the second group up by a hole of 1..3 atoms
            hole = rnd.randint(1, 3)
            ents = ents[:cut] + [(ty, a + hole, k) for ty, a, k in ents[cut:]]
            end += hole
            areas.append((16, cut_addr - 16, flags, akind))
            areas.append((cut_addr + hole, end - (cut_addr + hole), "rw", "M"))
        else:
            areas.append((16, cut_addr - 16, flags, akind))
            areas.append((cut_addr, end - cut_addr, "rw", "M"))
    else:
        areas.append((16, end - 16, flags, akind))
    if layout in ("tail-empty", "both-empty"):
        areas.append((end, rnd.randint(1, 3), "rw", "M"))
    line = "rt.table %d %s %s" % (rnd.randint(0, 1), "|".join("%d:%d:%s:%s" % a for a in areas),
                                  "|".join("%s:%d:%s:%s" % (ty, a, default_for(ty, k), checks(ty)[k]) for ty, a, k in ents))
    return line, ents, areas


def cases(tier, seed):
    rnd = random.Random(seed)
    cs = []
    nseq, ln = (30, 100) if tier == "quick" else (150, 600)
    for s in range(nseq):
        line, ents, areas = make_table(rnd, with_fail=(s % 5 == 4))
        lo = min(a[0] for a in areas)
        hi = max(a[0] + a[1] for a in areas)
        ops = [line, "rt.init"]
        for _ in range(ln):
            r = rnd.random()
            i = rnd.randrange(len(ents))
            ty, addr, kind = ents[i]
            if r < 0.35:
                v = rnd.choice(values(ty, rnd, 2))
                ops.append("rt.set %d %s %s" % (i, rnd.choice([ty, ty, ty, rnd.choice(TYPES)]), hexv(ty, v)))
            elif r < 0.5:
                # mostly the register's own type; now and then an operand of another type (refused as invalid, no change)
                oty = ty if rnd.random() < 0.8 else rnd.choice(TYPES)
                ops.append("rt.%s %d %s %s" % (rnd.choice(["bset", "bclr"]), i, oty, hexv(oty, rnd.choice([1, 2, 1 << (BITS[oty] - 1), rnd.getrandbits(BITS[oty]), 0xffff]))))
            elif r < 0.8:
                n = rnd.randint(0, 5)
                if rnd.random() < 0.3 and n:
                    # a block that ends on the last word of an area, or starts on the first
                    ab, asz = rnd.choice(areas)[:2]
                    a = rnd.choice([max(lo, ab + asz - n), ab])
                else:
                    a = rnd.randint(lo - 1, hi)
                mode = rnd.random()
                w = "".join(("%04x" % rnd.choice([0, 1, 6, 0x100, 0xff00, 0xffff, 0x7fc0, 0x7ff8, 0x8000])) if mode < 0.6 else ("%04x" % rnd.getrandbits(16)) for _ in range(n))
                ops.append("rt.bwrite %d %s" % (a, w or "-"))
            elif r < 0.9:
                # out-of-band corruption, then sanitise
                for _ in range(rnd.randint(1, 3)):
                    ai = rnd.randrange(len(areas))
                    size = areas[ai][1]
                    off = rnd.randint(0, size - 1)
                    k = rnd.randint(1, min(4, size - off))
                    ops.append("rt.poke %d %d %s" % (ai, off, "".join("%04x" % rnd.choice([rnd.getrandbits(16), 0xffff, 0x7ff8, 0x0001, 0]) for _ in range(k))))
                ops.append("rt.sanitise")
            elif r < 0.95:
                ops.append("rt.sanitise")
            else:
                # a user initialisation pass that fails at some register (or not at all): the table is not touched
                ops.append("rt.userinit %d" % rnd.randint(0, len(ents) + 1))
            ops.append("rt.get %d" % i)
        ops += ["rt.get %d" % k for k in range(len(ents))]
        cs.append(Case("h%d" % s, ops, ("history",)))
    return cs


def nontrivial(case, lines):
    return True
