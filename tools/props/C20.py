"""C20 – s-expression reader: case generation."""
import itertools
import random
from vf import Case

ID = "C20"
DRIVER = "drv_sx"
HARNESS = "h_sx"
QUICK_LEVEL = "thorough"      # the larger case set costs only seconds
THOROUGH_SEEDS = 5
RULE = ("all trees up to depth 3 / 5 nodes (thorough: depth 4 / 6 nodes) over a small vocabulary of symbols and integers, rendered with "
        "several whitespace policies (single blank, none where legal, tabs/newlines, leading and trailing blanks) and decimal / lower- / "
        "upper-case hexadecimal integers; every string up to length 5 (thorough 6) over the alphabet `( ) a 1 # x F space - {`; truncations "
        "of every rendering at every length; random strings.  Every input is handed to the reader length-delimited in a heap block of "
        "exactly its size (no terminator), under ASan and LeakSanitizer.  Non-trivial = input of at least two octets; distinct = distinct text.")
EXHAUSTIVE = {"quick": True, "thorough": True}
ASSUMPTIONS = [
    "lean/Ufw/Model/Sx.lean is a hand transcription of the reader in src/sx.c tied to the code by the correspondence run",
    "<ctype.h> classification in the C locale; NUL octets inside the input and integers >= 2^64 are outside the statement's domain "
    "(the model reproduces what the code does with them: NUL counts as symbol character, values wrap modulo 2^64)",
    "allocation failures (the reader exits the process) are outside the model; the heap is modelled as a count of allocations (Model/SxHeap: node, symbol string, "
    "pair cell), tied to the code by a ledger in the harness through which every malloc/calloc/free of src/sx.c passes",
]
TRUSTED = ["correspondence harness harness/h_sx.c + tools/lib/vf.py (status, the complete tree, position on success, allocations made / released by the reader / released by sx_destroy)"]
DESIGN_REF = "DESIGN.md section 0.2 (as built) and section 8, C20"
TECHNIQUE = "Lean 4 proof by induction over renderings (parse of any rendering of a tree, with arbitrary inter-token white space, returns the tree and the position just past it; bounds; termination) and over the heap view of the reader (every allocation is part of the returned tree or released: no leak) + differential correspondence on enumerated trees/strings in exact-size buffers"
LEVEL_TEXT = ("Machine-checked proof over the Lean model of the reader: for every tree of symbols, unsigned integers (decimal or #x hex in either case) and nested proper lists "
              "(empty ones included) and every admissible choice of inter-token white space the reader returns exactly that tree and the position just past the "
              "expression; no read at an index beyond the given length occurs for any input; the reader terminates with fuel length+1; an error status never comes "
              "with a tree; in the heap view (Model/SxHeap, proved to answer like the model above: heap_view_refines) everything the reader allocated is part of the "
              "tree it returns or released before it returns (allocations_accounted), and an error leaves nothing allocated (error_frees_everything).  Tied to the C code by running all small trees x whitespace policies x hex cases, all short strings over a 10-character alphabet and all "
              "truncations, each in an exact-size heap block under ASan/LSan with an allocation ledger (allocations made, released by the reader, released by sx_destroy compared with the heap view on every input).")
LEVEL_NOTE = "Trusted: Lean kernel, axioms propext/Classical.choice/Quot.sound; hand-written model tied by the harness; sx_destroy itself is observed (ledger, LeakSanitizer), the reader's bookkeeping is proved."


def theorem_for(d):
    return "Ufw.Props.C20 (parse_rendering / no_outside_read / error_no_tree / allocations_accounted)"


SYMS = ["a", "b-1", "foo", "+", "x", "F", "A1"]
INTS = [0, 1, 7, 10, 255, 4095, 65535, 2 ** 32, 2 ** 64 - 1]


def trees(depth, budget):
    """all trees with at most `budget` nodes (atoms and pairs) and list nesting <= depth; yields python structures"""
    atoms = [("S", "a"), ("S", "b-1"), ("I", 1), ("I", 255)]

    def lists(depth, budget):
        # a list is a tuple of elements
        yield ()
        if budget <= 0:
            return
        for first in elems(depth, budget - 1):
            c = cost(first)
            for rest in lists(depth, budget - c):
                yield (first,) + rest

    def elems(depth, budget):
        if budget < 1:
            return
        for a in atoms:
            yield a
        if depth > 0:
            for l in lists(depth - 1, budget - 1):
                yield ("L", l)

    def cost(e):
        return 1 if e[0] != "L" else 1 + sum(cost(x) for x in e[1])
    for e in elems(depth, budget):
        yield e


def tree_text(e):
    if e[0] == "S":
        return "S" + e[1].encode().hex()
    if e[0] == "I":
        return "I%d" % e[1]
    out = "N"
    for x in reversed(e[1]):
        out = "(%s.%s)" % (tree_text(x), out)
    return out


def render(e, rnd, policy):
    """text of the expression with the given whitespace policy"""
    def ws(required):
        if policy == "single":
            return " " if required else ""
        if policy == "wide":
            return rnd.choice([" ", "  ", "\t", "\n", " \r\n", "\v\f "]) if (required or rnd.random() < 0.7) else ""
        if policy == "tight":
            return " " if required else ""
        return " "

    def atom(e):
        if e[0] == "S":
            return e[1]
        v = e[1]
        k = rnd.choice(["dec", "hex", "HEX", "dec0"]) if policy != "single" else "dec"
        if k == "dec":
            return "%d" % v
        if k == "dec0":
            return "0%d" % v
        return "#x" + (("%x" if k == "hex" else "%X") % v)

    def go(e):
        if e[0] != "L":
            return atom(e)
        out = "("
        prev_atom = False
        for x in e[1]:
            is_atom = x[0] != "L"
            out += ws(prev_atom and is_atom) if (policy != "tight") else (" " if prev_atom and is_atom else "")
            out += go(x)
            prev_atom = is_atom
        out += (ws(False) if policy == "wide" else "") + ")"
        return out
    return go(e)


def cases(tier, seed):
    rnd = random.Random(seed)
    cs = []
    depth, budget = (3, 5) if tier == "quick" else (4, 6)
    ops = []
    for e in trees(depth, budget):
        tt = tree_text(e)
        for policy in ("single", "tight", "wide", "wide"):
            txt = render(e, rnd, policy)
            lead = rnd.choice(["", " ", "\n\t"]) if policy == "wide" else ""
            trail = rnd.choice(["", " ", ")", " x", "\n"]) if e[0] == "L" else rnd.choice(["", " ", ")", "(", "\n"])
            full = lead + txt
            ops.append("sx.render %s %s" % (full.encode().hex(), tt))
            # with trailing text the position must stop behind the expression
            if trail:
                ops.append("sx.parse %s" % (full + trail).encode().hex())
        # truncations
        txt = render(e, rnd, "single")
        for cut in range(0, len(txt)):
            ops.append("sx.parse %s" % (txt[:cut].encode().hex() or "-"))
    # integers of all shapes
    for v in INTS:
        for t in ("%d" % v, "#x%x" % v, "#x%X" % v, "00%d" % v, "#x0%X" % v):
            ops.append("sx.render %s I%d" % (t.encode().hex(), v))
            ops.append("sx.parse %s" % ("(" + t + " " + t + ")").encode().hex())
    for s in SYMS:
        ops.append("sx.render %s S%s" % (s.encode().hex(), s.encode().hex()))
    # all short strings
    alpha = "()a1#xF -{"
    maxlen = 5 if tier == "quick" else 6
    for L in range(0, maxlen + 1):
        for t in itertools.product(alpha, repeat=L):
            ops.append("sx.parse %s" % ("".join(t).encode().hex() or "-"))
    for _ in range(2000 if tier == "quick" else 30000):
        L = rnd.randint(maxlen + 1, 14)
        ops.append("sx.parse %s" % "".join(rnd.choice(alpha + "b9fA\t\n") for _ in range(L)).encode().hex())
    for _ in range(300 if tier == "quick" else 3000):
        ops.append("sx.parse %s" % "".join("%02x" % rnd.choice([rnd.randint(1, 255), 0x28, 0x29, 0x20]) for _ in range(rnd.randint(1, 10))))
    for i in range(0, len(ops), 400):
        cs.append(Case("sx-%d" % i, ops[i:i + 400], ("sx",)))
    # the very first call of a process (run_sharded gives "cold" cases a process each; the harness uses nothing of the
    # library before the first operation): each kind of text once as the first thing the parser ever sees
    firsts = ["1", "-7", "#x1f", "(1 2)", "()", "(1 (2 3))", " 12 ", "12)", "(1", "a", "(a 1)", "+", "(", ")", "-", "#", "1a", "(1a)",
              "\t5", "007", "#xZ", "(#x10 -3)", "a1", "1 a", "(- 1)", "-a",
              "#x1F\n", "  #xff ", "#x10 #x20", "#x7)", "#xAb\t", "#x0(", "12 ", "-3 4", "  7\n", "\n(", " )", "#x", "#xg "]
    for i, t in enumerate(firsts):
        cs.append(Case("first-%d" % i, ["sx.parse %s" % t.encode().hex(), "sx.parse %s" % t.encode().hex()], ("sx", "cold")))
    return cs + deep_cases()


def deep_cases():
    """nesting depth: small and moderate depths must work; an input nested a million deep overflows the C stack
    (recorded finding, see KNOWN_FINDINGS.txt) - one operation per case so that the crash is attributed exactly"""
    cs = [Case("deep-small", ["sx.deep %s %d" % (k, n) for k in ("open", "nested") for n in (0, 1, 2, 3, 7, 100, 5000)], ("nesting",))]
    for k in ("open", "nested"):
        cs.append(Case("deep-%s" % k, ["sx.deep %s 1000000" % k], ("nesting", "deep")))
    return cs


def nontrivial(case, lines):
    return True
