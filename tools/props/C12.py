"""C12 – SLIP: case generation for the correspondence check."""
import itertools
import random
from vf import Case
from gen import constants, cloops

ID = "C12"
DRIVER = "drv_streams"
HARNESS = "h_streams"
QUICK_LEVEL = "thorough"      # the larger case set costs only seconds
THOROUGH_SEEDS = 4
GEN = [constants.gen, cloops.slip_gen]
TIE = ['Ufw.Tie.Slip']
tie_modules = cloops.slip_tie_modules     # obligations over the functions of rfc1055.c the translator delivered
ALPHA = ["c0", "db", "dc", "dd", "41"]
RULE = ("every octet string up to a length bound over {END, ESC, ESC_END, ESC_ESC, 0x41} (quick: <= 5, thorough: <= 7, longer ones "
        "sampled) used (a) as payload: encode with the library, decode the result followed by a trailer, both modes; (b) as raw decoder "
        "input from each of the three decoder states in both modes, decoder called until the source is exhausted, every event observed; "
        "(c) as garbage prefix in front of library-encoded frames; random full-alphabet payloads up to 1 KiB; single decode/encode calls "
        "with a source error injected at every position and a sink that is full after every possible count.  Non-trivial = the case "
        "contains at least one octet of input; distinct = distinct operation text.")
EXHAUSTIVE = {"quick": True, "thorough": True}
ASSUMPTIONS = [
    "tie A: every function of src/rfc1055.c (context_init, open, close, encode_octet, decode_octet, encode, transition, decode) is translated from clang's "
    "typed AST on every run (tools/gen/cloops.py -> Gen/SlipFns.lean: switch as an if-chain, do-while(0), break, the context as its two fields, source and "
    "sink as the prelude's scripts); proved over the translation: gen_rfc1055_context_init, gen_rfc1055_encode and gen_rfc1055_decode - for every decoder "
    "state, every source and every sink whose failures are negative codes the run of the C encoder / decoder ends within one round per answer of the source "
    "and is the model's run (same return, same decoder state afterwards, same octets in the sink, source left at the same place) - (Ufw.Tie.SlipFns.*)",
    "tie B: lean/Ufw/Model/Slip.lean is a hand transcription of src/rfc1055.c (decoder as a one-octet transition function) tied to the code by the correspondence run",
    "sources and sinks are octet-style drivers owned by the harness (chunk adaptation is C17's subject); a source answering 0 is outside the model",
]
TRUSTED = ["translator tools/gen/cloops.py + prelude lean/Ufw/Tie/CPre.lean (meaning of loads, stores, casts, fuel, the source and sink scripts)",
           "correspondence harness harness/h_streams.c + tools/lib/vf.py (return codes incl. exact errno, decoder state after the call, "
           "octets consumed from the source, octets handed to the sink)"]
DESIGN_REF = "DESIGN.md section 0.2 (as built) and section 8, C12"
TECHNIQUE = "Lean 4 proofs by induction over payloads / streams on a transition-function model of the SLIP codec (round trip, transparency, bound, concatenation, resynchronisation in both modes, error pass-through) + differential correspondence on all short strings over the control alphabet"
LEVEL_TEXT = ("Machine-checked proof over the Lean model of rfc1055.c: the encoder output is the RFC 1055 frame, contains the delimiter only as "
              "delimiter and is at most 2n+1 (2n+2) octets; one decoder call on an encoded frame followed by anything returns exactly the payload; "
              "concatenated frames decode in order; from ANY decoder situation, in classic mode everything after the next delimiter, in "
              "start-of-frame mode everything after the first non-empty frame is delivered intact; invalid escapes are EILSEQ; the decoder never "
              "emits more than it consumed; source and sink errors are returned unchanged - for all payloads, streams and error positions. Tied to "
              "the C code by running both on every short string over the control alphabet in every role, plus random payloads and fault positions.")
LEVEL_NOTE = "Trusted: Lean kernel, axioms propext/Classical.choice/Quot.sound; hand-written model tied by the correspondence harness."
STATES = ["start", "end", "normal"]


def theorem_for(d):
    return "Ufw.Props.C12 (decode_encode / concat / resync_classic / resync_sof / bad_escape / *_passthrough)"


def strings(maxlen):
    out = ["-"]
    for L in range(1, maxlen + 1):
        out += ["".join(t) for t in itertools.product(ALPHA, repeat=L)]
    return out


def rhex(rnd, n):
    return "".join("%02x" % rnd.getrandbits(8) for _ in range(n)) or "-"


def cases(tier, seed):
    rnd = random.Random(seed)
    cs = []
    maxlen = 5 if tier == "quick" else 7
    strs = strings(maxlen)
    extra = []
    for _ in range(1500 if tier == "quick" else 20000):
        L = rnd.randint(maxlen + 1, 12)
        extra.append("".join(rnd.choice(ALPHA) for _ in range(L)))
    allstr = strs + extra
    chunk = 60
    for i in range(0, len(allstr), chunk):
        ops = []
        for s in allstr[i:i + chunk]:
            tr = rnd.choice(["-", "41", "c0", "dbdc41", "c041c0"])
            ops.append("slip.rt 0 %s %s" % (s, tr))
            ops.append("slip.rt 1 %s %s" % (s, tr))
            for sof in "01":
                for st in (STATES if sof == "1" else ["normal", "end"]):
                    ops.append("slip.stream %s %s %s" % (sof, st, s))
            # garbage prefix in front of well-formed frames
            ps = ",".join(rnd.choice(["41", "41c0", "db", "-", "4142dbdcc0", rhex(rnd, 3)]) for _ in range(3))
            g = s if s != "-" else ""
            ops.append("slip.frames 0 %s %s %s" % (rnd.choice(["normal", "end"]), (g + "c0"), ps))
            first = rnd.choice(["41", "c0", "dbdd", rhex(rnd, 2)])      # non-empty sacrificial frame
            ops.append("slip.frames 1 %s %s %s" % (rnd.choice(STATES), g or "-", first + "," + ps))
        cs.append(Case("str-%d" % i, ops, ("strings",)))
    # random payloads
    for i in range(20 if tier == "quick" else 200):
        n = rnd.choice([1, 2, 10, 100, 255, 256, 1024, rnd.randint(1, 1024)])
        p = "".join(rnd.choice(["c0", "db", "dc", "dd"]) if rnd.random() < 0.2 else "%02x" % rnd.getrandbits(8) for _ in range(n))
        cs.append(Case("rnd-%d" % i, ["slip.rt 0 %s -" % p, "slip.rt 1 %s 41" % p, "slip.enc 0 %s %d - -" % (p, 2 * n + 1),
                                        "slip.enc 1 %s %d - -" % (p, 2 * n + 2)], ("random",)))
    # error injection at every position
    pool = ["41c0db42", "c0", "dbdb", "414243", "dc41dddb", "-"] + [rhex(rnd, rnd.randint(1, 6)) for _ in range(6 if tier == "quick" else 60)]
    for j, p in enumerate(pool):
        n = 0 if p == "-" else len(p) // 2
        ops = []
        for sof in "01":
            for k in range(0, n + 1):
                for e in ("eio", "eagain", "eintr", "epipe", "eilseq"):
                    ops.append("slip.enc %s %s %d %d %s" % (sof, p, 2 * n + 2, k, e))
            for room in range(0, 2 * n + 3):
                ops.append("slip.enc %s %s %d - -" % (sof, p, room))
        cs.append(Case("encerr-%d" % j, ops, ("faults",)))
    # the encoder on top of drivers that fragment, stall or fail (scripted source and sink of both styles): the
    # two-octet escapes must survive a sink that takes one octet at a time
    scripts_plain = ["-", "k1", "k1,k1,k1,k1,k1,k1,k1,k1", "k2,k1,k3,k1,k1,k2", "k1,k2,k1,k2,k1,k2,k1,k2,k1,k2"]
    scripts_soft = ["i", "a,k1", "k1,i,k1,a,k1", "z", "k1,z", "k2,i,i,k1", "k1,k1,h:eio", "h:epipe", "k3,h:eio"]
    # an octet-style sink (a transmit register) that is busy exactly once, at every call position in turn:
    # inside an escape pair the octet is asked for again, in front of a plain octet the answer goes to the caller
    scripts_busy = [",".join(["k1"] * j + [b]) for j in range(0, 8) for b in ("a", "i", "z")]
    pays = ["c0", "db", "c0db", "41c0", "dbdb41c0c0", "4142", "-", "dcdd", "41db42c043"] + \
           ["".join(rnd.choice(ALPHA) for _ in range(rnd.randint(1, 6))) for _ in range(10 if tier == "quick" else 150)]
    ops = []
    for p in pays:
        for sof in "01":
            for kk in "co":
                for ksc in scripts_plain + scripts_soft + (scripts_busy if kk == "o" else []):
                    sk = rnd.choice("co")
                    ssc = rnd.choice(scripts_plain if sk == "c" else ["-"])
                    ops.append("slipx.enc %s %s %s %s %s %s" % (sof, sk, p, ssc, kk, ksc))
    for i in range(0, len(ops), 400):
        cs.append(Case("encx-%d" % i, ops[i:i + 400], ("endpoint-drivers",)))
    raw = ["41dbdcc042", "c041c0", "41db42c0", "dbc041c0", "c0c0", "4142", "db", "dbdb", "41dbddc0c042c0"] + \
          ["".join(rnd.choice(ALPHA) for _ in range(rnd.randint(1, 7))) for _ in range(8 if tier == "quick" else 80)]
    for j, s in enumerate(raw):
        n = len(s) // 2
        ops = []
        for sof in "01":
            for st in STATES:
                for k in range(0, n + 1):
                    for e in ("eio", "eagain", "eilseq"):
                        ops.append("slip.dec %s %s %s %d %d %s" % (sof, st, s, n, k, e))
                for room in range(0, n + 1):
                    ops.append("slip.dec %s %s %s %d - -" % (sof, st, s, room))
        cs.append(Case("decerr-%d" % j, ops, ("faults",)))
    return cs


def nontrivial(case, lines):
    return True
