"""Shared case-generation helpers for the register protocol (C06-C09): a reference encoder used
only to BUILD inputs (valid frames to corrupt, streams to feed).  Verdicts never come from here:
expected behaviour is computed by the Lean model and the Lean spec."""

F = 64          # sizeof(RPFrame) on this target; the harness reports the real value in its rp.cfg answer

RREQ, RRESP, WREQ, WRESP, META = 0, 1, 2, 3, 15
WS16, HDCRC, PLCRC = 1, 2, 4


def crc16(data, crc=0):
    for b in data:
        crc ^= b
        for _ in range(8):
            crc = (crc >> 1) ^ 0xA001 if crc & 1 else crc >> 1
    return crc


def be(n, v):
    return [(v >> (8 * (n - 1 - i))) & 0xff for i in range(n)]


def frame(ftype, opts, meta, seq, addr, size, payload=(), hdcrc=None, plcrc=None):
    """octets of a frame with the given option bits (checksums computed unless given)"""
    payload = list(payload)
    w0 = (meta << 12) | (opts << 8) | (ftype << 4)
    head = be(2, w0) + be(2, seq) + be(4, addr) + be(4, size)
    plc = []
    if opts & PLCRC:
        plc = be(2, crc16(payload) if plcrc is None else plcrc)
    hdc = []
    if opts & HDCRC:
        hdc = be(2, crc16(head + plc) if hdcrc is None else hdcrc)
    return head + hdc + plc + payload


def transport_opts(serial, opts, payload):
    o = opts & WS16
    if serial:
        o |= HDCRC
        if len(payload) > 0:
            o |= PLCRC
    return o


def slip(raw):
    out = []
    for b in raw:
        if b == 0xC0:
            out += [0xDB, 0xDC]
        elif b == 0xDB:
            out += [0xDB, 0xDD]
        else:
            out.append(b)
    return out + [0xC0]


def varint(n):
    out = []
    while True:
        if n < 128:
            out.append(n)
            return out
        out.append((n & 0x7f) | 0x80)
        n >>= 7


def wire(serial, raw):
    return slip(raw) if serial else varint(len(raw)) + list(raw)


def hexs(octets):
    return "".join("%02x" % b for b in octets) or "-"


def src_op(octets):
    """rp.src line(s) for a list of octets (kept below the harness' token limit)"""
    return "rp.src " + hexs(octets)


def cfg(mem, ep, B):
    return "rp.cfg %d %s %d %d" % (mem, ep, B, F)


def request(serial, write, ws16, seq, addr, size, payload=()):
    opts = transport_opts(serial, WS16 if ws16 else 0, payload)
    return frame(WREQ if write else RREQ, opts, 0, seq, addr, size, payload)


def rbytes(rnd, n, special=True):
    pool = [0xC0, 0xDB, 0xDC, 0xDD, 0x00, 0xFF, 0x80]
    return [rnd.choice(pool) if special and rnd.random() < 0.25 else rnd.getrandbits(8) for _ in range(n)]


def flip(octets, bit):
    """flip bit number `bit` in transmission order: octet index bit//8, least significant bit first"""
    o = list(octets)
    o[bit // 8] ^= 1 << (bit % 8)
    return o
