"""C16 – CRC-16/ARC: tie A (table translator) + correspondence cases."""
import os
import random
import sys
from vf import Case
sys.path.insert(0, os.path.join(os.path.dirname(os.path.abspath(__file__)), ".."))
from gen import crc_table, constants, cloops

ID = "C16"
DRIVER = "drv_codec"
HARNESS = "h_codec"
QUICK_LEVEL = "thorough"      # the larger case set costs only seconds
THOROUGH_SEEDS = 4
GEN = [crc_table.gen, constants.gen, cloops.crc_gen]
tie_modules = cloops.crc_tie_modules     # one obligation module per function of crc-16-arc.c the loop translator delivered


def _codec_consts():
    # h_codec.c includes the literal-call table that C15's generator writes
    from props import C15
    return C15.gen_consts()


GEN.append(_codec_consts)
TIE = ['Ufw.Tie.Misc']
GEN_OBLIGATIONS = ["Ufw.Lemmas.Crc.table_length", "Ufw.Lemmas.Crc.table_eq_bitwise (256 closed instances over the regenerated table)",
                   "Ufw.Lemmas.Crc.octet_formula", "Ufw.Lemmas.Crc.index_eq"]
ALLOW_BV = True
RULE = ("the 256 one-octet checksums from state 0 (the whole table) on every run; (state, octet) sweeps over ranges of 256 states x all "
        "256 octets compared by a rolling hash (16 random ranges quick, all 256 ranges = all 2^24 pairs thorough); all one- and two-octet "
        "buffers from sampled states; random buffers up to 4 KiB from random start values, split at random/every position; word buffers "
        "of every length 0..64 and of lengths around the powers of two up to 2048 words; dense rule-made buffers of 2^16 ... 2^19 (thorough: 2^21) octets, whole, in two parts and as words.  Three-way: C code vs. table-driven model (table regenerated from the source) vs. bitwise spec.  Non-trivial = "
        "non-empty buffer; distinct = distinct operation text.")
EXHAUSTIVE = {"quick": False, "thorough": True}
ASSUMPTIONS = [
    "tie A: crc16_table, crc16_octet's expression and CRC16_ARC_INITIAL are regenerated from src/crc-16-arc.c on every run; the theorems over them are re-checked",
    "tie A (loops): every function of src/crc-16-arc.c is translated from clang's typed AST on every run (tools/gen/cloops.py -> Gen/CrcLoops.lean: "
    "integer promotions explicit, loops as recursion on fuel, loads that fail outside the block) and proved to return the value of the model's folds on a block of "
    "exactly n octets / words with fuel > n, and to leave the block when n is larger (Ufw.Tie.CrcLoops.*); a function outside the translator's subset is reported "
    "`unavailable` and left to tie B",
    "tie B: the same functions are compared by running (three-way)",
    "the SYSTEM_ENDIANNESS_BIG branch of ufw_crc16_arc_u16 cannot be executed on this host: covered by theorem crc_u16_eq_octets only",
]
TRUSTED = ["translators tools/gen/crc_table.py, tools/gen/cloops.py + prelude lean/Ufw/Tie/CPre.lean (meaning of loads, casts, fuel)", "harness/h_codec.c + tools/lib/vf.py",
           "bv_decide axioms (Lean.ofReduceBool-style: the LRAT checker compiled by Lean is trusted, not the SAT solver)"]
DESIGN_REF = "DESIGN.md section 0.2 (as built) and section 8, C16"
TECHNIQUE = "Lean 4 proof: regenerated table = bitwise register (kernel evaluation), table formula for all 2^24 pairs (bv_decide), induction over the octet list; differential three-way correspondence"
LEVEL_TEXT = ("Machine-checked proof that the table-driven update of crc-16-arc.c - with the table and update expression regenerated from the "
              "source on every run - equals eight steps of the reflected-0x8005 bitwise register for every state and octet, hence "
              "ufw_crc16_arc = CRC-16/ARC for every octet list and start value, checksum of a concatenation = continuation, and the word "
              "variant = octet variant on the in-memory image (both byte orders).  The remaining hand-transcribed loops are tied by a "
              "three-way differential run; the thorough tier covers all 2^24 (state, octet) pairs in C.")
LEVEL_NOTE = ("Trusted: Lean kernel; axioms propext/Classical.choice/Quot.sound plus the per-lemma bv_decide axioms (octet_formula, index_eq, "
              "and_ff8); the table translator; the harness.")


def theorem_for(d):
    return "Ufw.Props.C16.crc_eq_spec / octet_eq_bitwise / crc_append / crc_u16_eq_octets"


def rhex(rnd, n):
    return "".join("%02x" % rnd.getrandbits(8) for _ in range(n)) or "-"


def cases(tier, seed):
    rnd = random.Random(seed)
    cs = [Case("table", ["crc.table"], ("table",))]
    ranges = list(range(256)) if tier == "thorough" else rnd.sample(range(256), 16)
    for r in ranges:
        cs.append(Case("sweep-%d" % r, ["crc.sweep %d %d" % (r * 256, r * 256 + 256)], ("sweep",)))
    # one- and two-octet buffers
    states = [0, 1, 0x8000, 0xffff, 0xa001] + [rnd.getrandbits(16) for _ in range(8 if tier == "quick" else 64)]
    for st in states:
        ops = ["crc.buf %04x %02x" % (st, d) for d in range(256)]
        ops += ["crc.buf %04x %02x%02x" % (st, rnd.getrandbits(8), rnd.getrandbits(8)) for _ in range(64)]
        cs.append(Case("short-%04x" % st, ops, ("short",)))
    if tier == "thorough":
        # one buffer beyond 32 bits of length (4 GiB + 4099 octets of address space), against the concatenation law
        cs.append(Case("huge", ["crc.huge ffff %d %d" % (2 ** 32 + 4099, 2 ** 31 + 7)], ("huge-length",)))
        if globals().get("REAL_TIER") == "thorough":
            # ... and 2^32 + 515 words for the word variant (minutes: thorough tier only)
            cs.append(Case("huge16", ["crc.huge16 a001 %d %d" % (2 ** 32 + 515, 2 ** 31 + 3)], ("huge-length",)))
        for st in states[:8]:
            for a in range(0, 256, 8):
                ops = ["crc.buf %04x %02x%02x" % (st, x, b) for x in range(a, a + 8) for b in range(256)]
                cs.append(Case("two-%04x-%d" % (st, a), ops, ("short",)))
    # random buffers, splits
    nb = 40 if tier == "quick" else 400
    for i in range(nb):
        n = rnd.choice([0, 1, 2, 3, 7, 8, 9, 63, 64, 65, 255, 256, 1000, 4096, rnd.randint(0, 4096)])
        buf = rhex(rnd, n)
        init = rnd.choice([0, 0, 0xffff, rnd.getrandbits(16)])
        ops = ["crc.buf %04x %s" % (init, buf), "crc.initial %s" % buf]
        ks = range(0, n + 1) if (n <= 65 or (tier == "thorough" and n <= 256)) else [rnd.randint(0, n) for _ in range(8)]
        ops += ["crc.split %04x %s %d" % (init, buf, k) for k in ks]
        cs.append(Case("buf-%d" % i, ops, ("buffer",)))
    # dense buffers far longer than a line of hex carries (made by rule on both sides): lengths around 2^16, 2^18 and 2^20
    # octets - counters of an implementation that works in blocks may be narrower than size_t
    mids = [65535, 65536, 65537, 131072 + 3, 262143, 262144, 262145, 262147, 300001, 524288 + 2] + ([1048576, 1048576 + 5, 2097152 + 6] if tier == "thorough" else [])
    ops = ["crc.mid %04x %d %d" % (rnd.choice([0, 0xffff, rnd.getrandbits(16)]), n, rnd.choice([0, n // 2, n - 1, rnd.randint(0, n)])) for n in mids]
    for i in range(0, len(ops), 5):
        cs.append(Case("mid-%d" % i, ops[i:i + 5], ("buffer", "long")))
    # sparse buffers: runs of zero octets behind / between a few non-zero ones, from start value zero and others (zero
    # octets from state zero leave the state alone - a shortcut taken on that must not be taken one octet too early or late);
    # the harness runs every buffer at start alignments 0..7
    ops = []
    for n in (4, 5, 8, 9, 12, 13, 16, 17, 24):
        for p in range(0, min(n, 9)):
            b = [0] * n
            b[p] = rnd.choice([1, 0x80, 0xff, rnd.randint(1, 255)])
            for init in (0, 0, 0xffff):
                ops.append("crc.buf %04x %s" % (init, "".join("%02x" % x for x in b)))
    for _ in range(150 if tier == "quick" else 1500):
        n = rnd.randint(4, 40)
        b = [rnd.randint(1, 255) if rnd.random() < 0.15 else 0 for _ in range(n)]
        init = rnd.choice([0, 0, 0, 0xffff, rnd.getrandbits(16)])
        h = "".join("%02x" % x for x in b)
        ops.append("crc.buf %04x %s" % (init, h))
        ops.append("crc.split %04x %s %d" % (init, h, rnd.randint(0, n)))
    for i in range(0, len(ops), 100):
        cs.append(Case("sparse-%d" % i, ops[i:i + 100], ("buffer", "sparse")))
    # word buffers
    # every length 0..64, and - as for the octet buffers - lengths around the next powers of two up to 4 KiB of image
    # (an implementation that works through the words in portions has its seams there, not below 64)
    longer = [65, 66, 96, 127, 128, 129, 191, 192, 193, 255, 256, 257, 511, 512, 513, 1000, 2048] + [rnd.randint(65, 2048) for _ in range(6)]
    for n in list(range(0, 65)) + sorted(set(longer)):
        img = rhex(rnd, 2 * n)
        init = rnd.choice([0, 0xffff, rnd.getrandbits(16)])
        cs.append(Case("u16-%d" % n, ["crc.u16 %04x %s" % (init, img), "crc.buf %04x %s" % (init, img)], ("words",)))
    return cs


def nontrivial(case, lines):
    return any(not op.endswith(" -") for op in case.ops)
