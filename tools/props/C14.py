"""C14 – varint: case generation for the correspondence check."""
import itertools
import random
from vf import Case
from gen import constants, cloops

ID = "C14"
DRIVER = "drv_codec"
HARNESS = "h_codec"
QUICK_LEVEL = "thorough"      # the larger case set costs only seconds
THOROUGH_SEEDS = 6
GEN = [constants.gen, cloops.varint_gen]
tie_modules = cloops.varint_tie_modules     # one obligation module per core function of variable-length-integer.c the loop translator delivered


def _codec_consts():
    # h_codec.c includes the literal-call table that C15's generator writes
    from props import C15
    return C15.gen_consts()


GEN.append(_codec_consts)
TIE = ['Ufw.Tie.Varint']
RULE = ("values: 0, 2^(7k)-1, 2^(7k), 2^(7k)+1 for every k, all single-bit values, type extremes and seeded random values, "
        "each through length query, buffer encoder (several buffer states incl. too little room), sink encoder; decoders: every "
        "octet string over {00,01,7f,80,81,ff} up to a length bound (sampled in quick, complete to length 7 in thorough) and random "
        "strings, each placed in a heap block of EXACTLY its size (so that reading past the end is an ASan report) at offsets 0..2, "
        "through the buffer decoder and the source decoder of all four types.  Non-trivial = a decode/encode that succeeds or a "
        "string of >= 2 octets; distinct = distinct operation text.")
EXHAUSTIVE = {"quick": False, "thorough": False}
ASSUMPTIONS = [
    "tie A (loops): varint_done, varint_encode, varint_decode, varint_from_source, varint_u64_length (and the typed wrappers of the decoders and "
    "length queries) are translated from clang's typed AST on every run (tools/gen/cloops.py -> Gen/VarintLoops.lean: promotions explicit, the buffer "
    "structure as its fields, the caller's 64-bit cell as a one-cell block, the source as a list of future answers, loops on fuel, checked loads and "
    "stores) and the five core functions and the typed buffer decoders and length queries (gen_varint_decode_u64/s64/u32, gen_varint_u64/u32_from_source, gen_varint_u32/s32/s64_length) are proved to agree with the model: same verdict, value, octet count, read / fill mark, octets written, source "
    "left behind, a failing source's code handed on, no access outside the memory, termination within ten rounds (Ufw.Tie.VarintLoops.*); a function "
    "outside the translator's subset is reported `unavailable` and left to tie B",
    "tie B: lean/Ufw/Model/Varint.lean is a hand transcription of src/variable-length-integer.c, compared with the code by running",
    "uint64_t arithmetic modelled as Nat reduced modulo 2^64 at the shifts; int<->unsigned conversion is two's complement",
    "the source decoder is exercised through an octet-style source owned by the harness (the endpoint plumbing is C17's subject)",
]
TRUSTED = ["translator tools/gen/cloops.py + prelude lean/Ufw/Tie/CPre.lean (meaning of loads, stores, casts, fuel, the octet source)",
           "correspondence harness harness/h_codec.c + tools/lib/vf.py (return code, value, consumed count / new read mark, "
           "encoded octets, fill mark; which errno a failing decode reports is compared only for 'illegal sequence')"]
DESIGN_REF = "DESIGN.md section 0.2 (as built) and section 8, C14"
TECHNIQUE = "Lean 4 proof by strong induction on the value / induction on the octet string (round trip, canonicity, decoder agreement, bounds) + differential correspondence"
LEVEL_TEXT = ("Machine-checked proof over the Lean model of variable-length-integer.c: encode is the canonical minimal LEB128 form whose "
              "length equals the length query (<= 5 / <= 10), both decoders invert it consuming exactly the encoding (any surrounding "
              "octets), signed values round-trip through their two's complement pattern, the two decoders agree on every octet string, "
              "an unterminated sequence is EILSEQ, and the buffer decoder never indexes outside the buffer (a cut-off varint is an error). "
              "All for unbounded inputs; the model is tied to the C code by a differential run on boundary/random values and enumerated "
              "octet strings in exact-size heap blocks under ASan.")
LEVEL_NOTE = ("Trusted: Lean kernel, axioms propext/Classical.choice/Quot.sound; hand-written model tied by the correspondence harness.")
TYPES = ["u32", "s32", "u64", "s64"]


def theorem_for(d):
    return "Ufw.Props.C14 (roundtrip_*, decoders_agree, no_terminator, buf_bounds, encode_buf_spec)"


def values(ty, rnd, nrand):
    bits = 32 if "32" in ty else 64
    vs = {0, 1}
    for k in range(0, 11):
        for d in (-1, 0, 1):
            vs.add((1 << (7 * k)) + d)
    for b in range(bits):
        vs.add(1 << b)
    vs |= {(1 << bits) - 1, (1 << (bits - 1)) - 1, 1 << (bits - 1)}
    for _ in range(nrand):
        vs.add(rnd.getrandbits(rnd.choice([7, 8, 14, 15, 21, 28, 32, bits])))
    out = set()
    for v in vs:
        v &= (1 << bits) - 1
        if ty[0] == "s" and v >= 1 << (bits - 1):
            v -= 1 << bits
        out.add(v)
    return sorted(out)


def cases(tier, seed):
    rnd = random.Random(seed)
    cs = []
    nrand = 300 if tier == "quick" else 5000
    for ty in TYPES:
        vs = values(ty, rnd, nrand)
        for i in range(0, len(vs), 25):
            ops = []
            for v in vs[i:i + 25]:
                mx = 5 if "32" in ty else 10
                st = rnd.choice([(mx, 0, 0), (mx + 3, 2, 1), (mx + 2, 2, 2), (16, 3, 0), (mx - 1, 0, 0), (mx + 1, 2, 0)])
                ops += ["vi.len %s %d" % (ty, v), "vi.enc %s %d %d %d %d" % ((ty, v) + st), "vi.tosink %s %d" % (ty, v)]
            cs.append(Case("val-%s-%d" % (ty, i), ops, ("values", ty)))
    # decoder inputs
    alpha = ["00", "01", "7f", "80", "81", "ff"]
    strings = []
    maxlen = 4 if tier == "quick" else 7
    for L in range(0, maxlen + 1):
        strings += ["".join(t) or "-" for t in itertools.product(alpha, repeat=L)]
    nsample = 1500 if tier == "quick" else 20000
    for _ in range(nsample):
        L = rnd.randint(maxlen + 1, 12)
        strings.append("".join(rnd.choice(alpha) for _ in range(L)))
    for _ in range(nsample // 3):
        L = rnd.randint(1, 12)
        strings.append("".join("%02x" % rnd.getrandbits(8) for _ in range(L)))
    # valid encodings followed by garbage, truncated at every point
    for _ in range(200 if tier == "quick" else 2000):
        v = rnd.getrandbits(rnd.choice([7, 14, 21, 28, 35, 63, 64]))
        enc = []
        while True:
            d = v & 0x7f
            v >>= 7
            enc.append(d | (0x80 if v else 0))
            if not v:
                break
        full = "".join("%02x" % x for x in enc) + rnd.choice(["", "00", "ff80"])
        for cut in range(0, len(full) // 2 + 1):
            strings.append(full[:2 * cut] or "-")
    for i in range(0, len(strings), 40):
        ops = []
        for s in strings[i:i + 40]:
            ty = rnd.choice(TYPES)
            n = 0 if s == "-" else len(s) // 2
            off = rnd.choice([0, 0, 0, 1, 2, n]) if n else 0
            ops.append("vi.decbuf %s %s %d %s" % (ty, s, min(off, n), rnd.choice(["zero", "full"])))
            ops.append("vi.decsrc %s %s" % (ty, s))
            if n >= 2 and rnd.random() < 0.4:
                # several values one behind the other in one buffer: each decode starts at the read mark the one before left
                ops.append("vi.decseq %s %s %d %s" % (ty, s, rnd.choice([0, 0, 1]), rnd.choice(["zero", "zero", "full"])))
            if n and rnd.random() < 0.5:
                # the same octets scattered over a chunk list, some chunks empty
                cuts = sorted(rnd.randint(0, n) for _ in range(rnd.choice([1, 2, 3, 4])))
                if rnd.random() < 0.5:
                    k = rnd.choice(cuts)
                    cuts = sorted(cuts + [k] * rnd.choice([1, 2]))
                ops.append("vi.decchunks %s %s %s" % (ty, s, ",".join(map(str, cuts))))
            if n and rnd.random() < 0.5:
                # a source that is busy / interrupted / failing once, in front of one of the octets
                ops.append("vi.decsrcb %s %s %d %s" % (ty, s, rnd.randint(0, n), rnd.choice(["eagain", "eagain", "eintr", "eio"])))
        cs.append(Case("dec-%d" % i, ops, ("decode",)))
    return cs


def nontrivial(case, lines):
    return any(l.startswith("ok") for l in lines)
