"""C07 – corrupted frames are never executed nor acknowledged: case generation."""
import random
from vf import Case
from gen import constants, cloops
from props import regpcommon as R

ID = "C07"
DRIVER = "drv_regp"
HARNESS = "h_regp"
GEN = [constants.gen, cloops.regp_gen]
TIE = ['Ufw.Tie.Regp']
tie_modules = cloops.regp_tie_modules     # obligations over the helper functions of register-protocol.c the translator delivered
RULE = ("serial channel, corpus of well-formed frames of every type (read/write requests and responses in both word sizes, error responses, "
        "meta) with payloads of 0..9 atoms: every single-bit flip of the whole frame, every two-bit flip inside the checksummed fields "
        "(thorough; quick: all pairs of a 3-frame sub-corpus plus 400 random pairs per frame), every burst of length 2..16 (first and last bit flipped, "
        "random interior; thorough: 12 interiors at every bit offset; quick: one interior, every offset for a quarter of the corpus and every fourth offset for the rest) in transmission order (octet by octet, least significant bit "
        "first), every truncation length, extensions by 1..4 octets; generated frames with all eight option-bit combinations on both "
        "transports, with correct and incorrect checksums; random octet strings.  Every frame is delivered in its transport envelope, "
        "received, processed and released.  Non-trivial = the verdict is not `accept`; distinct = distinct operation text.")
EXHAUSTIVE = {"quick": False, "thorough": False}
ASSUMPTIONS = [
    "corruptions act on the octets of the frame, which are then delivered in an intact SLIP envelope; wire-level flips that create or destroy a delimiter are the subject of C12 and fall under the arbitrary-octet-sequence part of the statement",
    "bursts are contiguous in transmission order of a serial line (least significant bit of every octet first) - the order CRC-16/ARC is defined over",
    "two-bit errors are proved detected for bit distances up to 32 766 (the order of x modulo the generator polynomial is 32 767, kernel evaluation); beyond that distance - 4 095 octets - CRC-16/ARC does miss two-bit errors, the bound is part of the theorem",
    "bursts that touch both octet 11 (last octet of the block-size field) and the header checksum behind it are outside what the theorems cover and outside what the code can detect: recorded known finding with a proved witness (Ufw.Props.C07.burst_across_size_and_checksum_accepted)",
    "tie A (helper functions): payload_plausible, req2resp, msem_size, memtype_valid, raw_with_hdcrc, raw_with_plcrc (and make_motv, regp_has_*, "
    "address_min/max, reported in the evidence) are translated from clang's typed AST on every run (tools/gen/cloops.py -> Gen/RegpFns.lean: nested members as "
    "flattened fields, switch as an if-chain, enumeration constants evaluated) and the first six are proved to return what the model's functions return "
    "(Ufw.Tie.RegpFns.*: gen_payload_plausible - the size rule of reception, for all 2^32 block sizes and 2^64 payload sizes - gen_req2resp, gen_msem_size_*, "
    "gen_memtype_valid, gen_raw_with_hdcrc/plcrc)",
    "lean/Ufw/Model/Regp.lean is a hand transcription of parse_header / payload_plausible / check_payload / regp_recv / regp_process tied to the code by the correspondence run; Spec.Regp.classify is the independent reading of doc/regp.txt",
]
TRUSTED = ["translator tools/gen/cloops.py + prelude lean/Ufw/Tie/CPre.lean (helper functions of register-protocol.c)",
           "correspondence harness harness/h_regp.c + tools/lib/vf.py (verdict, backend call log, reply octets)"]
DESIGN_REF = "DESIGN.md section 0.2 (as built) and section 8, C07"
TECHNIQUE = ("Lean 4 proofs: the model's verdict on an arbitrary octet string equals the independent reading of the document (classify); CRC-16/ARC is linear, its "
             "step is injective, so every error confined to 16 consecutive bits and every detected-class error in a checksummed field changes the checksum; a frame "
             "that is not accepted causes no backend call and no acknowledgement + exhaustive 1-bit/burst/truncation enumeration in the differential run")
LEVEL_TEXT = ("Machine-checked proof over the Lean model of the receiver: for every octet string the verdict (accept / bad header encoding / bad header checksum / implausible "
              "payload size / bad payload checksum) equals Spec.Regp.classify written from doc/regp.txt - in particular the payload checksum is verified whenever the frame "
              "declares one; a frame whose verdict is not accept is never handed to the backend and never acknowledged, header faults are answered with the META message, "
              "payload faults of requests with the error response; CRC-16/ARC changes under every non-zero error pattern confined to a 16-bit window, for messages of any length, hence a burst inside sequence number / "
              "address / block size of an accepted frame with header checksum is classified as bad header checksum and a burst inside the payload of a frame with payload checksum as bad payload checksum "
              "; the same for every two-bit error whose bits are at most 32 766 positions apart (the order of x modulo the polynomial is 32 767, established by kernel evaluation; frames of up to 4 095 octets: any two positions) ; a single-bit error in the first header word of an accepted serial frame is never accepted (checksum-covered bits, or - for the two checksum option bits - the size rule / header length) (bursts straddling block size and header checksum are a recorded finding).  "
              "Tied to the C code by enumerating all 1-bit flips, bursts, truncations and extensions of a frame corpus and all option-bit combinations.")
LEVEL_NOTE = "Trusted: Lean kernel, axioms propext/Classical.choice/Quot.sound + bv_decide axioms (CRC step lemmas); hand-written model tied by the harness."
ALLOW_BV = True


def theorem_for(d):
    return "Ufw.Props.C07 (verdict_eq_spec / rejected_not_executed / header_burst_rejected / payload_burst_rejected)"


def rpf():
    return ["rp.recv", "rp.process", "rp.free"]


def corpus(rnd, serial, mem):
    unit = mem // 8
    ws = mem == 16
    fs = []
    for n in (0, 1, 3, 9):
        fs.append(("rreq%d" % n, R.request(serial, False, ws, rnd.getrandbits(16), rnd.getrandbits(32), n)))
        if n:
            fs.append(("wreq%d" % n, R.request(serial, True, ws, rnd.getrandbits(16), rnd.getrandbits(32), n, R.rbytes(rnd, n * unit))))
            pl = R.rbytes(rnd, n * unit)
            fs.append(("rresp%d" % n, R.frame(R.RRESP, R.transport_opts(serial, R.WS16 if ws else 0, pl), 0, rnd.getrandbits(16), rnd.getrandbits(32), n, pl)))
    # payloads whose checksum is 0x0000 (all zero; a random prefix followed by its own checksum): a zero checksum
    # FIELD is a checksum like any other and must be verified
    fs.append(("wreq-zero", R.request(serial, True, ws, rnd.getrandbits(16), rnd.getrandbits(32), 3, [0] * (3 * unit))))
    pre = R.rbytes(rnd, 6 * unit - 2)
    c = R.crc16(pre)
    fs.append(("wreq-crc0", R.request(serial, True, ws, rnd.getrandbits(16), rnd.getrandbits(32), 6, pre + [c & 0xff, c >> 8])))
    fs.append(("wresp", R.frame(R.WRESP, R.transport_opts(serial, 0, []), 0, 5, 6, 0)))
    pl = R.be(4, rnd.getrandbits(32))
    fs.append(("eunmapped", R.frame(R.RRESP, R.transport_opts(serial, 0, pl), 7, 1, 2, 4, pl)))
    fs.append(("meta1", R.frame(R.META, R.transport_opts(serial, 0, []), 1, 0, 0, 0)))
    return fs


def deliver(serial, raw, damaged=None):
    """feed one frame; `damaged` = tag of a corruption of a valid frame that the statement says must be rejected"""
    if damaged:
        return ["rp.recvx %s %s" % (damaged, R.hexs(R.wire(serial, raw))), "rp.process", "rp.free"]
    return [R.src_op(R.wire(serial, raw))] + rpf()


def burst_tag(start, length):
    # a burst that touches both the last header field octet (11) and the header checksum (12, 13) leaves the
    # class a CRC placed in the middle of the frame can promise: recorded finding, tagged so that it stays apart
    cls = "size+hdcrc" if start < 96 <= start + length - 1 else "inside"
    return "burst:%d+%d:%s" % (start, length, cls)


def burst(rnd, raw, start, length):
    o = list(raw)
    bits = [start, start + length - 1] + [b for b in range(start + 1, start + length - 1) if rnd.random() < 0.5]
    for b in set(bits):
        o[b // 8] ^= 1 << (b % 8)
    return o


def cases_plain(tier, seed):
    rnd = random.Random(seed)
    cs = []
    quick = tier == "quick"
    for mem in (16, 8):
        fs = corpus(rnd, True, mem)
        for idx, (name, raw) in enumerate(fs):
            nb = len(raw) * 8
            ops = [R.cfg(mem, "serial", 256), "rp.backend 0 0 1"] + deliver(True, raw)
            for b in range(nb):
                ops += deliver(True, R.flip(raw, b), "1bit:%d" % b)
            cs.append(Case("bit1-%d-%s" % (mem, name), ops, ("1bit", name)))
            # bursts
            ops = [R.cfg(mem, "serial", 256), "rp.backend 0 0 1"]
            for length in range(2, 17):
                for start in range(16, nb - length + 1):
                    if quick and idx % 4 != 0 and (start + length) % 4 != 0:
                        continue            # quick: every offset for a sub-corpus, every fourth for the rest
                    for _ in range(1 if quick else 12):
                        ops += deliver(True, burst(rnd, raw, start, length), burst_tag(start, length))
            cs.append(Case("burst-%d-%s" % (mem, name), ops, ("burst", name)))
            # two-bit flips inside the protected fields (everything behind word 0)
            ops = [R.cfg(mem, "serial", 256), "rp.backend 0 0 1"]
            pairs = [(a, b) for a in range(16, nb) for b in range(a + 1, nb)]
            if quick and idx % 5 != 0:
                pairs = rnd.sample(pairs, min(400, len(pairs)))
            for (a, b) in pairs:
                ops += deliver(True, R.flip(R.flip(raw, a), b), "2bit:%d,%d" % (a, b))
            cs.append(Case("bit2-%d-%s" % (mem, name), ops, ("2bit", name)))
            # truncations and extensions
            ops = [R.cfg(mem, "serial", 256), "rp.backend 0 0 1"]
            for k in range(0, len(raw)):
                ops += deliver(True, raw[:k], "trunc:%d" % k)
            for k in range(1, 5):
                ops += deliver(True, raw + R.rbytes(rnd, k), "ext:%d" % k)
                ops += deliver(True, raw + [0] * k, "ext0:%d" % k)
            cs.append(Case("trunc-%d-%s" % (mem, name), ops, ("truncate-extend", name)))
            # the same extensions for an instance whose frame block holds this frame exactly (and with one octet to spare):
            # what does not fit any more must be noticed, not dropped
            for spare in (0, 1):
                ops = [R.cfg(mem, "serial", R.F + len(raw) + spare), "rp.backend 0 0 1"] + deliver(True, raw)
                for k in range(1, 5):
                    ops += deliver(True, raw + R.rbytes(rnd, k), "ext:%d" % k)
                    ops += deliver(True, raw + [0] * k, "ext0:%d" % k)
                ops += deliver(True, raw)
                cs.append(Case("fit-%d-%s-%d" % (mem, name, spare), ops, ("truncate-extend", "exact-block", name)))
    # damage on the wire (behind the SLIP encoder / inside the length prefix) and sources that run dry or fail in the
    # middle of a frame: the framing layer itself reports the failure.  The service loop reuses one RPMaybeFrame: a
    # request was served just before, and nothing of it may be served again.
    for mem in (16, 8):
        for ep in ("serial", "tcp"):
            serial = ep == "serial"
            fs = corpus(rnd, serial, mem)
            good = [raw for (name, raw) in fs if name.startswith("wreq")][0]
            ops = [R.cfg(mem, ep, 256), "rp.backend 0 0 1"]
            for idx, (name, raw) in enumerate(fs):
                w = R.wire(serial, raw)
                bits = list(range(len(w) * 8))
                if quick:
                    bits = rnd.sample(bits, min(len(bits), 60))
                for b in bits:
                    dw = list(w)
                    dw[b // 8] ^= 1 << (b % 8)
                    ops += deliver(serial, good)
                    ops += [R.src_op(dw)] + rpf() + rpf()     # whatever is left over is taken (or refused) as well
                for k in ([0, 1, len(w) // 2, len(w) - 1] if quick else range(len(w))):
                    for ev in ("!eio", "!eagain", None):
                        ops += deliver(serial, good)
                        ops += ["rp.src " + (R.hexs(w[:k]) + " " if k else "") + (ev or "")] + rpf()
                        ops += [R.src_op(w[k:])] + rpf() + rpf()
            cs.append(Case("wire-%d-%s" % (mem, ep), ops, ("wire-damage", ep)))
    # all option-bit combinations, both transports, good and bad checksums
    for mem in (8, 16):
        unit = mem // 8
        for ep in ("serial", "tcp"):
            serial = ep == "serial"
            ops = [R.cfg(mem, ep, 256), "rp.backend 0 0 1"]
            for opts in range(16):
                for ftype in (R.RREQ, R.RRESP, R.WREQ, R.WRESP, R.META, 4, 14):
                    for n in (0, 1, 2, 3):
                        for variant in ("good", "badhd", "badpl", "badpl0", "goodpl0", "len+1", "len-1", "wrap31", "wrap32"):
                            u = 2 if opts & 1 else 1
                            pl = R.rbytes(rnd, n * u, special=False)
                            meta = 0 if ftype in (R.RREQ, R.WREQ) else (rnd.choice([1, 2]) if ftype == R.META else rnd.randint(0, 11))
                            if rnd.random() < 0.05:
                                meta = rnd.randint(0, 15)
                            size = n
                            if variant in ("badpl0", "goodpl0") and not (pl and opts & R.PLCRC):
                                continue
                            if variant == "badpl0":          # checksum field 0000 over a payload whose checksum is not zero
                                while R.crc16(pl) == 0:
                                    pl[0] ^= 1
                            if variant == "goodpl0" and len(pl) > 2:   # payload whose true checksum is 0000
                                c0 = R.crc16(pl[:-2])
                                pl = pl[:-2] + [c0 & 0xff, c0 >> 8]
                            # block sizes whose octet count does not fit 32 bits: the payload that is present is far shorter
                            # than announced, whatever a 32-bit product says
                            if variant == "wrap31":
                                size = 0x80000000 + n
                            elif variant == "wrap32":
                                size = rnd.choice([0xffffffff, 0xfffffffe, 0x7fffffff, 0x40000000 + n, 0xc0000000 + n])
                            if variant == "len+1":
                                pl = pl + [rnd.getrandbits(8)]
                            elif variant == "len-1":
                                if not pl:
                                    continue
                                pl = pl[:-1]
                            fr = R.frame(ftype, opts, meta, rnd.getrandbits(16), rnd.getrandbits(32), size, pl,
                                         hdcrc=(rnd.getrandbits(16) if variant == "badhd" else None),
                                         plcrc=(rnd.getrandbits(16) if variant == "badpl" else 0 if variant == "badpl0" else None))
                            if variant in ("len+1", "len-1") and opts & R.PLCRC:
                                # checksum of the announced payload, so that only the size rule can object
                                pass
                            ops += deliver(serial, fr)
            cs.append(Case("options-%d-%s" % (mem, ep), ops, ("options", ep)))
    # random octet strings and random first words
    for ep in ("serial", "tcp"):
        serial = ep == "serial"
        ops = [R.cfg(16, ep, 256), "rp.backend 0 0 1"]
        for _ in range(300 if quick else 3000):
            n = rnd.choice([0, 1, 5, 11, 12, 13, 14, 15, 16, 17, 20, rnd.randint(0, 40)])
            raw = R.rbytes(rnd, n, special=False)
            if n >= 2 and rnd.random() < 0.7:
                raw[0] = rnd.choice([0x00, 0x01, 0x02, 0x03, 0x04, 0x07, 0x10, 0x70, 0xb0, 0xc0]) | (raw[0] & 0x00)
                raw[1] = rnd.choice([0x00, 0x10, 0x20, 0x30, 0xf0, 0x40]) | (raw[1] & 0x0f if rnd.random() < 0.2 else 0)
            ops += deliver(serial, raw)
        cs.append(Case("random-%s" % ep, ops, ("random", ep)))
    return cs


def nontrivial(case, lines):
    return any("v=" in l and "v=accept" not in l for l in lines)


def cases(tier, seed):
    """cases_plain, plus every fourth case once more with the replies going into a chunk-style sink that takes three
    octets per call (rp.sinkmode): what is answered must not depend on how the sink takes it"""
    cs = cases_plain(tier, seed)
    extra = []
    for i, c in enumerate(cs):
        if i % 4 == 0 and c.ops and c.ops[0].startswith("rp.cfg"):
            ops = []
            for op in c.ops:
                ops.append(op)
                if op.startswith("rp.cfg"):
                    ops.append("rp.sinkmode chunk:3")
            extra.append(Case(c.cid + "-chunk3", ops, tuple(c.tags) + ("chunk-sink",)))
    return cs + extra
