"""C04 – table initialisation: case generation."""
import itertools
import random
from vf import Case
from gen import constants, cloops
from props.regcommon import SIZE

ID = "C04"
DRIVER = "drv_regtable"
HARNESS = "h_regtable"
THOROUGH_SEEDS = 2
GEN = [constants.gen, cloops.regs_gen]      # tie A: the address arithmetic of registers/core.c, translated from clang's AST
tie_modules = cloops.regs_tie_modules
TIE = ['Ufw.Tie.RegTable']
RULE = ("exhaustive small scope: 0-3 areas over a base/size grid (adjacent, overlapping by one atom, reversed order, empty area between "
        "populated ones, areas without write callback, skip-defaults areas, callback-backed areas); 0-4 registers of sizes 1/2/4 atoms at every "
        "placement incl. straddling area ends and holes, reversed and overlapping registers; defaults inside / outside their constraint; pairs of areas and of registers 2^31 atoms and more apart, in both orders.  After "
        "every initialisation: result code and index, the initialised flag, each area's first/last/count, complete storage, every register read "
        "back, and the uninitialised answers of the typed/block/iteration/sanitise operations after a failure.  Non-trivial = table with at "
        "least one area and one register; distinct = distinct operation text.")
EXHAUSTIVE = {"quick": False, "thorough": True}
ASSUMPTIONS = [
    "model and address-arithmetic assumptions as for C01; every area has `size` atoms of storage (hypothesis `Sized` of the theorems); at most AREA_HANDLE_MAX / REGISTER_HANDLE_MAX - 1 areas / entries (the too-many results are not reachable with finite lists)",
    "where the statement leaves the precedence between rule order and index order open, the spec follows the single ascending pass of the clean code "
    "(per register: inside one area before default acceptable)",
]
TRUSTED = ["correspondence harness harness/h_regtable.c + tools/lib/vf.py"]
DESIGN_REF = "DESIGN.md section 0.2 (as built) and section 8, C04"
TECHNIQUE = "Lean 4 proofs over the register-table model (loop invariant of the default-loading loop: initialisation succeeds exactly on the well-formed descriptions, otherwise names the first violated rule; uninitialised guard of every operation; post-state incl. per-area register runs) + enumerated table descriptions in the differential correspondence"
LEVEL_TEXT = ("Machine-checked proof over the Lean model of register_init, for every description: init_success_iff - it succeeds exactly when there is at least one area, "
              "areas and registers are ascending and non-overlapping, every register lies wholly inside one area and every default that gets loaded is acceptable; "
              "init_first_error - otherwise code and index are those of the first violated rule; init_outcome / uninitialised_refuses - a failure leaves the table "
              "uninitialised and every typed, block, iteration and sanitise operation says so; init_post - after success registers are linked to their area, registers of "
              "areas that load defaults read back their default, every other word of memory-backed areas is zero; init_records - each area records exactly the contiguous "
              "run of registers located in it; init_good / init_then_history - the result is the state from which C05's history invariant starts.  Proof by a loop invariant "
              "of the default-loading loop (Lemmas/RegInit).  Tied to the C code by enumerating area layouts x register layouts x defaults x area kinds.")
LEVEL_NOTE = "Trusted: as C01."


def theorem_for(d):
    return "Ufw.Props.C04 (init_success_iff / init_first_error / init_post / init_records / uninitialised_refuses)"


AREA_SETS = [
    "-", "16:4:rw:M", "16:8:rw:M", "16:4:rw:M|20:4:rw:M", "16:4:rw:M|19:4:rw:M", "20:4:rw:M|16:4:rw:M", "16:4:rw:M|24:4:rw:M",
    "16:4:rw:M|20:0:rw:M|20:4:rw:M", "16:4:rw:M|20:2:rw:M|24:4:rw:M", "16:4:rw:M|21:2:rw:M|22:4:rw:M", "16:4:rw:CRW|20:4:rw:M",
    "16:4:rw:CR-|20:4:rw:M", "16:4:rws:M|20:4:rw:M", "16:4:r:M|20:4:w:M", "16:4:rw:M|20:4:rw:M|28:2:rw:M", "16:4:rw:M|16:4:rw:M",
    # reserved areas (neither memory nor callbacks) in front of, between and behind others; only reserved areas
    # (placed where no register of the layouts below lies: a register in an area without read callback is outside the statements, see DESIGN 0.3)
    # areas at address 0, also empty ones (base + size - 1 must not be computed for them)
    "0:0:rw:M|16:4:rw:M", "0:0:rw:CRW|16:8:rw:M", "0:4:rw:M|16:4:rw:M", "0:0:rw:M|0:4:rw:M|16:4:rw:M",
    "4:4:rw:C--|16:4:rw:M", "16:4:rw:M|20:4:rw:M|40:4:rw:C--", "4:4:r:C--|16:4:rw:M|24:4:rw:M|40:2:rw:C--", "40:8:rw:C--",
]
TYPES_BY_SIZE = {1: ["u16", "s16"], 2: ["u32", "f32"], 4: ["u64", "f64"]}


def entry(rnd, size, addr, good):
    ty = rnd.choice(TYPES_BY_SIZE[size])
    if ty[0] == "f":
        dflt, chk = (("%0*x" % (size * 4, 0)) if good else ("7fc00000" if size == 2 else "7ff8000000000000")), "t"
    else:
        chk = rnd.choice(["t", "t", "m%0*x" % (size * 4, 16), "c0", "f"])
        if good:
            dflt = "%0*x" % (size * 4, 18)
        else:
            chk = rnd.choice(["m%0*x" % (size * 4, 16), "c0", "c1"])
            dflt = "%0*x" % (size * 4, 3)
    return "%s:%d:%s:%s" % (ty, addr, dflt, chk)


def cases(tier, seed):
    rnd = random.Random(seed)
    cs = []
    layouts = []
    # register layouts: up to 3 (quick) / 4 (thorough) registers, sizes 1/2/4, addresses in 14..30
    maxr = 3 if tier == "quick" else 4
    addrs = list(range(14, 31))
    for k in range(0, maxr + 1):
        if k == 0:
            layouts.append([])
            continue
        count = 0
        limit = 400 if tier == "quick" else 6000
        while count < limit:
            regs = sorted(rnd.sample(addrs, k)) if rnd.random() < 0.85 else [rnd.choice(addrs) for _ in range(k)]
            layouts.append([(a, rnd.choice([1, 1, 2, 4])) for a in regs])
            count += 1
    n = 0
    ops = []
    for aset in AREA_SETS:
        use = layouts if tier == "thorough" else rnd.sample(layouts, 220)
        for lay in use:
            bad_at = rnd.choice([None, None, None, 0, 1, 2])
            ents = "|".join(entry(rnd, s, a, i != bad_at) for i, (a, s) in enumerate(lay)) or "-"
            be = rnd.randint(0, 1)
            ops.append(["rt.table %d %s %s" % (be, aset, ents), "rt.init"] + ["rt.get %d" % i for i in range(len(lay) + 1)] +
                       ["rt.set 0 u16 0012", "rt.bread 16 2", "rt.bwrite 16 0012", "rt.foreach 16 4 -", "rt.sanitise", "rt.hole 16 1"])
    for i in range(0, len(ops), 40):
        flat = [x for o in ops[i:i + 40] for x in o]
        cs.append(Case("i%d" % n, flat, ("init",)))
        n += 1
    # blocks that lie far apart in the 32-bit address space (distances of 2^31 atoms and more, next to the top):
    # order and overlap are questions about unsigned addresses, not about signed differences
    FAR = [0x7ffffff0, 0x80000000, 0x80000010, 0x90000000, 0xc0000000, 0xfffffff0]
    far_ops = []
    for lo in (16, 0x100, 0x7ffffff0):
        for hi in FAR:
            if hi == lo:
                continue
            a, b = min(lo, hi), max(lo, hi)
            for order in ((a, b), (b, a)):
                aset = "%d:4:rw:M|%d:4:rw:M" % order
                for lay in ([(order[0] + 1, 1), (order[1] + 1, 2)], [(a, 1), (b + 2, 2)], [(b, 2), (a + 1, 1)], [(a + 1, 1)], []):
                    ents = "|".join(entry(rnd, sz, ad, True) for (ad, sz) in lay) or "-"
                    far_ops.append(["rt.table %d %s %s" % (rnd.randint(0, 1), aset, ents), "rt.init"] +
                                   ["rt.get %d" % i for i in range(len(lay) + 1)] +
                                   ["rt.set 0 u16 0012", "rt.bread %d 2" % a, "rt.bread %d 2" % b, "rt.bwrite %d 0012" % b,
                                    "rt.foreach %d 4 -" % a, "rt.sanitise", "rt.hole %d 1" % a])
    for i in range(0, len(far_ops), 30):
        cs.append(Case("far%d" % i, [x for o in far_ops[i:i + 30] for x in o], ("init", "far-apart")))
    # initialising a table a second time after its description was edited in place: nothing of what the first
    # initialisation (and the operations since) left in the structures may show through
    multi = [a for a in AREA_SETS if a.count("|") >= 1]
    good_layouts = [l for l in layouts if l]
    for j in range(60 if tier == "quick" else 600):
        aset = rnd.choice(multi)
        aset2 = aset if rnd.random() < 0.7 else rnd.choice(multi)
        seq = []
        first = True
        for _ in range(rnd.choice([2, 2, 3])):
            lay = rnd.choice(good_layouts)
            if not first and rnd.random() < 0.5:
                # the same registers, moved by a word or two
                lay = [(max(14, a + rnd.choice([-2, -1, 0, 1, 2, 4])), sz) for a, sz in lay]
                lay.sort()
            bad_at = rnd.choice([None, None, None, 0, 1])
            ents = "|".join(entry(rnd, sz, a, i != bad_at) for i, (a, sz) in enumerate(lay)) or "-"
            seq += ["rt.%s %d %s %s" % ("table" if first else "edit", j % 2, aset if first else aset2, ents), "rt.init"]
            seq += ["rt.get %d" % i for i in range(len(lay) + 1)]
            seq += ["rt.set %d u16 0013" % rnd.randrange(len(lay)), "rt.set %d u32 00000014" % rnd.randrange(len(lay)),
                    "rt.bwrite %d 00150016" % rnd.randint(15, 24), "rt.bread 16 6", "rt.foreach 14 16 -", "rt.sanitise"]
            first = False
        cs.append(Case("re%d" % j, seq, ("re-initialisation",)))
    # ... in particular edits after which a register still starts where it did but does not fit any more: its area
    # shrunk by a word or two, or the register widened; and the edits back.  The verdict is that of a fresh description.
    for j in range(80 if tier == "quick" else 800):
        aset = rnd.choice(multi)
        lay = rnd.choice(good_layouts)
        parts = [a.split(":") for a in aset.split("|")]
        seq = ["rt.table %d %s %s" % (j % 2, aset, "|".join(entry(rnd, sz, a, True) for a, sz in lay)), "rt.init"]
        for _ in range(rnd.choice([1, 2, 2])):
            lay2, parts2 = list(lay), [list(x) for x in parts]
            if rnd.random() < 0.5:
                k = rnd.randrange(len(parts2))
                parts2[k][1] = str(max(0, int(parts2[k][1]) - rnd.choice([1, 1, 2, 3])))
            else:
                i = rnd.randrange(len(lay2))
                lay2[i] = (lay2[i][0], rnd.choice([s2 for s2 in (1, 2, 4) if s2 != lay2[i][1]]))
            aset2 = "|".join(":".join(x) for x in parts2)
            seq += ["rt.edit %d %s %s" % (j % 2, aset2, "|".join(entry(rnd, sz, a, True) for a, sz in lay2)), "rt.init"]
            seq += ["rt.get %d" % i for i in range(len(lay2) + 1)] + ["rt.bread 16 6", "rt.sanitise"]
            if rnd.random() < 0.5:
                seq += ["rt.edit %d %s %s" % (j % 2, aset, "|".join(entry(rnd, sz, a, True) for a, sz in lay)), "rt.init", "rt.bread 16 6"]
        cs.append(Case("refit%d" % j, seq, ("re-initialisation", "no-longer-fits")))
    return cs


def nontrivial(case, lines):
    return True
