"""C03 – block reads and range iteration: case generation."""
import random
from vf import Case
from gen import constants, cloops
from props.regcommon import checks, default_for

ID = "C03"
DRIVER = "drv_regtable"
HARNESS = "h_regtable"
QUICK_LEVEL = "thorough"      # the larger case set costs only seconds
THOROUGH_SEEDS = 8
GEN = [constants.gen, cloops.regs_gen]      # tie A: the address arithmetic of registers/core.c, translated from clang's AST
tie_modules = cloops.regs_tie_modules
TIE = ['Ufw.Tie.RegTable']
RULE = ("the small-scope table family of C02 plus write-only areas (flag and missing read callback): EVERY (address, length) window position "
        "incl. starts in holes, in gaps between registers, inside multi-word registers and at area edges, for block reads (caller buffer of "
        "exactly n atoms, pre-filled) and for range iteration with callback scripts {all 0, +1 at k, -1 at k}; the mapping query additionally "
        "with windows of 2^31 and of nearly 2^32 words from every start address.  Non-trivial = length >= 1; "
        "distinct = distinct operation text.")
EXHAUSTIVE = {"quick": True, "thorough": True}
ASSUMPTIONS = ["model and address-arithmetic assumptions as for C01", "the iteration callback is a script of return values (pure)"]
TRUSTED = ["correspondence harness harness/h_regtable.c + tools/lib/vf.py"]
DESIGN_REF = "DESIGN.md section 0.2 (as built) and section 8, C03"
TECHNIQUE = "Lean 4 proofs over the register-table model (block read = flat address space, zero for unreadable areas, first unmapped address; iteration visits exactly the overlapping registers in order) + exhaustive windows in the differential correspondence"
LEVEL_TEXT = ("Machine-checked proof over the Lean model: a block read of n atoms succeeds exactly when all n addresses are mapped, returns for every address the atom stored "
              "there (zero for areas that are not readable), reports the first unmapped address otherwise, and a zero-length read succeeds; range iteration visits exactly "
              "the registers overlapping the range in ascending order, stops at the first non-zero callback result, a negative one being a failure at that register's "
              "address.  Tied to the C code by exhaustive (address, length) windows over the table family.")
LEVEL_NOTE = "Trusted: as C01."
KEEP_PREFIX = 2


def theorem_for(d):
    return "Ufw.Props.C03 (br_ok_iff_mapped / br_values / foreach_visits)"


def cases(tier, seed):
    rnd = random.Random(seed)
    cs = []
    regs = ["u16:16:0101:t|u64:17:1122334455667788:t|u16:22:0202:t",
            "u32:17:a1a2a3a4:t|f32:20:3f800000:t|u16:23:0303:t",
            "u16:16:0001:t|u16:18:0002:t|u32:21:00030004:t"]
    areas = [("16:8:rw:M", None), ("16:8:rw:M|24:4:r:M", 24), ("16:8:w:M|28:4:rw:M", 28), ("12:4:rw:C-W|16:8:rw:M", 12),
             ("16:8:rw:CRW|24:2:w:M|30:2:rw:M", 30), ("10:3:rw:M|16:8:r:CR-|26:3:rw:M", 26),
             # degenerate but accepted layouts: an area of size zero between / in front of / behind mapped neighbours,
             # writable neighbours without a hole, areas without registers
             ("16:8:rw:M|24:0:rw:CRW|24:4:w:M", 24), ("16:0:rw:M|16:8:rw:M|24:4:rw:M", None), ("12:4:rw:M|16:8:rw:M|24:0:rw:M|26:2:rw:M", None),
             ("16:8:rw:M|24:4:rw:M", 24), ("12:4:rw:M|16:8:rw:M|24:6:rw:M", None),
             # reserved areas: mapped, but neither memory nor callbacks (they read as zero) - between, in front of and behind others
             ("16:8:rw:M|24:4:rw:C--|28:4:rw:M", 28), ("12:4:r:C--|16:8:rw:M", None), ("16:8:rw:M|26:4:rw:C--", None),
             ("10:2:rw:M|12:4:rw:C--|16:8:rw:C--|24:4:rw:M", 24)]
    n = 0
    for aline, other in areas:
        for r in regs:
            ents = r
            if other is not None:
                extra = "u16:%d:0909:t" % other
                ents = (extra + "|" + ents) if other < 16 else (ents + "|" + extra)
            for be in ((0, 1) if tier == "thorough" else (n % 2,)):
                ops = ["rt.table %d %s %s" % (be, aline, ents), "rt.init", "rt.bwrite 16 00a100a200a300a400a500a600a700a8"]
                for a in range(8, 35):
                    for ln in range(0, 12 if tier == "thorough" else 9):
                        ops.append("rt.bread %d %d" % (a, ln))
                        if ln in (0, 1, 2, 3, 5, 8):
                            k = rnd.randint(0, 3)
                            script = rnd.choice(["-", "-", ",".join(["0"] * k + ["1"]), ",".join(["0"] * k + ["-1"]), ",".join(["0"] * k + ["7"])])
                            ops.append("rt.foreach %d %d %s" % (a, ln, script))
                    ops.append("rt.hole %d %d" % (a, rnd.randint(0, 12)))
                    # windows so long that their last word, computed in 32 bits, comes round to an address at or below the first
                    ops.append("rt.hole %d %d" % (a, 2 ** 32 - rnd.randint(1, 12)))
                    ops.append("rt.hole %d %d" % (a, rnd.choice([2 ** 31, 2 ** 32 - a, 2 ** 32 - a + 1, 2 ** 32 - 1 - rnd.randint(13, 40)])))
                for i in range(0, len(ops) - 3, 400):
                    cs.append(Case("r%d-%d" % (n, i), ops[:3] + ops[3 + i:3 + i + 400], ("block-read",)))
                n += 1
    # long tables (10 ... 40 registers of mixed sizes, some gaps, one or two areas): a search for the first overlapped
    # register that is cleverer than a scan must still find a multi-word register the range starts inside of
    for k in ((10, 13, 24) if tier == "quick" else (9, 10, 11, 13, 16, 17, 24, 33, 40)):
        for variant in range(2 if tier == "quick" else 4):
            ents, addr = [], 16
            for i in range(k):
                ty = rnd.choice(["u16", "u32", "u64", "f32", "u32", "u64"])
                sz = {"u16": 1, "u32": 2, "u64": 4, "f32": 2}[ty]
                dflt = {"u16": "0101", "u32": "a1a2a3a4", "u64": "1122334455667788", "f32": "3f800000"}[ty]
                ents.append("%s:%d:%s:t" % (ty, addr, dflt))
                addr += sz + rnd.choice([0, 0, 0, 1])
            end = addr + 1
            if variant % 2:
                cut = int(ents[k // 2].split(":")[1])
                aline = "16:%d:rw:M|%d:%d:rw:M" % (cut - 16, cut, end - cut)
            else:
                aline = "16:%d:rw:M" % (end - 16)
            ops = ["rt.table %d %s %s" % (variant % 2, aline, "|".join(ents)), "rt.init"]
            for a in range(14, end + 2):
                for ln in (0, 1, 2, 3, 5, 9, end):
                    script = rnd.choice(["-", "-", "0,1", "0,-1", "0,0,0,7"])
                    ops.append("rt.foreach %d %d %s" % (a, ln, script))
                ops.append("rt.bread %d %d" % (a, rnd.randint(0, 7)))
            for i in range(0, len(ops) - 2, 400):
                cs.append(Case("long%d-%d-%d" % (k, variant, i), ops[:2] + ops[2 + i:2 + i + 400], ("long-table",)))
    # the top of the address space: the last area ends at 0xffffffff (exclusive), requests reach and cross 2^32
    TOP = 2 ** 32
    for be in (0, 1):
        ents = "u16:%d:0101:t|u32:%d:a1a2a3a4:t|u64:%d:1122334455667788:t|u16:%d:0202:t" % (TOP - 17, TOP - 14, TOP - 9, TOP - 2)
        ops = ["rt.table %d %d:6:rw:M|%d:16:rw:M %s" % (be, TOP - 30, TOP - 17, "u16:%d:0909:t|" % (TOP - 28) + ents), "rt.init",
               "rt.bwrite %d 00a100a200a300a4" % (TOP - 17)]
        for a in range(TOP - 32, TOP):
            for ln in (0, 1, 2, 3, 5, 8, TOP - a - 1, TOP - a, TOP - a + 1, TOP - a + 7, 2 ** 31, 2 ** 32 - 1):
                ops.append("rt.bread %d %d" % (a, min(ln, 40)))
                script = rnd.choice(["-", "-", "0,1", "0,-1"])
                ops.append("rt.foreach %d %d %s" % (a, ln, script))
            ops.append("rt.hole %d %d" % (a, rnd.choice([1, TOP - a, TOP - a + 3])))
        ops += ["rt.foreach 0 %d -" % (TOP - 1), "rt.foreach %d %d -" % (TOP - 1, TOP - 1), "rt.foreach 1 %d -" % (TOP - 1)]
        for i in range(0, len(ops) - 3, 400):
            cs.append(Case("top-%d-%d" % (be, i), ops[:3] + ops[3 + i:3 + i + 400], ("top-of-address-space",)))
    cs.append(Case("empty-table", ["rt.table 0 16:4:rw:M -", "rt.init", "rt.foreach 16 4 -", "rt.bread 16 4", "rt.foreach 0 100 -"], ("empty",)))
    cs.append(Case("uninit", ["rt.table 0 16:4:rw:M u16:16:0001:t", "rt.bread 16 1", "rt.bread 16 0", "rt.foreach 16 1 -"], ("uninit",)))
    return cs


def nontrivial(case, lines):
    return True
