"""C02 – block writes: case generation."""
import random
from vf import Case
from gen import constants, cloops
from props.regcommon import TYPES, SIZE, BITS, checks, hexv, pat, BOUNDS, default_for, float_classes

ID = "C02"
DRIVER = "drv_regtable"
HARNESS = "h_regtable"
QUICK_LEVEL = "thorough"      # the larger case set costs only seconds
THOROUGH_SEEDS = 8
GEN = [constants.gen, cloops.regs_gen]      # tie A: the address arithmetic of registers/core.c, translated from clang's AST
tie_modules = cloops.regs_tie_modules
TIE = ['Ufw.Tie.RegTable']
EXTRA_MODULES = ['Ufw.Props.C02Iff']      # second part of the property theorems (needs lemmas built on Props/C02)
RULE = ("small-scope table family: 1-3 areas (adjacent or separated by a hole; read-write, read-only flag, write-only flag, callback-backed, "
        "without write callback) holding u16/u32/u64/f32/f64 registers with every constraint kind placed at every alignment; EVERY "
        "(address, length) inside a window that covers all areas, holes and both edges; word patterns: all zero, all ones, the constraint "
        "bound -1/0/+1 placed in each overlapped lane, NaN/subnormal lanes for floats, random; sequences over evolving table content.  The "
        "caller's buffer has exactly n atoms (ASan).  After every call the complete storage of all areas and all touched marks are compared.  "
        "Non-trivial = block of at least one atom; distinct = distinct operation text.")
EXHAUSTIVE = {"quick": True, "thorough": True}
ASSUMPTIONS = [
    "model, float and address-arithmetic assumptions as for C01",
    "when several failure classes apply to one request the class that wins is the one the code examines first on the clean tree "
    "(read-only, then unmapped, then the registers in ascending order, undecodable before out-of-range); the statement fixes the address per class, not the precedence",
]
TRUSTED = ["correspondence harness harness/h_regtable.c + tools/lib/vf.py"]
DESIGN_REF = "DESIGN.md section 0.2 (as built) and section 8, C02"
TECHNIQUE = "Lean 4 proofs over the register-table model (block write all-or-nothing, effect on exactly n atoms, failure address, bounds of the overlay) + exhaustive (address, length) windows in the differential correspondence"
LEVEL_TEXT = ("Machine-checked proof over the Lean model of register_block_write: it succeeds exactly when every touched area is writable, every addressed word is mapped and every "
              "overlapped register still decodes and satisfies its constraint with the new words overlaid (block_write_success_iff), the failure classes are tried in that order "
              "(decision); a refused write leaves every atom and every touched mark unchanged; a successful one changes "
              "exactly the n addressed atoms to the given words and marks exactly the overlapped registers; the overlay used for validation stays inside the four-atom "
              "scratch and the caller's n atoms for every alignment; n = 0 succeeds without effect.  Tied to the C code by exhaustive (address, length) windows over the "
              "small-scope table family with adversarial word patterns.")
LEVEL_NOTE = "Trusted: as C01."
KEEP_PREFIX = 2


def theorem_for(d):
    return "Ufw.Props.C02 (bw_fail_unchanged / bw_ok_effect / bw_zero / overlay_bounds)"


def tables(rnd):
    """(name, table line, window start, window end)"""
    out = []
    regsets = [
        ("u64r", lambda b: "u16:%d:0101:t|u64:%d:%s:%s|u16:%d:0202:t" % (b, b + 1, default_for("u64", ""), checks("u64")["range"], b + 5)),
        ("f64m", lambda b: "f64:%d:0000000000000000:%s|u32:%d:%s:%s" % (b + 1, checks("f64")["min"], b + 5, default_for("u32", ""), checks("u32")["max"])),
        ("f32x", lambda b: "u16:%d:0006:c0|f32:%d:00000000:%s|s32:%d:00000006:%s|u16:%d:0006:c3" % (b, b + 1, checks("f32")["range"], b + 3, checks("s32")["range"], b + 6)),
        ("s64", lambda b: "s64:%d:0000000000000006:%s|s16:%d:0006:%s" % (b, checks("s64")["range"], b + 5, checks("s16")["min"])),
        ("fail", lambda b: "u32:%d:00000006:f|u16:%d:0006:c0|u16:%d:0000:t" % (b, b + 3, b + 7)),
    ]
    areasets = [
        ("one", "16:8:rw:M", 16, None),
        ("adj-ro", "16:8:rw:M|24:4:r:M", 16, 24),
        ("gap-cb", "16:8:rw:CRW|28:4:rw:M", 16, 28),
        ("wo-first", "12:4:w:M|16:8:rw:M", 16, 12),
        ("nowritecb", "16:8:rw:M|24:4:rw:CR-", 16, 24),
        ("three", "10:4:rw:M|16:8:rw:M|26:3:rw:CRW", 16, 26),
        # writable neighbours without a hole, with and without registers of their own (an area that holds no
        # register records the run first = last = count = 0, which must not be mistaken for "register 0 only")
        ("adj-rw", "16:8:rw:M|24:4:rw:M", 16, 24),
        ("empty-after", "16:8:rw:M|24:4:rw:M", 16, None),
        ("empty-before", "12:4:rw:M|16:8:rw:M", 16, None),
        ("empty-mid", "10:4:rw:M|14:2:rw:CRW|16:8:rw:M", 16, 10),
        ("empty-both", "12:4:rw:M|16:8:rw:M|24:6:rw:M", 16, None),
        # write-only storage: what a block READ would deliver there (zeroes) is not what validation must overlay
        ("wo-main", "16:8:w:M", 16, None),
        ("wo-cb", "16:8:w:CRW|24:4:rw:M", 16, 24),
    ]
    for an, aline, base, other in areasets:
        for rn, rf in regsets:
            ents = rf(base)
            if other is not None:
                extra = "u16:%d:0006:t" % other
                ents = (extra + "|" + ents) if other < base else (ents + "|" + extra)
            for be in (0, 1):
                out.append(("%s-%s-%d" % (an, rn, be), "rt.table %d %s %s" % (be, aline, ents), 8, 34))
    return out


def words(rnd, n, mode):
    if mode == "zero":
        return "0000" * n
    if mode == "ones":
        return "ffff" * n
    if mode == "nan":
        return "".join(rnd.choice(["7ff8", "7fc0", "0000", "0001", "ffff", "7ff0", "8000"]) for _ in range(n))
    if mode == "small":
        return "".join("%04x" % rnd.choice([0, 1, 5, 6, 7, 0x100, 0xff00, 0xffff]) for _ in range(n))
    return "".join("%04x" % rnd.getrandbits(16) for _ in range(n))


def cases(tier, seed):
    rnd = random.Random(seed)
    cs = []
    tabs = tables(rnd)
    if tier == "quick":
        tabs = rnd.sample(tabs, 70)
    for name, tline, lo, hi in tabs:
        ops = [tline, "rt.init"]
        pairs = [(a, n) for a in range(lo, hi + 1) for n in range(0, 9)]
        if tier == "quick":
            pairs = rnd.sample(pairs, 160)
        for (a, n) in pairs:
            for mode in ([rnd.choice(["zero", "small"]), rnd.choice(["ones", "nan", "rnd"])] if tier == "quick" else ["zero", "ones", "nan", "small", "rnd", "rnd"]):
                ops.append("rt.bwrite %d %s" % (a, words(rnd, n, mode) or "-"))
        ops.append("rt.bread %d %d" % (lo, 4))
        for i in range(0, len(ops) - 2, 300):
            cs.append(Case("%s-%d" % (name, i), ops[:2] + ops[2 + i:2 + i + 300], ("block-write",)))
    # the top of the address space: requests that reach and cross 2^32
    TOP = 2 ** 32
    for be in (0, 1):
        ents = "u16:%d:0101:t|u32:%d:%s:%s|u64:%d:%s:%s|u16:%d:0202:t" % (
            TOP - 17, TOP - 14, default_for("u32", ""), checks("u32")["max"], TOP - 9, default_for("u64", ""), checks("u64")["range"], TOP - 2)
        # (no read-only area here: a request that crosses 2^32 always contains an unmapped word, and which of the two
        # failure classes wins for such a request is not fixed by the statement)
        for ai, aline in enumerate(("%d:6:rw:M|%d:16:rw:M" % (TOP - 30, TOP - 17), "%d:6:rw:M|%d:12:rw:M|%d:4:rw:CRW" % (TOP - 30, TOP - 17, TOP - 5))):
            ops = ["rt.table %d %s %s" % (be, aline, "u16:%d:0909:t|" % (TOP - 28) + ents), "rt.init"]
            for a in range(TOP - 24, TOP):
                for n in sorted({0, 1, 2, 4, TOP - a - 1, TOP - a, TOP - a + 1, TOP - a + 3}):
                    if 0 <= n <= 30:
                        ops.append("rt.bwrite %d %s" % (a, words(rnd, n, rnd.choice(["zero", "small", "rnd"])) or "-"))
            for i in range(0, len(ops) - 2, 300):
                cs.append(Case("top-%d-%d-%d" % (be, ai, i), ops[:2] + ops[2 + i:2 + i + 300], ("top-of-address-space",)))
    # state left behind by other operations must not change what a block write does: sanitise runs that are cut short
    # (a register of a second area cannot be written back) in a table with an always-fail register, refused typed sets
    for be in (0, 1):
        for second in ("26:3:rw:CR-", "26:3:rw:M"):
            ents = "u16:16:1111:t|u32:18:00000006:f|u16:21:0006:c0|u16:26:0200:r0100-0300"
            ops = ["rt.table %d 16:8:rw:M|%s %s" % (be, second, ents), "rt.init"]
            for _ in range(40 if tier == "quick" else 200):
                ops += rnd.choice([["rt.poke 1 0 ffff", "rt.sanitise"], ["rt.sanitise"], ["rt.userinit %d" % rnd.randint(0, 4)], ["rt.set 1 u32 00000007"], ["rt.bset 3 u16 8000"], []])
                a = rnd.randint(15, 23)
                ops.append("rt.bwrite %d %s" % (a, words(rnd, rnd.randint(1, 5), rnd.choice(["zero", "small", "rnd"]))))
            cs.append(Case("interf-%d-%s" % (be, second[-3:]), ops, ("interference",)))
    # uninitialised
    cs.append(Case("uninit", ["rt.table 0 16:8:rw:M u16:16:0001:t", "rt.bwrite 16 0001", "rt.bwrite 16 -"], ("uninit",)))
    return cs


def nontrivial(case, lines):
    return True
