"""C13 – length prefix: tie A (kind table) + correspondence cases."""
import os
import random
import sys
from vf import Case
sys.path.insert(0, os.path.join(os.path.dirname(os.path.abspath(__file__)), ".."))
from gen import lenp_kinds, constants

ID = "C13"
DRIVER = "drv_streams"
HARNESS = "h_streams"
QUICK_LEVEL = "thorough"      # the larger case set costs only seconds
THOROUGH_SEEDS = 8
GEN = [lenp_kinds.gen, constants.gen]
TIE = ['Ufw.Tie.Misc', 'Ufw.Tie.Varint']
GEN_OBLIGATIONS = ["Ufw.Props.C13.kind_table_spec (sizes, maxima and octet orders of the regenerated KIND table)"]
KINDS = ["var", "octet", "le16", "le32", "be16", "be32"]
MAXI = {"var": 2 ** 63 - 1, "octet": 255, "le16": 65535, "be16": 65535, "le32": 2 ** 32 - 1, "be32": 2 ** 32 - 1}
RULE = ("6 kinds x payload lengths 1..40, 127/128, 255/256, 1100 and the kind maxima +-1 (prefix-object path, which does not touch the "
        "payload) x all 11 entry points; buffer states over every (used, offset) of small buffers; chunk lists incl. empty chunks and "
        "active > 0; sinks and sources with fragmenting / interrupting driver scripts; destination capacities len-1, len, len+1; every "
        "fragmentation script up to length 3 over {1,2,many,EINTR} of streams holding 3 frames.  Non-trivial = at least one frame emitted "
        "or decoded; distinct = distinct operation text.")
EXHAUSTIVE = {"quick": False, "thorough": False}
ASSUMPTIONS = [
    "tie A: the KIND table (prefix size, serialiser, maximum) is regenerated from src/length-prefix.c on every run and checked against the statement's table",
    "the entry points are hand transcribed (lean/Ufw/Model/Lenp.lean) on top of the C14/C15/C17/C18 models and tied to the code by the correspondence run",
    "payload length 0 is outside the statement (lengths from 1): the C code refuses a zero-length payload chunk with EINVAL",
    "payloads near the 32-bit maxima are only exercised through the prefix-object entry points (no 4 GiB transfers)",
]
TRUSTED = ["translator tools/gen/lenp_kinds.py", "harness/h_streams.c + tools/lib/vf.py (return value, octets at the sink, prefix object, buffer marks, decoded payload, octets taken from the source)"]
DESIGN_REF = "DESIGN.md section 0.2 (as built) and section 8, C13"
TECHNIQUE = "Lean 4 proofs composing the C14/C15/C17 theorems (every encoder entry point emits prefix ++ designated octets; decoders return exactly the payload and consume exactly the frame for any source fragmentation) + regenerated kind table + differential correspondence"
LEVEL_TEXT = ("Machine-checked proof over the Lean model of length-prefix.c (kind table regenerated from the source): each encoder entry point that "
              "succeeds has put exactly prefix(kind, len) ++ the designated octets into the sink and returns the total, for any sink driver "
              "script; lengths beyond the kind's maximum are refused with nothing emitted; decoding from a source that holds a frame returns "
              "exactly the payload, consumes exactly the frame, refuses (ENOMEM) a destination that is too small without writing, appends to a "
              "buffer's filled region, and consecutive frames decode in order for every source fragmentation.  Tied to the C code by the "
              "correspondence run over kinds x lengths x entry points x buffer states x driver scripts.")
LEVEL_NOTE = "Trusted: Lean kernel, axioms propext/Classical.choice/Quot.sound; kind-table translator; hand-written model tied by the correspondence harness."


def theorem_for(d):
    return "Ufw.Props.C13 (memory_to_sink_spec / buffer_*_spec / chunks_to_sink_spec / refuse_too_long / decode_*)"


def rhex(rnd, n):
    return "".join("%02x" % rnd.choice([rnd.getrandbits(8), 0x80, 0xff, 0x00]) for _ in range(n)) or "-"


def scr(rnd, syms=("k1", "k2", "k9", "z", "i", "a"), maxlen=4):
    return ",".join(rnd.choice(syms) for _ in range(rnd.randint(0, maxlen))) or "-"


def buf(mem, used, off):
    return "%s:%d:%d" % (mem, used, off)


def cases(tier, seed):
    rnd = random.Random(seed)
    cs = []
    lens = list(range(1, 41)) + [127, 128, 129, 255, 256, 257, 1100]
    # prefix objects incl. maxima
    ops = []
    for k in KINDS:
        for n in lens + [0, MAXI[k] - 1, MAXI[k], MAXI[k] + 1, 65535, 65536, 2 ** 32 - 1, 2 ** 32, 2 ** 63 - 1, 2 ** 63]:
            ops.append("lenp.memenc %s %d" % (k, n))
        for n in (MAXI[k] + 1, 2 ** 63):
            if k != "var" or n == 2 ** 63:
                ops.append("lenp.big2sink %s %d %s" % (k, n, rnd.choice("oc")))
    cs.append(Case("prefix", ops, ("prefix",)))
    # sink encoders
    reps = 1 if tier == "quick" else 6
    for k in KINDS:
        ops = []
        for n in lens:
            if n > MAXI[k]:
                continue
            for _ in range(reps):
                p = rhex(rnd, n)
                ops.append("lenp.mem2sink %s %s %s %s" % (k, p, rnd.choice("oc"), scr(rnd)))
        cs.append(Case("mem2sink-%s" % k, ops, ("encode",)))
    # buffer states
    for size in (1, 2, 3, 5):
        mem = "".join("%02x" % (0xa1 + i) for i in range(size))
        ops = []
        for used in range(0, size + 1):
            for off in range(0, used + 1):
                b = buf(mem, used, off)
                for k in KINDS:
                    ops.append("lenp.bufenc %s %s" % (k, b))
                    ops.append("lenp.buf2sink %s %s %s %s" % (k, b, rnd.choice("oc"), scr(rnd, maxlen=2)))
                    for n in range(0, used - off + 2):
                        ops.append("lenp.bufenc_n %s %s %d" % (k, b, n))
                        ops.append("lenp.buf2sink_n %s %s %d %s %s" % (k, b, n, rnd.choice("oc"), scr(rnd, maxlen=2)))
        cs.append(Case("bufstates-%d" % size, ops, ("buffers",)))
    # chunk lists
    ops = []
    pool = [buf("a1a2", 2, 0), buf("b1", 1, 1), buf("c1c2c3", 3, 1), buf("d1d2", 0, 0), buf("e1e2e3e4", 4, 4), buf("f1", 1, 0)]
    for _ in range(120 if tier == "quick" else 2000):
        nch = rnd.randint(1, 5)
        chunks = "|".join(rnd.choice(pool) for _ in range(nch))
        active = rnd.randint(0, nch)
        k = rnd.choice(KINDS)
        ops.append("lenp.chunksuse %s %s %d" % (k, chunks, active))
        ops.append("lenp.chunks2sink %s %s %d %s %s" % (k, chunks, active, rnd.choice("oc"), scr(rnd, maxlen=3)))
    for i in range(0, len(ops), 80):
        cs.append(Case("chunks-%d" % i, ops[i:i + 80], ("chunks",)))
    # decoders: capacities around the length, fragmenting sources
    ops = []
    for k in KINDS:
        for n in [1, 2, 3, 5, 17, 127, 128, 200, 300]:
            if n > MAXI[k]:
                continue
            p = rhex(rnd, n)
            for cap in (n - 1, n, n + 1):
                ops.append("lenp.frames %s %s %s %s %d" % (k, p, rnd.choice("oc"), scr(rnd, ("k1", "k2", "k9", "i", "a"), 3), cap))
            # into buffers with different fill states
            for (size, used, off) in ((n + 2, 0, 0), (n + 2, 2, 1), (n + 1, 2, 0), (n, 0, 0)):
                ops.append("lenp.frames %s %s c - %d" % (k, p, n))
    for i in range(0, len(ops), 60):
        cs.append(Case("dec-%d" % i, ops[i:i + 60], ("decode",)))
    ops = []
    for k in KINDS:
        pre = {"var": "03", "octet": "03", "le16": "0300", "be16": "0003", "le32": "03000000", "be32": "00000003"}[k]
        stream = pre + "a1a2a3" + "ffee"
        for (size, used, off) in ((5, 0, 0), (5, 2, 1), (5, 2, 0), (4, 2, 2), (3, 1, 0), (2, 0, 0)):
            ops.append("lenp.buf_from %s %s %s %s %s" % (k, stream, rnd.choice("oc"), scr(rnd, ("k1", "k2", "i", "a"), 3), buf("00" * size, used, off)))
        for cap in (2, 3, 4):
            # a zero-length answer of the driver while the varint prefix is read octet-wise is outside the model (DESIGN.md)
            syms = ("k1", "k2", "i", "a") if k == "var" else ("k1", "k2", "i", "a", "z")
            ops.append("lenp.mem_from %s %s %s %s %d" % (k, stream, rnd.choice("oc"), scr(rnd, syms, 3), cap))
            ops.append("lenp.mem_from %s %s c h:eio %d" % (k, stream, cap))
        ops.append("lenp.s2s %s %s %s - %s -" % (k, stream, rnd.choice("oc"), rnd.choice("oc")))
        ops.append("lenp.s2s %s %s c k1 o k1,h:enomem" % (k, stream))
        # truncated streams
        for cut in range(0, len(stream) // 2):
            ops.append("lenp.mem_from %s %s c - 8" % (k, stream[:2 * cut] or "-"))
    cs.append(Case("decode-misc", ops, ("decode",)))
    # every fragmentation script of a 3-frame stream
    import itertools
    syms = ["k1", "k2", "k9", "i"]
    maxl = 3 if tier == "quick" else 5
    ops = []
    for L in range(0, maxl + 1):
        for t in itertools.product(syms, repeat=L):
            k = rnd.choice(KINDS)
            ops.append("lenp.frames %s a1a2,b1,c1c2c3 %s %s 8" % (k, rnd.choice("oc"), ",".join(t) or "-"))
    for i in range(0, len(ops), 80):
        cs.append(Case("frag-%d" % i, ops[i:i + 80], ("fragmentation",)))
    return cs


def nontrivial(case, lines):
    return any(l.startswith("ok") or "frames=" in l for l in lines)
