"""C19 – ring buffer: case generation for the correspondence check."""
import random
from vf import Case

from gen import ring

ID = "C19"
GEN = [ring.gen]
tie_modules = ring.tie_modules      # one obligation module per translated ring-buffer function
DRIVER = "drv_buffers"
HARNESS = "h_buffers"
QUICK_LEVEL = "thorough"      # the larger case set costs only seconds
THOROUGH_SEEDS = 8
RULE = ("explicit-state exploration over (head slot, queue length, override flag) for every capacity in scope: a shortest "
        "path to every reachable state followed by every operation and a full drain, for octet_ring and for the macro "
        "instantiated at uint8_t/uint16_t/uint32_t; after every operation size/empty/full and both iterator sequences are "
        "observed; seeded random histories at capacities up to 64.  Non-trivial = at least one element queued at some point; "
        "distinct = distinct operation text.")
EXHAUSTIVE = {"quick": False, "thorough": False}
KEEP_PREFIX = 1
ASSUMPTIONS = [
    "lean/Ufw/Model/Ring.lean is a hand transcription of the RING_BUFFER/RING_BUFFER_ITER macro bodies and src/ring-buffer-iter.c, "
    "tied to the code twice: the functions the macros expand to in src/octet-ring.c (advance_head/tail, size, empty, full, clear, get, put, "
    "override_if_full) and rb_iter_done / rb_iter_advance are translated from clang's AST on every run (tools/gen/ring.py -> Gen/Ring.lean) and proved "
    "equal to the model (Tie/Ring/*.lean; init and the iterator constructor are not translated: a loop, a struct return), and both are run on the "
    "generated cases (ASan+UBSan, exact-size heap arrays)",
    "capacity >= 1 (capacity 0 divides by zero in C and is outside the statement)",
    "element values are opaque to the container (model uses Nat)",
]
TRUSTED = ["correspondence harness harness/h_buffers.c + tools/lib/vf.py (values returned by get, size/empty/full, both iterator "
           "sequences after every operation)",
           "translator tools/gen/ring.py + preludes lean/Ufw/Tie/RingPre.lean, Tie/ByteBufPre.lean (size_t arithmetic, checked array access, sibling calls)"]
DESIGN_REF = "DESIGN.md section 0.2 (as built) and section 8, C19"
TECHNIQUE = "Lean 4 refinement proof (ring layout refines a bounded queue for every capacity and history; iterator theorems); the model is tied to the source by translation (the expanded macro functions and the iterator functions translated from clang's AST on every run and proved equal to the model) and by differential correspondence of model vs. C"
LEVEL_TEXT = ("Machine-checked proof: for every capacity >= 1 and every list of put/get/clear/override operations the Lean model of the "
              "RING_BUFFER macros keeps its representation invariant, never indexes outside the array and is observationally equal to a "
              "bounded queue (drop when full, evict oldest in override mode, get on empty = 0); size/empty/full equal the queue facts and the "
              "two iterators yield the queue and its reverse in exactly size steps (theorems run_refines, size_empty_full, iterators_faithful). "
              "Model tied to the C code by exploring all reachable (head, length, override) states for capacities 1..4 (1..6 thorough) on four "
              "element types plus random histories.")
LEVEL_NOTE = ("Trusted: Lean kernel, axioms propext/Classical.choice/Quot.sound; hand-written model tied by the correspondence harness; "
              "capacity 0 excluded.")


def theorem_for(d):
    return "Ufw.Props.C19.run_refines / iterators_faithful (observable behaviour differs from the bounded queue)"


def explore(cap):
    start = (0, 0, 0)   # head, len, ovr
    paths = {start: []}
    frontier = [start]
    while frontier:
        nxt = []
        for st in frontier:
            h, n, o = st
            succ = []
            if n < cap:
                succ.append(("put", ((h + 1) % cap, n + 1, o)))
            elif o:
                succ.append(("put", ((h + 1) % cap, n, o)))
            if n > 0:
                succ.append(("get", (h, n - 1, o)))
            succ.append(("clear", (h, 0, o)))
            succ.append(("ovr %d" % (1 - o), (h, n, 1 - o)))
            for op, s2 in succ:
                if s2 not in paths:
                    paths[s2] = paths[st] + [op]
                    nxt.append(s2)
        frontier = nxt
    return paths


def cases(tier, seed):
    rnd = random.Random(seed)
    cs = []
    caps = range(1, 5) if tier == "quick" else range(1, 7)
    types = ["o8", "u8", "u16", "u32"]
    vmax = {"o8": 255, "u8": 255, "u16": 65535, "u32": 2 ** 32 - 1}
    n = 0
    for cap in caps:
        paths = explore(cap)
        for st, path in sorted(paths.items()):
            for probe in ["put", "get", "clear", "ovr 0", "ovr 1"]:
                for ty in types:
                    ctr = [vmax[ty] - 7]
                    def val():
                        ctr[0] = ctr[0] % vmax[ty] + 1
                        return ctr[0]
                    ops = ["rb.init %s %d" % (ty, cap)]
                    for p in path + [probe]:
                        ops.append("rb.put %d" % val() if p == "put" else "rb." + p)
                    ops += ["rb.put %d" % val()] + ["rb.get"] * (cap + 1)
                    cs.append(Case("x%d-%d" % (cap, n), ops, ("explore", ty)))
                    n += 1
    nh, ln = (32, 150) if tier == "quick" else (300, 500)
    for h in range(nh):
        cap = rnd.choice([1, 2, 3, 4, 5, 7, 8, 16, 33, 64])
        ty = rnd.choice(types)
        ops = ["rb.init %s %d" % (ty, cap)]
        bias = rnd.choice([0.3, 0.5, 0.7])
        for _ in range(ln):
            r = rnd.random()
            if r < bias:
                ops.append("rb.put %d" % rnd.randint(1, vmax[ty]))
            elif r < 0.9:
                ops.append("rb.get")
            elif r < 0.94:
                ops.append("rb.clear")
            elif r < 0.96:
                # the same structure set up again in the middle of its life (other capacity, stale indices and mode)
                ops.append("rb.init %s %d" % (ty, rnd.choice([1, 2, 3, 5, 6, 8, 13])))
            else:
                ops.append("rb.ovr %d" % rnd.randint(0, 1))
        cs.append(Case("rnd-%d" % h, ops, ("random", ty)))
    return cs


def nontrivial(case, lines):
    return any("empty=false" in l for l in lines)
