"""C06 – a valid request is executed exactly once and answered faithfully: case generation."""
import random
from vf import Case
from gen import constants
from props import regpcommon as R

ID = "C06"
DRIVER = "drv_regp"
HARNESS = "h_regp"
QUICK_LEVEL = "thorough"      # the larger case set costs only seconds
THOROUGH_SEEDS = 8
GEN = [constants.gen]
TIE = ['Ufw.Tie.Regp']
RULE = ("{read, write} x {8, 16}-bit request semantics x {8, 16}-bit attached memory (matching and mismatching) x {serial, tcp} x every "
        "backend verdict 0..11 (and an out-of-range verdict) x addresses (0, SLIP control octets, 0xffffffff, random) x block sizes "
        "0..capacity+2 around the transmit limit x allocator block sizes 128/129/255 (even and odd room) x payloads incl. C0/DB octets x sequence numbers; sessions interleaving requests with "
        "responses, meta messages and damaged frames (which must cause neither access nor, for non-requests, a reply); each frame is fed to "
        "the instance, received, processed and released.  Non-trivial = the backend was called; distinct = distinct operation text.")
EXHAUSTIVE = {"quick": False, "thorough": False}
ASSUMPTIONS = [
    "lean/Ufw/Model/Regp.lean is a hand transcription of regp_recv / regp_process and the emitters, tied to the code by the correspondence run",
    "the backend is a parameter of the model: its verdict, the address it reports and the octets it stores for a read; it is assumed to store exactly the block it is asked for when it acknowledges",
    "block size of a response = size of its payload; sequence number and address are what a response echoes (reading of doc/regp.txt, DESIGN.md)",
]
TRUSTED = ["correspondence harness harness/h_regp.c + tools/lib/vf.py (backend call log with buffer room, reply octets, return code)"]
DESIGN_REF = "DESIGN.md section 0.2 (as built) and section 8, C06"
TECHNIQUE = ("Lean 4 proofs: processing an accepted request makes exactly one backend call with the request's address, block size and received payload and emits exactly "
             "the response the document prescribes for the verdict (refinement of regp_process to Spec.Regp responses); word-size mismatch, responses, meta messages "
             "and failed receptions cause no access + differential correspondence over request/verdict/transport sessions")
LEVEL_TEXT = ("Machine-checked proof over the Lean model of regp_process: for every accepted request frame, transport, memory word size and backend verdict there is exactly one "
              "backend call carrying the request's address, block size and (for writes) exactly the received payload, and exactly one emitted frame, equal to the wire image "
              "of the acknowledgement / error response of the protocol document echoing sequence number and address; a word-size mismatch is answered with EWORDSIZE "
              "without a call; responses, meta messages, NULL frames and every failed reception cause no call.  Tied to the C code by sessions over all request kinds x "
              "verdicts x transports with a logging backend.")
LEVEL_NOTE = "Trusted: Lean kernel, axioms propext/Classical.choice/Quot.sound (+ bv_decide axioms of the CRC lemmas); hand-written model tied by the harness."
ALLOW_BV = True

ADDRS = [0, 1, 0xC0, 0xDBDC, 0xffffffff, 0x10203040]


def theorem_for(d):
    return "Ufw.Props.C06 (process_request / process_wordsize / process_ignores)"


def rpf():
    return ["rp.recv", "rp.process", "rp.free"]


def feed(serial, raw):
    return [R.src_op(R.wire(serial, raw))]


def cases(tier, seed):
    rnd = random.Random(seed)
    cs = []
    reps = 1 if tier == "quick" else 4
    for mem in (8, 16):
        unit = mem // 8
        for ep, B in [(e, b) for e in ("serial", "tcp") for b in (128, 129, 255)]:
            # block sizes: even and odd (with an odd block the room behind the structure is odd: a capacity in octets
            # that is not a whole number of 16-bit words)
            serial = ep == "serial"
            ops = [R.cfg(mem, ep, B)]
            hdr = 14 if serial else 12
            cap = (B - R.F - hdr) // unit          # largest read that fits
            wcap = (B - R.F - (16 if serial else 12)) // unit
            for status in list(range(12)) + [12]:
                for write in (False, True):
                    for ws16 in (mem == 16, mem != 16):
                        for _ in range(reps):
                            a = rnd.choice(ADDRS + [rnd.getrandbits(32)])
                            seq = rnd.choice([0, 0xC0DB, 0xffff, rnd.getrandbits(16)])
                            u = 2 if ws16 else 1
                            if write:
                                n = rnd.choice([1, 2, 3, rnd.randint(1, max(1, (B - R.F - 16) // u))])
                                pl = R.rbytes(rnd, n * u)
                            else:
                                n = rnd.choice([0, 1, 2, cap - 1, cap, rnd.randint(0, cap)])
                                pl = []
                            ops += ["rp.backend %d %d %d" % (status, rnd.choice(ADDRS + [rnd.getrandbits(32)]), rnd.getrandbits(8))]
                            ops += feed(serial, R.request(serial, write, ws16, seq, a, n, pl)) + rpf()
            # every read block size around the transmit limit, ack and error
            for n in range(max(0, cap - 3), cap + 4):
                for status in (0, 7):
                    ops += ["rp.backend %d 5 %d" % (status, n), ] + feed(serial, R.request(serial, False, mem == 16, n, 100 + n, n)) + rpf()
            # requests carrying checksum option bits their transport would not set (accepted all the same): header of 12,
            # 14 or 16 octets; reads around the transmit limit, small writes
            for opts in (0, R.HDCRC, R.PLCRC, R.HDCRC | R.PLCRC):
                o = opts | (R.WS16 if mem == 16 else 0)
                for n in range(max(0, cap - 4), cap + 5):
                    ops += ["rp.backend 0 5 %d" % n] + feed(serial, R.frame(R.RREQ, o, 0, n, 200 + n, n)) + rpf()
                for n in (1, 2, 3):
                    ops += ["rp.backend 0 0 0"] + feed(serial, R.frame(R.WREQ, o, 0, n, 300 + n, n, R.rbytes(rnd, n * unit))) + rpf()
            # write requests whose announced block size is not the payload that arrived - by one, and by amounts whose octet
            # count does not fit 32 bits (0x80000000 + k words with k words present): refused, never executed
            for ws16 in (True, False):
                u = 2 if ws16 else 1
                for k in (0, 1, 2, 5):
                    for size in (k + 1, max(0, k - 1), 0x80000000 + k, 0x7fffffff + k, 0xffffffff, 0x40000000 + k, 0xc0000000 + k):
                        if size == k:
                            continue
                        o = R.transport_opts(serial, R.WS16 if ws16 else 0, [1] * (k * u))
                        pl = R.rbytes(rnd, k * u, special=False)
                        ops += ["rp.backend 0 0 0"] + feed(serial, R.frame(R.WREQ, o, 0, size & 0xffff, 400 + k, size, pl)) + rpf()
                        if not serial:
                            ops += ["rp.backend 0 0 0"] + feed(serial, R.frame(R.WREQ, (R.WS16 if ws16 else 0), 0, k, 500 + k, size, pl)) + rpf()
            # largest writes
            for n in range(max(1, wcap - 2), wcap + 1):
                ops += ["rp.backend 0 0 0"] + feed(serial, R.request(serial, True, mem == 16, n, n, n, R.rbytes(rnd, n * unit))) + rpf()
            cs.append(Case("req-%d-%s-%d" % (mem, ep, B), ops, ("requests", ep, str(mem))))
            # the same requests answered into a chunk-style sink that takes 1, 3 or 5 octets per call (a congested socket):
            # the answer on the wire must not depend on how the sink takes it
            if B == 128:
                for mode in ("chunk:1", "chunk:3", "chunk:5", "chunk:0"):
                    cs.append(Case("req-%d-%s-%d-%s" % (mem, ep, B, mode.replace(":", "")), [ops[0], "rp.sinkmode " + mode] + ops[1:],
                                   ("requests", "chunk-sink", ep, str(mem))))
            # a TCP sink that is busy once (EAGAIN / EINTR, then takes the octet) at every position of the answer: the answer on
            # the wire must not show it
            if not serial and B == 128:
                for mode in ("octet", "chunk:3"):
                    bops = [R.cfg(mem, ep, B), "rp.sinkmode " + mode]
                    for k in range(0, 24):
                        for e in ("eagain", "eintr"):
                            bops += ["rp.sinkbusy %d %s" % (k, e), "rp.backend 0 5 %d" % k] + feed(serial, R.request(serial, False, mem == 16, k, 100 + k, 3)) + rpf()
                            bops += ["rp.sinkbusy %d %s" % (k, e), "rp.backend 0 0 0"] + feed(serial, R.request(serial, True, mem == 16, k, 200 + k, 2, R.rbytes(rnd, 2 * unit))) + rpf()
                            bops += ["rp.sinkbusy %d %s" % (k, e), "rp.backend 7 9 0"] + feed(serial, R.request(serial, False, mem == 16, k, 300 + k, 1)) + rpf()
                    bops.append("rp.sinkbusy never eagain")
                    cs.append(Case("busy-%d-%s" % (mem, mode.replace(":", "")), bops, ("requests", "sink-busy", str(mem))))
            # sessions: requests interleaved with frames that must not be executed
            ops = [R.cfg(mem, ep, B), "rp.backend 0 0 1"]
            for i in range(30 * reps):
                k = rnd.choice(["req", "req", "resp", "meta", "dup", "badcrc", "chanfail"])
                seq, a = rnd.getrandbits(16), rnd.getrandbits(32)
                if k == "req":
                    write = rnd.random() < 0.5
                    n = rnd.randint(1, 6)
                    pl = R.rbytes(rnd, n * unit) if write else []
                    ops += ["rp.backend %d %d %d" % (rnd.choice([0, 0, 0, 7, 8, 9, 10, 11, 6]), rnd.getrandbits(32), rnd.getrandbits(8))]
                    ops += feed(serial, R.request(serial, write, mem == 16, seq, a, n, pl))
                elif k == "resp":
                    code = rnd.randint(0, 11)
                    pl = R.rbytes(rnd, 4) if code in (4, 5, 7, 8, 9, 10) else (R.rbytes(rnd, 2 * unit) if code == 0 else [])
                    size = len(pl) // unit if code == 0 else len(pl)
                    opts = R.transport_opts(serial, R.WS16 if (code == 0 and mem == 16) else 0, pl)
                    ops += feed(serial, R.frame(rnd.choice([R.RRESP, R.WRESP]), opts, code, seq, a, size, pl))
                elif k == "meta":
                    ops += feed(serial, R.frame(R.META, R.transport_opts(serial, 0, []), rnd.choice([1, 2]), 0, 0, 0))
                elif k == "chanfail":
                    # the channel fails (error, or the stream ends inside a frame) right after a request was executed
                    # and released: nothing was received, nothing may be executed
                    fr = R.request(serial, True, mem == 16, seq, a, 1, R.rbytes(rnd, unit))
                    ops += ["rp.backend 0 0 0"] + feed(serial, fr) + rpf()
                    w = R.wire(serial, R.request(serial, True, mem == 16, seq + 1, a, 2, R.rbytes(rnd, 2 * unit)))
                    cut = rnd.choice([0, 1, 5, 9, len(w) - 1])
                    ops += ["rp.src %s%s" % ((R.hexs(w[:cut]) + " ") if cut else "", rnd.choice(["!eio", "!epipe", "!enodata"]))]
                elif k == "dup":
                    # the same request twice: two frames, two executions
                    fr = R.request(serial, True, mem == 16, seq, a, 1, R.rbytes(rnd, unit))
                    ops += feed(serial, fr) + rpf() + feed(serial, fr)
                else:
                    fr = R.request(serial, True, mem == 16, seq, a, 2, R.rbytes(rnd, 2 * unit))
                    fr[-1] ^= 0x10
                    ops += feed(serial, fr)
                ops += rpf()
            cs.append(Case("session-%d-%s-%d" % (mem, ep, B), ops, ("session", ep, str(mem))))
    # process without a frame / called twice / after free
    ops = [R.cfg(16, "serial", 128), "rp.process", "rp.backend 0 0 0"] + feed(True, R.request(True, False, True, 1, 2, 3)) + \
          ["rp.recv", "rp.process", "rp.process", "rp.free", "rp.process"]
    cs.append(Case("no-frame", ops, ("no-frame",)))
    return cs


def nontrivial(case, lines):
    return any("calls=r" in l or "calls=w" in l for l in lines)
