"""C09 – receiving and processing arbitrary input is memory-safe and resource-exact: case generation."""
import random
from vf import Case
from gen import constants
from props import regpcommon as R

ID = "C09"
DRIVER = "drv_regp"
HARNESS = "h_regp"
THOROUGH_SEEDS = 3
GEN = [constants.gen]
TIE = ['Ufw.Tie.Regp']
RULE = ("both transports x {8,16}-bit memory x allocator block sizes F+1, F+2, F+11..F+17, 100, 128, 200: frames (requests, responses, meta, garbage) of "
        "every length B-F-3 .. B-F+3 and 0..20; every read block size around the transmit limit; block-size fields at 2^31, 2^32-1, 2^16.. against payloads of 0..3 atoms; allocation failure at every allocation of a "
        "session (scripts f, sf, ssf, fsfs ...); a source error at every position of a frame and a stream ending at every position, followed by "
        "a good frame; length prefixes that promise more than the stream holds, over-long varints; empty frames; reply sink running full at every "
        "octet; random and mutated-valid octet streams (quick 200, thorough 3000 per transport); release called twice.  The harness allocator hands "
        "out heap blocks of exactly the block size under ASan/UBSan and keeps a ledger; the backend reports the room behind the buffer it is given.  "
        "Non-trivial = a block was allocated; distinct = distinct operation text.")
EXHAUSTIVE = {"quick": False, "thorough": False}
ASSUMPTIONS = [
    "the model's domain is an allocator block larger than sizeof(RPFrame) (the statement's 'from sizeof(frame)+1 upward'); the harness refuses smaller ones",
    "memory safety of the compiled code is observed (ASan/UBSan on exact-size heap blocks, allocator ledger), the theorems are about the model's index arithmetic: every position it reads or hands out lies inside the block",
    "hangs are observed through the harness' 20 s alarm; the model's receive loop is structurally recursive over the source events, which is its termination proof",
    "lean/Ufw/Model/Regp.lean is a hand transcription of regp_recv with run_continuable_sink / cs_add and of regp_process, tied to the code by the correspondence run",
]
TRUSTED = ["correspondence harness harness/h_regp.c (exact-size blocks, ledger, room reported to the backend) + tools/lib/vf.py", "clang-14 AddressSanitizer / UBSan"]
DESIGN_REF = "DESIGN.md section 0.2 (as built) and section 8, C09"
TECHNIQUE = ("Lean 4 proofs: ledger invariant (every block obtained by regp_recv is either returned in the maybe-frame or released before a channel error is returned; "
             "regp_free releases it exactly once), stored octets never exceed B - F, the backend buffer handed out has room for the block it must hold, overflow / "
             "busy / short-frame replies as stated + differential correspondence with ASan on exact-size blocks, boundary lengths and failure scripts")
LEVEL_TEXT = ("Machine-checked proof over the Lean model of regp_recv / regp_process with the continuable sink and a scripted allocator: for every event stream, transport, "
              "block size B (also B <= F) and allocation script, the octets stored in a block never exceed B - F, the ledger after regp_recv counts exactly the returned frame "
              "(a channel error leaves it unchanged), regp_free releases exactly once, a read hands the backend a buffer with room for the announced block and a write "
              "exactly the announced payload, and the replies are receive-overflow, transmit-overflow with the buffer size, busy, bad header encoding (also for the empty "
              "frame) as stated.  That the compiled code stays inside the block is observed by ASan on exact-size heap blocks over boundary lengths, failure scripts and random streams.")
LEVEL_NOTE = "Partial by nature: memory safety of the C code is observed, not proved. Trusted: Lean kernel, axioms propext/Classical.choice/Quot.sound (+ bv_decide axioms of CRC lemmas), harness, sanitizers."
ALLOW_BV = True


def theorem_for(d):
    return "Ufw.Props.C09 (ledger / stored_le_capacity / backend_room / overflow_replies)"


def rpf():
    return ["rp.recv", "rp.process", "rp.free"]


def feed(serial, raw):
    return [R.src_op(R.wire(serial, raw))]


def some_frames(rnd, serial, mem, n):
    """frames of raw length about n (if possible)"""
    unit = mem // 8
    ws = mem == 16
    hdr = 16 if serial else 12
    out = []
    if n >= hdr:
        k = (n - hdr) // unit
        pl = R.rbytes(rnd, k * unit)
        if k:
            out.append(R.request(serial, True, ws, rnd.getrandbits(16), rnd.getrandbits(32), k, pl))
            out.append(R.frame(R.RRESP, R.transport_opts(serial, R.WS16 if ws else 0, pl), 0, 3, 4, k, pl))
    out.append(R.request(serial, False, ws, 7, 8, 1) + R.rbytes(rnd, max(0, n - (14 if serial else 12))))
    out.append(R.rbytes(rnd, n))
    return out


def cases_plain(tier, seed):
    rnd = random.Random(seed)
    cs = []
    quick = tier == "quick"
    Fz = R.F
    for ep in ("serial", "tcp"):
        serial = ep == "serial"
        for mem in (8, 16):
            unit = mem // 8
            # frame lengths around the capacity
            for B in [1, 8, Fz - 1, Fz, Fz + 1, Fz + 2] + list(range(Fz + 11, Fz + 18)) + [100, 128, 200]:
                ops = [R.cfg(mem, ep, B), "rp.backend 0 0 9"]
                cap = B - Fz
                for n in sorted(set(list(range(0, 21)) + list(range(max(0, cap - 3), cap + 4)))):
                    for raw in some_frames(rnd, serial, mem, n):
                        ops += feed(serial, raw) + rpf()
                # reads around the transmit limit
                hdr = 14 if serial else 12
                lim = max(0, (cap - hdr)) // unit
                for n in range(max(0, lim - 2), lim + 4):
                    for status in (0, 7, 5, 4):
                        ops += ["rp.backend %d 3 %d" % (status, n)] + feed(serial, R.request(serial, False, mem == 16, n, n, n)) + rpf()
                # the same with every combination of checksum option bits the receiver accepts on a read request (a header
                # of 12, 14 or 16 octets in front of the place where the answer is assembled), whatever the transport
                for opts in (0, R.HDCRC, R.PLCRC, R.HDCRC | R.PLCRC):
                    o = opts | (R.WS16 if mem == 16 else 0)
                    for n in range(max(0, lim - 4), lim + 6):
                        ops += ["rp.backend 0 3 %d" % n] + feed(serial, R.frame(R.RREQ, o, 0, n, n, n)) + rpf()
                cs.append(Case("len-%s-%d-%d" % (ep, mem, B), ops, ("lengths", ep)))
        # allocation failures
        ops = [R.cfg(16, ep, 128)]
        for script in ["f", "sf", "ssf", "fsfs", "ff", "sssf"]:
            ops += ["rp.alloc " + script]
            for i in range(len(script) + 1):
                kind = rnd.choice(["rreq", "wreq", "resp", "meta", "short", "long", "garbage"])
                if kind == "rreq":
                    raw = R.request(serial, False, True, i, 100 + i, 2)
                elif kind == "wreq":
                    raw = R.request(serial, True, True, i, 100 + i, 2, R.rbytes(rnd, 4))
                elif kind == "resp":
                    raw = R.frame(R.WRESP, R.transport_opts(serial, 0, []), 0, i, 5, 0)
                elif kind == "meta":
                    raw = R.frame(R.META, R.transport_opts(serial, 0, []), 2, 0, 0, 0)
                elif kind == "short":
                    raw = R.rbytes(rnd, rnd.randint(1, 11))
                elif kind == "long":
                    raw = R.request(serial, True, True, i, 9, 60, R.rbytes(rnd, 120))
                else:
                    raw = R.rbytes(rnd, rnd.randint(12, 40))
                ops += feed(serial, raw) + rpf()
        for kind_raw in [R.request(serial, False, True, 1, 2, 3), R.request(serial, True, False, 1, 2, 3, [1, 2, 3]),
                         R.frame(R.RRESP, R.transport_opts(serial, 0, [9]), 0, 1, 2, 1, [9]), R.rbytes(rnd, 5), R.rbytes(rnd, 30),
                         R.frame(R.RREQ, R.transport_opts(serial, 0, []), 0, 1, 2, 3, hdcrc=0x1234)]:
            ops += ["rp.alloc f"] + feed(serial, kind_raw) + rpf()
        cs.append(Case("allocfail-%s" % ep, ops, ("alloc-failure", ep)))
        # source errors and ends of stream at every position
        good = R.request(serial, True, True, 0x1234, 0x55, 3, [1, 2, 0xC0, 0xDB, 5, 6])
        w = R.wire(serial, good)
        ops = [R.cfg(16, ep, 128), "rp.backend 0 0 0"]
        for pos in range(0, len(w) + 1):
            for err in ("eio", "eilseq", "eagain"):
                ops += ["rp.src %s !%s %s" % (R.hexs(w[:pos]), err, R.hexs(w[pos:]))] + rpf() + rpf() + rpf()
            # stream ends here; later the rest arrives (the receiver starts afresh)
            ops += ["rp.src %s" % R.hexs(w[:pos])] + rpf() + ["rp.src %s" % R.hexs(w[pos:] + w)] + rpf() + rpf() + rpf()
        cs.append(Case("srcerr-%s" % ep, ops, ("source-error", ep)))
        # reply sink running full
        ops = [R.cfg(16, ep, 100)]
        for room in range(0, 20):
            for raw in (R.rbytes(rnd, 3), R.request(serial, False, True, 1, 2, 3, ), R.request(serial, True, True, 1, 2, 30, R.rbytes(rnd, 60)),
                        R.frame(R.RREQ, R.transport_opts(serial, 0, []), 0, 1, 2, 3, hdcrc=0x4321)):
                ops += ["rp.sink %d epipe" % room] + feed(serial, raw) + rpf() + ["rp.sink inf enomem"]
        cs.append(Case("sinkfull-%s" % ep, ops, ("sink-full", ep)))
    # block-size fields near the 32-bit limits against short payloads (arithmetic on sizes must not wrap)
    for ep in ("serial", "tcp"):
        serial = ep == "serial"
        for mem in (8, 16):
            unit = mem // 8
            ops = [R.cfg(mem, ep, 256), "rp.backend 0 0 1"]
            for k in (0, 1, 2, 3):
                for size in (2 ** 31 + k, 2 ** 31, 2 ** 32 - 1, 2 ** 32 - 2 + k, 2 ** 31 - 1, 2 ** 16 + k, 2 ** 24 + k, (2 ** 32 + k * unit) // 2):
                    size &= 0xffffffff
                    for ws in (mem == 16, mem != 16):
                        u = 2 if ws else 1
                        pl = R.rbytes(rnd, k * u)
                        ops += feed(serial, R.request(serial, True, ws, 3, 4, size, pl)) + rpf()
                        ops += feed(serial, R.frame(R.RRESP, R.transport_opts(serial, R.WS16 if ws else 0, pl), 0, 3, 4, size, pl)) + rpf()
                    ops += feed(serial, R.request(serial, False, mem == 16, 3, 4, size)) + rpf()
            cs.append(Case("hugesize-%s-%d" % (ep, mem), ops, ("huge-size", ep)))
    # empty frames, release twice, odd prefixes
    ops = [R.cfg(16, "serial", 128), "rp.src c0", "rp.recv", "rp.process", "rp.free", "rp.free", "rp.src c0c0c0", "rp.recv", "rp.free", "rp.recv", "rp.free",
           "rp.recv", "rp.free", "rp.recv", "rp.free", "rp.src dbc0 db01c0 dbdcc0"] + rpf() + rpf() + rpf() + rpf()
    cs.append(Case("empty-serial", ops, ("empty",)))
    ops = [R.cfg(8, "tcp", 128), "rp.src 00", "rp.recv", "rp.process", "rp.free", "rp.free", "rp.src 0000", "rp.recv", "rp.free", "rp.recv", "rp.free", "rp.recv", "rp.free",
           "rp.src ffffffffffffffffff01 0102", "rp.recv", "rp.free", "rp.src ffffffffffffffffffff01", "rp.recv", "rp.free", "rp.recv", "rp.free",
           "rp.src 8000 05 0102", "rp.recv", "rp.free", "rp.recv", "rp.free", "rp.src 80808080808080808080 80", "rp.recv", "rp.free", "rp.recv", "rp.free"]
    cs.append(Case("empty-tcp", ops, ("empty",)))
    # random and mutated streams
    for ep in ("serial", "tcp"):
        serial = ep == "serial"
        per = 40
        for block in range((200 if quick else 3000) // per):
            B = rnd.choice([3, Fz - 7, Fz, Fz + 1, Fz + 13, Fz + 17, 100, 128, 128, 200])
            mem = rnd.choice([8, 16])
            ops = [R.cfg(mem, ep, B)]
            for _ in range(per):
                ops += ["rp.backend %d %d %d" % (rnd.choice([0, 0, 0, 5, 7, 11, 12]), rnd.getrandbits(32), rnd.getrandbits(8))]
                if rnd.random() < 0.2:
                    ops += ["rp.alloc " + "".join(rnd.choice("sssf") for _ in range(rnd.randint(1, 4)))]
                k = rnd.random()
                if k < 0.4:
                    stream = R.rbytes(rnd, rnd.randint(0, 60))
                    if serial:
                        stream += [0xC0]
                    else:
                        stream = R.varint(rnd.choice([len(stream), len(stream), rnd.randint(0, 70)])) + stream
                else:
                    unit = mem // 8
                    n = rnd.randint(0, 24)
                    write = rnd.random() < 0.5
                    raw = R.request(serial, write, rnd.random() < 0.8 and mem == 16 or rnd.random() < 0.1, rnd.getrandbits(16), rnd.getrandbits(32), n,
                                    R.rbytes(rnd, n * unit) if write else [])
                    for _ in range(rnd.choice([0, 0, 1, 2])):
                        if raw:
                            i = rnd.randrange(len(raw))
                            m = rnd.choice(["flip", "del", "ins"])
                            if m == "flip":
                                raw[i] ^= 1 << rnd.randrange(8)
                            elif m == "del":
                                del raw[i]
                            else:
                                raw.insert(i, rnd.getrandbits(8))
                    stream = R.wire(serial, raw)
                ops += ["rp.src " + R.hexs(stream)] + rpf() + rpf()
            cs.append(Case("random-%s-%d" % (ep, block), ops, ("random", ep)))
    return cs


def nontrivial(case, lines):
    return any("live=1" in l for l in lines)


def cases(tier, seed):
    """cases_plain, plus every fourth case once more with the replies going into a chunk-style sink that takes three
    octets per call (rp.sinkmode): what is answered must not depend on how the sink takes it"""
    cs = cases_plain(tier, seed)
    extra = []
    for i, c in enumerate(cs):
        if i % 4 == 0 and c.ops and c.ops[0].startswith("rp.cfg"):
            ops = []
            for op in c.ops:
                ops.append(op)
                if op.startswith("rp.cfg"):
                    ops.append("rp.sinkmode chunk:3")
            extra.append(Case(c.cid + "-chunk3", ops, tuple(c.tags) + ("chunk-sink",)))
    return cs + extra
