"""C08 – emitted frames are spec-conformant and round-trip: case generation."""
import random
from vf import Case
from gen import constants
from props import regpcommon as R

ID = "C08"
DRIVER = "drv_regp"
HARNESS = "h_regp"
THOROUGH_SEEDS = 2
GEN = [constants.gen]
TIE = ['Ufw.Tie.Regp', 'Ufw.Tie.Slip', 'Ufw.Tie.Varint']
RULE = ("every emit entry point (read/write requests in 8/16-bit semantics, acknowledgement with and without payload, the eleven error "
        "responses, both meta messages) x {serial, tcp} x {8, 16}-bit memory x addresses (0, SLIP control octets in every position, "
        "0xffffffff, random) x block sizes (0, 1, 2, 63..65, 115..117 = varint boundary of the TCP frame, 4 GiB-1 for reads) x payloads "
        "containing C0 DB DC DD x sequence numbers incl. 0xfffe..0 (wrap); every emitted frame is looped back into the same instance's "
        "receiver, received, and released; every emission repeated into chunk-style sinks taking 1, 2, 3, 5, 7 or all octets per call; thorough adds TCP frames of 16383 and 16384 octets (varint prefix growing to three octets) and 40 random emissions per "
        "configuration.  Non-trivial = a frame reached the wire; distinct = distinct operation text.")
EXHAUSTIVE = {"quick": False, "thorough": False}
ASSUMPTIONS = [
    "lean/Ufw/Model/Regp.lean is a hand transcription of register-protocol.c (emitters, header codec, send_memory) on top of the C12 SLIP, C14 varint, C15 endian and C16 CRC models, tied to the code by the correspondence run",
    "payload atoms travel as the octet image the caller hands over (16-bit words in host octet order); the document's big-endian rule is applied to header fields and to the 32-bit payload of error responses",
    "the header checksum covers the six header words and the payload checksum word when present; the block size of a response is the size of its payload (readings of doc/regp.txt recorded in DESIGN.md)",
    "emitters are handed request frames to answer; answering a response or meta frame is outside the statement",
]
TRUSTED = ["correspondence harness harness/h_regp.c + tools/lib/vf.py (return code, octets at the sink, session counter, fields of the frame returned by regp_recv)"]
DESIGN_REF = "DESIGN.md section 0.2 (as built) and section 8, C08"
TECHNIQUE = ("Lean 4 proofs: every emitter's wire octets equal the document's frame layout in the document's framing (big-endian fields, CRC-16/ARC header and "
             "payload checksums exactly on serial links, SLIP / varint prefix); the receiver accepts them and returns the same fields; the session counter steps by "
             "one modulo 2^16 + differential correspondence on emit/loop-back/receive sequences")
LEVEL_TEXT = ("Machine-checked proof over the Lean model of the emitters and the receiver: for every emitter, transport, memory word size, address, size, payload and "
              "sequence number the octets put on the wire are exactly Spec.Regp.wire of the frame the document prescribes, the model's receiver run on those octets "
              "accepts the frame and reports the same type, options, code, sequence number, address, block size and payload, and successive requests carry "
              "consecutive sequence numbers modulo 2^16.  Tied to the C code by emitting through every entry point, looping the octets back and receiving them.")
LEVEL_NOTE = "Trusted: Lean kernel, axioms propext/Classical.choice/Quot.sound (+ bv_decide axioms of the CRC lemmas); hand-written model tied by the harness."
ALLOW_BV = True

RESP0 = ["ewordsize", "epayloadcrc", "epayloadsize", "ebusy", "eio"]
RESP32 = ["erxoverflow", "etxoverflow", "eunmapped", "eaccess", "erange", "einvalid"]
ADDRS = [0, 1, 0xC0, 0xDB, 0xDBDC, 0xC0DBDCDD, 0xDDDCDBC0, 0xffffffff, 0x12345678]


def theorem_for(d):
    return "Ufw.Props.C08 (*_wire / emit_recv / session_sequence)"


def roundtrip():
    return ["rp.loopback", "rp.recv", "rp.free"]


def config_ops(rnd, mem, ep, tier):
    unit = 2 if mem == 16 else 1
    ops = [R.cfg(mem, ep, 4096)]
    # requests
    for a in ADDRS:
        for n in (0, 1, 2, 0xC0, 0xDBDC, 0xffffffff):
            ops += ["rp.req r8 %d %d" % (a, n)] + roundtrip()
            ops += ["rp.req r16 %d %d" % (a, n)] + roundtrip()
    for n in (0, 1, 2, 3, 63, 64, 65, 115, 116, 117, 57, 58):
        a = rnd.choice(ADDRS + [rnd.getrandbits(32)])
        ops += ["rp.req w8 %d %d %s" % (a, n, R.hexs(R.rbytes(rnd, n)))] + roundtrip()
        ops += ["rp.req w16 %d %d %s" % (a, n, R.hexs(R.rbytes(rnd, 2 * n)))] + roundtrip()
    # sequence numbers wrap
    ops += ["rp.seq 65534"]
    for _ in range(4):
        ops += ["rp.req r8 16 1"] + roundtrip()
    ops += ["rp.seq 49371", "rp.req w8 7 2 c0db"] + roundtrip()      # sequence number c0db
    # responses: answer read and write requests
    for ft in (0, 2):
        for name in RESP0:
            for (s, a) in ((0, 0), (0xC0DB, 0xDBDCDDC0), (rnd.getrandbits(16), rnd.getrandbits(32))):
                ops += ["rp.resp %s %d %d %d" % (name, ft, s, a)] + roundtrip()
        for name in RESP32:
            for (s, a, v) in ((0, 0, 0), (0xDDDC, 0xC0, 0xC0DBDCDD), (rnd.getrandbits(16), rnd.getrandbits(32), rnd.getrandbits(32))):
                ops += ["rp.resp %s %d %d %d %d" % (name, ft, s, a, v)] + roundtrip()
        for n in (0, 1, 2, 5, 64, 115, 116, 117, 58):
            s, a = rnd.getrandbits(16), rnd.choice(ADDRS)
            ops += ["rp.ack %d %d %d %d %s" % (ft, s, a, n, R.hexs(R.rbytes(rnd, n * unit)))] + roundtrip()
        ops += ["rp.ack %d 9 9 0 null" % ft] + roundtrip()
    for m in (1, 2):
        ops += ["rp.meta %d" % m] + roundtrip()
    return ops


def cases(tier, seed):
    rnd = random.Random(seed)
    cs = []
    for mem in (8, 16):
        for ep in ("serial", "tcp"):
            cs.append(Case("emit-%d-%s" % (mem, ep), config_ops(rnd, mem, ep, tier), ("emit", ep, str(mem))))
    # the same emissions into a chunk-style sink that takes everything, or only 1, 2, 3, 5, 7 octets per call (a
    # socket or pipe: every chunk leaves in several pieces): the wire must be the same
    for mode in ("chunk:0", "chunk:1", "chunk:2", "chunk:3", "chunk:5", "chunk:7"):
        for mem, ep in ((8, "tcp"), (16, "serial"), (16, "tcp"), (8, "serial")):
            ops = config_ops(rnd, mem, ep, tier)
            cs.append(Case("emit-%d-%s-%s" % (mem, ep, mode.replace(":", "")), [ops[0], "rp.sinkmode " + mode] + ops[1:],
                           ("emit", "chunk-sink", ep, str(mem))))
    # a TCP sink that is busy once (EAGAIN / EINTR, then takes the octet) at every position of a frame: everything goes
    # through the retrying put, the wire must not show it
    ops = [R.cfg(16, "tcp", 256)]
    for mode in ("octet", "chunk:3"):
        ops.append("rp.sinkmode " + mode)
        for k in range(0, 26):
            for e in ("eagain", "eintr"):
                ops += ["rp.sinkbusy %d %s" % (k, e), "rp.req w16 192 3 c0dbdcdd0102"] + roundtrip()
                ops += ["rp.sinkbusy %d %s" % (k, e), "rp.resp eunmapped 0 7 8 9"] + roundtrip()
                ops += ["rp.sinkbusy %d %s" % (k, e), "rp.ack 0 5 6 2 a1a2a3a4"] + roundtrip()
    ops.append("rp.sinkbusy never eagain")
    cs.append(Case("sink-busy", ops, ("sink-busy",)))
    # sink that runs full while a frame is emitted: the error is passed on, nothing is invented
    ops = []
    for ep in ("serial", "tcp"):
        ops += [R.cfg(16, ep, 256)]
        for room in range(0, 24):
            ops += ["rp.sink %d eio" % room, "rp.req w16 192 2 c0dbdcdd", "rp.sink inf enomem"]
            ops += ["rp.sink %d enobufs" % room, "rp.resp eunmapped 0 7 8 9", "rp.sink inf enomem"]
    cs.append(Case("sink-full", ops, ("sink-error",)))
    if tier == "thorough":
        for mem in (8, 16):
            unit = mem // 8
            for ep in ("serial", "tcp"):
                ops = [R.cfg(mem, ep, 40000)]
                if ep == "tcp":
                    # frame length 16383 / 16384: the varint prefix grows from two to three octets
                    for plen in (16371, 16372):
                        n = plen // unit
                        ops += ["rp.req w%d 5 %d %s" % (mem, n, R.hexs(R.rbytes(rnd, n * unit)))] + roundtrip()
                for _ in range(40):
                    n = rnd.randint(0, 300)
                    k = rnd.choice(["r8", "r16", "w8", "w16", "resp0", "resp32", "ack"])
                    a, s = rnd.getrandbits(32), rnd.getrandbits(16)
                    if k in ("r8", "r16"):
                        ops += ["rp.seq %d" % s, "rp.req %s %d %d" % (k, a, rnd.getrandbits(32))]
                    elif k == "w8":
                        ops += ["rp.seq %d" % s, "rp.req w8 %d %d %s" % (a, n, R.hexs(R.rbytes(rnd, n)))]
                    elif k == "w16":
                        ops += ["rp.seq %d" % s, "rp.req w16 %d %d %s" % (a, n, R.hexs(R.rbytes(rnd, 2 * n)))]
                    elif k == "resp0":
                        ops += ["rp.resp %s %d %d %d" % (rnd.choice(RESP0), rnd.choice((0, 2)), s, a)]
                    elif k == "resp32":
                        ops += ["rp.resp %s %d %d %d %d" % (rnd.choice(RESP32), rnd.choice((0, 2)), s, a, rnd.getrandbits(32))]
                    else:
                        ops += ["rp.ack %d %d %d %d %s" % (rnd.choice((0, 2)), s, a, n, R.hexs(R.rbytes(rnd, n * unit)))]
                    ops += roundtrip()
                cs.append(Case("big-%d-%s" % (mem, ep), ops, ("emit-large", ep)))
    return cs


def nontrivial(case, lines):
    return any("wire=" in l and "wire=-" not in l for l in lines)
