"""C11 – interrupted and failing stores: case generation."""
import random
from vf import Case
from gen import cloops

ID = "C11"
DRIVER = "drv_persist"
KEEP_PREFIX = 1        # ps.init
HARNESS = "h_persist"
GEN = [cloops.pst_gen]              # tie A: trivialsum and the layout helpers of persistent-storage.c, translated from clang's AST
tie_modules = cloops.pst_tie_modules
QUICK_LEVEL = "thorough"      # the larger case set costs only seconds
THOROUGH_SEEDS = 4
RULE = ("the C10 configuration grid (sizes x placements x algorithms x buffer sizes); for every full and partial store: the store is cut at every "
        "medium write (the write is torn after k = 0..n octets and nothing further is written), then a fresh validate and fetch run on the medium; "
        "for store, validate, fetch and reset: one failing or short transfer injected at every access position.  Non-trivial = the injected fault "
        "was reached; distinct = distinct operation text.")
EXHAUSTIVE = {"quick": False, "thorough": False}
ASSUMPTIONS = [
    "a crash is modelled as a write callback that transfers only a prefix of its octets, after which the library performs no further access (it returns I/O error at once)",
    "model, checksum functions and address arithmetic as for C10",
]
TRUSTED = ["correspondence harness harness/h_persist.c (fault script on the medium callbacks) + tools/lib/vf.py"]
DESIGN_REF = "DESIGN.md section 0.2 (as built) and section 8, C11"
TECHNIQUE = "Lean 4 proofs: validation succeeds iff the checksum field equals the checksum of the data image, on ANY medium content (hence after any cut); any short transfer forces the result I/O error (invariant over all access sequences) + fault enumeration in the differential run"
LEVEL_TEXT = ("Machine-checked proof over the Lean model: on every medium content - in particular after a store cut at any write and torn at any octet - validation "
              "reports success exactly when the checksum on the medium equals the checksum function of the data image on the medium; and for store, validate, fetch and "
              "reset, under every fault script, a transfer that fails or is short makes the operation return I/O error, never success.  Tied to the C code by injecting "
              "a fault at every access position / tearing every write at every octet in the configuration grid.")
LEVEL_NOTE = "Trusted: as C10."
ALLOW_BV = True
KINDS = [("sum16", 0), ("crc16", 0), ("sum32", 7)]


def theorem_for(d):
    return "Ufw.Props.C11 (crash_consistent / io_error_propagates)"


def rhex(rnd, n):
    return "".join("%02x" % rnd.getrandbits(8) for _ in range(n)) or "-"


def cases(tier, seed):
    rnd = random.Random(seed)
    cs = []
    sizes = [1, 2, 3, 5, 8] if tier == "quick" else list(range(1, 17))
    n = 0
    for ds in sizes:
        for place in (0, 5):
            for (kind, init) in KINDS:
                w = 4 if kind == "sum32" else 2
                for buf in ["none", "0", "2", str(ds), "top"]:
                    msize = place + w + ds + 2
                    old, new = rhex(rnd, ds), rhex(rnd, ds)
                    pre = []
                    if buf == "top":
                        # the same store in a window that ends with the 32-bit address space (last data octet at 0xffffffff)
                        msize = place + w + ds
                        pre = ["ps.relocate %d" % (2 ** 32 - msize)]
                        buf = rnd.choice(["none", "2"])
                    setup = pre + ["ps.init %d 00 %d %s %d %d %s" % (msize, place, kind, init, ds, buf), "ps.store %s" % old]
                    # number of accesses of each op is not known to the generator: inject at positions 0..ds+4
                    stores = [("ps.store %s" % new, ds)] + [("ps.storepart %s %d" % (rhex(rnd, l), o), l)
                                                            for (o, l) in [(0, 1), (ds - 1, 1), (ds // 2, max(1, ds // 2))] if o + l <= ds]
                    ops = list(setup)
                    for (st, wlen) in stores:
                        for pos in range(0, ds + 5):
                            for k in sorted(set([0, 1, wlen - 1, w - 1])):
                                if k < 0:
                                    continue
                                script = ",".join(["n"] * pos + ["s%d" % k])
                                ops += ["ps.store %s" % old, "ps.faults %s" % script, st, "ps.faults -", "ps.validate", "ps.fetch"]
                    for op in ("ps.validate", "ps.fetch", "ps.reset 3c", "ps.fetchpart 0 %d" % ds):
                        for pos in range(0, ds + 5):
                            for k in (0, 1):
                                script = ",".join(["n"] * pos + ["s%d" % k])
                                ops += ["ps.store %s" % old, "ps.faults %s" % script, op, "ps.faults -"]
                    cs.append(Case("f%d" % n, ops, ("faults", kind)))
                    n += 1
    return cs


def nontrivial(case, lines):
    return any(l.startswith("io-error") for l in lines)
