"""C18 – byte buffer: case generation for the correspondence check."""
import random
from vf import Case

from gen import bytebuf

ID = "C18"
GEN = [bytebuf.gen]
tie_modules = bytebuf.tie_modules     # one obligation module per function of byte-buffer.c that the translator delivered
DRIVER = "drv_buffers"
HARNESS = "h_buffers"
QUICK_LEVEL = "thorough"      # the larger case set costs only seconds
THOROUGH_SEEDS = 8
RULE = ("explicit-state exploration over the abstract state (size, used, offset): for every reachable "
        "state of every size in scope, a shortest path to it followed by every operation with every operand "
        "length 0..size+1; every set-up argument combination on a small grid incl. null memory; seeded random "
        "histories on sizes up to 64.  A case counts as non-trivial when at least one operation after set-up "
        "succeeds; distinct = distinct operation text.")
KEEP_PREFIX = 1
EXHAUSTIVE = {"quick": False, "thorough": False}
ASSUMPTIONS = [
    "the model (lean/Ufw/Model/ByteBuffer.lean) is a hand transcription of src/byte-buffer.c; it is tied to the code twice: every function of the file is "
    "translated from clang's AST into a Lean definition on every run (tools/gen/bytebuf.py -> Gen/ByteBuf.lean) and proved equal to the model "
    "(Tie/ByteBuf/*.lean; prelude Tie/ByteBufPre.lean gives the meaning of size_t arithmetic and of memcpy/memmove/memset), and both are run on the "
    "generated cases (ASan+UBSan build, exact-size heap blocks)",
    "size_t arithmetic does not wrap for operand lengths < 2^63 under offset <= used <= size (theorem inv_run)",
    "memcpy/memmove/memset behave as specified by ISO C",
]
TRUSTED = ["correspondence harness harness/h_buffers.c + tools/lib/vf.py (comparison of return code, size/used/offset, "
           "filled octets, delivered octets; unread octets and free space against the FIFO spec)",
           "translator tools/gen/bytebuf.py + prelude lean/Ufw/Tie/ByteBufPre.lean (meaning of size_t arithmetic, return codes, memcpy/memmove/memset)"]


def theorem_for(d):
    return "Ufw.Props.C18.run_refines (the implementation's observable behaviour is not that of the FIFO description)"


class Ctr:
    def __init__(self):
        self.n = 0

    def take(self, k):
        r = "".join("%02x" % ((self.n + i) % 251 + 1) for i in range(k)) or "-"
        self.n += k
        return r


def explore(size):
    """BFS over (used, offset); returns {state: [ops]} (ops as (kind, n))"""
    start = (0, 0)
    paths = {start: []}
    frontier = [start]
    while frontier:
        nxt = []
        for (u, o) in frontier:
            succ = []
            for k in range(1, size - u + 1):
                succ.append((("add", k), (u + k, o)))
            for k in range(1, u - o + 1):
                succ.append((("consume", k), (u, o + k)))
            succ.append((("rewind", 0), (u - o, 0)))
            succ.append((("repeat", 0), (u, 0)))
            for op, st in succ:
                if st not in paths:
                    paths[st] = paths[(u, o)] + [op]
                    nxt.append(st)
        frontier = nxt
    return paths


def render(ops, ctr):
    out = []
    for kind, n in ops:
        if kind == "add":
            out.append("bb.add " + ctr.take(n))
        elif kind in ("consume", "atmost"):
            out.append("bb.%s %d" % (kind, n))
        else:
            out.append("bb." + kind)
    return out


def cases(tier, seed):
    rnd = random.Random(seed)
    cs = []
    sizes = range(1, 5) if tier == "quick" else range(1, 7)
    # 1. set-up grid
    n = 0
    for size in range(0, 4):
        for used in range(0, size + 2):
            for off in range(0, used + 2):
                for mem in ("null", "00" * max(size, 1)):
                    cs.append(Case("setup-%d" % n, ["bb.set %s %d %d %d" % (mem, size, used, off), "bb.atmost 9"], ("setup",)))
                    n += 1
    # set-up arguments at the top of the size_t range (an error code handed on as a size): refused like any other
    # used > size or offset > used
    BIG = [2 ** 64 - 1, 2 ** 64 - 2, 2 ** 64 - 3, 2 ** 64 - 4, 2 ** 63, 2 ** 63 - 1, 2 ** 32]
    for size in (1, 3, 4):
        mem = "".join("%02x" % (0xc0 + i) for i in range(size))
        for used in list(range(0, size + 1)) + BIG:
            for off in list(range(0, 2)) + BIG + [2 ** 64 - k for k in range(1, size + 2)]:
                if used <= size and off <= used:
                    continue
                cs.append(Case("setup-big-%d" % n, ["bb.set %s %d %d %d" % (mem, size, used, off), "bb.atmost 9", "bb.add 01"], ("setup", "huge-arguments")))
                n += 1
    cs.append(Case("null-rewind", ["bb.null", "bb.rewind"], ("setup",)))
    # the convenience set-ups: an empty buffer over the memory / the memory as a completely filled buffer
    for size in range(0, 4):
        for mem in ("null", "".join("%02x" % (0xb0 + i) for i in range(max(size, 1)))):
            cs.append(Case("space-%d" % n, ["bb.space %s %d" % (mem, size), "bb.add 0102", "bb.atmost 9"], ("setup",)))
            cs.append(Case("use-%d" % n, ["bb.use %s %d" % (mem, size), "bb.atmost 2", "bb.add 01", "bb.rewind", "bb.add 02", "bb.atmost 9"], ("setup",)))
            n += 1
    # pre-filled set-up followed by every op
    for size in (2, 3):
        for used in range(0, size + 1):
            for off in range(0, used + 1):
                mem = "".join("%02x" % (0xa0 + i) for i in range(size))
                for tail in (["bb.rewind", "bb.add 0102"], ["bb.consume 1", "bb.rewind", "bb.repeat", "bb.atmost 3"],
                             ["bb.clear"], ["bb.reset", "bb.add 07"], ["bb.repeat", "bb.consume %d" % used]):
                    cs.append(Case("pre-%d" % n, ["bb.set %s %d %d %d" % (mem, size, used, off)] + tail, ("prefilled",)))
                    n += 1
    # 2. explicit-state exploration
    for size in sizes:
        paths = explore(size)
        for st, path in sorted(paths.items()):
            probes = [("add", k) for k in range(0, size + 2)] + [("consume", k) for k in range(0, size + 2)] + \
                     [("atmost", k) for k in range(0, size + 2)] + [("rewind", 0), ("clear", 0), ("reset", 0), ("repeat", 0)] + \
                     [(kind, 2 ** 64 - k) for kind in ("consume", "atmost") for k in range(1, size + 2)] + \
                     [("consume", 2 ** 63), ("atmost", 2 ** 63 - 1), ("consume", 2 ** 32 + 1), ("atmost", 2 ** 32)]
            for p in probes:
                ctr = Ctr()
                # after the probe: observe everything that is still there
                ops = ["bb.set %s %d 0 0" % ("00" * size, size)] + render(path + [p], ctr) + ["bb.repeat", "bb.atmost %d" % (size + 1)]
                cs.append(Case("x%d-%d" % (size, n), ops, ("explore",)))
                n += 1
    # 3. random histories
    nh, ln = (24, 120) if tier == "quick" else (200, 400)
    for h in range(nh):
        size = rnd.choice([1, 2, 3, 5, 8, 13, 32, 64])
        ctr = Ctr()
        ops = ["bb.set %s %d 0 0" % ("00" * size, size)]
        u = o = 0   # only used to bias operand choice; no oracle
        for _ in range(ln):
            r = rnd.random()
            if r < 0.35:
                k = rnd.choice([0, 1, 2, max(0, size - u), max(0, size - u) + 1, rnd.randint(0, size + 1)])
                ops.append("bb.add " + ctr.take(k))
                if u + k <= size:
                    u += k
            elif r < 0.6:
                k = rnd.choice([0, 1, u - o, u - o + 1, rnd.randint(0, size + 1), 2 ** 64 - 1 - rnd.randint(0, size), 2 ** 64 - max(o, 1)])
                ops.append("bb.consume %d" % k)
                if k <= u - o:
                    o += k
            elif r < 0.8:
                k = rnd.choice([0, 1, u - o, u - o + 1, rnd.randint(0, size + 1)])
                ops.append("bb.atmost %d" % k)
                o += min(k, u - o)
            elif r < 0.92:
                ops.append("bb.rewind")
                u, o = u - o, 0
            elif r < 0.95:
                ops.append("bb.repeat")
                o = 0
            elif r < 0.98:
                ops.append("bb.reset")
                u = o = 0
            else:
                ops.append("bb.clear")
                u = o = 0
        cs.append(Case("rnd-%d" % h, ops, ("random",)))
    return cs


def nontrivial(case, lines):
    return any(l.startswith("ok") for l in lines[1:])

DESIGN_REF = "DESIGN.md section 0.2 (as built) and section 8, C18"
TECHNIQUE = "Lean 4 refinement proof (byte buffer model refines a list FIFO for every operation history); the model is tied to the source by translation (every function of byte-buffer.c translated from clang's AST on every run and proved equal to the model) and by differential correspondence of model vs. C on explored states"
LEVEL_TEXT = ("Machine-checked proof: for every operation list and every buffer satisfying the set-up contract the Lean model of "
              "byte-buffer.c keeps offset <= used <= size, never indexes outside its size octets and is observationally equal to a "
              "list FIFO (induction over the history, theorem run_refines). The model is tied to the C code by executing both on all "
              "reachable abstract states of sizes 1..4 (1..6 thorough) x all operations x operand lengths 0..size+1, plus random histories.")
LEVEL_NOTE = ("Trusted: Lean kernel, axioms propext/Classical.choice/Quot.sound; hand-written model tied by the correspondence "
              "harness (ASan/UBSan); size_t arithmetic assumed not to wrap (operand lengths < 2^63).")
