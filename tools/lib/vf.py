"""
Shared machinery of all checks: building (Lean library, drivers, C harnesses
from /repo's working tree), running cases through harness and driver,
comparing, shrinking, auditing axioms, writing evidence and verdicts.

Paths are derived from this file's location, never from the cwd, so that a
check also works from a snapshot of /verif that has no build output yet.
"""
import fcntl
import hashlib
import json
import os
import re
import shutil
import subprocess
import sys
import time
from concurrent.futures import ThreadPoolExecutor

ROOT = os.path.dirname(os.path.dirname(os.path.dirname(os.path.abspath(__file__))))
REPO = os.environ.get("UFW_REPO", "/repo")
LEAN = os.path.join(ROOT, "lean")
BUILD = os.path.join(ROOT, "build")
HARNESS = os.path.join(ROOT, "harness")
NCPU = os.cpu_count() or 4

ALLOWED_AXIOMS = {"propext", "Classical.choice", "Quot.sound"}
FORBIDDEN_TOKENS = [r"\bsorry\b", r"\badmit\b", r"^\s*axiom\s", r"\bnative_decide\b",
                    r"\bimplemented_by\b", r"\bunsafe\s", r"maxHeartbeats\s+0\b"]


def log(*a):
    print(*a, file=sys.stderr, flush=True)


def sh(cmd, **kw):
    return subprocess.run(cmd, stdout=subprocess.PIPE, stderr=subprocess.STDOUT, text=True, **kw)


def sha(paths, extra=""):
    h = hashlib.sha256(extra.encode())
    for p in sorted(paths):
        h.update(p.encode())
        try:
            with open(p, "rb") as f:
                h.update(f.read())
        except OSError:
            h.update(b"<missing>")
    return h.hexdigest()[:16]


def write_if_changed(path, text):
    try:
        if open(path).read() == text:
            return False
    except OSError:
        pass
    os.makedirs(os.path.dirname(path), exist_ok=True)
    with open(path, "w") as f:
        f.write(text)
    return True


# --------------------------------------------------------------------------
# build inputs from /repo
# --------------------------------------------------------------------------

def toolchain_include():
    """Directory containing ufw/toolchain.h generated from /repo's
    toolchain.h.in by /repo's own cmake code (cached on the inputs)."""
    inputs = [os.path.join(REPO, "include/ufw/toolchain.h.in"), os.path.join(REPO, "CMakeLists.txt")]
    for d, _, fs in os.walk(os.path.join(REPO, "cmake")):
        inputs += [os.path.join(d, f) for f in fs]
    key = sha(inputs)
    out = os.path.join(BUILD, "cfg", key)
    hdr = os.path.join(out, "include/ufw/toolchain.h")
    if os.path.exists(hdr):
        return os.path.join(out, "include")
    os.makedirs(os.path.join(BUILD, "cfg"), exist_ok=True)
    with open(os.path.join(BUILD, "cfg", ".lock"), "w") as lk:
        fcntl.flock(lk, fcntl.LOCK_EX)
        if os.path.exists(hdr):
            return os.path.join(out, "include")
        tmp = out + ".tmp"
        shutil.rmtree(tmp, ignore_errors=True)
        r = sh(["cmake", "-S", REPO, "-B", tmp, "-G", "Ninja"])
        gen = os.path.join(tmp, "include/ufw/toolchain.h")
        if r.returncode != 0 or not os.path.exists(gen):
            shutil.rmtree(tmp, ignore_errors=True)
            fallback = os.path.join(REPO, "_build/include")
            if os.path.exists(os.path.join(fallback, "ufw/toolchain.h")):
                log("toolchain.h: cmake configure failed, using", fallback)
                return fallback
            raise RuntimeError("cannot produce toolchain.h:\n" + r.stdout[-2000:])
        os.makedirs(os.path.dirname(hdr), exist_ok=True)
        shutil.copy(gen, hdr)
        shutil.rmtree(tmp, ignore_errors=True)
    return os.path.join(out, "include")


FLAVOURS = {
    # sanitizer build used for correspondence
    "asan": ["clang-14", "-std=gnu99", "-O1", "-g", "-fsanitize=address,undefined",
             "-fno-sanitize-recover=all", "-fno-omit-frame-pointer",
             "-DSYSTEM_ENDIANNESS_LITTLE", "-D_DEFAULT_SOURCE", "-DNDEBUG"],
    # flags of the shipped library
    "ship": ["gcc", "-std=gnu99", "-O2", "-g", "-DNDEBUG", "-DSYSTEM_ENDIANNESS_LITTLE",
             "-DUFW_USE_BUILTIN_SWAP", "-D_DEFAULT_SOURCE"],
    # mask/shift swap code instead of builtins
    "noswap": ["gcc", "-std=gnu99", "-O2", "-g", "-DNDEBUG", "-DSYSTEM_ENDIANNESS_LITTLE",
               "-D_DEFAULT_SOURCE"],
}


# per-harness flags: h_sx routes the allocation calls of src/sx.c through its ledger
HARNESS_FLAGS = {"h_sx": ["-Dmalloc=hx_malloc", "-Dcalloc=hx_calloc", "-Dfree=hx_free"]}

# /repo sources each harness links (current working tree)
HARNESS_SRCS = {
    "h_buffers": ["src/byte-buffer.c", "src/octet-ring.c", "src/ring-buffer-iter.c"],
    "h_streams": ["src/byte-buffer.c", "src/endpoints/core.c", "src/endpoints/buffer.c", "src/endpoints/trivial.c",
                  "src/rfc1055.c", "src/variable-length-integer.c", "src/length-prefix.c"],
    "h_persist": ["src/persistent-storage.c", "src/crc-16-arc.c"],
    "h_sx": ["src/sx.c", "src/compat/strlcpy.c"],
    "h_regtable": ["src/registers/core.c"],
    "h_codec": ["src/byte-buffer.c", "src/variable-length-integer.c", "src/endpoints/core.c", "src/endpoints/buffer.c", "src/crc-16-arc.c"],
    "h_regp": ["src/register-protocol.c", "src/endpoints/continuable-sink.c", "src/allocator.c", "src/endpoints/core.c",
               "src/endpoints/buffer.c", "src/endpoints/trivial.c", "src/rfc1055.c", "src/length-prefix.c",
               "src/variable-length-integer.c", "src/byte-buffer.c", "src/crc-16-arc.c"],
}


def build_harness(name, flavour="asan", extra_flags=()):
    """Compile harness/<name>.c together with the listed /repo sources (current
    working tree).  Cached on the content of every input."""
    repo_srcs = HARNESS_SRCS[name]
    inc = toolchain_include()
    srcs = [os.path.join(HARNESS, name + ".c")] + [os.path.join(REPO, s) for s in repo_srcs]
    hdrs = [os.path.join(HARNESS, "common.h")]
    for d, _, fs in os.walk(os.path.join(REPO, "include")):
        hdrs += [os.path.join(d, f) for f in fs if f.endswith(".h")]
    for d, _, fs in os.walk(os.path.join(REPO, "src")):
        hdrs += [os.path.join(d, f) for f in fs if f.endswith(".h")]
    for f in os.listdir(HARNESS):
        if f.endswith(".h") or f.endswith(".inc"):
            hdrs.append(os.path.join(HARNESS, f))
    flags = FLAVOURS[flavour] + list(extra_flags) + HARNESS_FLAGS.get(name, [])
    key = sha(srcs + hdrs, " ".join(flags) + inc)
    out = os.path.join(BUILD, "bin", "%s.%s.%s" % (name, flavour, key))
    if os.path.exists(out):
        return out
    os.makedirs(os.path.dirname(out), exist_ok=True)
    cmd = flags + ["-I" + os.path.join(REPO, "include"), "-I" + inc, "-I" + HARNESS,
                   "-I" + os.path.join(REPO, "src")] + srcs + ["-o", out + ".tmp", "-lm"]
    r = sh(cmd)
    if r.returncode != 0:
        raise BuildError("harness %s does not compile against %s:\n%s" % (name, REPO, r.stdout[-4000:]))
    os.replace(out + ".tmp", out)
    # drop stale binaries of the same harness/flavour
    for f in os.listdir(os.path.dirname(out)):
        if f.startswith("%s.%s." % (name, flavour)) and os.path.join(os.path.dirname(out), f) != out:
            try:
                os.remove(os.path.join(os.path.dirname(out), f))
            except OSError:
                pass
    return out


class BuildError(Exception):
    pass


def lake_build(targets):
    """`lake build <targets>` under a lock.  Returns (ok, output)."""
    os.makedirs(BUILD, exist_ok=True)
    with open(os.path.join(BUILD, ".lake.lock"), "w") as lk:
        fcntl.flock(lk, fcntl.LOCK_EX)
        r = sh(["lake", "build"] + list(targets), cwd=LEAN)
    return r.returncode == 0, r.stdout


def driver_path(name):
    return os.path.join(LEAN, ".lake/build/bin", name)


# --------------------------------------------------------------------------
# audit: theorems present, axioms, forbidden tokens
# --------------------------------------------------------------------------

def strip_comments(src):
    # block comments (nested) and line comments
    out, depth, i = [], 0, 0
    while i < len(src):
        if src.startswith("/-", i):
            depth += 1
            i += 2
        elif depth and src.startswith("-/", i):
            depth -= 1
            i += 2
        elif depth:
            i += 1
        elif src.startswith("--", i):
            j = src.find("\n", i)
            i = len(src) if j < 0 else j
        else:
            out.append(src[i])
            i += 1
    return "".join(out)


def lean_imports(modfile, seen=None):
    """Transitive closure of `import Ufw.*` (files of this project only)."""
    seen = seen if seen is not None else set()
    if modfile in seen or not os.path.exists(modfile):
        return seen
    seen.add(modfile)
    for m in re.findall(r"^import\s+(Ufw\.[\w.]+)", open(modfile).read(), re.M):
        lean_imports(os.path.join(LEAN, m.replace(".", "/") + ".lean"), seen)
    return seen


def theorems_of(propfile):
    """[(name, full_name)] of theorems declared in a Props file (non-private)."""
    src = strip_comments(open(propfile).read())
    ns = re.search(r"^namespace\s+([\w.]+)", src, re.M)
    ns = ns.group(1) if ns else ""
    names = re.findall(r"^(?:@\[[^\]]*\]\s*)?theorem\s+([\w.']+)", src, re.M)
    return [(n, (ns + "." + n) if ns else n) for n in names]


def audit(prop_id, allow_bv_decide=False, extra_theorems=(), extra_imports=()):
    """Returns dict(ok, theorems=[{name, axioms}], problems=[...])."""
    propfile = os.path.join(LEAN, "Ufw/Props/%s.lean" % prop_id)
    problems = []
    files = lean_imports(propfile)
    for f in sorted(files):
        code = strip_comments(open(f).read())
        for pat in FORBIDDEN_TOKENS:
            for m in re.finditer(pat, code, re.M):
                problems.append("forbidden token %r in %s" % (m.group(0).strip(), os.path.relpath(f, LEAN)))
    thms = theorems_of(propfile)
    if not thms:
        problems.append("no theorems in " + propfile)
    thms = thms + [(t.split(".")[-1], t) for t in extra_theorems]
    auditfile = os.path.join(LEAN, "Ufw/Audit/%s.lean" % prop_id)
    text = "import Ufw.Props.%s\n" % prop_id + "".join("import %s\n" % m for m in extra_imports) + \
        "".join("#print axioms %s\n" % full for _, full in thms)
    write_if_changed(auditfile, text)
    r = sh(["lake", "env", "lean", auditfile], cwd=LEAN)
    out = r.stdout
    result = []
    flat = re.sub(r"\s+", " ", out)
    for name, full in thms:
        m = re.search(r"'%s' depends on axioms: \[([^\]]*)\]" % re.escape(full), flat)
        if m:
            axs = [a.strip() for a in m.group(1).split(",") if a.strip()]
        elif re.search(r"'%s' does not depend on any axioms" % re.escape(full), flat):
            axs = []
        else:
            problems.append("no axiom report for %s" % full)
            axs = ["?"]
        for a in axs:
            if a in ALLOWED_AXIOMS:
                continue
            if allow_bv_decide and "._native.bv_decide.ax_" in a:
                continue
            problems.append("theorem %s depends on unexpected axiom %s" % (full, a))
        result.append({"name": full, "axioms": axs})
    if r.returncode != 0:
        problems.append("audit file does not check: " + out[-1500:])
    return {"ok": not problems, "theorems": result, "problems": problems}


# --------------------------------------------------------------------------
# running cases
# --------------------------------------------------------------------------

class Case:
    __slots__ = ("cid", "ops", "tags")

    def __init__(self, cid, ops, tags=()):
        self.cid = str(cid)
        self.ops = list(ops)
        self.tags = tuple(tags)

    def text(self):
        return "#case %s\n" % self.cid + "".join(o + "\n" for o in self.ops)


def _parse_output(text):
    """{cid: [lines]} in order of appearance; also returns order list."""
    res, order, cur = {}, [], None
    for line in text.split("\n"):
        if line.startswith("@ "):
            cur = line[2:].strip()
            res[cur] = []
            order.append(cur)
        elif cur is not None and line != "":
            res[cur].append(line)
    return res, order


OUTPUT_LIMIT = 768 << 20     # octets one harness / driver process may print


def _crash_summary(stderr):
    m = re.search(r"ERROR: AddressSanitizer: ([\w-]+)", stderr)
    kind = m.group(1) if m else None
    if not kind:
        m = re.search(r"runtime error: ([^\n]*)", stderr)
        kind = "ubsan:" + m.group(1)[:60].replace(" ", "_") if m else None
    if not kind:
        m = re.search(r"ERROR: LeakSanitizer: ([^\n]*)", stderr)
        kind = "leak" if m else None
    where = ""
    for fm in re.finditer(r"#\d+ 0x[0-9a-f]+ in (\w+) ([^\s:]+):(\d+)", stderr):
        if "/harness/" not in fm.group(2) and "sanitizer" not in fm.group(2) and fm.group(1) not in ("memcpy", "memmove", "memset", "__asan_memcpy", "__asan_memmove", "__asan_memset"):
            where = ":" + fm.group(1)
            break
    return "crash:%s%s" % (kind or "signal", where)


def run_program(binary, cases, timeout_per_case=20, env=None):
    """Feed the cases to one process (restarting after a crash/hang).
    Returns {cid: [lines]}; a crashed case ends with a `crash:...`/`hang` line."""
    results = {}
    todo = list(cases)
    e = dict(os.environ)
    e["ASAN_OPTIONS"] = "detect_leaks=1:abort_on_error=0:exitcode=97:allocator_may_return_null=1:max_allocation_size_mb=2048"
    e["UBSAN_OPTIONS"] = "print_stacktrace=1:exitcode=98"
    if env:
        e.update(env)
    while todo:
        inp = "".join(c.text() for c in todo)
        # output goes to files of bounded size: a loop that never ends while printing (an iterator whose step count
        # was left uninitialised ...) is stopped by the file-size limit or the time-out, not by this process' memory
        import resource
        import tempfile

        def _limits():
            resource.setrlimit(resource.RLIMIT_FSIZE, (OUTPUT_LIMIT, OUTPUT_LIMIT))
        with tempfile.TemporaryFile() as fo, tempfile.TemporaryFile() as fe:
            p = subprocess.Popen([binary], stdin=subprocess.PIPE, stdout=fo, stderr=fe, env=e, preexec_fn=_limits)
            try:
                p.communicate(inp.encode(), timeout=120 + timeout_per_case * 2 + len(todo) * 0.05 + sum(len(c.ops) for c in todo) * 0.003)
                rc = p.returncode
            except subprocess.TimeoutExpired:
                p.kill()
                p.communicate()
                rc = -14
            fo.seek(0)
            out = fo.read().decode(errors="replace")
            fe.seek(0, 2)
            fe.seek(max(0, fe.tell() - 200000))
            err = fe.read().decode(errors="replace") if rc != -14 else ""
            if rc == -25:
                # SIGXFSZ: keep only complete lines of what was written
                out = out[:out.rfind("\n") + 1]
        res, order = _parse_output(out)
        if rc == 0 and len(order) == len(todo):
            results.update(res)
            break
        # the last case that started is the one that died (or a leak at exit)
        if rc == 0:
            results.update(res)
            for c in todo:
                results.setdefault(c.cid, ["missing"])
            break
        if not order:
            # died before the first case
            for c in todo:
                results[c.cid] = ["crash:startup:" + err[-200:].replace("\n", " ")]
            break
        if len(order) == len(todo) and all(len(res[c.cid]) >= len(c.ops) for c in todo[-1:]) and "LeakSanitizer" in err:
            # leak detected at exit: attribute by re-running cases one by one
            results.update(res)
            leakers = _find_leakers(binary, todo, e)
            for cid in leakers:
                results[cid] = results[cid] + ["crash:leak"]
            break
        last = order[-1]
        for cid in order[:-1]:
            results[cid] = res[cid]
        tag = "hang" if rc in (-14, -9) else ("crash:output-limit" if rc == -25 else _crash_summary(err))
        results[last] = res[last] + [tag]
        idx = [c.cid for c in todo].index(last)
        todo = todo[idx + 1:]
    return results


def _find_leakers(binary, cases, env):
    leak = []

    def one(c):
        p = subprocess.run([binary], input=c.text(), stdout=subprocess.PIPE, stderr=subprocess.PIPE,
                           text=True, env=env, errors="replace")
        return c.cid if p.returncode != 0 else None
    # bisect in chunks to limit process count
    def rec(cs):
        if not cs:
            return
        p = subprocess.run([binary], input="".join(c.text() for c in cs), stdout=subprocess.PIPE,
                           stderr=subprocess.PIPE, text=True, env=env, errors="replace")
        if p.returncode == 0:
            return
        if len(cs) == 1:
            leak.append(cs[0].cid)
            return
        mid = len(cs) // 2
        rec(cs[:mid])
        rec(cs[mid:])
    rec(cases)
    return leak


def run_sharded(binary, cases, shards=None, **kw):
    # cases tagged "cold" get a process of their own: what the library answers to the very first call of a process
    # (tables built on first use, one-time initialisation) must be what it answers later
    cold = [c for c in cases if "cold" in c.tags]
    if cold:
        out = {}
        with ThreadPoolExecutor(max_workers=NCPU) as ex:
            for r in ex.map(lambda c: run_program(binary, [c], **kw), cold):
                out.update(r)
        rest = [c for c in cases if "cold" not in c.tags]
        if rest:
            out.update(run_sharded(binary, rest, shards, **kw))
        return out
    shards = shards or min(NCPU, max(1, len(cases) // 50))
    if shards <= 1:
        return run_program(binary, cases, **kw)
    parts = [cases[i::shards] for i in range(shards)]
    out = {}
    with ThreadPoolExecutor(max_workers=shards) as ex:
        for r in ex.map(lambda p: run_program(binary, p, **kw), parts):
            out.update(r)
    return out


def split_views(line):
    """`model view ## spec view` -> (left, right or None)"""
    if " ## " in line:
        a, b = line.split(" ## ", 1)
        return a.strip(), b.strip()
    return line.strip(), None


def view_equal(a, b):
    """impl view `a` against model view `b`.  In the model's text `err:<x>` stands for
    "some error" and matches any `err:<y>` of the implementation (the property
    does not fix the errno); `ERR:<x>` demands exactly that errno."""
    if a == b:
        return True
    if a is None or b is None or "rr:" not in b.lower():
        return False
    pat = re.escape(b)
    pat = re.sub(r"ERR:(\w+)", lambda m: "err:" + m.group(1), pat)
    pat = re.sub(r"(?<![A-Za-z])err:\w+", lambda m: m.group(0) if False else "err:\\w+", pat) if "err:" in b else pat
    # the substitution above must not loosen strict tokens: redo precisely
    parts = re.split(r"(ERR:\w+|err:\w+)", b)
    pat = "".join(("err:" + x[4:]) if x.startswith("ERR:") else (r"err:\w+" if x.startswith("err:") else re.escape(x)) for x in parts)
    return re.fullmatch(pat, a) is not None


def compare_case(impl, model):
    """Returns None when equal, else dict describing the first difference.
    kind = 'spec' when the property-level views differ (a concrete violation),
    'model' when only the model-level views differ (correspondence broken)."""
    n = max(len(impl), len(model))
    first_model = None
    for i in range(n):
        a = impl[i] if i < len(impl) else "<no output>"
        b = model[i] if i < len(model) else "<no output>"
        if a == b:
            continue
        al, ar = split_views(a)
        bl, br = split_views(b)
        if view_equal(al, bl) and (ar is None and br is None or view_equal(ar, br)):
            continue
        if b == "bad-op" and a != "bad-op":
            kind = "model"     # the model driver does not know the operation: correspondence, not a verdict
        elif a.startswith("crash:") or a == "hang" or a == "<no output>":
            kind = "spec"      # a crash/hang is never allowed by a property
            if bl in ("oob", "diverge") or bl.startswith("oob") or bl.startswith("diverge"):
                kind = "spec"
        elif ar is not None and br is not None and not view_equal(ar, br):
            kind = "spec"
        elif ar is None or br is None:
            kind = "spec"      # single-view lines: the view is the property-level observable
        else:
            kind = "model"
        d = {"op_index": i, "impl": a, "model": b, "kind": kind}
        if kind == "spec":
            return d           # a property-level difference further on outranks an earlier model-level one
        if first_model is None:
            first_model = d
        if a.startswith("crash:") or a == "hang" or a == "<no output>" or b in ("<no output>",):
            break              # nothing comparable follows
    return first_model


# --------------------------------------------------------------------------
# shrinking
# --------------------------------------------------------------------------

def shrink(case, harness_bin, driver_bin, budget=80, keep_prefix=0, kind="spec"):
    """Delta-debug the op list of a failing case (ops after `keep_prefix`); a smaller case counts only when its
    difference is of the same kind (a property-level difference is never shrunk into a model-level one)."""
    def fails(ops):
        c = Case(case.cid, ops)
        a = run_program(harness_bin, [c]).get(c.cid, [])
        b = run_program(driver_bin, [c]).get(c.cid, [])
        d = compare_case(a, b)
        # an operation that lost the set-up it depends on is answered `bad-op`: not a smaller failing case
        return d is not None and d["kind"] == kind and "bad-op" not in d["impl"] and "bad-op" not in d["model"]
    ops = list(case.ops)
    # cut everything after the first differing op
    steps = 0
    n = 2
    while len(ops) - keep_prefix >= 2 and steps < budget:
        body = ops[keep_prefix:]
        chunk = max(1, len(body) // n)
        reduced = False
        for i in range(0, len(body), chunk):
            cand = ops[:keep_prefix] + body[:i] + body[i + chunk:]
            steps += 1
            if len(cand) > keep_prefix - 1 and fails(cand):
                ops = cand
                n = max(n - 1, 2)
                reduced = True
                break
            if steps >= budget:
                break
        if not reduced:
            if chunk == 1:
                break
            n = min(len(body), n * 2)
    return Case(case.cid, ops, case.tags)


# --------------------------------------------------------------------------
# known findings
# --------------------------------------------------------------------------

def load_known(prop_id):
    """[(regex, text)] for `known:` lines of this property."""
    path = os.path.join(ROOT, "KNOWN_FINDINGS.txt")
    res = []
    if not os.path.exists(path):
        return res
    for line in open(path):
        line = line.strip()
        m = re.match(r"known:\s+property=(\S+)\s+match=(\S+)\s+(.*)", line)
        if m and m.group(1) == prop_id:
            res.append((m.group(2), m.group(3)))
    return res


# --------------------------------------------------------------------------
# evidence
# --------------------------------------------------------------------------

def write_evidence(prop_id, tier, seed, coverage, wall_s, violations, assumptions):
    ev = {"property_id": prop_id, "tier": tier, "seed": seed, "level": "proof",
          "coverage": coverage, "assumptions": assumptions, "wall_s": round(wall_s, 2),
          "violations": violations}
    os.makedirs(os.path.join(ROOT, "evidence"), exist_ok=True)
    with open(os.path.join(ROOT, "evidence", prop_id + ".json"), "w") as f:
        json.dump(ev, f, indent=1, sort_keys=True)
        f.write("\n")
