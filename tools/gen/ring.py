"""
Tie A for C19: translate the functions that the RING_BUFFER / RING_BUFFER_ITER macro families expand to in
src/octet-ring.c, and the iterator functions of src/ring-buffer-iter.c, into Lean definitions
(lean/Ufw/Gen/Ring.lean) on every run.  The obligations "generated definition = hand-written model" are in
lean/Ufw/Tie/Ring/*.lean, one module per function.

Works on clang's typed AST of the preprocessed translation units (so the macro bodies are seen as the compiler
sees them).  Statements become a continuation-passing chain over the model's `Ring` (resp. `Iter`) record;
`size_t` `+`/`-` wrap (`addSz`/`subSz`), `%` is `%`, `c->data[e]` is a checked array access (outside the array:
`none`), calls of sibling functions are calls of their translations.  No simplification - the proofs do that.  A
construct the translator does not know makes the function `unavailable(<reason>)`.
"""
import json
import os
import subprocess
import sys

sys.path.insert(0, os.path.join(os.path.dirname(os.path.abspath(__file__)), "..", "lib"))
import vf  # noqa: E402

SOURCES = ["src/octet-ring.c", "src/ring-buffer-iter.c"]
RING_FIELDS = {"head": "head", "tail": "tail", "datasize": "cap", "override_if_full": "ovr"}
ITER_FIELDS = {"steps": "steps", "index": "index", "size": "size"}

TIE_MODULES = {
    "octet_ring_advance_head": "Ufw.Tie.Ring.AdvanceHead", "octet_ring_advance_tail": "Ufw.Tie.Ring.AdvanceTail",
    "octet_ring_size": "Ufw.Tie.Ring.Size", "octet_ring_empty": "Ufw.Tie.Ring.Empty", "octet_ring_full": "Ufw.Tie.Ring.Full",
    "octet_ring_clear": "Ufw.Tie.Ring.Clear", "octet_ring_get": "Ufw.Tie.Ring.Get", "octet_ring_put": "Ufw.Tie.Ring.Put",
    "octet_ring_override_if_full": "Ufw.Tie.Ring.Override", "rb_iter_done": "Ufw.Tie.Ring.IterDone",
    "rb_iter_advance": "Ufw.Tie.Ring.IterAdvance",
}
LAST_STATUS = {}


class Unavailable(Exception):
    pass


def tie_modules():
    return [m for f, m in TIE_MODULES.items() if LAST_STATUS.get(f) == "translated"]


def ast(src):
    inc = vf.toolchain_include()
    cmd = ["clang-14", "-std=gnu99", "-DSYSTEM_ENDIANNESS_LITTLE", "-D_DEFAULT_SOURCE", "-DNDEBUG",
           "-I" + os.path.join(vf.REPO, "include"), "-I" + inc, "-Xclang", "-ast-dump=json", "-fsyntax-only",
           os.path.join(vf.REPO, src)]
    r = subprocess.run(cmd, stdout=subprocess.PIPE, stderr=subprocess.PIPE, text=True)
    if r.returncode != 0:
        raise RuntimeError("clang cannot parse %s: %s" % (src, r.stderr[-400:]))
    d = json.loads(r.stdout)
    return [n for n in d["inner"] if n.get("kind") == "FunctionDecl" and n.get("name") in TIE_MODULES and
            any(c.get("kind") == "CompoundStmt" for c in n.get("inner", []))]


def strip(e):
    while e.get("kind") in ("ImplicitCastExpr", "ParenExpr", "CStyleCastExpr"):
        e = e["inner"][0]
    return e


def qual(e):
    return e.get("type", {}).get("qualType", "")


class Fn:
    def __init__(self, node, pure):
        self.node = node
        self.name = node["name"]
        self.pure = pure            # names of the functions translated as plain values (const object, no state change)
        self.params = [(p["name"], qual(p)) for p in node.get("inner", []) if p.get("kind") == "ParmVarDecl"]
        self.body = [c for c in node["inner"] if c.get("kind") == "CompoundStmt"][0]
        self.ret = qual(node).split("(")[0].strip()
        self.obj = self.params[0][0]
        self.is_iter = "rb_iter" in self.params[0][1]
        self.fields = ITER_FIELDS if self.is_iter else RING_FIELDS
        self.is_pure = self.params[0][1].startswith("const ")

    def field(self, e):
        base = strip(e["inner"][0])
        if base.get("kind") != "DeclRefExpr" or base["referencedDecl"]["name"] != self.obj:
            raise Unavailable("member of something else than the object")
        return e["name"]

    def expr(self, e):
        e = strip(e)
        k = e.get("kind")
        if k == "IntegerLiteral":
            return e["value"]
        if k == "CXXBoolLiteralExpr":
            return "true" if e.get("value") else "false"
        if k == "DeclRefExpr":
            return e["referencedDecl"]["name"]
        if k == "MemberExpr":
            f = self.field(e)
            if f in self.fields:
                return "%s.%s" % (self.obj, self.fields[f])
            raise Unavailable("value of field " + f)
        if k == "ConditionalOperator":
            c, a, b = e["inner"]
            return "(if %s then %s else %s)" % (self.cond(c), self.expr(a), self.expr(b))
        if k == "BinaryOperator" and e["opcode"] in ("+", "-", "%"):
            if qual(e) not in ("unsigned long", "size_t"):
                raise Unavailable("arithmetic in type " + qual(e))
            l, r = self.expr(e["inner"][0]), self.expr(e["inner"][1])
            if e["opcode"] == "%":
                return "(%s %% %s)" % (l, r)
            return "(%s %s %s)" % ("addSz" if e["opcode"] == "+" else "subSz", l, r)
        if k == "CallExpr":
            callee = strip(e["inner"][0]).get("referencedDecl", {}).get("name")
            if callee in self.pure:
                return "(%s %s)" % (callee, " ".join(self.expr(a) for a in e["inner"][1:]))
            raise Unavailable("call of %s inside an expression" % callee)
        raise Unavailable("expression %s %s" % (k, e.get("opcode", "")))

    def cond(self, e):
        e = strip(e)
        k = e.get("kind")
        if k == "BinaryOperator":
            op = e["opcode"]
            l, r = e["inner"]
            if op == "||":
                return "(%s ∨ %s)" % (self.cond(l), self.cond(r))
            if op == "&&":
                return "(%s ∧ %s)" % (self.cond(l), self.cond(r))
            if op in ("<", ">", "<=", ">=", "==", "!="):
                lo = {"<": "<", ">": ">", "<=": "≤", ">=": "≥", "==": "=", "!=": "≠"}[op]
                return "(%s %s %s)" % (self.expr(l), lo, self.expr(r))
        if k == "CallExpr" or (k == "MemberExpr" and qual(e) in ("bool", "_Bool")):
            return "(%s = true)" % self.expr(e)
        raise Unavailable("condition %s" % k)

    def block(self, s):
        return list(s["inner"]) if s.get("kind") == "CompoundStmt" else [s]

    def ret_term(self, value):
        return "some (%s, %s)" % (value, self.obj)

    def stmts(self, ss, ind):
        pad = "  " * ind
        if not ss:
            if self.ret == "void":
                return pad + self.ret_term("0")
            raise Unavailable("control reaches the end of a non-void function")
        s, rest = ss[0], ss[1:]
        k = s.get("kind")
        if k == "NullStmt":
            return self.stmts(rest, ind)
        if k == "ReturnStmt":
            if "inner" not in s:
                return pad + self.ret_term("0")
            return pad + self.ret_term(self.expr(s["inner"][0]))
        if k == "CompoundStmt":
            return self.stmts(list(s["inner"]) + rest, ind)
        if k == "IfStmt":
            inner = s["inner"]
            then = self.block(inner[1])
            els = self.block(inner[2]) if len(inner) > 2 else []
            return "%sif %s then\n%s\n%selse\n%s" % (pad, self.cond(inner[0]), self.stmts(then + rest, ind + 1), pad,
                                                     self.stmts(els + rest, ind + 1))
        if k == "SwitchStmt":
            # switch over the iterator's mode: case bodies end in break
            scrut = strip(s["inner"][0])
            if scrut.get("kind") != "MemberExpr" or self.field(scrut) != "mode":
                raise Unavailable("switch over something else than the mode")
            arms = []
            body = self.block(s["inner"][1])
            i = 0
            while i < len(body):
                c = body[i]
                if c.get("kind") not in ("CaseStmt", "DefaultStmt"):
                    raise Unavailable("statement between switch cases")
                if c.get("kind") == "CaseStmt":
                    lab = strip(c["inner"][0])
                    while lab.get("kind") == "ConstantExpr":
                        lab = strip(lab["inner"][0])
                    name = lab.get("referencedDecl", {}).get("name")
                    first = c["inner"][-1]
                    tag = {"RING_BUFFER_ITER_OLD_TO_NEW": ".oldToNew", "RING_BUFFER_ITER_NEW_TO_OLD": ".newToOld"}.get(name)
                    if not tag:
                        raise Unavailable("case label " + str(name))
                else:
                    first = c["inner"][-1]
                    tag = None
                stm = [first]
                i += 1
                while i < len(body) and body[i].get("kind") not in ("CaseStmt", "DefaultStmt"):
                    stm.append(body[i])
                    i += 1
                if not stm or stm[-1].get("kind") != "BreakStmt":
                    raise Unavailable("switch case that does not end in break")
                stm = [x for x in stm[:-1] if not (x.get("kind") == "ParenExpr" or x.get("kind") == "CStyleCastExpr")]
                if tag:
                    arms.append((tag, stm))
                # the default arm (never taken: the mode has two values; its body is an assert) is dropped
            if sorted(t for t, _ in arms) != [".newToOld", ".oldToNew"]:
                raise Unavailable("switch does not cover exactly the two modes")
            out = "%smatch %s.mode with\n" % (pad, self.obj)
            for tag, stm in arms:
                out += "%s| %s =>\n%s\n" % (pad, tag, self.stmts(stm + rest, ind + 1))
            return out.rstrip("\n")
        if k == "DeclStmt":
            v = s["inner"][0]
            if len(s["inner"]) != 1 or v.get("kind") != "VarDecl" or "inner" not in v:
                raise Unavailable("declaration")
            init = strip(v["inner"][0])
            if init.get("kind") == "ArraySubscriptExpr":
                arr, idx = init["inner"]
                if strip(arr).get("kind") != "MemberExpr" or self.field(strip(arr)) != "data":
                    raise Unavailable("subscript of something else than data")
                return "%sarrGet %s %s fun %s =>\n%s" % (pad, self.obj, self.expr(idx), v["name"], self.stmts(rest, ind))
            return "%slet %s := %s\n%s" % (pad, v["name"], self.expr(v["inner"][0]), self.stmts(rest, ind))
        if k == "BinaryOperator" and s["opcode"] == "=":
            lhs = strip(s["inner"][0])
            if lhs.get("kind") == "ArraySubscriptExpr":
                arr, idx = lhs["inner"]
                if strip(arr).get("kind") != "MemberExpr" or self.field(strip(arr)) != "data":
                    raise Unavailable("subscript of something else than data")
                return "%sarrSet %s %s %s fun %s =>\n%s" % (pad, self.obj, self.expr(idx), self.expr(s["inner"][1]), self.obj, self.stmts(rest, ind))
            if lhs.get("kind") == "MemberExpr":
                f = self.field(lhs)
                if f not in self.fields:
                    raise Unavailable("assignment to field " + f)
                return "%slet %s := { %s with %s := %s }\n%s" % (pad, self.obj, self.obj, self.fields[f], self.expr(s["inner"][1]), self.stmts(rest, ind))
            raise Unavailable("assignment")
        if k == "UnaryOperator" and s["opcode"] in ("--", "++"):
            lhs = strip(s["inner"][0])
            f = self.field(lhs)
            if f not in self.fields:
                raise Unavailable("increment of field " + f)
            fn = "subSz" if s["opcode"] == "--" else "addSz"
            return "%slet %s := { %s with %s := %s %s.%s 1 }\n%s" % (pad, self.obj, self.obj, self.fields[f], fn, self.obj, self.fields[f], self.stmts(rest, ind))
        if k == "CallExpr":
            callee = strip(s["inner"][0]).get("referencedDecl", {}).get("name")
            if callee in TIE_MODULES and callee not in self.pure:
                args = " ".join(self.expr(a) for a in s["inner"][1:])
                return "%scall (%s %s) fun %s =>\n%s" % (pad, callee, args, self.obj, self.stmts(rest, ind))
            raise Unavailable("call of " + str(callee))
        if k in ("ParenExpr", "CStyleCastExpr"):
            # `((void)0)`: what assert() expands to with NDEBUG
            return self.stmts(rest, ind)
        raise Unavailable("statement " + str(k))

    def lean(self):
        ty = "Iter" if self.is_iter else "Ring"
        ps = ["(%s : %s)" % (self.obj, ty)]
        for name, t in self.params[1:]:
            if t in ("bool", "_Bool"):
                ps.append("(%s : Bool)" % name)
            elif "*" in t:
                raise Unavailable("pointer parameter " + name)
            else:
                ps.append("(%s : Nat)" % name)
        if self.name in self.pure:
            body = self.block(self.body)
            return "def %s %s : %s :=\n%s" % (self.name, " ".join(ps), "Bool" if self.ret in ("bool", "_Bool") else "Nat", self.pure_stmts(body, 1))
        return "def %s %s : Option (Nat × %s) :=\n%s" % (self.name, " ".join(ps), ty, self.stmts(self.block(self.body), 1))

    def pure_stmts(self, ss, ind):
        pad = "  " * ind
        if not ss:
            raise Unavailable("control reaches the end of a value function")
        s, rest = ss[0], ss[1:]
        k = s.get("kind")
        if k == "ReturnStmt":
            e = s["inner"][0]
            if self.ret in ("bool", "_Bool"):
                return pad + "decide %s" % self.cond(e)
            return pad + self.expr(e)
        if k == "IfStmt" and len(s["inner"]) == 2:
            then = self.block(s["inner"][1])
            return "%sif %s then\n%s\n%selse\n%s" % (pad, self.cond(s["inner"][0]), self.pure_stmts(then, ind + 1), pad, self.pure_stmts(rest, ind + 1))
        raise Unavailable("statement %s in a value function" % k)


def gen():
    status, texts, order = {}, {}, []
    nodes = []
    for src in SOURCES:
        nodes += ast(src)
    # value functions: const object, a result, no state change
    pure = set()
    for n in nodes:
        ps = [p for p in n.get("inner", []) if p.get("kind") == "ParmVarDecl"]
        if ps and qual(ps[0]).startswith("const ") and not qual(n).startswith("void"):
            pure.add(n["name"])
    for n in nodes:
        name = n["name"]
        try:
            texts[name] = Fn(n, pure).lean()
            status[name] = "translated"
            order.append(name)
        except Unavailable as e:
            status[name] = "unavailable(%s)" % e
    changed = True
    while changed:
        changed = False
        for name in order:
            if status[name] != "translated":
                continue
            for c in TIE_MODULES:
                if c != name and ("(" + c + " ") in texts[name] and status.get(c) != "translated":
                    status[name] = "unavailable(calls %s, which is unavailable)" % c
                    changed = True
                    break
    for f in TIE_MODULES:
        status.setdefault(f, "unavailable(no such function)")
    # callees first
    emitted, defs = set(), []

    def emit(name):
        if name in emitted or status.get(name) != "translated":
            return
        emitted.add(name)
        for c in TIE_MODULES:
            if c != name and ("(" + c + " ") in texts[name]:
                emit(c)
        defs.append(texts[name])
    for name in order:
        emit(name)
    LAST_STATUS.clear()
    LAST_STATUS.update(status)
    text = """/-
GENERATED by tools/gen/ring.py from %s of /repo (clang's typed AST of the expanded RING_BUFFER /
RING_BUFFER_ITER macros and of the iterator functions) - do not edit.  Regenerated on every check run; the
obligations "= the hand-written model" are in Ufw/Tie/Ring/*.lean.
-/
import Ufw.Tie.RingPre
set_option linter.unusedVariables false

namespace Ufw.Gen.Ring
open Ufw Ufw.Model.Ring Ufw.Tie.ByteBufPre Ufw.Tie.RingPre

%s

end Ufw.Gen.Ring
""" % (" and ".join(SOURCES), "\n\n".join(defs))
    vf.write_if_changed(os.path.join(vf.LEAN, "Ufw/Gen/Ring.lean"), text)
    return status


if __name__ == "__main__":
    for k, v in gen().items():
        print(k, v)
    print(open(os.path.join(vf.LEAN, "Ufw/Gen/Ring.lean")).read())
