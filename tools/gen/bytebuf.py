"""
Tie A for C18: translate every function of src/byte-buffer.c into a Lean definition
(lean/Ufw/Gen/ByteBuf.lean) on every run.  The obligations "generated definition = hand-written model"
are in lean/Ufw/Tie/ByteBuf.lean and are re-checked by Lean's kernel with the property.

The translator works on clang's typed AST (-ast-dump=json) and is syntactic: statements become a
continuation-passing chain over the buffer record, `size_t` additions and subtractions become the wrapping
operations of the prelude (`addSz`, `subSz`), `memcpy`/`memmove`/`memset` on `b->data + e` become the checked
memory operations of the prelude.  It does no simplification - the proofs do.  A construct it does not know
makes that function `unavailable(<reason>)` (reported in the evidence, the obligation then fails to build).
"""
import json
import os
import subprocess
import sys

sys.path.insert(0, os.path.join(os.path.dirname(os.path.abspath(__file__)), "..", "lib"))
import vf  # noqa: E402

SRC = "src/byte-buffer.c"
FIELDS = ("size", "used", "offset")


class Unavailable(Exception):
    pass


def ast():
    inc = vf.toolchain_include()
    cmd = ["clang-14", "-std=gnu99", "-DSYSTEM_ENDIANNESS_LITTLE", "-D_DEFAULT_SOURCE", "-DNDEBUG",
           "-I" + os.path.join(vf.REPO, "include"), "-I" + inc, "-Xclang", "-ast-dump=json", "-fsyntax-only",
           os.path.join(vf.REPO, SRC)]
    r = subprocess.run(cmd, stdout=subprocess.PIPE, stderr=subprocess.PIPE, text=True)
    if r.returncode != 0:
        raise RuntimeError("clang cannot parse %s: %s" % (SRC, r.stderr[-400:]))
    d = json.loads(r.stdout)
    out = []
    for n in d["inner"]:
        if n.get("kind") == "FunctionDecl" and any(c.get("kind") == "CompoundStmt" for c in n.get("inner", [])):
            loc = n.get("loc", {})
            # functions defined in this file (not inline functions of headers)
            if "includedFrom" in loc or "includedFrom" in loc.get("expansionLoc", {}):
                continue
            out.append(n)
    return out


def strip(e):
    while e.get("kind") in ("ImplicitCastExpr", "ParenExpr", "CStyleCastExpr") and e.get("castKind") != "NullToPointer":
        e = e["inner"][0]
    return e


def is_null(e):
    while e.get("kind") in ("ImplicitCastExpr", "ParenExpr", "CStyleCastExpr"):
        if e.get("castKind") == "NullToPointer":
            return True
        e = e["inner"][0]
    return False


def qual(e):
    return e.get("type", {}).get("qualType", "")


class Fn:
    def __init__(self, node):
        self.node = node
        self.name = node["name"]
        self.params = [(p["name"], qual(p)) for p in node.get("inner", []) if p.get("kind") == "ParmVarDecl"]
        self.body = [c for c in node["inner"] if c.get("kind") == "CompoundStmt"][0]
        self.ret = qual(node).split("(")[0].strip()
        self.roles = {}
        self.classify()

    # ---- what a pointer parameter is used for ----------------------------------------------------
    def classify(self):
        uses = {}

        def walk(n):
            if n.get("kind") == "CallExpr":
                callee = strip(n["inner"][0]).get("referencedDecl", {}).get("name")
                args = n["inner"][1:]
                if callee in ("memcpy", "memmove"):
                    for role, a in (("dst", args[0]), ("src", args[1])):
                        s = strip(a)
                        if s.get("kind") == "DeclRefExpr":
                            uses.setdefault(s["referencedDecl"]["name"], set()).add(role)
            for c in n.get("inner", []):
                walk(c)
        walk(self.body)
        for name, ty in self.params:
            if name == "b":
                continue
            if "*" in ty:
                u = uses.get(name, set())
                if u == {"dst"}:
                    self.roles[name] = "out"          # memory the caller provides for the result
                elif u == {"src"}:
                    self.roles[name] = "in"           # octets the caller hands in
                elif not u:
                    self.roles[name] = "mem?"         # a block that becomes the buffer's memory (may be NULL)
                else:
                    raise Unavailable("pointer parameter %s used as %s" % (name, sorted(u)))
            else:
                self.roles[name] = "nat"

    # ---- expressions -----------------------------------------------------------------------------------
    def expr(self, e):
        e0 = e
        e = strip(e)
        k = e.get("kind")
        if k == "IntegerLiteral":
            return e["value"]
        if k == "DeclRefExpr":
            return e["referencedDecl"]["name"]
        if k == "MemberExpr":
            base = strip(e["inner"][0])
            if base.get("kind") != "DeclRefExpr" or base["referencedDecl"]["name"] != "b":
                raise Unavailable("member of something else than b")
            if e["name"] in FIELDS:
                return "b.%s" % e["name"]
            raise Unavailable("value of b->%s" % e["name"])
        if k == "UnaryOperator" and e["opcode"] == "-":
            return "(-%s : Int)" % self.expr(e["inner"][0])
        if k == "ConditionalOperator":
            c, a, b = e["inner"]
            return "(if %s then %s else %s)" % (self.cond(c), self.expr(a), self.expr(b))
        if k == "BinaryOperator" and e["opcode"] in ("+", "-"):
            ty = qual(e)
            if ty not in ("unsigned long", "size_t"):
                raise Unavailable("arithmetic in type " + ty)
            f = "addSz" if e["opcode"] == "+" else "subSz"
            return "(%s %s %s)" % (f, self.expr(e["inner"][0]), self.expr(e["inner"][1]))
        raise Unavailable("expression %s %s" % (k, e.get("opcode", "")))

    def cond(self, e):
        e = strip(e)
        k = e.get("kind")
        if k == "BinaryOperator":
            op = e["opcode"]
            l, r = e["inner"]
            if op == "||":
                return "(%s ∨ %s)" % (self.cond(l), self.cond(r))
            if op == "&&":
                return "(%s ∧ %s)" % (self.cond(l), self.cond(r))
            if op in ("==", "!=") and (is_null(r) or is_null(l)):
                p = strip(l if is_null(r) else r)
                if p.get("kind") == "DeclRefExpr" and self.roles.get(p["referencedDecl"]["name"]) == "mem?":
                    t = "%s.isNone = true" % p["referencedDecl"]["name"]
                elif p.get("kind") == "MemberExpr" and p["name"] == "data":
                    t = "b.null = true"
                else:
                    raise Unavailable("NULL test of something unknown")
                return "(%s)" % t if op == "==" else "(¬ %s)" % t
            if op in ("<", ">", "<=", ">=", "==", "!="):
                lo = {"<": "<", ">": ">", "<=": "≤", ">=": "≥", "==": "=", "!=": "≠"}[op]
                return "(%s %s %s)" % (self.expr(l), lo, self.expr(r))
        raise Unavailable("condition %s" % k)

    def pointer(self, e):
        """('buf', offset expression) | ('arg', name)"""
        e = strip(e)
        k = e.get("kind")
        if k == "DeclRefExpr":
            return ("arg", e["referencedDecl"]["name"])
        if k == "MemberExpr" and e["name"] == "data":
            return ("buf", "0")
        if k == "BinaryOperator" and e["opcode"] == "+":
            l = strip(e["inner"][0])
            if l.get("kind") == "MemberExpr" and l["name"] == "data":
                return ("buf", self.expr(e["inner"][1]))
        raise Unavailable("pointer expression")

    # ---- statements ------------------------------------------------------------------------------------
    def ret_value(self, e):
        """Lean term of type GRes for `return e`"""
        s = strip(e)
        if s.get("kind") == "CallExpr":
            return self.call_value(s)
        if self.ret in ("int", "ssize_t"):
            if s.get("kind") == "UnaryOperator" or s.get("kind") == "IntegerLiteral":
                return "ret b out (rcInt %s)" % self.expr(s)
            return "ret b out (rcSz %s)" % self.expr(s)
        raise Unavailable("return in a function of type " + self.ret)

    def call_value(self, s):
        callee = strip(s["inner"][0]).get("referencedDecl", {}).get("name")
        if not callee or not callee.startswith("byte_buffer_"):
            raise Unavailable("call of " + str(callee))
        args = []
        for a in s["inner"][1:]:
            args.append(self.expr(a))
        return "%s %s" % (callee, " ".join(args))

    def assign(self, lhs, rhs_term):
        l = strip(lhs)
        if l.get("kind") != "MemberExpr":
            raise Unavailable("assignment to something else than a field of b")
        return l["name"]

    def stmts(self, ss, ind):
        pad = "  " * ind
        if not ss:
            if self.ret == "void":
                return pad + "ret b out (rcInt 0)"
            raise Unavailable("control reaches the end of a non-void function")
        s, rest = ss[0], ss[1:]
        k = s.get("kind")
        if k == "ReturnStmt":
            if "inner" not in s:
                return pad + "ret b out (rcInt 0)"
            return pad + self.ret_value(s["inner"][0])
        if k == "IfStmt":
            inner = s["inner"]
            if len(inner) != 2:
                raise Unavailable("if with else")
            then = inner[1]["inner"] if inner[1].get("kind") == "CompoundStmt" else [inner[1]]
            if not then or then[-1].get("kind") != "ReturnStmt":
                raise Unavailable("if branch that does not return")
            return "%sif %s then\n%s\n%selse\n%s" % (pad, self.cond(inner[0]), self.stmts(list(then), ind + 1), pad, self.stmts(rest, ind))
        if k == "DeclStmt":
            out = []
            for v in s["inner"]:
                if v.get("kind") != "VarDecl" or "inner" not in v or "size_t" not in qual(v):
                    raise Unavailable("declaration")
                out.append("%slet %s := %s" % (pad, v["name"], self.expr(v["inner"][0])))
            return "\n".join(out) + "\n" + self.stmts(rest, ind)
        if k == "BinaryOperator" and s["opcode"] == "=":
            # (chained) assignment: innermost first
            chain = []
            cur = s
            while cur.get("kind") == "BinaryOperator" and cur["opcode"] == "=":
                chain.append(cur["inner"][0])
                cur = strip(cur["inner"][1]) if strip(cur["inner"][1]).get("kind") == "BinaryOperator" and strip(cur["inner"][1])["opcode"] == "=" else cur["inner"][1]
                if cur.get("kind") != "BinaryOperator" or cur.get("opcode") != "=":
                    break
            value = cur
            lines = []
            for lhs in reversed(chain):
                l = strip(lhs)
                if l.get("kind") != "MemberExpr":
                    raise Unavailable("assignment to something else than a field of b")
                f = l["name"]
                if f == "data":
                    if is_null(value):
                        lines.append("%slet b := setData b none" % pad)
                    else:
                        v = strip(value)
                        if v.get("kind") == "DeclRefExpr" and self.roles.get(v["referencedDecl"]["name"]) == "mem?":
                            lines.append("%slet b := setData b %s" % (pad, v["referencedDecl"]["name"]))
                        else:
                            raise Unavailable("assignment to b->data")
                elif f in FIELDS:
                    lines.append("%slet b := { b with %s := %s }" % (pad, f, self.expr(value)))
                else:
                    raise Unavailable("field " + f)
                # the value of an assignment expression is the value stored: for the fields used here that is the same term
            return "\n".join(lines) + "\n" + self.stmts(rest, ind)
        if k == "CompoundAssignOperator":
            l = strip(s["inner"][0])
            if l.get("kind") != "MemberExpr" or l["name"] not in FIELDS:
                raise Unavailable("compound assignment")
            f = {"+=": "addSz", "-=": "subSz"}.get(s["opcode"])
            if not f:
                raise Unavailable("operator " + s["opcode"])
            return "%slet b := { b with %s := %s b.%s %s }\n%s" % (pad, l["name"], f, l["name"], self.expr(s["inner"][1]), self.stmts(rest, ind))
        if k == "CallExpr":
            callee = strip(s["inner"][0]).get("referencedDecl", {}).get("name")
            a = s["inner"][1:]
            if callee == "memcpy" or callee == "memmove":
                d, sr = self.pointer(a[0]), self.pointer(a[1])
                n = self.expr(a[2])
                if d[0] == "buf" and sr[0] == "arg" and self.roles.get(sr[1]) == "in":
                    return "%smemIn b out %s %s %s fun b out =>\n%s" % (pad, d[1], sr[1], n, self.stmts(rest, ind))
                if d[0] == "arg" and sr[0] == "buf" and self.roles.get(d[1]) == "out":
                    return "%smemOut b out %s %s fun b out =>\n%s" % (pad, sr[1], n, self.stmts(rest, ind))
                if d[0] == "buf" and sr[0] == "buf" and callee == "memmove":
                    return "%smemMove b out %s %s %s fun b out =>\n%s" % (pad, d[1], sr[1], n, self.stmts(rest, ind))
                raise Unavailable("%s between %s and %s" % (callee, d[0], sr[0]))
            if callee == "memset":
                d = self.pointer(a[0])
                if d[0] != "buf":
                    raise Unavailable("memset of something else than the buffer")
                return "%smemSet b out %s %s %s fun b out =>\n%s" % (pad, d[1], self.expr(a[1]), self.expr(a[2]), self.stmts(rest, ind))
            raise Unavailable("call of " + str(callee))
        raise Unavailable("statement " + str(k))

    def lean(self):
        ps = ["(b : ByteBuffer)"]
        for name, ty in self.params:
            r = self.roles.get(name)
            if r == "nat":
                ps.append("(%s : Nat)" % name)
            elif r == "in":
                ps.append("(%s : List Octet)" % name)
            elif r == "mem?":
                ps.append("(%s : Option (List Octet))" % name)
        if self.ret in ("size_t",):
            # pure accessor
            body = self.body["inner"]
            if len(body) != 1 or body[0].get("kind") != "ReturnStmt":
                raise Unavailable("accessor with statements")
            return "def %s %s : Nat :=\n  %s" % (self.name, " ".join(ps), self.expr(body[0]["inner"][0]))
        return "def %s %s : GRes :=\n  let out : List Octet := []\n%s" % (self.name, " ".join(ps), self.stmts(list(self.body.get("inner", [])), 1))


# module holding the obligation of each function
TIE_MODULES = {
    "byte_buffer_null": "Ufw.Tie.ByteBuf.Null", "byte_buffer_set": "Ufw.Tie.ByteBuf.Set", "byte_buffer_use": "Ufw.Tie.ByteBuf.Use",
    "byte_buffer_space": "Ufw.Tie.ByteBuf.Space", "byte_buffer_avail": "Ufw.Tie.ByteBuf.Avail", "byte_buffer_rest": "Ufw.Tie.ByteBuf.Rest",
    "byte_buffer_add": "Ufw.Tie.ByteBuf.Add", "byte_buffer_consume": "Ufw.Tie.ByteBuf.Consume",
    "byte_buffer_consume_at_most": "Ufw.Tie.ByteBuf.ConsumeAtMost", "byte_buffer_rewind": "Ufw.Tie.ByteBuf.Rewind",
    "byte_buffer_clear": "Ufw.Tie.ByteBuf.Clear", "byte_buffer_reset": "Ufw.Tie.ByteBuf.Reset", "byte_buffer_repeat": "Ufw.Tie.ByteBuf.Repeat",
}
LAST_STATUS = {}


def tie_modules():
    """obligation modules of the functions the last gen() could translate: a function the translator does not
    understand is reported `unavailable` in the evidence and is covered by the correspondence only"""
    return [m for f, m in TIE_MODULES.items() if LAST_STATUS.get(f) == "translated"]


def gen():
    status = {}
    defs = []
    texts = {}
    calls = {}
    for node in ast():
        name = node["name"]
        try:
            f = Fn(node)
            texts[name] = f.lean()
            status[name] = "translated"
            calls[name] = [c for c in TIE_MODULES if c != name and (" " + c + " ") in texts[name]]
        except Unavailable as e:
            status[name] = "unavailable(%s)" % e
    # a function that calls one the translator could not deliver is not available either
    changed = True
    while changed:
        changed = False
        for name in list(texts):
            bad = [c for c in calls[name] if status.get(c) != "translated"]
            if bad and status[name] == "translated":
                status[name] = "unavailable(calls %s, which is unavailable)" % bad[0]
                changed = True
    for name in texts:
        if status[name] == "translated":
            defs.append(texts[name])
    for f in TIE_MODULES:
        status.setdefault(f, "unavailable(no such function in %s)" % SRC)
    LAST_STATUS.clear()
    LAST_STATUS.update(status)
    text = """/-
GENERATED by tools/gen/bytebuf.py from %s of /repo (clang's typed AST) - do not edit.
Regenerated on every check run; the obligations "= the hand-written model" are in Ufw/Tie/ByteBuf.lean.
-/
import Ufw.Tie.ByteBufPre
set_option linter.unusedVariables false

namespace Ufw.Gen.ByteBuf
open Ufw Ufw.Model.ByteBuffer Ufw.Tie.ByteBufPre

%s

end Ufw.Gen.ByteBuf
""" % (SRC, "\n\n".join(defs))
    vf.write_if_changed(os.path.join(vf.LEAN, "Ufw/Gen/ByteBuf.lean"), text)
    return status


if __name__ == "__main__":
    for k, v in gen().items():
        print(k, v)
    print(open(os.path.join(vf.LEAN, "Ufw/Gen/ByteBuf.lean")).read())
