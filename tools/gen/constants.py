"""Tie A for the constants the models and specs rely on: regenerate lean/Ufw/Gen/Constants.lean
from /repo on every run.

Header-level constants and enumerators are *evaluated by the C compiler* against /repo's headers
(so macro spelling, BIT(), enum ordering and implicit enumerator values do not matter); file-local
`#define`s of .c files (RAW_EOF ... in rfc1055.c, RP_HEADER_* in register-protocol.c) are copied
into the same program and evaluated there too; the `rds_size[]` table is read by linking
registers/core.c.  The obligations over these definitions live in lean/Ufw/Tie/*.lean and are
re-checked by Lean's kernel whenever a property that depends on them is built."""
import os
import re
import subprocess
import sys
import tempfile

sys.path.insert(0, os.path.join(os.path.dirname(os.path.abspath(__file__)), "..", "lib"))
import vf  # noqa: E402

HEADERS = ["ufw/rfc1055.h", "ufw/variable-length-integer.h", "ufw/register-protocol.h",
           "ufw/register-table.h", "ufw/crc/crc16-arc.h", "ufw/length-prefix.h"]

# evaluated as C integer expressions after including the headers
HEADER_EXPRS = [
    "VARINT_CONTINUATION_MASK", "VARINT_DATA_MASK", "VARINT_DATA_BITS", "VARINT_32BIT_MAX_OCTETS",
    "VARINT_64BIT_MAX_OCTETS",
    "RFC1055_WITH_SOF", "RFC1055_DEFAULT",
    ("RFC1055_WORST_CLASSIC_7", "RFC1055_WORST_CLASSIC(7)"), ("RFC1055_WORST_WITHSOF_7", "RFC1055_WORST_WITHSOF(7)"),
    "RP_IMPLEMENTATION_VERSION", "RP_DEFAULT_BUFFER_SIZE",
    "RP_OPT_WORD_SIZE_16", "RP_OPT_WITH_HEADER_CRC", "RP_OPT_WITH_PAYLOAD_CRC",
    "RP_FRAME_READ_REQUEST", "RP_FRAME_READ_RESPONSE", "RP_FRAME_WRITE_REQUEST", "RP_FRAME_WRITE_RESPONSE", "RP_FRAME_META",
    "RP_RESP_ACK", "RP_RESP_EWORDSIZE", "RP_RESP_EPAYLOADCRC", "RP_RESP_EPAYLOADSIZE", "RP_RESP_ERXOVERFLOW",
    "RP_RESP_ETXOVERFLOW", "RP_RESP_EBUSY", "RP_RESP_EUNMAPPED", "RP_RESP_EACCESS", "RP_RESP_ERANGE",
    "RP_RESP_EINVALID", "RP_RESP_EIO",
    "RP_META_EHEADERENC", "RP_META_EHEADERCRC",
    "REG_TYPE_UINT16", "REG_TYPE_UINT32", "REG_TYPE_UINT64", "REG_TYPE_SINT16", "REG_TYPE_SINT32", "REG_TYPE_SINT64",
    "REG_TYPE_FLOAT32", "REG_TYPE_FLOAT64", "REG_TYPE_INVALID",
    "REG_AF_READABLE", "REG_AF_WRITEABLE", "REG_AF_SKIP_DEFAULTS",
    "REG_TF_INITIALISED", "REG_TF_DURING_INIT", "REG_TF_BIG_ENDIAN", "REG_EF_TOUCHED",
    ("REG_ATOM_BITS", "(8 * sizeof(RegisterAtom))"),
    "CRC16_ARC_INITIAL",
    ("SSIZE_MAX_", "SSIZE_MAX"), ("SIZE_MAX_", "SIZE_MAX"), ("UINT32_MAX_", "UINT32_MAX"),
    ("SIZEOF_RPFRAME", "sizeof(RPFrame)"),
    "LENP_VARIABLE", "LENP_OCTET", "LENP_LE_16BIT", "LENP_LE_32BIT", "LENP_BE_16BIT", "LENP_BE_32BIT",
]

# file-local macros: (source file, names)
LOCAL = [
    ("src/rfc1055.c", ["RAW_EOF", "RAW_ESC", "ESC_EOF", "ESC_ESC"]),
    ("src/register-protocol.c", ["RP_HEADER_SIZE_16", "RP_HEADER_MIN_SIZE_16", "RP_HEADER_SIZE_8", "RP_HEADER_MIN_SIZE_8",
                                 "RP_HEADER_SIZE", "RP_HEADER_MIN_SIZE"]),
]

RDS_TYPES = ["REG_TYPE_UINT16", "REG_TYPE_UINT32", "REG_TYPE_UINT64", "REG_TYPE_SINT16", "REG_TYPE_SINT32",
             "REG_TYPE_SINT64", "REG_TYPE_FLOAT32", "REG_TYPE_FLOAT64", "REG_TYPE_INVALID"]


def strip_comments(s):
    return re.sub(r"/\*.*?\*/", " ", s, flags=re.S)


def local_define(src, name):
    """text of `#define NAME <body>` (one logical line), or None"""
    m = re.search(r"^[ \t]*#[ \t]*define[ \t]+%s[ \t]+((?:[^\n\\]|\\\n)*)$" % re.escape(name), src, re.M)
    return m.group(1).replace("\\\n", " ").strip() if m else None


def gen():
    status = {}
    inc = vf.toolchain_include()
    lines = ["#include <stdio.h>", "#include <stdint.h>", "#include <limits.h>", "#include <sys/types.h>"]
    lines += ["#include <%s>" % h for h in HEADERS]
    locals_found = []
    for path, names in LOCAL:
        src = strip_comments(open(os.path.join(vf.REPO, path)).read())
        for n in names:
            body = local_define(src, n)
            if body is None:
                status[n] = "unavailable(no #define in %s)" % path
                continue
            lines.append("#define %s %s" % (n, body))
            locals_found.append(n)
    lines.append("extern const size_t rds_size[];")
    lines.append("int main(void) {")
    items = []
    for e in HEADER_EXPRS:
        name, expr = (e, e) if isinstance(e, str) else e
        items.append((name, expr))
    for n in locals_found:
        items.append((n, n))
    for t in RDS_TYPES:
        items.append(("RDS_SIZE_" + t[9:], "rds_size[%s]" % t))
    for name, expr in items:
        lines.append('    printf("%s=%%llu\\n", (unsigned long long)(%s));' % (name, expr))
    lines.append("    return 0; }")
    with tempfile.TemporaryDirectory(prefix="ufwconst") as td:
        cfile = os.path.join(td, "c.c")
        open(cfile, "w").write("\n".join(lines) + "\n")
        exe = os.path.join(td, "c")
        cmd = ["gcc", "-std=gnu99", "-DSYSTEM_ENDIANNESS_LITTLE", "-D_DEFAULT_SOURCE", "-DNDEBUG", "-w",
               "-I" + os.path.join(vf.REPO, "include"), "-I" + inc, cfile,
               os.path.join(vf.REPO, "src/registers/core.c"), "-o", exe, "-lm"]
        r = vf.sh(cmd)
        if r.returncode != 0:
            raise RuntimeError("constants program does not compile: " + r.stdout[-600:])
        out = subprocess.run([exe], stdout=subprocess.PIPE, text=True).stdout
    vals = {}
    for l in out.split("\n"):
        if "=" in l:
            k, v = l.split("=")
            vals[k] = int(v)
            status[k] = "translated(%s)" % v
    body = "\n".join("def %s : Nat := %d" % (k, v) for k, v in vals.items())
    text = """/-
GENERATED by tools/gen/constants.py from /repo (headers evaluated by the C compiler, file-local
#defines of src/rfc1055.c and src/register-protocol.c, rds_size[] of src/registers/core.c) - do
not edit.  Regenerated on every check run; the obligations over these definitions are in
Ufw/Tie/*.lean.
-/
namespace Ufw.Gen.Constants

%s

end Ufw.Gen.Constants
""" % body
    vf.write_if_changed(os.path.join(vf.LEAN, "Ufw/Gen/Constants.lean"), text)
    return status


if __name__ == "__main__":
    for k, v in gen().items():
        print(k, v)
