"""
Tie A for loops: a translator from clang's typed AST (-ast-dump=json) of a C file into Lean definitions, for the
scalar-and-buffer code of src/crc-16-arc.c and src/variable-length-integer.c.

Semantics the translation gives (all of it visible in the generated text; the prelude is lean/Ufw/Tie/CPre.lean):

* every C integer is a `BitVec w` of its desugared type's width (8/16/32/64); every operator node is translated in the
  type clang gave it - the integer promotions and usual arithmetic conversions are the `ImplicitCastExpr` nodes of the
  AST and become `zx`/`sx`/truncation.  Signed overflow is not tracked (it wraps, as on the target).
* a pointer parameter is a read-only block `List (BitVec w)` plus an index (`Nat`); `*p`, `p[i]` are `load`s that
  answer `Res.oob` outside the block; `p++` moves the index.  A `const` array at file scope is a `List` literal.
* a statement list is a continuation chain; an `if` without `else` whose branch does not return is continued in
  both branches.  A loop becomes a function by recursion on a fuel argument whose parameters are all scalar
  variables in scope; running out of fuel answers `Res.nofuel`, so a theorem `fuel > bound -> f fuel .. = Res.val ..`
  also says the C loop terminates within the bound.
* calls of functions of the same file are calls of their translations (bound with `Res.bind`).

Anything else (`continue`, `break`, `goto`, `switch`, writes through pointers, structures, floating point, loads on the
right of `&&`/`||`, function pointers ...) makes that function `unavailable(<reason>)`.
"""
import json
import os
import subprocess
import sys

sys.path.insert(0, os.path.join(os.path.dirname(os.path.abspath(__file__)), "..", "lib"))
import vf  # noqa: E402


class Unavailable(Exception):
    pass


INT_TYPES = {
    "unsigned char": (8, False), "signed char": (8, True), "char": (8, True),
    "unsigned short": (16, False), "short": (16, True),
    "unsigned int": (32, False), "int": (32, True),
    "unsigned long": (64, False), "long": (64, True),
    "unsigned long long": (64, False), "long long": (64, True), "_Bool": (8, False),
}


def dq(n):
    t = n.get("type", {})
    return t.get("desugaredQualType", t.get("qualType", ""))


TYPEDEFS = {}


def ctype(q):
    """('int', width, signed) | ('ptr', elem ctype) | ('void',)"""
    q = q.replace("const ", "").replace("volatile ", "").replace(" const", "").strip()
    seen = 0
    while q in TYPEDEFS and seen < 10:
        q = TYPEDEFS[q].replace("const ", "").strip()
        seen += 1
    if q.endswith("*"):
        base = q[:-1].strip()
        if base == "void":
            return ("ptr", ("int", 8, False))
        return ("ptr", ctype(base))
    if q == "void":
        return ("void",)
    if q in INT_TYPES:
        w, s = INT_TYPES[q]
        return ("int", w, s)
    raise Unavailable("type " + q)


def bv(t):
    return "BitVec %d" % t[1]


def parse(src):
    inc = vf.toolchain_include()
    cmd = ["clang-14", "-std=gnu99", "-DSYSTEM_ENDIANNESS_LITTLE", "-D_DEFAULT_SOURCE", "-DNDEBUG",
           "-I" + os.path.join(vf.REPO, "include"), "-I" + inc, "-Xclang", "-ast-dump=json", "-fsyntax-only",
           os.path.join(vf.REPO, src)]
    r = subprocess.run(cmd, stdout=subprocess.PIPE, stderr=subprocess.PIPE, text=True)
    if r.returncode != 0:
        raise RuntimeError("clang cannot parse %s: %s" % (src, r.stderr[-400:]))
    d = json.loads(r.stdout)
    fns, tables = [], {}
    for n in d["inner"]:
        if n.get("kind") == "TypedefDecl":
            t = n.get("type", {})
            TYPEDEFS[n["name"]] = t.get("desugaredQualType", t.get("qualType", ""))
        loc = n.get("loc", {})
        if "includedFrom" in loc or "includedFrom" in loc.get("expansionLoc", {}) or "includedFrom" in loc.get("spellingLoc", {}):
            continue
        if n.get("kind") == "FunctionDecl" and any(c.get("kind") == "CompoundStmt" for c in n.get("inner", [])):
            fns.append(n)
        if n.get("kind") == "VarDecl" and "[" in dq(n) and n.get("inner") and n["inner"][0].get("kind") == "InitListExpr":
            tables[n["name"]] = n
    return fns, tables


def lit_value(e):
    while e.get("kind") in ("ImplicitCastExpr", "ParenExpr", "CStyleCastExpr"):
        e = e["inner"][0]
    if e.get("kind") != "IntegerLiteral":
        raise Unavailable("array initialiser that is not a literal")
    return int(e["value"])


class Fn:
    def __init__(self, node, unit):
        self.node = node
        self.unit = unit
        self.name = node["name"]
        self.body = [c for c in node["inner"] if c.get("kind") == "CompoundStmt"][0]
        q = dq(node)
        self.ret = ctype(q.split("(")[0].strip())
        if self.ret[0] == "ptr":
            raise Unavailable("function returning a pointer")
        self.params = []
        for p in node.get("inner", []):
            if p.get("kind") == "ParmVarDecl":
                self.params.append((p["name"], ctype(dq(p))))
        self.vars = {}          # name -> ctype ; pointers: ('ptr', elem) with self.mem[name] = block name
        self.mem = {}
        self.scope = []         # scalar / pointer-index variables in declaration order
        self.pending = []
        self.tmp = 0
        self.loops = []
        self.nloops = 0
        self.calls = set()
        self.all_types = {}

    # ------------------------------------------------------------------ expressions
    def fresh(self):
        self.tmp += 1
        return "t%d" % self.tmp

    def cast(self, term, frm, to):
        if frm[0] != "int" or to[0] != "int":
            raise Unavailable("cast between %s and %s" % (frm[0], to[0]))
        if frm[1] == to[1]:
            return term
        if to[1] < frm[1]:
            return "(tr %d %s)" % (to[1], term)
        return "(%s %d %s)" % ("sx" if frm[2] else "zx", to[1], term)

    def lvalue_var(self, e):
        while e.get("kind") == "ParenExpr":
            e = e["inner"][0]
        if e.get("kind") == "DeclRefExpr" and e["referencedDecl"]["name"] in self.vars:
            return e["referencedDecl"]["name"]
        return None

    def pointer(self, e):
        """(block, index term, elem type) of a pointer-valued expression"""
        k = e.get("kind")
        if k in ("ParenExpr",):
            return self.pointer(e["inner"][0])
        if k in ("ImplicitCastExpr", "CStyleCastExpr"):
            ck = e.get("castKind")
            if ck in ("LValueToRValue", "NoOp"):
                return self.pointer(e["inner"][0])
            if ck == "BitCast":
                b, i, t = self.pointer(e["inner"][0])
                to = ctype(dq(e))
                if to[0] != "ptr" or to[1] != t:
                    raise Unavailable("pointer cast that changes the element type")
                return b, i, t
            if ck == "ArrayToPointerDecay":
                inner = e["inner"][0]
                if inner.get("kind") == "DeclRefExpr" and inner["referencedDecl"]["name"] in self.unit.tables:
                    name = inner["referencedDecl"]["name"]
                    self.unit.used_tables.add(name)
                    return name, "0", self.unit.table_elem(name)
            raise Unavailable("pointer cast " + str(ck))
        if k == "DeclRefExpr":
            name = e["referencedDecl"]["name"]
            if name in self.mem:
                return self.mem[name], name, self.vars[name][1]
            raise Unavailable("pointer " + name)
        if k == "BinaryOperator" and e["opcode"] in ("+",):
            l, r = e["inner"]
            if ctype(dq(l))[0] == "ptr":
                b, i, t = self.pointer(l)
                return b, "(%s + (%s).toNat)" % (i, self.expr(r)), t
        raise Unavailable("pointer expression " + str(k))

    def load(self, ptr_expr):
        b, i, t = self.pointer(ptr_expr)
        v = self.fresh()
        self.pending.append("load %s %s fun %s =>" % (b, i, v))
        return v, t

    def expr(self, e):
        """Lean term of type BitVec <width of e's C type>"""
        k = e.get("kind")
        if k == "ParenExpr":
            return self.expr(e["inner"][0])
        if k == "IntegerLiteral":
            t = ctype(dq(e))
            return "(%d#%d)" % (int(e["value"]) % (1 << t[1]), t[1])
        if k in ("ImplicitCastExpr", "CStyleCastExpr"):
            ck = e.get("castKind")
            inner = e["inner"][0]
            if ck in ("LValueToRValue", "NoOp"):
                return self.rvalue(inner)
            if ck == "IntegralCast":
                return self.cast(self.expr(inner), ctype(dq(inner)), ctype(dq(e)))
            if ck == "IntegralToBoolean":
                return "(b2bv (%s ≠ 0))" % self.expr(inner)
            raise Unavailable("cast " + str(ck))
        if k == "DeclRefExpr":
            return self.rvalue(e)
        if k == "UnaryOperator":
            op = e["opcode"]
            t = ctype(dq(e))
            if op == "*":
                return self.rvalue(e)
            if op == "~":
                return "(~~~ %s)" % self.expr(e["inner"][0])
            if op == "-":
                return "(- %s)" % self.expr(e["inner"][0])
            if op == "!":
                return "(b2bv32 (¬ %s))" % self.cond(e["inner"][0])
            raise Unavailable("unary %s in an expression" % op)
        if k == "BinaryOperator":
            op = e["opcode"]
            l, r = e["inner"]
            t = ctype(dq(e))
            if t[0] != "int":
                raise Unavailable("operator %s on %s" % (op, t[0]))
            if op in ("+", "-", "*", "&", "|", "^"):
                lo = {"+": "+", "-": "-", "*": "*", "&": "&&&", "|": "|||", "^": "^^^"}[op]
                return "(%s %s %s)" % (self.expr(l), lo, self.expr(r))
            if op == "<<":
                return "(%s <<< (%s).toNat)" % (self.expr(l), self.expr(r))
            if op == ">>":
                if t[2]:
                    return "(BitVec.sshiftRight %s (%s).toNat)" % (self.expr(l), self.expr(r))
                return "(%s >>> (%s).toNat)" % (self.expr(l), self.expr(r))
            if op in ("<", ">", "<=", ">=", "==", "!=", "&&", "||"):
                return "(b2bv32 %s)" % self.cond(e)
            raise Unavailable("operator " + op)
        if k == "ConditionalOperator":
            c, a, b = e["inner"]
            return "(if %s then %s else %s)" % (self.cond(c), self.expr(a), self.expr(b))
        if k == "CallExpr":
            return self.call(e)
        if k == "ArraySubscriptExpr":
            return self.rvalue(e)
        raise Unavailable("expression " + str(k))

    def rvalue(self, e):
        """value of an lvalue expression"""
        k = e.get("kind")
        if k == "ParenExpr":
            return self.rvalue(e["inner"][0])
        if k == "DeclRefExpr":
            name = e["referencedDecl"]["name"]
            if name in self.vars and self.vars[name][0] == "int":
                return name
            raise Unavailable("value of " + name)
        if k == "UnaryOperator" and e["opcode"] == "*":
            v, t = self.load(e["inner"][0])
            return v
        if k == "ArraySubscriptExpr":
            base, idx = e["inner"]
            b, i, t = self.pointer(base)
            v = self.fresh()
            ix = self.expr(idx)
            self.pending.append("load %s (%s + (%s).toNat) fun %s =>" % (b, i, ix, v))
            return v
        return self.expr(e)

    def call(self, e):
        callee = e["inner"][0]
        while callee.get("kind") in ("ImplicitCastExpr", "ParenExpr"):
            callee = callee["inner"][0]
        name = callee.get("referencedDecl", {}).get("name")
        if name not in self.unit.fn_names:
            raise Unavailable("call of " + str(name))
        self.calls.add(name)
        args = []
        for a in e["inner"][1:]:
            t = ctype(dq(a))
            if t[0] == "ptr":
                b, i, et = self.pointer(a)
                args.append("(%s.drop %s)" % (b, i))
            else:
                args.append(self.expr(a))
        v = self.fresh()
        self.pending.append("Res.bind (%s fuel %s) fun %s =>" % (name, " ".join(args), v))
        return v

    def cond(self, e):
        """Lean Prop for e in a boolean context"""
        k = e.get("kind")
        if k == "ParenExpr":
            return self.cond(e["inner"][0])
        if k == "ImplicitCastExpr" and e.get("castKind") in ("IntegralToBoolean",):
            return self.cond(e["inner"][0])
        if k == "UnaryOperator" and e["opcode"] == "!":
            return "(¬ %s)" % self.cond(e["inner"][0])
        if k == "BinaryOperator":
            op = e["opcode"]
            l, r = e["inner"]
            if op in ("&&", "||"):
                a = self.cond(l)
                n = len(self.pending)
                b = self.cond(r)
                if len(self.pending) != n:
                    raise Unavailable("load or call on the right of %s" % op)
                return "(%s %s %s)" % (a, "∧" if op == "&&" else "∨", b)
            if op in ("<", ">", "<=", ">=", "==", "!="):
                t = ctype(dq(l))
                if t[0] != "int":
                    raise Unavailable("comparison of " + t[0])
                if op in ("==", "!="):
                    return "(%s %s %s)" % (self.expr(l), "=" if op == "==" else "≠", self.expr(r))
                proj = "toInt" if t[2] else "toNat"
                lo = {"<": "<", ">": ">", "<=": "≤", ">=": "≥"}[op]
                return "((%s).%s %s (%s).%s)" % (self.expr(l), proj, lo, self.expr(r), proj)
        t = ctype(dq(e))
        if t[0] != "int":
            raise Unavailable("condition of type " + t[0])
        return "(%s ≠ 0)" % self.expr(e)

    # ------------------------------------------------------------------ statements
    def flush(self, pad):
        out = "".join("%s%s\n" % (pad, p) for p in self.pending)
        self.pending = []
        return out

    def assign_text(self, pad, name, term):
        return "%slet %s := %s\n" % (pad, name, term)

    def simple(self, s, pad):
        """statement without control flow -> text (or None when it is not one)"""
        k = s.get("kind")
        if k == "ParenExpr":
            return self.simple(s["inner"][0], pad)
        if k == "NullStmt":
            return ""
        if k == "DeclStmt":
            out = ""
            for v in s["inner"]:
                if v.get("kind") != "VarDecl":
                    raise Unavailable("declaration of " + str(v.get("kind")))
                t = ctype(dq(v))
                init = [c for c in v.get("inner", []) if c.get("kind") not in ("FullComment",)]
                if t[0] == "ptr":
                    if not init:
                        raise Unavailable("pointer without initialiser")
                    b, i, et = self.pointer(init[0])
                    if et != t[1]:
                        raise Unavailable("pointer of another element type")
                    out += self.flush(pad) + "%slet %s : Nat := %s\n" % (pad, v["name"], i)
                    self.declare(v["name"], t, b)
                elif t[0] == "int":
                    if not init:
                        raise Unavailable("variable without initialiser")
                    term = self.expr(init[0])
                    out += self.flush(pad) + "%slet %s : %s := %s\n" % (pad, v["name"], bv(t), term)
                    self.declare(v["name"], t)
                else:
                    raise Unavailable("declaration of type " + t[0])
            return out
        if k == "BinaryOperator" and s["opcode"] == "=":
            name = self.lvalue_var(s["inner"][0])
            if name is None:
                raise Unavailable("assignment to something else than a variable")
            t = self.vars[name]
            if t[0] == "ptr":
                b, i, et = self.pointer(s["inner"][1])
                if b != self.mem[name]:
                    raise Unavailable("pointer moved to another block")
                return self.flush(pad) + self.assign_text(pad, name, i)
            term = self.expr(s["inner"][1])
            return self.flush(pad) + self.assign_text(pad, name, term)
        if k == "CompoundAssignOperator":
            name = self.lvalue_var(s["inner"][0])
            if name is None:
                raise Unavailable("compound assignment to something else than a variable")
            t = self.vars[name]
            op = s["opcode"][:-1]
            rhs = self.expr(s["inner"][1])
            if t[0] == "ptr":
                if op != "+":
                    raise Unavailable("pointer " + s["opcode"])
                return self.flush(pad) + self.assign_text(pad, name, "%s + (%s).toNat" % (name, rhs))
            ct = ctype(s.get("computeResultType", {}).get("desugaredQualType", s.get("computeResultType", {}).get("qualType", dq(s))))
            rt = ctype(dq(s["inner"][1]))
            lhs = self.cast(name, t, ct)
            if op in ("<<", ">>"):
                if op == "<<":
                    val = "(%s <<< (%s).toNat)" % (lhs, rhs)
                elif ct[2]:
                    val = "(BitVec.sshiftRight %s (%s).toNat)" % (lhs, rhs)
                else:
                    val = "(%s >>> (%s).toNat)" % (lhs, rhs)
            elif op in ("+", "-", "*", "&", "|", "^"):
                lo = {"+": "+", "-": "-", "*": "*", "&": "&&&", "|": "|||", "^": "^^^"}[op]
                val = "(%s %s %s)" % (lhs, lo, self.cast(rhs, rt, ct))
            else:
                raise Unavailable("operator " + s["opcode"])
            return self.flush(pad) + self.assign_text(pad, name, self.cast(val, ct, t))
        if k == "UnaryOperator" and s["opcode"] in ("++", "--"):
            name = self.lvalue_var(s["inner"][0])
            if name is None:
                raise Unavailable("++/-- of something else than a variable")
            t = self.vars[name]
            if t[0] == "ptr":
                if s["opcode"] == "--":
                    raise Unavailable("pointer --")
                return self.assign_text(pad, name, "%s + 1" % name)
            return self.assign_text(pad, name, "%s %s 1#%d" % (name, "+" if s["opcode"] == "++" else "-", t[1]))
        if k == "CallExpr":
            self.call(s)
            return self.flush(pad)
        if k in ("ImplicitCastExpr", "CStyleCastExpr") and s.get("castKind") == "ToVoid":
            return self.simple(s["inner"][0], pad)
        return None

    def stmts(self, ss, ind, end):
        """ss: list of statement nodes; end(ind) gives the text for falling off the list"""
        pad = "  " * ind
        if not ss:
            return end(ind)
        s, rest = ss[0], ss[1:]
        k = s.get("kind")
        if k == "CompoundStmt":
            mark = len(self.scope)
            inner = list(s.get("inner", []))

            def after(i2):
                del self.scope[mark:]
                return self.stmts(rest, i2, end)
            return self.stmts(inner, ind, after)
        if k == "ReturnStmt":
            if "inner" not in s:
                return pad + "Res.val ()"
            term = self.expr(s["inner"][0])
            return self.flush(pad) + pad + "Res.val %s" % term
        if k == "IfStmt":
            inner = s["inner"]
            c = self.cond(inner[0])
            pre = self.flush(pad)
            mark = len(self.scope)
            saved = (dict(self.vars), dict(self.mem))

            def cont(i2):
                del self.scope[mark:]
                self.vars, self.mem = dict(saved[0]), dict(saved[1])
                return self.stmts(rest, i2, end)
            a = self.stmts([inner[1]], ind + 1, cont)
            b = self.stmts([inner[2]], ind + 1, cont) if len(inner) > 2 else cont(ind + 1)
            return "%s%sif %s then\n%s\n%selse\n%s" % (pre, pad, c, a, pad, b)
        if k in ("WhileStmt", "ForStmt"):
            if k == "WhileStmt":
                init, cnd, inc, body = None, s["inner"][0], None, s["inner"][1]
            else:
                parts = s["inner"]
                if len(parts) != 5:
                    raise Unavailable("for statement of unexpected shape")
                init, _, cnd, inc, body = parts
            pre = ""
            mark = len(self.scope)
            if init and init.get("kind"):
                t = self.simple(init, pad)
                if t is None:
                    raise Unavailable("for-init " + init.get("kind"))
                pre = t
            self.nloops += 1
            lname = "%s.loop%d" % (self.name, self.nloops)
            params = list(self.scope)
            saved = (dict(self.vars), dict(self.mem))

            def again(i2):
                p2 = "  " * i2
                out = ""
                if inc and inc.get("kind"):
                    t2 = self.simple(inc, p2)
                    if t2 is None:
                        raise Unavailable("for-increment " + inc.get("kind"))
                    out = t2
                return out + "%s%s fuel %s" % (p2, lname, " ".join(params))

            def body_end(i2):
                del self.scope[len(params):]
                return again(i2)

            def leave(i2):
                del self.scope[len(params):]
                self.vars, self.mem = dict(saved[0]), dict(saved[1])
                return self.stmts(rest, i2, end)
            self.forbid_jumps(body)
            if cnd and cnd.get("kind"):
                c = self.cond(cnd)
                cpre = self.flush("    ")
                btxt = self.stmts([body], 3, body_end)
                ltxt = leave(3)
                text = "%s    if %s then\n%s\n    else\n%s" % (cpre, c, btxt, ltxt)
            else:
                text = self.stmts([body], 2, body_end)
                leave(0)       # what follows an endless loop is unreachable; keeps the bookkeeping straight
            self.loops.append((lname, params, text))
            del self.scope[mark:]
            self.vars, self.mem = dict(saved[0]), dict(saved[1])
            return "%s%s%s fuel %s" % (pre, pad, lname, " ".join(params))
        if k in ("ContinueStmt", "BreakStmt", "GotoStmt", "SwitchStmt", "DoStmt", "LabelStmt"):
            raise Unavailable(k)
        t = self.simple(s, pad)
        if t is None:
            raise Unavailable("statement " + str(k))
        return t + self.stmts(rest, ind, end)

    def forbid_jumps(self, n):
        if n.get("kind") in ("ContinueStmt", "BreakStmt", "GotoStmt", "SwitchStmt", "DoStmt"):
            raise Unavailable(n["kind"] + " in a loop")
        for c in n.get("inner", []):
            self.forbid_jumps(c)

    def mem_params(self):
        return [(n, t) for n, t in self.params if t[0] == "ptr"]

    def lean(self):
        sig = ["(fuel : Nat)"]
        lets = []
        for n, t in self.params:
            if t[0] == "ptr":
                if t[1][0] != "int":
                    raise Unavailable("pointer to " + t[1][0])
                sig.append("(%s_mem : List (%s))" % (n, bv(t[1])))
                lets.append("  let %s : Nat := 0\n" % n)
                self.declare(n, t, n + "_mem")
            elif t[0] == "int":
                sig.append("(%s : %s)" % (n, bv(t)))
                self.declare(n, t)
            else:
                raise Unavailable("parameter of type " + t[0])
        rett = "Unit" if self.ret[0] == "void" else bv(self.ret)

        def end(ind):
            if self.ret[0] == "void":
                return "  " * ind + "Res.val ()"
            raise Unavailable("control reaches the end of a non-void function")
        body = self.stmts(list(self.body.get("inner", [])), 1, end)
        out = []
        memsig = " ".join("(%s_mem : List (%s))" % (n, bv(t[1])) for n, t in self.mem_params())
        memargs = " ".join("%s_mem" % n for n, t in self.mem_params())
        for lname, params, text in self.loops:
            # the loop function: recursion on the fuel, parameters = the variables in scope at the loop
            alltypes = dict(self.all_types)
            psig = " → ".join(["Nat"] + [("Nat" if alltypes[p][0] == "ptr" else bv(alltypes[p])) for p in params] + ["Res (%s)" % rett])
            pats = ", ".join(params)
            out.append("def %s %s : %s\n  | 0%s => Res.nofuel\n  | fuel + 1%s =>\n%s" % (
                lname, memsig, psig, "".join(", _" for _ in params), "".join(", " + p for p in params),
                text.replace(lname + " fuel", lname + " " + memargs + " fuel" if memargs else lname + " fuel")))
        body = body
        for lname, params, text in self.loops:
            if memargs:
                body = body.replace(lname + " fuel", lname + " " + memargs + " fuel")
        out.append("def %s %s : Res (%s) :=\n%s%s" % (self.name, " ".join(sig), rett, "".join(lets), body))
        return "\n\n".join(out)

    def declare(self, name, t, block=None):
        self.all_types[name] = t                  # every type ever declared, for the loop signatures
        self.vars[name] = t
        if t[0] == "ptr":
            self.mem[name] = block
        self.scope.append(name)


class Unit:
    """one C file"""
    def __init__(self, src, want):
        self.src = src
        self.want = want
        self.fn_nodes, self.tables = parse(src)
        self.fn_names = {n["name"] for n in self.fn_nodes}
        self.used_tables = set()

    def table_elem(self, name):
        q = dq(self.tables[name])
        return ctype(q[:q.index("[")].strip())

    def table_text(self, name):
        n = self.tables[name]
        vals = [lit_value(c) for c in n["inner"][0]["inner"]]
        t = self.table_elem(name)
        rows = []
        for i in range(0, len(vals), 8):
            rows.append("  " + ", ".join("0x%x#%d" % (v % (1 << t[1]), t[1]) for v in vals[i:i + 8]))
        return "def %s : List (%s) := [\n%s\n]" % (name, bv(t), ",\n".join(rows))

    def translate(self):
        status, texts, calls, order = {}, {}, {}, []
        for node in self.fn_nodes:
            name = node["name"]
            if self.want is not None and name not in self.want:
                continue
            order.append(name)
            try:
                f = Fn(node, self)
                texts[name] = f.lean()
                calls[name] = set(f.calls)
                status[name] = "translated"
            except Unavailable as e:
                status[name] = "unavailable(%s)" % e
            except (KeyError, IndexError, ValueError) as e:
                status[name] = "unavailable(translator: %r)" % (e,)
        changed = True
        while changed:
            changed = False
            for name in order:
                if status[name] == "translated":
                    bad = [c for c in calls[name] if status.get(c) != "translated"]
                    if bad:
                        status[name] = "unavailable(calls %s, which is unavailable)" % bad[0]
                        changed = True
        for w in (self.want or []):
            status.setdefault(w, "unavailable(no such function in %s)" % self.src)
        defs = [self.table_text(t) for t in sorted(self.used_tables)]
        defs += [texts[n] for n in order if status[n] == "translated"]
        return status, defs


def write(module, src, defs):
    text = """/-
GENERATED by tools/gen/cloops.py from %s of /repo (clang's typed AST) - do not edit.
Regenerated on every check run; the obligations "= the hand-written model" are in Ufw/Tie/.
-/
import Ufw.Tie.CPre
set_option linter.unusedVariables false

namespace Ufw.Gen.%s
open Ufw.Tie.CPre

%s

end Ufw.Gen.%s
""" % (src, module, "\n\n".join(defs), module)
    vf.write_if_changed(os.path.join(vf.LEAN, "Ufw/Gen/%s.lean" % module), text)


# ---------------------------------------------------------------------------------------------------------------
# src/crc-16-arc.c
# ---------------------------------------------------------------------------------------------------------------

CRC_SRC = "src/crc-16-arc.c"
CRC_TIE = {
    "crc16_octet": "Ufw.Tie.CrcLoops.Octet", "ufw_crc16_arc": "Ufw.Tie.CrcLoops.Arc", "ufw_buffer_crc16_arc": "Ufw.Tie.CrcLoops.Buffer",
    "ufw_crc16_arc_u16": "Ufw.Tie.CrcLoops.ArcU16", "ufw_buffer_crc16_arc_u16": "Ufw.Tie.CrcLoops.BufferU16",
}
CRC_STATUS = {}


def crc_gen():
    u = Unit(CRC_SRC, list(CRC_TIE))
    status, defs = u.translate()
    write("CrcLoops", CRC_SRC, defs)
    CRC_STATUS.clear()
    CRC_STATUS.update(status)
    return {"cloops:" + k: v for k, v in status.items()}


def crc_tie_modules():
    return [m for f, m in CRC_TIE.items() if CRC_STATUS.get(f) == "translated"]


if __name__ == "__main__":
    for k, v in crc_gen().items():
        print(k, v)
    print(open(os.path.join(vf.LEAN, "Ufw/Gen/CrcLoops.lean")).read()[-6000:])
