"""
Tie A for loops: a translator from clang's typed AST (-ast-dump=json) of a C file into Lean definitions, for the
scalar-and-buffer code of src/crc-16-arc.c and src/variable-length-integer.c.

Semantics the translation gives (all of it visible in the generated text; the prelude is lean/Ufw/Tie/CPre.lean):

* every C integer is a `BitVec w` of its desugared type's width (8/16/32/64); every operator node is translated in the
  type clang gave it - the integer promotions and usual arithmetic conversions are the `ImplicitCastExpr` nodes of the
  AST and become `zx`/`sx`/`tr`.  Signed overflow is not tracked (it wraps, as on the target).
* a pointer parameter is a block `List (BitVec w)` plus an index (`Nat`); `*p`, `p[i]` are `load`s / `store`s that answer
  `Res.oob` outside the block; `p++` moves the index.  A pointer to a union is a block of one cell of the members'
  width (the members alias).  `&x` of a local hands over the one-cell block `[x]`.  A `const` array at file scope is a
  `List` literal.
* a pointer to a structure is the bundle of the fields the function (or a function it calls) uses: scalar fields are
  variables `p_f`, pointer fields are blocks `p_f_mem`.  Two structure pointers are taken not to alias.
* what a function writes (scalar fields, blocks, opaque state such as a `Source`) it returns next to its value:
  `Res (value × written ...)`, in parameter order.
* a statement list is a continuation chain; an `if` whose branch does not return is continued in both branches.  A
  loop becomes a function by recursion on a fuel argument whose parameters are all scalar variables in scope and all
  blocks the function writes; running out of fuel answers `Res.nofuel`, so a theorem `fuel > bound -> f fuel .. =
  Res.val ..` also says the C loop terminates within the bound.
* a local without initialiser takes its value from the oracle parameter `undef` (theorems hold for every oracle).
* calls of functions of the same file are calls of their translations (bound with `Res.bind`); the external
  functions of EXTERNS are calls of their prelude counterparts.

Anything else (`continue`, `break`, `goto`, `switch`, structure locals, arrays on the stack, floating point, loads
on the right of `&&`/`||`, function pointers ...) makes that function `unavailable(<reason>)`.
"""
import json
import os
import subprocess
import sys

sys.path.insert(0, os.path.join(os.path.dirname(os.path.abspath(__file__)), "..", "lib"))
import vf  # noqa: E402


class Unavailable(Exception):
    pass


INT_TYPES = {
    "unsigned char": (8, False), "signed char": (8, True), "char": (8, True),
    "unsigned short": (16, False), "short": (16, True),
    "unsigned int": (32, False), "int": (32, True),
    "unsigned long": (64, False), "long": (64, True),
    "unsigned long long": (64, False), "long long": (64, True), "_Bool": (8, False), "bool": (8, False),
}
TYPEDEFS = {}
RECORDS = {}       # name -> (is_union, [(field, qualType)])
ENUMS = {}         # enumeration constant -> value
OPAQUE = {"ufw_source": "Src", "ufw_sink": "Snk"}      # structures that are only handed on to external functions


def dq(n):
    t = n.get("type", {})
    return t.get("desugaredQualType", t.get("qualType", ""))


# driver callbacks of the endpoints: a call through one of these is a call of the prelude's driver script
FNPTR = {"ByteSource": "drvSrcOctet", "ByteSink": "drvSnkOctet", "ChunkSource": "drvSrcChunk", "ChunkSink": "drvSnkChunk"}
DRV_OF = {"ByteSource": "SrcDrv", "ChunkSource": "SrcDrv", "ByteSink": "SnkDrv", "ChunkSink": "SnkDrv"}
# structure fields that hold a driver's private data
OPAQUE_FIELDS = {("ufw_source", "driver"): "SrcDrv", ("ufw_sink", "driver"): "SnkDrv"}


def ctype(q):
    """('int', width, signed) | ('ptr', elem) | ('void',) | ('rec', name) | ('fnptr', typedef name)"""
    q = q.replace("const ", "").replace("volatile ", "").replace(" const", "").strip()
    if q in FNPTR:
        return ("fnptr", q)
    seen = 0
    while q in TYPEDEFS and seen < 10:
        q = TYPEDEFS[q].replace("const ", "").strip()
        seen += 1
    if q.endswith("*"):
        base = q[:-1].strip()
        if base == "void":
            return ("ptr", ("int", 8, False))
        return ("ptr", ctype(base))
    if q == "void":
        return ("void",)
    if q in INT_TYPES:
        w, s = INT_TYPES[q]
        return ("int", w, s)
    if q.startswith("enum "):
        return ("int", 32, False)
    if q.startswith("struct ") or q.startswith("union "):
        name = q.split(" ", 1)[1]
        if name in RECORDS:
            return ("rec", name)
    raise Unavailable("type " + q)


def union_cell(name):
    """a union whose members are integers of one width is one cell of that width"""
    is_union, fields = RECORDS[name]
    ts = [ctype(q) for _, q in fields]
    if not is_union or any(t[0] != "int" for t in ts) or len({t[1] for t in ts}) != 1:
        raise Unavailable("record " + name)
    return ("int", ts[0][1], False)


def bv(t):
    return "BitVec %d" % t[1]


def parse(src, keep=False):
    """keep: add to the declarations of the files parsed before (a unit that also translates callees from another file)"""
    inc = vf.toolchain_include()
    cmd = ["clang-14", "-std=gnu99", "-DSYSTEM_ENDIANNESS_LITTLE", "-D_DEFAULT_SOURCE", "-DNDEBUG",
           "-I" + os.path.join(vf.REPO, "include"), "-I" + inc, "-Xclang", "-ast-dump=json", "-fsyntax-only",
           os.path.join(vf.REPO, src)]
    r = subprocess.run(cmd, stdout=subprocess.PIPE, stderr=subprocess.PIPE, text=True)
    if r.returncode != 0:
        raise RuntimeError("clang cannot parse %s: %s" % (src, r.stderr[-400:]))
    d = json.loads(r.stdout)
    fns, tables = [], {}
    if not keep:
        TYPEDEFS.clear()
        RECORDS.clear()
        ENUMS.clear()

    def record(n, name):
        fields = [(f["name"], dq(f)) for f in n.get("inner", []) if f.get("kind") == "FieldDecl"]
        RECORDS[name] = (n.get("tagUsed") == "union", fields)
        # a record without a name, defined inside: the field(s) behind it name its type "struct X::(unnamed at ...)"
        pending = None
        for c in n.get("inner", []):
            if c.get("kind") == "RecordDecl" and c.get("completeDefinition"):
                if c.get("name"):
                    record(c, c["name"])
                else:
                    pending = c
            elif c.get("kind") == "FieldDecl" and pending is not None:
                q = dq(c).replace("const ", "").strip()
                if q.startswith("struct ") or q.startswith("union "):
                    record(pending, q.split(" ", 1)[1])
                pending = None

    def enums(n):
        if n.get("kind") == "EnumDecl":
            val = -1
            for c in n.get("inner", []):
                if c.get("kind") == "EnumConstantDecl":
                    v = None
                    for x in c.get("inner", []):
                        try:
                            v = const_value(x)
                        except Unavailable:
                            pass
                    val = v if v is not None else val + 1
                    ENUMS[c["name"]] = val
        elif n.get("kind") == "RecordDecl":
            for c in n.get("inner", []):
                enums(c)

    for n in d["inner"]:
        if n.get("kind") == "TypedefDecl":
            t = n.get("type", {})
            TYPEDEFS[n["name"]] = t.get("desugaredQualType", t.get("qualType", ""))
        if n.get("kind") == "RecordDecl" and n.get("name") and n.get("completeDefinition"):
            record(n, n["name"])
        enums(n)
        loc = n.get("loc", {})
        if "includedFrom" in loc or "includedFrom" in loc.get("expansionLoc", {}) or "includedFrom" in loc.get("spellingLoc", {}):
            continue
        if n.get("kind") == "FunctionDecl" and any(c.get("kind") == "CompoundStmt" for c in n.get("inner", [])):
            fns.append(n)
        if n.get("kind") == "VarDecl" and "[" in dq(n) and n.get("inner") and n["inner"][0].get("kind") == "InitListExpr":
            tables[n["name"]] = n
    return fns, tables


FLOAT_SIZES = {"float": 4, "double": 8}


def lit_value(e):
    """value of an array initialiser: a literal, or an integer constant expression over literals and sizeof(type)"""
    while e.get("kind") in ("ImplicitCastExpr", "ParenExpr", "CStyleCastExpr", "ConstantExpr") and "value" not in e:
        e = e["inner"][0]
    k = e.get("kind")
    if k == "IntegerLiteral" or (k == "ConstantExpr" and "value" in e):
        return int(e["value"])
    if k == "ImplicitValueInitExpr":
        return 0                          # an index the designated initialisers leave out
    if k == "UnaryExprOrTypeTraitExpr" and e.get("name") == "sizeof" and "argType" in e:
        q = e["argType"].get("desugaredQualType", e["argType"].get("qualType", "")).replace("const ", "").strip()
        if q in FLOAT_SIZES:
            return FLOAT_SIZES[q]
        t = ctype(q)
        if t[0] == "int":
            return t[1] // 8
        raise Unavailable("sizeof " + q)
    if k == "BinaryOperator" and e.get("opcode") in ("+", "-", "*", "/"):
        a, b = lit_value(e["inner"][0]), lit_value(e["inner"][1])
        if e["opcode"] == "/":
            if b == 0:
                raise Unavailable("division by zero in an initialiser")
            return a // b
        return {"+": a + b, "-": a - b, "*": a * b}[e["opcode"]]
    raise Unavailable("array initialiser that is not a constant")


def const_value(e):
    """value of an integer constant expression made of literals and enumeration constants"""
    while e.get("kind") in ("ConstantExpr", "ImplicitCastExpr", "ParenExpr", "CStyleCastExpr") and "value" not in e:
        e = e["inner"][0]
    if "value" in e:
        return int(e["value"])
    if e.get("kind") == "DeclRefExpr" and e.get("referencedDecl", {}).get("name") in ENUMS:
        return ENUMS[e["referencedDecl"]["name"]]
    raise Unavailable("case label that is not a constant")


class Iface:
    """what a caller has to know about a translated (or external) function"""
    def __init__(self, name, ret, comps, needs_undef, needs_fuel=True):
        self.name, self.ret, self.comps, self.needs_undef, self.needs_fuel = name, ret, comps, needs_undef, needs_fuel
        # comps: one per C parameter:
        #   ('int', t) | ('block', elem, written) | ('struct', rec, [(field, ('int', t, written) | ('blk', elem, written))]) | ('opaque', leantype)


# external functions: prelude counterparts (lean/Ufw/Tie/CPre.lean)
EXTERNS = {
    # int source_get_octet(Source *source, void *data)
    "source_get_octet": Iface("source_get_octet", ("int", 32, True), [("opaque", "Src"), ("block", ("int", 8, False), True)], False, needs_fuel=False),
    # int sink_put_octet(Sink *sink, unsigned char data)
    "sink_put_octet": Iface("sink_put_octet", ("int", 32, True), [("opaque", "Snk"), ("int", ("int", 8, False))], False, needs_fuel=False),
    # ssize_t sink_put_chunk(Sink *sink, const void *buf, size_t n)
    "drvSrcOctet": Iface("drvSrcOctet", ("int", 32, True), [("opaque", "SrcDrv"), ("block", ("int", 8, False), True)], False, needs_fuel=False),
    "drvSnkOctet": Iface("drvSnkOctet", ("int", 32, True), [("opaque", "SnkDrv"), ("int", ("int", 8, False))], False, needs_fuel=False),
    "drvSrcChunk": Iface("drvSrcChunk", ("int", 64, True), [("opaque", "SrcDrv"), ("block", ("int", 8, False), True), ("int", ("int", 64, False))], False, needs_fuel=False),
    "drvSnkChunk": Iface("drvSnkChunk", ("int", 64, True), [("opaque", "SnkDrv"), ("block", ("int", 8, False), False), ("int", ("int", 64, False))], False, needs_fuel=False),
    "sink_put_chunk": Iface("sink_put_chunk", ("int", 64, True), [("opaque", "Snk"), ("block", ("int", 8, False), False), ("int", ("int", 64, False))], False, needs_fuel=False),
}


class Fn:
    def __init__(self, node, unit, known=None):
        self.node = node
        self.unit = unit
        self.name = node["name"]
        self.body = [c for c in node["inner"] if c.get("kind") == "CompoundStmt"][0]
        q = dq(node)
        self.ret = ctype(q.split("(")[0].strip())
        if self.ret[0] not in ("int", "void"):
            raise Unavailable("function returning " + self.ret[0])
        self.cparams = []
        for p in node.get("inner", []):
            if p.get("kind") == "ParmVarDecl":
                qt = p.get("type", {}).get("qualType", "").replace("const ", "").strip()
                self.cparams.append((p.get("name", "_"), ("fnptr", qt) if qt in FNPTR else ctype(dq(p))))
        self.known = known          # result of the first pass: {'fields': {p: [f..]}, 'written': set(), 'undef': bool}
        self.vars = {}              # scalar / pointer variables: name -> ('int', w, s) | ('ptr', elem)
        self.mem = {}               # pointer variable -> block it points into
        self.blocks = {}            # block (Lean name) -> elem type
        self.structs = {}           # struct pointer parameter -> record name
        self.opaques = {}           # opaque parameter -> Lean type
        self.fieldvar = {}          # (p, field) -> ('var', leanname, t) | ('blk', blockname, elem)
        self.scope = []
        self.all_types = {}
        self.pending = []
        self.tmp = 0
        self.loops = []
        self.nloops = 0
        self.calls = set()
        self.used_fields = {}       # p -> set(field)
        self.written = set()        # Lean names of blocks / field variables / opaque parameters that are assigned
        self.uses_undef = False
        self.nundef = 0
        self.break_stack = []
        self.continue_stack = []
        self.fnptrs = {}            # function pointer parameter -> typedef name

    # ------------------------------------------------------------------ bookkeeping
    def fresh(self):
        self.tmp += 1
        return "t%d" % self.tmp

    def declare(self, name, t, block=None):
        self.all_types[name] = t
        self.vars[name] = t
        if t[0] == "ptr":
            self.mem[name] = block
        self.scope.append(name)

    def undef(self, t):
        self.uses_undef = True
        self.nundef += 1
        return "(tr %d (undef %d))" % (t[1], self.nundef - 1)

    def wblocks(self):
        """blocks the function writes (known from the first pass), in declaration order"""
        w = self.known["written"] if self.known else set()
        return [b for b in self.blocks if b in w]

    def field(self, p, f):
        self.used_fields.setdefault(p, set()).add(f)
        if (p, f) not in self.fieldvar:
            raise Unavailable("field %s->%s" % (p, f))
        return self.fieldvar[(p, f)]

    # ------------------------------------------------------------------ lvalues, pointers
    def strip_paren(self, e):
        while e.get("kind") == "ParenExpr":
            e = e["inner"][0]
        return e

    def lvalue(self, e):
        """('var', name, t) | ('mem', block, index term, t) | ('ptr', name)"""
        e = self.strip_paren(e)
        k = e.get("kind")
        if k == "DeclRefExpr":
            name = e["referencedDecl"]["name"]
            if name in self.vars:
                t = self.vars[name]
                return ("ptr", name) if t[0] == "ptr" else ("var", name, t)
            raise Unavailable("variable " + name)
        if k == "UnaryOperator" and e["opcode"] == "*":
            b, i, t = self.pointer(e["inner"][0])
            return ("mem", b, i, t)
        if k == "ArraySubscriptExpr":
            base, idx = e["inner"]
            b, i, t = self.pointer(base)
            return ("mem", b, "(%s + (%s).toNat)" % (i, self.expr(idx)), t)
        if k == "MemberExpr":
            base = e["inner"][0]
            sp = self.struct_path(e)
            if sp is not None:
                fv = self.field(sp[0], sp[1])
                if fv[0] == "var":
                    return ("var", fv[1], fv[2])
                raise Unavailable("pointer field used as a value")
            if e.get("isArrow"):
                b, i, t = self.pointer(base)        # pointer to a union: one cell
                return ("mem", b, i, t)
            root = self.strip_paren(base)
            if root.get("kind") == "DeclRefExpr" and root["referencedDecl"]["name"] in self.vars:
                name = root["referencedDecl"]["name"]
                if self.vars[name][0] == "int":
                    return ("var", name, self.vars[name])      # member of a local union: the cell itself
        raise Unavailable("lvalue " + str(k))

    def struct_root(self, e):
        cur = e
        while cur.get("kind") == "MemberExpr":
            if cur.get("isArrow"):
                root = cur["inner"][0]
                while root.get("kind") in ("ImplicitCastExpr", "ParenExpr"):
                    root = root["inner"][0]
                if root.get("kind") == "DeclRefExpr" and root["referencedDecl"]["name"] in self.structs:
                    return root["referencedDecl"]["name"]
                return None
            cur = self.strip_paren(cur["inner"][0])
        return None

    def struct_path(self, e):
        """(parameter, 'a.b.c') when e is p->a.b.c for a structure pointer parameter p (members of unions inside alias)"""
        names = []
        cur = e
        while cur.get("kind") == "MemberExpr":
            names.append(cur["name"])
            if cur.get("isArrow"):
                root = cur["inner"][0]
                while root.get("kind") in ("ImplicitCastExpr", "ParenExpr"):
                    root = root["inner"][0]
                if root.get("kind") == "DeclRefExpr" and root["referencedDecl"]["name"] in self.structs:
                    p = root["referencedDecl"]["name"]
                    path = list(reversed(names))
                    # cut the path at the first union: its members are one cell
                    key = self.fieldkey(p, path)
                    return (p, key)
                return None
            cur = self.strip_paren(cur["inner"][0])
        return None

    def fieldkey(self, p, path):
        rec = self.structs[p]
        out = []
        for name in path:
            out.append(name)
            ft = None
            for f, fq in RECORDS[rec][1]:
                if f == name:
                    try:
                        ft = ctype(fq)
                    except Unavailable:
                        ft = None
            if ft is None or ft[0] != "rec":
                break
            if RECORDS[ft[1]][0]:
                break               # a union: stop here, whatever member follows
            rec = ft[1]
        return ".".join(out)

    def pointer(self, e):
        """(block, index term, elem type) of a pointer-valued expression"""
        k = e.get("kind")
        if k == "ParenExpr":
            return self.pointer(e["inner"][0])
        if k in ("ImplicitCastExpr", "CStyleCastExpr"):
            ck = e.get("castKind")
            if ck in ("LValueToRValue", "NoOp"):
                return self.pointer(e["inner"][0])
            if ck == "BitCast":
                b, i, t = self.pointer(e["inner"][0])
                if self.elem_of_pointer_type(dq(e)) != t:
                    raise Unavailable("pointer cast that changes the element type")
                return b, i, t
            if ck == "ArrayToPointerDecay":
                inner = e["inner"][0]
                if inner.get("kind") == "DeclRefExpr" and inner["referencedDecl"]["name"] in self.unit.tables:
                    name = inner["referencedDecl"]["name"]
                    self.unit.used_tables.add(name)
                    return name, "0", self.unit.table_elem(name)
            raise Unavailable("pointer cast " + str(ck))
        if k == "DeclRefExpr":
            name = e["referencedDecl"]["name"]
            if name in self.mem:
                return self.mem[name], name, self.vars[name][1]
            raise Unavailable("pointer " + name)
        if k == "MemberExpr":
            sp = self.struct_path(e)
            if sp is not None:
                fv = self.field(sp[0], sp[1])
                if fv[0] == "blk":
                    return fv[1], "0", fv[2]
            raise Unavailable("pointer member")
        if k == "BinaryOperator" and e["opcode"] == "+":
            l, r = e["inner"]
            if ctype(dq(l))[0] == "ptr":
                b, i, t = self.pointer(l)
                return b, "(%s + (%s).toNat)" % (i, self.expr(r)), t
        if k == "BinaryOperator" and e["opcode"] == "-":
            l, r = e["inner"]
            if ctype(dq(l))[0] == "ptr" and ctype(dq(r))[0] == "int":
                b, i, t = self.pointer(l)
                return b, "(%s - (%s).toNat)" % (i, self.expr(r)), t
        if k == "UnaryOperator" and e["opcode"] == "&":
            raise Unavailable("address of a variable outside a call")
        raise Unavailable("pointer expression " + str(k))

    def elem_of_pointer_type(self, q):
        t = ctype(q)
        if t[0] != "ptr":
            raise Unavailable("not a pointer: " + q)
        if t[1][0] == "rec":
            return union_cell(t[1][1])
        if t[1][0] != "int":
            raise Unavailable("pointer to " + t[1][0])
        return t[1]

    # ------------------------------------------------------------------ expressions
    def cast(self, term, frm, to):
        if frm[0] != "int" or to[0] != "int":
            raise Unavailable("cast between %s and %s" % (frm[0], to[0]))
        if frm[1] == to[1]:
            return term
        if to[1] < frm[1]:
            return "(tr %d %s)" % (to[1], term)
        return "(%s %d %s)" % ("sx" if frm[2] else "zx", to[1], term)

    def read(self, lv):
        if lv[0] == "var":
            return lv[1]
        if lv[0] == "mem":
            v = self.fresh()
            self.pending.append("load %s %s fun %s =>" % (lv[1], lv[2], v))
            return v
        raise Unavailable("value of a pointer in an integer expression")

    def expr(self, e):
        """Lean term of type BitVec <width of e's C type>"""
        k = e.get("kind")
        if k == "ParenExpr":
            return self.expr(e["inner"][0])
        if k in ("IntegerLiteral", "CharacterLiteral"):      # 'a' has type int in C; clang gives its value
            t = ctype(dq(e))
            return "(%d#%d)" % (int(e["value"]) % (1 << t[1]), t[1])
        if k in ("ImplicitCastExpr", "CStyleCastExpr"):
            ck = e.get("castKind")
            inner = e["inner"][0]
            if ck in ("LValueToRValue", "NoOp"):
                return self.read(self.lvalue(inner)) if self.is_lvalue(inner) else self.expr(inner)
            if ck == "IntegralCast":
                return self.cast(self.expr(inner), ctype(dq(inner)), ctype(dq(e)))
            if ck == "IntegralToBoolean":
                return "(b2bv8 (%s ≠ 0))" % self.expr(inner)
            raise Unavailable("cast " + str(ck))
        if k == "DeclRefExpr" and e.get("referencedDecl", {}).get("kind") == "EnumConstantDecl":
            t = ctype(dq(e))
            name = e["referencedDecl"]["name"]
            if name not in ENUMS:
                raise Unavailable("enumeration constant " + name)
            return "(%d#%d)" % (ENUMS[name] % (1 << t[1]), t[1])
        if k == "ConstantExpr":
            return self.expr(e["inner"][0])
        if k == "UnaryExprOrTypeTraitExpr":
            if e.get("name") != "sizeof":
                raise Unavailable(e.get("name", "type trait"))
            at = e.get("argType") or (e["inner"][0].get("type") if e.get("inner") else None)
            if not at:
                raise Unavailable("sizeof")
            t = ctype(dq(e))
            return "(%d#%d)" % (self.sizeof(at.get("desugaredQualType", at.get("qualType", ""))), t[1])
        if self.is_lvalue(e):
            return self.read(self.lvalue(e))
        if k == "UnaryOperator":
            op = e["opcode"]
            if op == "~":
                return "(~~~ %s)" % self.expr(e["inner"][0])
            if op == "-":
                return "(- %s)" % self.expr(e["inner"][0])
            if op == "!":
                return "(b2bv32 (¬ %s))" % self.cond(e["inner"][0])
            raise Unavailable("unary %s in an expression" % op)
        if k == "BinaryOperator":
            op = e["opcode"]
            l, r = e["inner"]
            t = ctype(dq(e))
            if t[0] != "int":
                raise Unavailable("operator %s on %s" % (op, t[0]))
            if op == "-" and ctype(dq(l))[0] == "ptr" and ctype(dq(r))[0] == "ptr":
                b1, i1, t1 = self.pointer(l)
                b2, i2, t2 = self.pointer(r)
                if b1 != b2:
                    raise Unavailable("difference of pointers into different blocks")
                return "(ptrdiff %d %s %s)" % (t[1], i1, i2)
            if op in ("+", "-", "*", "&", "|", "^", "<<", ">>", "/", "%"):
                return self.binop(op, t, self.expr(l), self.expr(r))
            if op in ("<", ">", "<=", ">=", "==", "!=", "&&", "||"):
                return "(b2bv32 %s)" % self.cond(e)
            raise Unavailable("operator " + op)
        if k == "ConditionalOperator":
            c, a, b = e["inner"]
            cc = self.cond(c)
            n0 = len(self.pending)
            ta, tb = self.expr(a), self.expr(b)
            if len(self.pending) != n0:
                raise Unavailable("load or call inside ?:")
            return "(if %s then %s else %s)" % (cc, ta, tb)
        if k == "CallExpr":
            v = self.call(e)
            if v is None:
                raise Unavailable("value of a void call")
            return v
        raise Unavailable("expression " + str(k))

    def sizeof(self, q):
        q = q.replace("const ", "").strip()
        if q.endswith("]"):
            base, n = q[:q.rindex("[")].strip(), int(q[q.rindex("[") + 1:-1])
            return n * self.sizeof(base)
        t = ctype(q)
        if t[0] == "int":
            return t[1] // 8
        if t[0] == "ptr":
            return 8
        raise Unavailable("sizeof " + q)

    def is_lvalue(self, e):
        e = self.strip_paren(e)
        k = e.get("kind")
        if k == "DeclRefExpr" and e.get("referencedDecl", {}).get("kind") == "EnumConstantDecl":
            return False
        return k in ("DeclRefExpr", "ArraySubscriptExpr", "MemberExpr") or (k == "UnaryOperator" and e.get("opcode") == "*")

    def cond(self, e):
        """Lean Prop for e in a boolean context"""
        k = e.get("kind")
        if k == "ParenExpr":
            return self.cond(e["inner"][0])
        if k == "ImplicitCastExpr" and e.get("castKind") in ("IntegralToBoolean",):
            return self.cond(e["inner"][0])
        if k == "UnaryOperator" and e["opcode"] == "!":
            return "(¬ %s)" % self.cond(e["inner"][0])
        if k == "BinaryOperator":
            op = e["opcode"]
            l, r = e["inner"]
            if op in ("&&", "||"):
                a = self.cond(l)
                n = len(self.pending)
                b = self.cond(r)
                if len(self.pending) != n:
                    raise Unavailable("load or call on the right of %s" % op)
                return "(%s %s %s)" % (a, "∧" if op == "&&" else "∨", b)
            if op in ("<", ">", "<=", ">=", "==", "!="):
                t = ctype(dq(l))
                if t[0] != "int":
                    raise Unavailable("comparison of " + t[0])
                if op in ("==", "!="):
                    return "(%s %s %s)" % (self.expr(l), "=" if op == "==" else "≠", self.expr(r))
                proj = "toInt" if t[2] else "toNat"
                lo = {"<": "<", ">": ">", "<=": "≤", ">=": "≥"}[op]
                return "((%s).%s %s (%s).%s)" % (self.expr(l), proj, lo, self.expr(r), proj)
        t = ctype(dq(e))
        if t[0] != "int":
            raise Unavailable("condition of type " + t[0])
        return "(%s ≠ 0)" % self.expr(e)

    # ------------------------------------------------------------------ calls
    def call(self, e):
        callee = e["inner"][0]
        while callee.get("kind") in ("ImplicitCastExpr", "ParenExpr"):
            callee = callee["inner"][0]
        name = callee.get("referencedDecl", {}).get("name")
        if callee.get("kind") == "DeclRefExpr" and name in self.fnptrs:
            name = FNPTR[self.fnptrs[name]]                       # a call through a driver callback handed in
        elif callee.get("kind") == "MemberExpr":
            ft = callee.get("type", {}).get("qualType", "").replace("const ", "").strip()
            if ft not in FNPTR or self.struct_root(callee) is None:
                raise Unavailable("call through " + ft)
            name = FNPTR[ft]                                      # a call through a callback stored in an endpoint
        if name in self.unit.ifaces:
            iface = self.unit.ifaces[name]
            self.calls.add(name)
        elif name in EXTERNS:
            iface = EXTERNS[name]
        else:
            raise Unavailable("call of " + str(name))
        if iface.needs_undef:
            self.uses_undef = True
        args, rebind = [], []
        actual = e["inner"][1:]
        if len(actual) != len(iface.comps):
            raise Unavailable("call of %s with %d arguments" % (name, len(actual)))
        for a, c in zip(actual, iface.comps):
            if c[0] == "fnptr":
                at = a.get("type", {}).get("qualType", "").replace("const ", "").strip()
                if at != c[1]:
                    raise Unavailable("callback of another kind")
                continue                                           # the callback itself is the prelude's driver: no argument
            if c[0] == "int":
                args.append(self.expr(a))
            elif c[0] == "block":
                s = a
                while s.get("kind") in ("ImplicitCastExpr", "ParenExpr", "CStyleCastExpr") and s.get("castKind") in (None, "BitCast", "NoOp"):
                    s = s["inner"][0]
                if s.get("kind") == "UnaryOperator" and s.get("opcode") == "&":
                    lv = self.lvalue(s["inner"][0])
                    if lv[0] != "var":
                        raise Unavailable("address of something else than a variable")
                    if lv[2][1] != c[1][1]:
                        raise Unavailable("address of a variable of another width")
                    args.append("[%s]" % lv[1])
                    if c[2]:
                        rebind.append(lambda o, n=lv[1]: "let %s := cellOf %s %s" % (n, o, n))
                        if lv[1] in self.fieldnames():
                            self.written.add(lv[1])
                else:
                    b, i, t = self.pointer(a)
                    if t[1] != c[1][1]:
                        raise Unavailable("block of another element width")
                    args.append("(%s.drop %s)" % (b, i))
                    if c[2]:
                        self.written.add(b)
                        rebind.append(lambda o, b=b, i=i: "let %s := splice %s %s %s" % (b, b, i, o))
            elif c[0] == "struct":
                root = a
                while root.get("kind") in ("ImplicitCastExpr", "ParenExpr"):
                    root = root["inner"][0]
                if root.get("kind") != "DeclRefExpr" or root["referencedDecl"]["name"] not in self.structs:
                    raise Unavailable("structure argument that is not a parameter")
                p = root["referencedDecl"]["name"]
                if self.structs[p] != c[1]:
                    raise Unavailable("structure of another type")
                for f, kd in c[2]:
                    fv = self.field(p, f)
                    args.append(fv[1])
                    if kd[2]:
                        self.written.add(fv[1])
                        rebind.append(lambda o, n=fv[1]: "let %s := %s" % (n, o))
            elif c[0] == "opaque":
                root = a
                while root.get("kind") in ("ImplicitCastExpr", "ParenExpr"):
                    root = root["inner"][0]
                if root.get("kind") == "MemberExpr" and self.struct_path(root) is not None:
                    sp = self.struct_path(root)
                    fv = self.field(sp[0], sp[1])
                    if fv[0] != "opq":
                        raise Unavailable("opaque argument that is not driver data")
                    p = fv[1]
                elif root.get("kind") == "DeclRefExpr" and root["referencedDecl"]["name"] in self.opaques:
                    p = root["referencedDecl"]["name"]
                else:
                    raise Unavailable("opaque argument that is not a parameter")
                if self.opaques[p] != c[1]:
                    raise Unavailable("driver data of another kind")
                args.append(p)
                self.written.add(p)
                rebind.append(lambda o, n=p: "let %s := %s" % (n, o))
        v = self.fresh() if iface.ret[0] != "void" else "_"
        outs = [self.fresh() for _ in rebind]
        pat = v if not outs else "(%s)" % ", ".join([v] + outs)
        head = "%s%s%s %s" % (name, " fuel" if iface.needs_fuel else "", " undef" if iface.needs_undef else "", " ".join(args))
        self.pending.append("Res.bind (%s) fun %s =>" % (head.strip(), pat))
        for o, rb in zip(outs, rebind):
            self.pending.append(rb(o))
        return v if iface.ret[0] != "void" else None

    def fieldnames(self):
        return {fv[1] for fv in self.fieldvar.values()}

    # ------------------------------------------------------------------ statements
    def flush(self, pad):
        out = "".join("%s%s\n" % (pad, p) for p in self.pending)
        self.pending = []
        return out

    def assign(self, pad, lv, term):
        if lv[0] == "var":
            if lv[1] in self.fieldnames():
                self.written.add(lv[1])
            return self.flush(pad) + "%slet %s := %s\n" % (pad, lv[1], term)
        if lv[0] == "mem":
            self.written.add(lv[1])
            return self.flush(pad) + "%sstore %s %s %s fun %s =>\n" % (pad, lv[1], lv[2], term, lv[1])
        raise Unavailable("assignment to a pointer")

    def binop(self, op, ct, lhs, rhs):
        if op == "<<":
            return "(%s <<< (%s).toNat)" % (lhs, rhs)
        if op == ">>":
            if ct[2]:
                return "(BitVec.sshiftRight %s (%s).toNat)" % (lhs, rhs)
            return "(%s >>> (%s).toNat)" % (lhs, rhs)
        if op in ("+", "-", "*", "&", "|", "^"):
            lo = {"+": "+", "-": "-", "*": "*", "&": "&&&", "|": "|||", "^": "^^^"}[op]
            return "(%s %s %s)" % (lhs, lo, rhs)
        if op in ("/", "%"):
            if ct[2]:
                return "(BitVec.%s %s %s)" % ("sdiv" if op == "/" else "srem", lhs, rhs)
            return "(%s %s %s)" % (lhs, op, rhs)
        raise Unavailable("operator " + op)

    def simple(self, s, pad):
        """statement without control flow -> text (or None when it is not one)"""
        k = s.get("kind")
        if k == "ParenExpr":
            return self.simple(s["inner"][0], pad)
        if k == "NullStmt":
            return ""
        if k == "DeclStmt":
            out = ""
            for v in s["inner"]:
                if v.get("kind") != "VarDecl":
                    raise Unavailable("declaration of " + str(v.get("kind")))
                t = ctype(dq(v))
                init = [c for c in v.get("inner", []) if c.get("kind") not in ("FullComment",)]
                if t[0] == "ptr":
                    if not init:
                        raise Unavailable("pointer without initialiser")
                    b, i, et = self.pointer(init[0])
                    if et != self.elem_of_pointer_type(dq(v)):
                        raise Unavailable("pointer of another element type")
                    out += self.flush(pad) + "%slet %s : Nat := %s\n" % (pad, v["name"], i)
                    self.declare(v["name"], ("ptr", et), b)
                elif t[0] == "int" or t[0] == "rec":
                    if t[0] == "rec":
                        t = union_cell(t[1])
                    term = self.expr(init[0]) if init else self.undef(t)
                    out += self.flush(pad) + "%slet %s : %s := %s\n" % (pad, v["name"], bv(t), term)
                    self.declare(v["name"], t)
                else:
                    raise Unavailable("declaration of type " + t[0])
            return out
        if k == "BinaryOperator" and s["opcode"] == "=":
            lv = self.lvalue(s["inner"][0])
            if lv[0] == "ptr":
                b, i, et = self.pointer(s["inner"][1])
                if b != self.mem[lv[1]]:
                    raise Unavailable("pointer moved to another block")
                return self.flush(pad) + "%slet %s := %s\n" % (pad, lv[1], i)
            term = self.expr(s["inner"][1])
            return self.assign(pad, lv, term)
        if k == "CompoundAssignOperator":
            lv = self.lvalue(s["inner"][0])
            op = s["opcode"][:-1]
            rhs = self.expr(s["inner"][1])
            if lv[0] == "ptr":
                if op != "+":
                    raise Unavailable("pointer " + s["opcode"])
                return self.flush(pad) + "%slet %s := %s + (%s).toNat\n" % (pad, lv[1], lv[1], rhs)
            t = lv[2] if lv[0] == "var" else lv[3]
            crt = s.get("computeResultType", {})
            ct = ctype(crt.get("desugaredQualType", crt.get("qualType", dq(s))))
            rt = ctype(dq(s["inner"][1]))
            lhs = self.cast(self.read(lv), t, ct)
            val = self.binop(op, ct, lhs, rhs if op in ("<<", ">>") else self.cast(rhs, rt, ct))     # incl. /= and %=
            return self.assign(pad, lv, self.cast(val, ct, t))
        if k == "UnaryOperator" and s["opcode"] in ("++", "--"):
            lv = self.lvalue(s["inner"][0])
            if lv[0] == "ptr":
                if s["opcode"] == "--":
                    raise Unavailable("pointer --")
                return "%slet %s := %s + 1\n" % (pad, lv[1], lv[1])
            t = lv[2] if lv[0] == "var" else lv[3]
            return self.assign(pad, lv, "%s %s 1#%d" % (self.read(lv), "+" if s["opcode"] == "++" else "-", t[1]))
        if k == "CallExpr":
            self.call(s)
            return self.flush(pad)
        if k in ("ImplicitCastExpr", "CStyleCastExpr") and s.get("castKind") == "ToVoid":
            return self.simple(s["inner"][0], pad)
        return None

    def result(self, term):
        outs = self.output_names()
        if not outs:
            return "Res.val %s" % term
        return "Res.val (%s)" % ", ".join([term] + outs)

    def stmts(self, ss, ind, end):
        """ss: list of statement nodes; end(ind) gives the text for falling off the list"""
        pad = "  " * ind
        if not ss:
            return end(ind)
        s, rest = ss[0], ss[1:]
        k = s.get("kind")
        if k == "CompoundStmt":
            mark = len(self.scope)
            inner = list(s.get("inner", []))

            def after(i2):
                del self.scope[mark:]
                return self.stmts(rest, i2, end)
            return self.stmts(inner, ind, after)
        if k == "ReturnStmt":
            if "inner" not in s:
                return pad + self.result("()")
            co = s["inner"][0]
            wrappers = []
            while co.get("kind") in ("ImplicitCastExpr", "ParenExpr", "CStyleCastExpr") and co.get("kind") != "ConditionalOperator":
                wrappers.append(co)
                co = co["inner"][0]
            if co.get("kind") == "ConditionalOperator" and self.has_call(co):
                # `return c ? f(..) : g(..);` - only the chosen arm runs
                def arm(x):
                    for w in reversed(wrappers):
                        x = dict(w, inner=[x])
                    return {"kind": "ReturnStmt", "inner": [x]}
                c, a, b = co["inner"]
                fake = {"kind": "IfStmt", "inner": [c, arm(a), arm(b)]}
                return self.stmts([fake] + rest, ind, end)
            term = self.expr(s["inner"][0])
            return self.flush(pad) + pad + self.result(term)
        if k == "IfStmt":
            inner = s["inner"]
            c = self.cond(inner[0])
            pre = self.flush(pad)
            mark = len(self.scope)
            saved = (dict(self.vars), dict(self.mem))

            def cont(i2):
                del self.scope[mark:]
                self.vars, self.mem = dict(saved[0]), dict(saved[1])
                return self.stmts(rest, i2, end)
            a = self.stmts([inner[1]], ind + 1, cont)
            b = self.stmts([inner[2]], ind + 1, cont) if len(inner) > 2 else cont(ind + 1)
            return "%s%sif %s then\n%s\n%selse\n%s" % (pre, pad, c, a, pad, b)
        if k in ("WhileStmt", "ForStmt"):
            if k == "WhileStmt":
                init, cnd, inc, body = None, s["inner"][0], None, s["inner"][1]
            else:
                parts = s["inner"]
                if len(parts) != 5:
                    raise Unavailable("for statement of unexpected shape")
                init, _, cnd, inc, body = parts
            pre = ""
            mark = len(self.scope)
            if init and init.get("kind"):
                t = self.simple(init, pad)
                if t is None:
                    raise Unavailable("for-init " + init.get("kind"))
                pre = t
            self.nloops += 1
            lname = "%s.loop%d" % (self.name, self.nloops)
            params = list(self.scope) + self.wblocks() + list(self.opaques)
            nscope = len(self.scope)
            saved = (dict(self.vars), dict(self.mem))

            def again(i2):
                p2 = "  " * i2
                out = ""
                if inc and inc.get("kind"):
                    t2 = self.simple(inc, p2)
                    if t2 is None:
                        raise Unavailable("for-increment " + inc.get("kind"))
                    out = t2
                return out + "%s%s fuel %s" % (p2, lname, " ".join(params))

            def body_end(i2):
                del self.scope[nscope:]
                return again(i2)

            def leave(i2):
                del self.scope[nscope:]
                self.vars, self.mem = dict(saved[0]), dict(saved[1])
                return self.stmts(rest, i2, end)
            self.forbid_jumps(body)
            depth = len(self.break_stack)

            def brk(i2):
                stack = self.break_stack
                self.break_stack = self.break_stack[:depth]
                try:
                    return leave(i2)
                finally:
                    self.break_stack = stack
            self.break_stack.append(brk)
            cdepth = len(self.continue_stack)

            def cont_loop(i2):
                # `continue`: the increment of a `for`, then round again - with the variables as they are here
                keep = list(self.scope)
                try:
                    return again(i2)
                finally:
                    self.scope = keep
            self.continue_stack.append(cont_loop)
            if cnd and cnd.get("kind"):
                c = self.cond(cnd)
                cpre = self.flush("    ")
                btxt = self.stmts([body], 3, body_end)
                ltxt = leave(3)
                text = "%s    if %s then\n%s\n    else\n%s" % (cpre, c, btxt, ltxt)
            else:
                text = self.stmts([body], 2, body_end)
                del self.scope[nscope:]
                self.vars, self.mem = dict(saved[0]), dict(saved[1])
            del self.break_stack[depth:]
            del self.continue_stack[cdepth:]
            self.loops.append((lname, params, text))
            del self.scope[mark:]
            self.vars, self.mem = dict(saved[0]), dict(saved[1])
            return "%s%s%s fuel %s" % (pre, pad, lname, " ".join(params))
        if k == "BreakStmt":
            if not self.break_stack or self.break_stack[-1] is None:
                raise Unavailable("break")
            # what follows the break is translated here and now; the statements still to come (the other branch of an
            # enclosing if, the next label group) must find the variables as they are at this point
            snap = (dict(self.vars), dict(self.mem), list(self.scope))
            try:
                return self.break_stack[-1](ind)
            finally:
                self.vars, self.mem, self.scope = snap
        if k == "ContinueStmt":
            if not self.continue_stack or self.continue_stack[-1] is None:
                raise Unavailable("continue")
            snap = (dict(self.vars), dict(self.mem), list(self.scope))
            try:
                return self.continue_stack[-1](ind)
            finally:
                self.vars, self.mem, self.scope = snap
        if k == "DoStmt":
            body, cnd = s["inner"][0], s["inner"][1]
            c = cnd
            while c.get("kind") in ("ImplicitCastExpr", "ParenExpr"):
                c = c["inner"][0]
            if c.get("kind") != "IntegerLiteral" or int(c["value"]) != 0:
                raise Unavailable("do-while with a condition")
            # the body once, then what follows; a break inside would leave the do-while: not supported
            depth = len(self.break_stack)
            self.break_stack.append(None)
            mark = len(self.scope)

            def after_do(i2):
                stack = self.break_stack
                self.break_stack = self.break_stack[:depth]
                try:
                    del self.scope[mark:]
                    return self.stmts(rest, i2, end)
                finally:
                    self.break_stack = stack
            try:
                return self.stmts([body], ind, after_do)
            finally:
                del self.break_stack[depth:]
        if k == "SwitchStmt":
            return self.switch(s, rest, ind, end)
        if k in ("GotoStmt", "LabelStmt"):
            raise Unavailable(k)
        t = self.simple(s, pad)
        if t is None:
            raise Unavailable("statement " + str(k))
        return t + self.stmts(rest, ind, end)

    def switch(self, s, rest, ind, end):
        """a switch as an if-chain over its label groups; a group that does not end in break / return runs on into the next"""
        pad = "  " * ind
        cond, body = s["inner"][0], s["inner"][1]
        if body.get("kind") != "CompoundStmt":
            raise Unavailable("switch without a block")
        ct = ctype(dq(cond))
        v = self.expr(cond)
        pre = self.flush(pad)
        sv = self.fresh()
        pre += "%slet %s := %s\n" % (pad, sv, v)
        groups = []          # (values or None for default, [statements])
        for c in body.get("inner", []):
            labels = []
            cur = c
            while cur.get("kind") in ("CaseStmt", "DefaultStmt"):
                if cur["kind"] == "CaseStmt":
                    labels.append(const_value(cur["inner"][0]))
                    cur = cur["inner"][-1]
                else:
                    labels.append(None)
                    cur = cur["inner"][-1]
            if labels:
                groups.append((labels, [cur]))
            else:
                if not groups:
                    raise Unavailable("statement in front of the first case label")
                groups[-1][1].append(c)
        mark = len(self.scope)
        saved = (dict(self.vars), dict(self.mem))
        depth = len(self.break_stack)

        def after(i2):
            stack = self.break_stack
            self.break_stack = self.break_stack[:depth]
            try:
                del self.scope[mark:]
                self.vars, self.mem = dict(saved[0]), dict(saved[1])
                return self.stmts(rest, i2, end)
            finally:
                self.break_stack = stack
        self.break_stack.append(after)

        def group(i, i2):
            if i >= len(groups):
                return after(i2)
            return self.stmts(list(groups[i][1]), i2, lambda i3: group(i + 1, i3))
        try:
            chain = []
            default = None
            for gi, (labels, _) in enumerate(groups):
                vals = [x for x in labels if x is not None]
                if None in labels:
                    default = gi
                if vals:
                    c = " ∨ ".join("%s = (%d#%d)" % (sv, x % (1 << ct[1]), ct[1]) for x in vals)
                    chain.append((c, gi))
            out = pre
            cur_ind = ind
            entry = (dict(self.vars), dict(self.mem), list(self.scope))

            def fresh_group(gi, i2):
                self.vars, self.mem, self.scope = dict(entry[0]), dict(entry[1]), list(entry[2])
                return group(gi, i2)
            for c, gi in chain:
                p2 = "  " * cur_ind
                out += "%sif (%s) then\n%s\n%selse\n" % (p2, c, fresh_group(gi, cur_ind + 1), p2)
                cur_ind += 1
            self.vars, self.mem, self.scope = dict(entry[0]), dict(entry[1]), list(entry[2])
            out += group(default, cur_ind) if default is not None else after(cur_ind)
            return out
        finally:
            del self.break_stack[depth:]

    def has_call(self, n):
        if n.get("kind") == "CallExpr":
            return True
        return any(self.has_call(c) for c in n.get("inner", []))

    def forbid_jumps(self, n):
        if n.get("kind") in ("GotoStmt",):
            raise Unavailable(n["kind"] + " in a loop")
        for c in n.get("inner", []):
            self.forbid_jumps(c)

    # ------------------------------------------------------------------ the function
    def setup_params(self):
        """Lean parameters, in C parameter order; declares the variables"""
        sig, lets, comps = [], [], []
        written = self.known["written"] if self.known else set()
        fn_kinds = [t[1] for _, t in self.cparams if t[0] == "fnptr"]
        for n, t in self.cparams:
            if t[0] == "fnptr":
                self.fnptrs[n] = t[1]
                comps.append(("fnptr", t[1]))
                continue
            if t[0] == "ptr" and n == "driver" and len(fn_kinds) == 1:
                # the private data handed to the one callback of this function: the prelude's driver script
                lt = DRV_OF[fn_kinds[0]]
                self.opaques[n] = lt
                sig.append("(%s : %s)" % (n, lt))
                comps.append(("opaque", lt))
                continue
            if t[0] == "int":
                sig.append("(%s : %s)" % (n, bv(t)))
                self.declare(n, t)
                comps.append(("int", t))
            elif t[0] == "ptr" and t[1][0] == "rec" and t[1][1] in self.unit.opaque:
                self.opaques[n] = self.unit.opaque[t[1][1]]
                sig.append("(%s : %s)" % (n, self.unit.opaque[t[1][1]]))
                comps.append(("opaque", self.unit.opaque[t[1][1]]))
            elif t[0] == "ptr" and t[1][0] == "rec" and not RECORDS[t[1][1]][0]:
                rec = t[1][1]
                self.structs[n] = rec
                used = None if not self.known else self.known["fields"].get(n, [])
                fl = []
                for f, ft in self.flat_fields(rec, ""):
                    if used is not None and f not in used:
                        continue
                    lean = "%s_%s" % (n, f.replace(".", "_"))
                    if ft[0] == "opq":
                        sig.append("(%s : %s)" % (lean, ft[1]))
                        self.fieldvar[(n, f)] = ("opq", lean, ft[1])
                        self.opaques[lean] = ft[1]
                        fl.append((f, ("opq", ft[1], True)))
                    elif ft[0] == "int":
                        sig.append("(%s : %s)" % (lean, bv(ft)))
                        self.fieldvar[(n, f)] = ("var", lean, ft)
                        self.declare(lean, ft)
                        fl.append((f, ("int", ft, lean in written)))
                    elif ft[0] == "ptr" and ft[1][0] == "int":
                        blk = lean + "_mem"
                        sig.append("(%s : List (%s))" % (blk, bv(ft[1])))
                        self.blocks[blk] = ft[1]
                        self.fieldvar[(n, f)] = ("blk", blk, ft[1])
                        fl.append((f, ("blk", ft[1], blk in written)))
                comps.append(("struct", rec, fl))
            elif t[0] == "ptr":
                et = union_cell(t[1][1]) if t[1][0] == "rec" else t[1]
                if et[0] != "int":
                    raise Unavailable("pointer to " + et[0])
                blk = n + "_mem"
                sig.append("(%s : List (%s))" % (blk, bv(et)))
                self.blocks[blk] = et
                lets.append("  let %s : Nat := 0\n" % n)
                self.declare(n, ("ptr", et), blk)
                comps.append(("block", et, blk in written))
            else:
                raise Unavailable("parameter of type " + t[0])
        return sig, lets, comps

    def flat_fields(self, rec, prefix):
        """[(path, type)] of the scalar / pointer leaves of a record, nested structures flattened, unions as one cell"""
        out = []
        for f, fq in RECORDS[rec][1]:
            if (rec, f) in OPAQUE_FIELDS:
                out.append((prefix + f, ("opq", OPAQUE_FIELDS[(rec, f)])))
                continue
            try:
                ft = ctype(fq)
            except Unavailable:
                continue
            if ft[0] == "rec":
                if RECORDS[ft[1]][0]:
                    try:
                        out.append((prefix + f, union_cell(ft[1])))
                    except Unavailable:
                        pass
                else:
                    out += self.flat_fields(ft[1], prefix + f + ".")
            elif ft[0] == "int":
                out.append((prefix + f, ft))
            elif ft[0] == "ptr" and ft[1][0] == "int":
                out.append((prefix + f, ft))
        return out

    def output_names(self):
        """Lean names of what the function hands back next to its value, in parameter order"""
        written = self.known["written"] if self.known else set()
        out = []
        for n, t in self.cparams:
            if n in self.opaques:
                out.append(n)
            elif n in self.structs:
                for f, ft in self.flat_fields(self.structs[n], ""):
                    fv = self.fieldvar.get((n, f))
                    if fv and (fv[1] in written or fv[0] == "opq"):
                        out.append(fv[1])
            elif t[0] == "ptr" and (n + "_mem") in written:
                out.append(n + "_mem")
        return out

    def output_types(self):
        ts = []
        for o in self.output_names():
            if o in self.opaques:
                ts.append(self.opaques[o])
            elif o in self.blocks:
                ts.append("List (%s)" % bv(self.blocks[o]))
            else:
                ts.append(bv(self.all_types[o]))
        return ts

    def lean(self):
        sig, lets, comps = self.setup_params()
        rett = "Unit" if self.ret[0] == "void" else bv(self.ret)
        full = " × ".join([rett] + self.output_types())

        def end(ind):
            if self.ret[0] == "void":
                return "  " * ind + self.result("()")
            raise Unavailable("control reaches the end of a non-void function")
        body = self.stmts(list(self.body.get("inner", [])), 1, end)
        undef = self.known["undef"] if self.known else False
        head = ["(fuel : Nat)"] + (["(undef : Nat → BitVec 64)"] if undef else [])
        written = self.known["written"] if self.known else set()
        fixed = [b for b in self.blocks if b not in written]        # read-only blocks: fixed parameters of the loops
        fixsig = " ".join((["(undef : Nat → BitVec 64)"] if undef else []) + ["(%s : List (%s))" % (b, bv(self.blocks[b])) for b in fixed])
        fixargs = " ".join((["undef"] if undef else []) + fixed)
        out = []

        def patch(text):
            for lname, _, _ in self.loops:
                if fixargs:
                    text = text.replace(lname + " fuel", lname + " " + fixargs + " fuel")
            return text
        for lname, params, text in self.loops:
            types = []
            for p in params:
                if p in self.blocks:
                    types.append("List (%s)" % bv(self.blocks[p]))
                elif p in self.opaques:
                    types.append(self.opaques[p])
                elif self.all_types[p][0] == "ptr":
                    types.append("Nat")
                else:
                    types.append(bv(self.all_types[p]))
            psig = " → ".join(["Nat"] + types + ["Res (%s)" % full])
            out.append("def %s %s : %s\n  | 0%s => Res.nofuel\n  | fuel + 1%s =>\n%s" % (
                lname, fixsig, psig, "".join(", _" for _ in params), "".join(", " + p for p in params), patch(text)))
        out.append("def %s %s : Res (%s) :=\n%s%s" % (self.name, " ".join(head + sig), full, "".join(lets), patch(body)))
        self.iface = Iface(self.name, self.ret, comps, undef)
        return "\n\n".join(out)


LEAN_WORDS = {"meta", "end", "from", "at", "fun", "open", "local", "show", "have", "this", "private", "instance", "class", "structure",
              "theorem", "def", "let", "in", "do", "then", "match", "with", "where", "namespace", "section", "variable", "universe", "import",
              "by", "calc", "exact", "Type", "Prop", "Sort", "mutual", "macro", "syntax", "notation", "deriving", "extends", "abbrev",
              "example", "axiom", "opaque", "partial", "unsafe", "protected", "noncomputable", "attribute", "export", "using", "suffices",
              "obtain", "rcases", "fuel", "undef", "Res", "load", "store", "zx", "sx", "tr"}


def rename_words(n):
    """C identifiers that are words of Lean (or of the prelude) get an underscore appended, everywhere in the function"""
    if n.get("kind") in ("ParmVarDecl", "VarDecl") and n.get("name") in LEAN_WORDS:
        n["name"] = n["name"] + "_"
    rd = n.get("referencedDecl")
    if rd and rd.get("kind") in ("ParmVarDecl", "VarDecl") and rd.get("name") in LEAN_WORDS:
        rd["name"] = rd["name"] + "_"
    for c in n.get("inner", []):
        rename_words(c)


def translate_fn(node, unit):
    """passes to a fixed point: the first finds out which fields are used and what is written, the last writes the text"""
    rename_words(node)
    f1 = Fn(node, unit, None)
    f1.lean()
    known = {"fields": {p: sorted(fs) for p, fs in f1.used_fields.items()}, "written": set(f1.written), "undef": f1.uses_undef}
    for _ in range(4):
        f2 = Fn(node, unit, known)
        text = f2.lean()
        new = {"fields": {p: sorted(fs) for p, fs in f2.used_fields.items()}, "written": set(f2.written), "undef": f2.uses_undef}
        if new == known:
            return f2, text
        known = {"fields": {p: sorted(set(known["fields"].get(p, [])) | set(new["fields"].get(p, []))) for p in set(known["fields"]) | set(new["fields"])},
                 "written": known["written"] | new["written"], "undef": known["undef"] or new["undef"]}
    raise Unavailable("translator: no fixed point")


class Unit:
    """one C file"""
    def __init__(self, src, want, opaque=None, also=None):
        self.src = src
        self.want = want
        self.opaque = OPAQUE if opaque is None else opaque
        # functions of other files this one calls: translated from their own source into the same module
        callees = []
        for k, (other, names) in enumerate((also or {}).items()):
            fns, _ = parse(other, keep=k > 0)
            callees += [n for n in fns if n["name"] in names]
        self.fn_nodes, self.tables = parse(src, keep=bool(also))
        self.fn_nodes = callees + self.fn_nodes
        self.used_tables = set()
        self.ifaces = {}

    def table_elem(self, name):
        q = dq(self.tables[name])
        return ctype(q[:q.index("[")].strip())

    def table_text(self, name):
        n = self.tables[name]
        vals = [lit_value(c) for c in n["inner"][0]["inner"]]
        t = self.table_elem(name)
        rows = []
        for i in range(0, len(vals), 8):
            rows.append("  " + ", ".join("0x%x#%d" % (v % (1 << t[1]), t[1]) for v in vals[i:i + 8]))
        return "def %s : List (%s) := [\n%s\n]" % (name, bv(t), ",\n".join(rows))

    def translate(self):
        status, texts, order = {}, {}, []
        todo = [n for n in self.fn_nodes if self.want is None or n["name"] in self.want]
        progress = True
        while progress:
            # a function may call one that is defined further down: go round until nothing new comes out
            progress = False
            for node in todo:
                name = node["name"]
                if status.get(name) == "translated":
                    continue
                try:
                    f, text = translate_fn(node, self)
                    texts[name] = text
                    self.ifaces[name] = f.iface
                    status[name] = "translated"
                    order.append(name)              # definitions come out in dependency order
                    progress = True
                except Unavailable as e:
                    status[name] = "unavailable(%s)" % e
                except (KeyError, IndexError, ValueError, TypeError) as e:
                    status[name] = "unavailable(translator: %r)" % (e,)
        for w in (self.want or []):
            status.setdefault(w, "unavailable(no such function in %s)" % self.src)
        defs = [self.table_text(t) for t in sorted(self.used_tables)]
        defs += [texts[n] for n in order if status[n] == "translated"]
        return status, defs


def write(module, src, defs):
    text = """/-
GENERATED by tools/gen/cloops.py from %s of /repo (clang's typed AST) - do not edit.
Regenerated on every check run; the obligations "= the hand-written model" are in Ufw/Tie/.
-/
import Ufw.Tie.CPre
set_option linter.unusedVariables false

namespace Ufw.Gen.%s
open Ufw.Tie.CPre

%s

end Ufw.Gen.%s
""" % (src, module, "\n\n".join(defs), module)
    vf.write_if_changed(os.path.join(vf.LEAN, "Ufw/Gen/%s.lean" % module), text)


# ---------------------------------------------------------------------------------------------------------------
# src/crc-16-arc.c
# ---------------------------------------------------------------------------------------------------------------

CRC_SRC = "src/crc-16-arc.c"
CRC_TIE = {
    "crc16_octet": "Ufw.Tie.CrcLoops.Octet", "ufw_crc16_arc": "Ufw.Tie.CrcLoops.Arc", "ufw_buffer_crc16_arc": "Ufw.Tie.CrcLoops.Buffer",
    "ufw_crc16_arc_u16": "Ufw.Tie.CrcLoops.ArcU16", "ufw_buffer_crc16_arc_u16": "Ufw.Tie.CrcLoops.BufferU16",
}
CRC_STATUS = {}


def crc_gen():
    u = Unit(CRC_SRC, list(CRC_TIE))
    status, defs = u.translate()
    write("CrcLoops", CRC_SRC, defs)
    CRC_STATUS.clear()
    CRC_STATUS.update(status)
    return {"cloops:" + k: v for k, v in status.items()}


def crc_tie_modules():
    mods = [m for f, m in CRC_TIE.items() if CRC_STATUS.get(f) == "translated"]
    if all(CRC_STATUS.get(f) == "translated" for f in ("crc16_octet", "ufw_crc16_arc", "ufw_crc16_arc_u16")):
        mods.append("Ufw.Tie.CrcLoops.EndToEnd")      # the property theorems carried over to the translated C
    return mods


# ---------------------------------------------------------------------------------------------------------------
# src/variable-length-integer.c
# ---------------------------------------------------------------------------------------------------------------

VARINT_SRC = "src/variable-length-integer.c"
VARINT_TIE = {
    "varint_done": "Ufw.Tie.VarintLoops.Done", "varint_u64_length": "Ufw.Tie.VarintLoops.Length",
    "varint_decode": "Ufw.Tie.VarintLoops.Decode", "varint_from_source": "Ufw.Tie.VarintLoops.FromSource",
    "varint_encode": "Ufw.Tie.VarintLoops.Encode",
}
VARINT_WANT = list(VARINT_TIE) + [
    "varint_s64_length", "varint_u32_length", "varint_s32_length",
    "varint_decode_u32", "varint_decode_s32", "varint_decode_u64", "varint_decode_s64",
    "varint_u32_from_source", "varint_s32_from_source", "varint_u64_from_source", "varint_s64_from_source",
    "byte_buffer_avail", "varint_encode_u32", "varint_encode_s32", "varint_encode_u64", "varint_encode_s64"]
VARINT_ALSO = {"src/byte-buffer.c": ["byte_buffer_avail"]}      # what the typed encoders call
VARINT_STATUS = {}


def varint_gen():
    u = Unit(VARINT_SRC, VARINT_WANT, also=VARINT_ALSO)
    status, defs = u.translate()
    write("VarintLoops", VARINT_SRC, defs)
    VARINT_STATUS.clear()
    VARINT_STATUS.update(status)
    return {"cloops:" + k: v for k, v in status.items()}


def varint_tie_modules():
    mods = ["Ufw.Tie.VarintLoops.Common"] + [m for f, m in VARINT_TIE.items() if VARINT_STATUS.get(f) == "translated"]
    if all(VARINT_STATUS.get(f) == "translated" for f in ("varint_encode", "varint_decode", "varint_done")):
        mods.append("Ufw.Tie.VarintLoops.EndToEnd")   # the round trip of the property theorems, over the translated C
    wrappers = ("varint_decode", "varint_decode_u64", "varint_decode_s64", "varint_decode_u32", "varint_u64_length",
                "varint_u32_length", "varint_s32_length", "varint_s64_length", "varint_from_source", "varint_done",
                "varint_u64_from_source", "varint_u32_from_source")
    if all(VARINT_STATUS.get(f) == "translated" for f in wrappers):
        mods.append("Ufw.Tie.VarintLoops.Wrappers")   # the typed entry points
    typed = ("byte_buffer_avail", "varint_encode", "varint_encode_u32", "varint_encode_s32", "varint_encode_u64", "varint_encode_s64")
    if all(VARINT_STATUS.get(f) == "translated" for f in typed):
        mods.append("Ufw.Tie.VarintLoops.EncodeTyped")    # the typed encoders with their callee from byte-buffer.c
    return mods


# ---------------------------------------------------------------------------------------------------------------
# src/register-protocol.c: the helper functions without loops
# ---------------------------------------------------------------------------------------------------------------

REGP_SRC = "src/register-protocol.c"
REGP_TIE = {
    "payload_plausible": "Ufw.Tie.RegpFns.PayloadPlausible", "req2resp": "Ufw.Tie.RegpFns.Req2resp", "msem_size": "Ufw.Tie.RegpFns.MsemSize",
    "memtype_valid": "Ufw.Tie.RegpFns.MemtypeValid", "raw_with_hdcrc": "Ufw.Tie.RegpFns.RawWithHdcrc", "raw_with_plcrc": "Ufw.Tie.RegpFns.RawWithPlcrc",
    "make_motv": "Ufw.Tie.RegpFns.MakeMotv",
}
REGP_WANT = list(REGP_TIE) + ["regp_is_16bitsem", "regp_has_hdcrc", "regp_has_plcrc", "address_min", "address_max"]
REGP_STATUS = {}


def regp_gen():
    u = Unit(REGP_SRC, REGP_WANT)
    status, defs = u.translate()
    write("RegpFns", REGP_SRC, defs)
    REGP_STATUS.clear()
    REGP_STATUS.update(status)
    return {"cloops:" + k: v for k, v in status.items()}


def regp_tie_modules():
    return ["Ufw.Tie.RegpFns.Common"] + [m for f, m in REGP_TIE.items() if REGP_STATUS.get(f) == "translated"]


# ---------------------------------------------------------------------------------------------------------------
# src/rfc1055.c
# ---------------------------------------------------------------------------------------------------------------

SLIP_SRC = "src/rfc1055.c"
SLIP_TIE = {
    "rfc1055_context_init": "Ufw.Tie.SlipFns.ContextInit", "rfc1055_encode": "Ufw.Tie.SlipFns.Encode", "rfc1055_decode": "Ufw.Tie.SlipFns.Decode",
}
SLIP_WANT = ["rfc1055_context_init", "rfc1055_open", "rfc1055_close", "rfc1055_encode_octet", "rfc1055_decode_octet", "rfc1055_encode",
             "transition", "rfc1055_decode"]
SLIP_STATUS = {}


def slip_gen():
    u = Unit(SLIP_SRC, SLIP_WANT)
    status, defs = u.translate()
    write("SlipFns", SLIP_SRC, defs)
    SLIP_STATUS.clear()
    SLIP_STATUS.update(status)
    return {"cloops:" + k: v for k, v in status.items()}


def slip_tie_modules():
    mods = ["Ufw.Tie.SlipFns.Common"] + [m for f, m in SLIP_TIE.items() if SLIP_STATUS.get(f) == "translated"]
    if SLIP_STATUS.get("rfc1055_encode") == "translated" and SLIP_STATUS.get("rfc1055_decode") == "translated":
        mods.append("Ufw.Tie.SlipFns.EndToEnd")       # the property theorems carried over to the translated C
    return mods


# ---------------------------------------------------------------------------------------------------------------
# src/endpoints/core.c: octet / chunk access to sources and sinks
# ---------------------------------------------------------------------------------------------------------------

ENDP_SRC = "src/endpoints/core.c"
ENDP_TIE = {
    "sink_adapt": "Ufw.Tie.EndpFns.SinkAdapt", "source_adapt": "Ufw.Tie.EndpFns.SourceAdapt",
    "sink_put_chunk": "Ufw.Tie.EndpFns.SinkPutChunk", "source_get_chunk": "Ufw.Tie.EndpFns.SourceGetChunk",
    "sts_cbc": "Ufw.Tie.EndpFns.StsCbc", "sts_drain_cbc": "Ufw.Tie.EndpFns.StsLoops",
}
ENDP_WANT = ["source_get_octet", "sink_put_octet", "source_adapt", "sink_adapt", "once_source_get_chunk", "once_sink_put_chunk",
             "source_get_chunk", "sink_put_chunk", "source_get_chunk_atmost", "sink_put_chunk_atmost", "sts_cbc", "sts_n_cbc", "sts_drain_cbc"]
ENDP_STATUS = {}


def endp_gen():
    u = Unit(ENDP_SRC, ENDP_WANT, opaque={})      # here a Source / Sink is a structure: kind, driver data, callbacks
    status, defs = u.translate()
    write("EndpFns", ENDP_SRC, defs)
    ENDP_STATUS.clear()
    ENDP_STATUS.update(status)
    return {"cloops:" + k: v for k, v in status.items()}


# which translated functions each obligation module mentions: a module is built only when all of them came out
ENDP_NEEDS = {
    "Ufw.Tie.EndpFns.SinkAdapt": ["sink_adapt"],
    "Ufw.Tie.EndpFns.SourceAdapt": ["source_adapt"],
    "Ufw.Tie.EndpFns.SinkPutChunk": ["sink_adapt", "once_sink_put_chunk", "sink_put_chunk", "sink_put_chunk_atmost"],
    "Ufw.Tie.EndpFns.SourceGetChunk": ["source_adapt", "sink_adapt", "once_sink_put_chunk", "sink_put_chunk", "sink_put_chunk_atmost",
                                       "once_source_get_chunk", "source_get_chunk", "source_get_chunk_atmost"],
}
ENDP_NEEDS["Ufw.Tie.EndpFns.StsCbc"] = ENDP_NEEDS["Ufw.Tie.EndpFns.SourceGetChunk"] + ["source_get_octet", "sink_put_octet", "sts_cbc"]
ENDP_NEEDS["Ufw.Tie.EndpFns.StsLoops"] = ENDP_NEEDS["Ufw.Tie.EndpFns.StsCbc"] + ["sts_drain_cbc", "sts_n_cbc"]
ENDP_NEEDS["Ufw.Tie.EndpFns.EndToEnd"] = ENDP_NEEDS["Ufw.Tie.EndpFns.SourceGetChunk"]


def endp_tie_modules():
    ok = lambda f: ENDP_STATUS.get(f) == "translated"
    return ["Ufw.Tie.EndpFns.Common"] + [m for m, fs in ENDP_NEEDS.items() if all(ok(f) for f in fs)]


# ---------------------------------------------------------------------------------------------------------------
# src/persistent-storage.c: the default checksum and the layout helpers (the rest goes through callback tables and
# structure returns: tie B)
# ---------------------------------------------------------------------------------------------------------------

PST_SRC = "src/persistent-storage.c"
PST_TIE = {"trivialsum": "Ufw.Tie.PstFns.Trivialsum", "persistent_place": "Ufw.Tie.PstFns.Layout"}
PST_WANT = ["checksum_size", "set_data_address", "trivialsum", "persistent_place"]
PST_NEEDS = {"Ufw.Tie.PstFns.Trivialsum": ["trivialsum"], "Ufw.Tie.PstFns.Layout": ["checksum_size", "set_data_address", "persistent_place"]}
PST_STATUS = {}


def pst_gen():
    u = Unit(PST_SRC, PST_WANT)
    status, defs = u.translate()
    write("PstFns", PST_SRC, defs)
    PST_STATUS.clear()
    PST_STATUS.update(status)
    return {"cloops:" + k: v for k, v in status.items()}


def pst_tie_modules():
    ok = lambda f: PST_STATUS.get(f) == "translated"
    return [m for m, fs in PST_NEEDS.items() if all(ok(f) for f in fs)]


# ---------------------------------------------------------------------------------------------------------------
# src/registers/core.c: the address arithmetic every block access, hole test and initialisation check rests on
# (the accessors themselves return structures and go through callback tables: tie B)
# ---------------------------------------------------------------------------------------------------------------

REGS_SRC = "src/registers/core.c"
REGS_WANT = ["reg_min", "reg_range_touches", "ra_addr_is_part_of", "ra_reg_is_part_of", "ra_reg_fits_into", "ra_range_touches",
             "register_entry_size"]
REGS_NEEDS = {"Ufw.Tie.RegFns.Geometry": list(REGS_WANT), "Ufw.Tie.RegFns.EndToEnd": list(REGS_WANT)}
REGS_STATUS = {}


def regs_gen():
    u = Unit(REGS_SRC, REGS_WANT)
    status, defs = u.translate()
    write("RegFns", REGS_SRC, defs)
    REGS_STATUS.clear()
    REGS_STATUS.update(status)
    return {"cloops:" + k: v for k, v in status.items()}


def regs_tie_modules():
    ok = lambda f: REGS_STATUS.get(f) == "translated"
    return [m for m, fs in REGS_NEEDS.items() if all(ok(f) for f in fs)]


if __name__ == "__main__":
    which = sys.argv[1] if len(sys.argv) > 1 else "crc"
    st = {"crc": crc_gen, "varint": varint_gen, "regp": regp_gen, "slip": slip_gen, "endp": endp_gen, "pst": pst_gen, "regs": regs_gen}[which]()
    for k, v in st.items():
        print(k, v)
    print(open(os.path.join(vf.LEAN, "Ufw/Gen/%s.lean" % {"crc": "CrcLoops", "varint": "VarintLoops", "regp": "RegpFns", "slip": "SlipFns", "endp": "EndpFns", "pst": "PstFns", "regs": "RegFns"}[which])).read()[-9000:])
