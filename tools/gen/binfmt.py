"""
Tie A for C15: translate every function of include/ufw/binary-format.h
(preprocessed for a little-endian and for a big-endian host) into a Lean
definition over bit vectors, and emit, per function, the obligation
"generated definition = what the function's NAME promises" (width, kind,
octet order are read off the name; the body is what the C code says).

The translator is syntactic: it types C expressions (integer promotions, usual
arithmetic conversions, literal suffixes) and maps them 1:1 to BitVec terms;
it does no simplification - the proofs do.  A construct it does not know makes
that function "unavailable" (reported, never silently skipped).
"""
import os
import re
import subprocess
import sys

sys.path.insert(0, os.path.join(os.path.dirname(os.path.abspath(__file__)), "..", "lib"))
import vf  # noqa: E402


class Unavailable(Exception):
    pass


CTYPES = {
    "uint16_t": (16, False), "uint32_t": (32, False), "uint64_t": (64, False),
    "int16_t": (16, True), "int32_t": (32, True), "int64_t": (64, True),
    "float": (32, False), "double": (64, False),
    "unsigned long int": (64, False), "unsigned long long int": (64, False),
    "unsigned int": (32, False), "int": (32, True),
}
FIELD = {"u16": (16, False), "s16": (16, True), "u32": (32, False), "s32": (32, True), "f32": (32, False),
         "u64": (64, False), "s64": (64, True), "f64": (64, False)}


def preprocess(host_big):
    inc = vf.toolchain_include()
    cmd = ["gcc", "-E", "-P", "-DSYSTEM_ENDIANNESS_" + ("BIG" if host_big else "LITTLE"),
           "-I" + os.path.join(vf.REPO, "include"), "-I" + inc,
           os.path.join(vf.REPO, "include/ufw/binary-format.h")]
    r = subprocess.run(cmd, stdout=subprocess.PIPE, stderr=subprocess.PIPE, text=True)
    if r.returncode != 0:
        raise RuntimeError("cannot preprocess binary-format.h: " + r.stderr[-500:])
    return r.stdout


def functions(text):
    out = []
    for m in re.finditer(r"static\s+inline\s+([\w \*]+?)\s+(bf_\w+)\s*\(([^)]*)\)\s*\{(.*?)\n\}", text, re.S):
        ret, name, params, body = m.groups()
        stmts = [re.sub(r"\s+", " ", s).strip() for s in split_statements(body)]
        out.append((ret.strip(), name, params.strip(), [s for s in stmts if s]))
    return out


def split_statements(body):
    """split on ';' and on '{' / '}' of if-blocks (initialiser braces stay inside their statement)"""
    res, cur, depth_init = [], "", 0
    i = 0
    while i < len(body):
        c = body[i]
        if c == "{":
            if re.search(r"=\s*$", cur):
                depth_init += 1
                cur += c
            else:
                res.append(cur + "{")
                cur = ""
        elif c == "}":
            if depth_init:
                depth_init -= 1
                cur += c
            else:
                res.append(cur)
                res.append("}")
                cur = ""
        elif c == ";" and not depth_init:
            res.append(cur)
            cur = ""
        else:
            cur += c
        i += 1
    res.append(cur)
    return res


# ---------------------------------------------------------------- expressions

TOK = re.compile(r"\s*(0[xX][0-9a-fA-F]+[uUlL]*|\d+[uUlL]*|[A-Za-z_]\w*|<<|>>|<=|>=|==|!=|&&|\|\||[()~\-*+<>&|.,])")


def tokenize(s):
    pos, toks = 0, []
    s = s.strip()
    while pos < len(s):
        m = TOK.match(s, pos)
        if not m:
            raise Unavailable("cannot tokenize %r" % s[pos:pos + 20])
        toks.append(m.group(1))
        pos = m.end()
    return toks


class E:
    """typed expression: Lean term, width, signedness; const = python value if constant"""
    def __init__(self, term, width, signed, const=None, isbool=False):
        self.term, self.width, self.signed, self.const, self.isbool = term, width, signed, const, isbool


def conv(e, width):
    if e.width == width:
        return e.term
    if width < e.width:
        return "((%s).setWidth %d)" % (e.term, width)
    return "((%s).%s %d)" % (e.term, "signExtend" if e.signed else "setWidth", width)


def promote(e):
    if e.width < 32:
        return E(conv(e, 32), 32, True, e.const)
    return e


def usual(a, b):
    a, b = promote(a), promote(b)
    if a.width == b.width:
        s = a.signed and b.signed
        return a, b, a.width, s
    w = max(a.width, b.width)
    wide = a if a.width == w else b
    s = wide.signed   # the wider type can hold every value of the narrower one
    return E(conv(a, w), w, s, a.const), E(conv(b, w), w, s, b.const), w, s


def lit(tok):
    m = re.match(r"(0[xX][0-9a-fA-F]+|\d+)([uUlL]*)$", tok)
    v = int(m.group(1), 0)
    suf = m.group(2).lower()
    unsigned = "u" in suf
    long_ = "l" in suf
    if long_:
        w = 64
    else:
        w = 32 if v < (1 << (32 if unsigned else 31)) else 64
        if not unsigned and tok.lower().startswith("0x") and v >= 1 << 31 and v < 1 << 32:
            w, unsigned = 32, True
    return E("%d#%d" % (v, w), w, not unsigned, v)


class Parser:
    def __init__(self, toks, env, fenv):
        self.t, self.i, self.env, self.fenv = toks, 0, env, fenv
        self.calls = []

    def peek(self):
        return self.t[self.i] if self.i < len(self.t) else None

    def eat(self, x=None):
        tok = self.peek()
        if x is not None and tok != x:
            raise Unavailable("expected %r, found %r" % (x, tok))
        self.i += 1
        return tok

    LEVELS = [["||"], ["&&"], ["|"], ["&"], ["==", "!="], ["<", "<=", ">", ">="], ["<<", ">>"], ["+", "-"], ["*"]]

    def expr(self, lvl=0):
        if lvl == len(self.LEVELS):
            return self.unary()
        a = self.expr(lvl + 1)
        while self.peek() in self.LEVELS[lvl]:
            op = self.eat()
            b = self.expr(lvl + 1)
            a = self.binop(op, a, b)
        return a

    def binop(self, op, a, b):
        if op in ("&&", "||"):
            if not (a.isbool and b.isbool):
                raise Unavailable("logical operator on non-boolean")
            return E("(%s %s %s)" % (a.term, op, b.term), 1, False, isbool=True)
        if op in ("<<", ">>"):
            a = promote(a)
            if b.const is None:
                raise Unavailable("non-constant shift amount")
            if op == ">>" and a.signed:
                raise Unavailable("right shift of signed operand")
            c = None
            if a.const is not None:
                c = (a.const << b.const) % (1 << a.width) if op == "<<" else a.const >> b.const
            return E("(%s %s %d)" % (a.term, "<<<" if op == "<<" else ">>>", b.const), a.width, a.signed, c)
        x, y, w, s = usual(a, b)
        if op in ("==", "!=", "<", "<=", ">", ">="):
            if op == "==":
                t = "(%s == %s)" % (x.term, y.term)
            elif op == "!=":
                t = "(%s != %s)" % (x.term, y.term)
            else:
                fn = {"<": "slt", "<=": "sle"} if s else {"<": "ult", "<=": "ule"}
                if op in ("<", "<="):
                    t = "(BitVec.%s %s %s)" % (fn[op], x.term, y.term)
                else:
                    t = "(BitVec.%s %s %s)" % (fn["<" if op == ">" else "<="], y.term, x.term)
            return E(t, 1, False, isbool=True)
        lean = {"&": "&&&", "|": "|||", "+": "+", "-": "-", "*": "*"}[op]
        c = None
        if x.const is not None and y.const is not None:
            c = {"&": x.const & y.const, "|": x.const | y.const, "+": x.const + y.const,
                 "-": x.const - y.const, "*": x.const * y.const}[op]
            if not s:
                c %= 1 << w
        return E("(%s %s %s)" % (x.term, lean, y.term), w, s, c)

    def unary(self):
        tok = self.peek()
        if tok == "~":
            self.eat()
            a = promote(self.unary())
            c = None if a.const is None else (~a.const) % (1 << a.width)
            return E("(~~~%s)" % a.term, a.width, a.signed, c)
        if tok == "-":
            self.eat()
            a = promote(self.unary())
            return E("(-%s)" % a.term, a.width, a.signed, None if a.const is None else -a.const)
        return self.postfix()

    def postfix(self):
        tok = self.eat()
        if tok == "(":
            e = self.expr()
            self.eat(")")
            return e
        if re.match(r"\d", tok):
            return lit(tok)
        if tok == "sizeof":
            self.eat("(")
            words = []
            while self.peek() != ")":
                words.append(self.eat())
            self.eat(")")
            ty = " ".join(words)
            if ty in CTYPES:
                n = CTYPES[ty][0] // 8
            elif ty in self.env:
                n = self.env[ty].width // 8
            else:
                raise Unavailable("sizeof(%s)" % ty)
            return E("%d#64" % n, 64, False, n)
        if self.peek() == "(":      # call
            self.eat("(")
            args = []
            while self.peek() != ")":
                if self.peek() == "ptr":
                    self.eat()
                    args.append("ptr")
                else:
                    args.append(self.expr())
                if self.peek() == ",":
                    self.eat()
            self.eat(")")
            return self.call(tok, args)
        if self.peek() == ".":
            self.eat()
            field = self.eat()
            if tok not in self.env or field not in FIELD:
                raise Unavailable("member access %s.%s" % (tok, field))
            v = self.env[tok]
            w, s = FIELD[field]
            if w != v.width:
                raise Unavailable("union field width")
            return E(v.term, w, s)
        if tok in self.env:
            return self.env[tok]
        raise Unavailable("unknown identifier %r" % tok)

    def call(self, name, args):
        if name not in self.fenv:
            raise Unavailable("call to untranslated function %s" % name)
        f = self.fenv[name]
        self.calls.append(name)
        if f["kind"] == "value":           # swap
            if len(args) != 1 or args[0] == "ptr":
                raise Unavailable("bad call")
            return E("(%s %s)" % (name, "(" + conv(args[0], f["pw"]) + ")"), f["rw"], f["rs"])
        if f["kind"] == "ref":
            if args != ["ptr"]:
                raise Unavailable("bad ref call")
            return E("(%s %s)" % (name, " ".join("s%d" % i for i in range(f["arity"]))), f["rw"], f["rs"], None)
        if f["kind"] == "set":
            if len(args) != 2 or args[0] != "ptr":
                raise Unavailable("bad set call")
            e = E("(%s (%s))" % (name, conv(args[1], f["pw"])), 0, False)
            e.setcall = name
            return e
        raise Unavailable("call kind")


# ---------------------------------------------------------------- functions

def parse_params(params):
    """-> (has_ptr, value (width, signed) or None)"""
    ps = [p.strip() for p in params.split(",")]
    has_ptr, val = False, None
    for p in ps:
        if re.match(r"(const )?void \*\s*ptr$", p):
            has_ptr = True
            continue
        m = re.match(r"(?:const )?([\w ]+?) value$", p)
        if m and m.group(1) in CTYPES:
            val = CTYPES[m.group(1)]
            continue
        raise Unavailable("parameter %r" % p)
    return has_ptr, val


def translate(fn, host_big, fenv):
    ret, name, params, stmts = fn
    has_ptr, val = parse_params(params)
    env = {}
    if val:
        env["value"] = E("value", val[0], val[1])
    retw = None
    if ret in CTYPES:
        retw = CTYPES[ret]
    elif ret == "_Bool":
        retw = "bool"
    elif ret == "void*":
        retw = "ptr"
    else:
        raise Unavailable("return type %r" % ret)
    calls = []
    lets = []            # (name, term)
    src_kind = dst_kind = None
    lanes_ref = {}       # dst lane -> src index   (ref native)
    stores = {}          # dst index -> lane of value (set native)
    max_src = -1
    result = None
    set_ret = None
    i = 0

    def parse(s):
        p = Parser(tokenize(s), env, fenv)
        e = p.expr()
        if p.peek() is not None:
            raise Unavailable("trailing tokens in %r" % s)
        calls.extend(p.calls)
        return e

    in_if = None
    while i < len(stmts):
        s = stmts[i]
        i += 1
        m = re.match(r"(uint16_t|uint32_t|uint64_t) buffer = (\S+)$", s)
        if m:
            w = CTYPES[m.group(1)][0]
            e = parse(m.group(2))
            if e.const != 0:
                raise Unavailable("buffer initialiser")
            env["buffer"] = E("buffer", w, False)
            bufw = w
            continue
        if s == "const unsigned char *src = ptr":
            src_kind = "mem"
            continue
        if s == "unsigned char *dst = (unsigned char*)&buffer":
            dst_kind = "buffer"
            continue
        if s == "const unsigned char *src = (const unsigned char*)&value":
            src_kind = "value"
            continue
        if s == "unsigned char *dst = ptr":
            dst_kind = "mem"
            continue
        m = re.match(r"dst\[(\d+)u?\] = src\[(\d+)u?\]$", s)
        if m:
            d, sidx = int(m.group(1)), int(m.group(2))
            if src_kind == "mem" and dst_kind == "buffer":
                nb = bufw // 8
                if d >= nb:
                    raise Unavailable("dst index outside buffer object")
                lane = nb - 1 - d if host_big else d
                lanes_ref[lane] = sidx
                max_src = max(max_src, sidx)
            elif src_kind == "value" and dst_kind == "mem":
                nb = val[0] // 8
                if sidx >= nb:
                    raise Unavailable("src index outside value object")
                lane = nb - 1 - sidx if host_big else sidx
                stores[d] = lane
            else:
                raise Unavailable("octet copy without roles")
            continue
        if s == "return buffer":
            terms = ["(0#%d)" % bufw]
            for lane, sidx in sorted(lanes_ref.items()):
                terms.append("((s%d).setWidth %d <<< %d)" % (sidx, bufw, 8 * lane))
            result = E("(" + " ||| ".join(terms) + ")", bufw, False)
            continue
        m = re.match(r"return dst \+ (.+)$", s)
        if m:
            e = parse(m.group(1))
            if e.const is None:
                raise Unavailable("returned pointer offset")
            set_ret = e.const
            n = len(stores)
            if sorted(stores) != list(range(n)):
                raise Unavailable("destination octets not contiguous from 0")
            result = "[" + ", ".join("(value >>> %d).setWidth 8" % (8 * stores[d]) for d in range(n)) + "]"
            continue
        m = re.match(r"(?:const )?union bf_convert(16|32|64) data = \{ \.(\w+) = (.+) \}$", s)
        if m:
            w = int(m.group(1))
            e = parse(m.group(3))
            fw, fs = FIELD[m.group(2)]
            if fw != w:
                raise Unavailable("union initialiser width")
            lets.append(("data", conv(e, w)))
            env["data"] = E("data", w, False)
            continue
        m = re.match(r"const (int32_t|int64_t) a = (.+)$", s)
        if m:
            w, sg = CTYPES[m.group(1)]
            e = parse(m.group(2))
            lets.append(("a", conv(e, w)))
            env["a"] = E("a", w, sg)
            continue
        m = re.match(r"if \((.+)\) \{$", s)
        if m:
            in_if = parse(m.group(1))
            if not in_if.isbool:
                raise Unavailable("if condition")
            continue
        m = re.match(r"data\.(\w+) \|= (.+)$", s)
        if m and in_if is not None:
            w, _ = FIELD[m.group(1)]
            e = parse(m.group(2))
            lets.append(("data", "if %s then data ||| %s else data" % (in_if.term, conv(e, w))))
            continue
        if s == "}" and in_if is not None:
            in_if = None
            continue
        m = re.match(r"return (.+)$", s)
        if m:
            e = parse(m.group(1))
            if getattr(e, "setcall", None):
                result = e.term
                set_ret = fenv[e.setcall]["ret"]
            elif retw == "bool":
                if not e.isbool:
                    raise Unavailable("boolean return")
                result = e.term
            else:
                result = E(conv(e, retw[0]), retw[0], retw[1])
            continue
        raise Unavailable("statement %r" % s)
    if result is None:
        raise Unavailable("no return")
    # assemble
    info = {"name": name, "calls": sorted(set(calls))}
    body = ""
    for n, t in lets:
        body += "  let %s := %s\n" % (n, t)
    if retw == "ptr":
        info.update(kind="set", pw=val[0], ret=set_ret)
        body += "  " + result
        sig = "(value : BitVec %d) : List (BitVec 8)" % val[0]
    elif retw == "bool":
        info.update(kind="pred", pw=val[0], ps=val[1])
        body += "  " + result
        sig = "(value : BitVec %d) : Bool" % val[0]
    elif has_ptr:
        arity = max_src + 1 if max_src >= 0 else max(fenv[c]["arity"] for c in calls if fenv[c]["kind"] == "ref")
        info.update(kind="ref", arity=arity, rw=retw[0], rs=retw[1])
        body += "  " + result.term
        sig = "(%s : BitVec 8) : BitVec %d" % (" ".join("s%d" % k for k in range(arity)), retw[0])
    else:
        info.update(kind="value", pw=val[0], rw=retw[0], rs=retw[1])
        body += "  " + result.term
        sig = "(value : BitVec %d) : BitVec %d" % (val[0], retw[0])
    info["lean"] = "def %s %s :=\n%s\n" % (name, sig, body)
    return info


# ---------------------------------------------------------------- specs from names

def spec_for(info, host_big):
    """(statement, proof) of the obligation for one translated function, from its NAME."""
    name = info["name"]
    m = re.match(r"bf_swap(\d+)$", name)
    if m:
        n = int(m.group(1)) // 8
        w = info["pw"]
        octs = " ++ ".join("value.extractLsb' %d 8" % (8 * k) for k in range(n))   # lane 0 most significant
        return ("(value : BitVec %d) : %s value = (%s).setWidth %d" % (w, name, octs, w), None)
    m = re.match(r"bf_(ref|set)_([usf])(\d+)([nbl])$", name)
    if m:
        op, kind, bits, order = m.group(1), m.group(2), int(m.group(3)), m.group(4)
        n = bits // 8
        big = host_big if order == "n" else order == "b"
        if op == "ref":
            if info["arity"] != n:
                return None
            seq = list(range(n)) if big else list(range(n - 1, -1, -1))
            cat = " ++ ".join("s%d" % k for k in seq)
            ext = "signExtend" if kind == "s" else "setWidth"
            args = " ".join("s%d" % k for k in range(n))
            return ("(%s : BitVec 8) : %s %s = (%s).%s %d" % (args, name, args, cat, ext, info["rw"]), None)
        seq = list(range(n - 1, -1, -1)) if big else list(range(n))     # lane stored at dst[0], dst[1], ...
        lst = ", ".join("value.extractLsb' %d 8" % (8 * k) for k in seq)
        return ("(value : BitVec %d) : %s value = [%s]" % (info["pw"], name, lst), "list")
    m = re.match(r"bf_inrange_([us])(\d+)$", name)
    if m:
        kind, bits = m.group(1), int(m.group(2))
        w = info["pw"]
        if kind == "u":
            return ("(value : BitVec %d) : %s value = decide (value.toNat < 2 ^ %d)" % (w, name, bits), "pred_u")
        return ("(value : BitVec %d) : %s value = decide (-(2 : Int) ^ %d ≤ value.toInt ∧ value.toInt < 2 ^ %d)" % (w, name, bits - 1, bits - 1), "pred_s")
    return None


def closure(name, infos):
    seen, todo = [], [name]
    while todo:
        n = todo.pop()
        if n in seen:
            continue
        seen.append(n)
        todo += infos[n]["calls"]
    return seen


def gen_host(host_big):
    tag = "BE" if host_big else "LE"
    text = preprocess(host_big)
    fns = functions(text)
    fenv, infos, order, status = {}, {}, [], {}
    for fn in fns:
        name = fn[1]
        # builtin variants are not selected (no UFW_USE_BUILTIN_SWAP); a body that uses them is unavailable
        try:
            info = translate(fn, host_big, fenv)
            fenv[name] = info
            infos[name] = info
            order.append(name)
            status[name] = "translated"
        except Unavailable as e:
            status[name] = "unavailable(%s)" % e
    defs = ["/-\nGENERATED by tools/gen/binfmt.py from /repo/include/ufw/binary-format.h, preprocessed for a\n"
            "%s-endian host (mask/shift swap code) - do not edit.  One definition per C function:\n"
            "loads take the octets at `ptr` (s0 = ptr[0], ...), stores return the octets written at ptr[0..].\n-/\n"
            "namespace Ufw.Gen.BinFmt%s\n" % ("big" if host_big else "little", tag)]
    for n in order:
        defs.append(infos[n]["lean"])
        if infos[n]["kind"] == "set":
            defs.append("def %s_ret : Nat := %d\n" % (n, infos[n]["ret"]))
    # dispatch tables for the driver
    refs = [n for n in order if infos[n]["kind"] == "ref"]
    sets = [n for n in order if infos[n]["kind"] == "set"]
    vals = [n for n in order if infos[n]["kind"] == "value"]
    preds = [n for n in order if infos[n]["kind"] == "pred"]
    defs.append("def refTable : List (String × Nat × Nat × (List (BitVec 8) → Nat)) := [")
    rows = []
    for n in refs:
        a = infos[n]["arity"]
        args = " ".join("(l.getD %d 0#8)" % k for k in range(a))
        rows.append('  ("%s", %d, %d, fun l => (%s %s).toNat)' % (n, a, infos[n]["rw"], n, args))
    defs.append(",\n".join(rows) + "]\n")
    defs.append("def setTable : List (String × Nat × Nat × (Nat → List (BitVec 8))) := [")
    defs.append(",\n".join('  ("%s", %d, %s_ret, fun v => %s (BitVec.ofNat %d v))' % (n, infos[n]["pw"], n, n, infos[n]["pw"]) for n in sets) + "]\n")
    defs.append("def valTable : List (String × Nat × (Nat → Nat)) := [")
    defs.append(",\n".join('  ("%s", %d, fun v => (%s (BitVec.ofNat %d v)).toNat)' % (n, infos[n]["pw"], n, infos[n]["pw"]) for n in vals) + "]\n")
    defs.append("def predTable : List (String × Nat × (Nat → Bool)) := [")
    defs.append(",\n".join('  ("%s", %d, fun v => %s (BitVec.ofNat %d v))' % (n, infos[n]["pw"], n, infos[n]["pw"]) for n in preds) + "]\n")
    defs.append("end Ufw.Gen.BinFmt%s\n" % tag)
    vf.write_if_changed(os.path.join(vf.LEAN, "Ufw/Gen/BinFmt%s.lean" % tag), "\n".join(defs))

    # obligations
    prf = ["/-\nGENERATED by tools/gen/binfmt.py - do not edit.  One obligation per translated function of\n"
           "binary-format.h (%s-endian host): the definition read from the C body equals what the function's\n"
           "name promises (width, kind, octet order).  Bit-vector goals by bv_decide.\n-/\n"
           "import Std.Tactic.BVDecide\nimport Ufw.Gen.BinFmt%s\nimport Ufw.Lemmas.EndianLink\n\nnamespace Ufw.Gen.BinFmt%s\n" % ("big" if host_big else "little", tag, tag)]
    obligations = []
    for n in order:
        sp = spec_for(infos[n], host_big)
        if sp is None:
            status[n] = "translated, no name-derived obligation"
            continue
        stmt, how = sp
        unfold = " ".join(closure(n, infos))
        if how == "list":
            k = stmt.count("extractLsb'")
            proof = "  simp only [%s]\n  simp only [List.cons.injEq, and_true]\n  refine ⟨%s⟩ <;> bv_decide" % (
                unfold.replace(" ", ", "), ", ".join(["?_"] * k)) if k > 1 else "  simp only [%s]\n  simp only [List.cons.injEq, and_true]\n  bv_decide" % unfold.replace(" ", ", ")
        elif how == "pred_u":
            proof = ("  have h : decide (value.toNat < 2 ^ %s) = BitVec.ult value (BitVec.ofNat %d (2 ^ %s)) := by\n"
                     "    simp [BitVec.ult, BitVec.toNat_ofNat]\n  rw [h]\n  simp only [%s]\n  bv_decide") % (
                re.search(r"2 \^ (\d+)", stmt).group(1), infos[n]["pw"], re.search(r"2 \^ (\d+)", stmt).group(1), unfold.replace(" ", ", "))
        elif how == "pred_s":
            b = int(re.search(r"\^ (\d+) ≤", stmt).group(1))
            w = infos[n]["pw"]
            proof = ("  have h : decide (-(2 : Int) ^ %d ≤ value.toInt ∧ value.toInt < 2 ^ %d) =\n"
                     "      (BitVec.sle (BitVec.ofInt %d (-(2 ^ %d))) value && BitVec.slt value (BitVec.ofInt %d (2 ^ %d))) := by\n"
                     "    simp only [BitVec.sle, BitVec.slt, BitVec.toInt_ofInt, Bool.decide_and]\n"
                     "    congr 1 <;> congr 1 <;> simp <;> rfl\n  rw [h]\n  simp only [%s]\n  bv_decide") % (
                b, b, w, b, w, b, unfold.replace(" ", ", "))
        else:
            proof = "  simp only [%s]\n  bv_decide" % unfold.replace(" ", ", ")
        prf.append("theorem %s_eq_spec %s := by\n%s\n" % (n, stmt, proof))
        obligations.append("Ufw.Gen.BinFmt%s.%s_eq_spec" % (tag, n))
    # property-level obligations over the generated definitions: store length / returned pointer,
    # load-after-store round trip (under the range predicate for the odd widths), swap involution
    have = set(o.split(".")[-1] for o in obligations)
    for n in order:
        m = re.match(r"bf_set_([usf])(\d+)([nbl])$", n)
        if m and n + "_eq_spec" in have:
            kind, bits, o = m.group(1), int(m.group(2)), m.group(3)
            nb = bits // 8
            w = infos[n]["pw"]
            prf.append("theorem %s_len_ret (value : BitVec %d) : (%s value).length = %d ∧ %s_ret = %d := by\n"
                       "  rw [%s_eq_spec]; exact ⟨rfl, rfl⟩\n" % (n, w, n, nb, n, nb, n))
            obligations.append("Ufw.Gen.BinFmt%s.%s_len_ret" % (tag, n))
            ref = "bf_ref_%s%d%s" % (kind, bits, o)
            if ref + "_eq_spec" not in have:
                continue
            pred = "bf_inrange_%s%d" % (kind, bits)
            hyp = "(h : %s value = true) " % pred if pred in infos else ""
            os_ = " ".join("o%d" % k for k in range(nb))
            lst = ", ".join("o%d" % k for k in range(nb))
            pat = ", ".join("h%d" % k for k in range(nb))
            prf.append("theorem roundtrip_%s%d%s (value : BitVec %d) %s:\n"
                       "    ∀ %s : BitVec 8, %s value = [%s] → %s %s = value := by\n"
                       "  intro %s hs\n  rw [%s_eq_spec] at hs\n  simp only [List.cons.injEq, and_true] at hs\n"
                       "  obtain ⟨%s⟩ := hs\n  subst %s\n  rw [%s_eq_spec]\n%s  bv_decide\n" % (
                           kind, bits, o, w, hyp, os_, n, lst, ref, os_, os_, n, pat, pat.replace(",", ""), ref,
                           ("  simp only [%s] at h\n" % ", ".join(closure(pred, infos))) if hyp else ""))
            obligations.append("Ufw.Gen.BinFmt%s.roundtrip_%s%d%s" % (tag, kind, bits, o))
        m = re.match(r"bf_(ref|set)_([usf])(\d+)([nbl])$", n)
        if m and n + "_eq_spec" in have:
            # chain to the arithmetic spec (Ufw/Spec/Endian.lean) through the link lemmas
            op, kind, bits, o = m.group(1), m.group(2), int(m.group(3)), m.group(4)
            nb = bits // 8
            big = host_big if o == "n" else o == "b"
            ltag = ("be" if big else "le") + str(nb)
            B = "true" if big else "false"
            if op == "ref":
                args = " ".join("s%d" % k for k in range(nb))
                lst = ", ".join("s%d" % k for k in range(nb))
                if kind == "s":
                    prf.append("theorem %s_arith (%s : BitVec 8) : (%s %s).toInt = Ufw.Spec.Endian.loadS %s [%s] := by\n"
                               "  rw [%s_eq_spec]; exact Ufw.Lemmas.EndianLink.loadS_%s %s\n" % (n, args, n, args, B, lst, n, ltag, args))
                else:
                    prf.append("theorem %s_arith (%s : BitVec 8) : (%s %s).toNat = Ufw.Spec.Endian.loadU %s [%s] := by\n"
                               "  rw [%s_eq_spec]; exact Ufw.Lemmas.EndianLink.loadU_%s %s\n" % (n, args, n, args, B, lst, n, ltag, args))
            else:
                prf.append("theorem %s_arith (value : BitVec %d) : %s value = Ufw.Spec.Endian.store %s %d value.toNat := by\n"
                           "  rw [%s_eq_spec]; exact Ufw.Lemmas.EndianLink.store_%s value\n" % (n, infos[n]["pw"], n, B, nb, n, ltag))
            obligations.append("Ufw.Gen.BinFmt%s.%s_arith" % (tag, n))
        m = re.match(r"bf_swap(\d+)$", n)
        if m:
            bits, w = int(m.group(1)), infos[n]["pw"]
            rhs = "value" if bits == w else "value &&& %d#%d" % ((1 << bits) - 1, w)
            prf.append("theorem %s_involutive (value : BitVec %d) : %s (%s value) = %s := by\n  simp only [%s]\n  bv_decide\n" % (
                n, w, n, n, rhs, n))
            obligations.append("Ufw.Gen.BinFmt%s.%s_involutive" % (tag, n))
    prf.append("end Ufw.Gen.BinFmt%s\n" % tag)
    vf.write_if_changed(os.path.join(vf.LEAN, "Ufw/Gen/BinFmt%sProofs.lean" % tag), "\n".join(prf))
    return status, obligations


def gen():
    st = {}
    obl = []
    for big in (False, True):
        s, o = gen_host(big)
        st.update({("BE:" if big else "LE:") + k: v for k, v in s.items()})
        obl += o
    gen.obligations = obl
    return st


if __name__ == "__main__":
    s = gen()
    bad = {k: v for k, v in s.items() if v != "translated"}
    print(len(s), "functions;", len(bad), "not fully translated")
    for k, v in bad.items():
        print(" ", k, v)
