#!/usr/bin/env python3
"""Build everything the checks need, offline: toolchain.h via /repo's cmake code,
the Lean library (all property theorems), the model drivers, the C harnesses."""
import importlib
import os
import sys
import time

sys.path.insert(0, os.path.join(os.path.dirname(os.path.abspath(__file__)), "lib"))
sys.path.insert(0, os.path.dirname(os.path.abspath(__file__)))
import vf  # noqa: E402


def main():
    t0 = time.time()
    inc = vf.toolchain_include()
    print("toolchain.h:", inc)
    props = sorted(f[:-3] for f in os.listdir(os.path.join(vf.ROOT, "tools/props")) if f.startswith("C") and f.endswith(".py"))
    targets, seen = [], set()
    mods = []
    for p in props:
        m = importlib.import_module("props." + p)
        mods.append(m)
        for g in getattr(m, "GEN", []):
            try:
                g()
            except Exception as e:
                print("generator", g, "unavailable:", e)
        targets += ["Ufw.Props." + p, m.DRIVER] + list(getattr(m, "TIE", [])) + list(getattr(m, "EXTRA_MODULES", []))
        if hasattr(m, "tie_modules"):
            targets += list(m.tie_modules())
    ok, out = vf.lake_build(sorted(set(targets)))
    print(out[-3000:] if not ok else "lake build ok (%d targets)" % len(set(targets)))
    for m in mods:
        if m.HARNESS not in seen:
            seen.add(m.HARNESS)
            try:
                print("harness:", vf.build_harness(m.HARNESS))
            except vf.BuildError as e:
                print(e)
                ok = False
    print("setup %.1fs" % (time.time() - t0))
    sys.exit(0 if ok else 1)


if __name__ == "__main__":
    main()
