#!/bin/bash
# usage: proc_mutant.sh Cxx name [extra check ids...]
p=$1; name=$2; shift 2
cd /verif
python3 tools/adopt_mutant.py $p /tmp/wt-$p $name 2>&1 | tail -2
git -C /repo worktree remove --force /tmp/wt-$p; git -C /repo worktree prune
python3 tools/check.py $p 2>&1 | tail -1
