#!/usr/bin/env python3
"""Development-time self validation (not a registered check): apply each patch under
seeded/*/patch.diff to a scratch worktree of /repo (outside /repo and /verif, removed at the end),
run the quick check of the property it breaks against that worktree (UFW_REPO), record whether a
VIOLATION is reported, undo the patch.  /repo itself is never touched, so this can run from a
`vp run` snapshot while work goes on.  `--reverts` first (re)creates one seeded
entry per `fix:` commit of /repo (the fix reverted)."""
import json
import os
import subprocess
import sys

ROOT = os.path.dirname(os.path.dirname(os.path.abspath(__file__)))
REPO = "/repo"


def sh(cmd, **kw):
    return subprocess.run(cmd, shell=True, stdout=subprocess.PIPE, stderr=subprocess.STDOUT, text=True, **kw)


def make_reverts():
    log = sh("git -C %s log --format='%%h %%s' --reverse" % REPO).stdout.strip().split("\n")
    known = open(os.path.join(ROOT, "KNOWN_FINDINGS.txt")).read()
    for line in log:
        h, subj = line.split(" ", 1)
        if not subj.startswith("fix:"):
            continue
        prop = None
        for l in known.split("\n"):
            if l.startswith("fixed:") and h in l:
                prop = l.split("property=")[1].split()[0]
        if not prop:
            print("no fixed: line for", h, subj)
            continue
        d = os.path.join(ROOT, "seeded", "revert-" + h)
        os.makedirs(d, exist_ok=True)
        patch = sh("git -C %s show %s --format= | (cd %s && git apply -R --check - ) ; git -C %s diff %s %s~1" % (REPO, h, REPO, REPO, h, h)).stdout
        patch = sh("git -C %s diff %s %s~1" % (REPO, h, h)).stdout
        if not os.path.exists(os.path.join(d, "patch.diff")):      # a hand-adjusted revert (later commits nearby) is kept
            open(os.path.join(d, "patch.diff"), "w").write(patch)
        meta = {"property": prop, "origin": "revert of /repo commit %s (%s)" % (h, subj),
                "needs": "see the fixed: line of KNOWN_FINDINGS.txt for the failing input",
                "demonstration": "the check's replay file"}
        if not os.path.exists(os.path.join(d, "meta.json")):
            json.dump(meta, open(os.path.join(d, "meta.json"), "w"), indent=1)


def main():
    if "--reverts" in sys.argv:
        make_reverts()
    only = [a for a in sys.argv[1:] if not a.startswith("--")]
    results = {}
    global REPO
    src = REPO
    REPO = "/tmp/ufw-selftest-%d" % os.getpid()
    r = sh("git -C %s worktree add --detach %s HEAD" % (src, REPO))
    assert r.returncode == 0, r.stdout
    os.environ["UFW_REPO"] = REPO
    try:
        run_all(only, results)
    finally:
        sh("git -C %s worktree remove --force %s" % (src, REPO))
    json.dump(results, open(os.path.join(ROOT, "build", "selftest.json"), "w"), indent=1)
    caught = sum(1 for v in results.values() if isinstance(v, dict) and all(x.startswith("CAUGHT") for x in v.values()))
    print("caught %d of %d" % (caught, len(results)))


def run_all(only, results):
    for name in sorted(os.listdir(os.path.join(ROOT, "seeded"))):
        d = os.path.join(ROOT, "seeded", name)
        if only and name not in only:
            continue
        if not os.path.exists(os.path.join(d, "patch.diff")):
            continue
        meta = json.load(open(os.path.join(d, "meta.json")))
        props = meta["property"] if isinstance(meta["property"], list) else [meta["property"]]
        r = sh("git -C %s apply %s" % (REPO, os.path.join(d, "patch.diff")))
        if r.returncode != 0:
            # later commits touched neighbouring lines: three-way merge against the recorded blobs
            r = sh("git -C %s apply --3way %s" % (REPO, os.path.join(d, "patch.diff")))
        if r.returncode != 0:
            sh("git -C %s checkout HEAD -- ." % REPO)
            results[name] = "patch does not apply: " + r.stdout[-200:]
            print(name, results[name], flush=True)
            continue
        try:
            out = {}
            for p in props:
                c = sh("python3 tools/check.py %s --tier quick" % p, cwd=ROOT)
                v = [l for l in c.stdout.split("\n") if l.startswith("VIOLATION")]
                out[p] = ("CAUGHT " + ("without input" if v[0].endswith("no-failing-input-found") else "with replay")) if v else "MISSED (exit %d)" % c.returncode
            # a change whose effect lies in another property's statement (meta "caught_by"): that check is run when the own one is silent
            if any(v.startswith("MISSED") for v in out.values()):
                for p in meta.get("caught_by", []):
                    c = sh("python3 tools/check.py %s --tier quick" % p, cwd=ROOT)
                    v = [l for l in c.stdout.split("\n") if l.startswith("VIOLATION")]
                    if v:
                        out = {"%s (by the check of %s)" % ("+".join(props), p): "CAUGHT " + ("without input" if v[0].endswith("no-failing-input-found") else "with replay")}
                        break
            results[name] = out
        finally:
            sh("git -C %s checkout HEAD -- ." % REPO)
        print(name, results[name], flush=True)


if __name__ == "__main__":
    main()
