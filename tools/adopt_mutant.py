#!/usr/bin/env python3
"""Development-time helper (not a registered check): take the change a fresh sub-agent produced in a
scratch worktree (<wt>/MUTANT/{patch.diff,demo.c,README.md}), confirm in that worktree that the
library still builds and its whole test suite still passes with the change applied, and keep it as
/verif/seeded/<name>/ (patch.diff, demo.c, README.md, meta.json).  Usage:
    adopt_mutant.py <property id> <worktree> [name]"""
import json
import os
import shutil
import subprocess
import sys

ROOT = os.path.dirname(os.path.dirname(os.path.abspath(__file__)))


def sh(cmd, **kw):
    return subprocess.run(cmd, shell=True, stdout=subprocess.PIPE, stderr=subprocess.STDOUT, text=True, **kw)


def main():
    pid, wt = sys.argv[1], sys.argv[2]
    name = sys.argv[3] if len(sys.argv) > 3 else "agent-" + pid
    mut = os.path.join(wt, "MUTANT")
    assert os.path.exists(os.path.join(mut, "patch.diff")), "no patch.diff"
    # the patch as the worktree has it now (the agent's file may be stale)
    diff = sh("git -C %s diff -- src include" % wt).stdout
    assert diff.strip(), "worktree has no change under src/ or include/"
    b = sh("cmake -G Ninja -S %s -B %s/_build >/dev/null && cmake --build %s/_build 2>&1 | tail -3" % (wt, wt, wt))
    t = sh("ctest --test-dir %s/_build -V 2>&1" % wt).stdout
    ok = sum(1 for l in t.split("\n") if __import__("re").match(r"^\d+: ok", l))
    nok = sum(1 for l in t.split("\n") if __import__("re").match(r"^\d+: not ok", l))
    print("build tail:", b.stdout.strip()[-200:])
    print("tests: ok=%d not_ok=%d" % (ok, nok))
    assert ok == 1132 and nok == 0, "test suite does not pass with the change"
    d = os.path.join(ROOT, "seeded", name)
    os.makedirs(d, exist_ok=True)
    open(os.path.join(d, "patch.diff"), "w").write(diff)
    for f in ("demo.c", "README.md"):
        if os.path.exists(os.path.join(mut, f)):
            shutil.copy(os.path.join(mut, f), os.path.join(d, f))
    meta = {"property": pid, "origin": "fresh sub-agent given only the property text and a scratch worktree",
            "tests_pass_with_change": "1132 ok / 0 not ok (confirmed in the scratch worktree)",
            "needs": open(os.path.join(mut, "README.md")).read()[:1500] if os.path.exists(os.path.join(mut, "README.md")) else "",
            "demonstration": "demo.c (compile line at its top)"}
    json.dump(meta, open(os.path.join(d, "meta.json"), "w"), indent=1)
    print("kept as", d)


if __name__ == "__main__":
    main()
