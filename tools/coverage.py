#!/usr/bin/env python3
"""Development-time (not a registered check): line/branch coverage of /repo's sources under the quick case sets.
Builds every harness with gcc --coverage in a scratch directory under /tmp, runs the quick cases of all
properties that use it, prints per-file figures and the uncovered lines of the anchored files.
    coverage.py [harness ...]"""
import collections
import importlib
import os
import re
import shutil
import subprocess
import sys

HERE = os.path.dirname(os.path.abspath(__file__))
sys.path.insert(0, os.path.join(HERE, "lib"))
sys.path.insert(0, HERE)
import vf  # noqa: E402


def main():
    want = sys.argv[1:]
    props = sorted(f[:-3] for f in os.listdir(os.path.join(HERE, "props")) if re.match(r"C\d\d\.py$", f))
    by_h = collections.defaultdict(list)
    for p in props:
        m = importlib.import_module("props." + p)
        by_h[m.HARNESS].append(m)
    scratch = "/tmp/ufw-cov-%d" % os.getpid()
    os.makedirs(scratch)
    inc = vf.toolchain_include()
    try:
        for h, mods in sorted(by_h.items()):
            if want and h not in want:
                continue
            d = os.path.join(scratch, h)
            os.makedirs(d)
            srcs = [os.path.join(vf.HARNESS, h + ".c")] + [os.path.join(vf.REPO, s) for s in vf.HARNESS_SRCS[h]]
            cmd = ["gcc", "-std=gnu99", "-O0", "-g", "--coverage", "-DSYSTEM_ENDIANNESS_LITTLE", "-D_DEFAULT_SOURCE", "-DNDEBUG",
                   "-I" + os.path.join(vf.REPO, "include"), "-I" + inc, "-I" + vf.HARNESS, "-I" + os.path.join(vf.REPO, "src")] + srcs + ["-o", "h", "-lm"]
            r = subprocess.run(cmd, cwd=d, stdout=subprocess.PIPE, stderr=subprocess.STDOUT, text=True)
            if r.returncode != 0:
                print(h, "does not build:", r.stdout[-500:])
                continue
            cases = []
            for m in mods:
                cs = m.cases(getattr(m, "QUICK_LEVEL", "quick"), 1)
                for c in cs:
                    c.cid = m.ID + "-" + c.cid
                cases += [c for c in cs if "deep" not in c.tags]      # (the recorded stack overflow would lose the counters)
            vf.run_program(os.path.join(d, "h"), cases)
            for s in vf.HARNESS_SRCS[h]:
                base = os.path.basename(s)
                g = subprocess.run(["gcov", "-b", "-c", "-f", "-o", d, "h-" + base], cwd=d, stdout=subprocess.PIPE, stderr=subprocess.STDOUT, text=True)
                m1 = re.search(r"File '[^']*" + re.escape(base) + r"'\nLines executed:([\d.]+)% of (\d+)\n(?:Branches executed:([\d.]+)% of (\d+)\nTaken at least once:([\d.]+)% of (\d+))?", g.stdout)
                print("%-12s %-28s lines %s%% of %s   branches taken %s%% of %s" % (h, s, m1.group(1), m1.group(2), m1.group(5), m1.group(6)) if m1 else (h, s, "no data"))
                for fm in re.finditer(r"Function '(\w+)'\nLines executed:([\d.]+)% of (\d+)\n(?:Branches executed:[\d.]+% of \d+\nTaken at least once:([\d.]+)% of (\d+))?", g.stdout):
                    if float(fm.group(2)) < 100 or (fm.group(4) and float(fm.group(4)) < 100):
                        print("      %-40s lines %6s%% of %-4s branches taken %s%% of %s" % (fm.group(1), fm.group(2), fm.group(3), fm.group(4), fm.group(5)))
                gc = os.path.join(d, base + ".gcov")
                if os.path.exists(gc) and os.environ.get("COV_LINES"):
                    shutil.copy(gc, os.path.join("/tmp", "cov-" + h + "-" + s.replace("/", "_") + ".gcov"))
    finally:
        shutil.rmtree(scratch, ignore_errors=True)


if __name__ == "__main__":
    main()
