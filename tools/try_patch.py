#!/usr/bin/env python3
"""Development-time: apply one patch to a scratch worktree of /repo (removed afterwards) and run the quick
checks of the given properties against it.   try_patch.py <patch.diff> C01 C02 ..."""
import os
import subprocess
import sys

ROOT = os.path.dirname(os.path.dirname(os.path.abspath(__file__)))


def sh(cmd, **kw):
    return subprocess.run(cmd, shell=True, stdout=subprocess.PIPE, stderr=subprocess.STDOUT, text=True, **kw)


def main():
    patch, props = os.path.abspath(sys.argv[1]), sys.argv[2:]
    wt = "/tmp/ufw-try-%d" % os.getpid()
    r = sh("git -C /repo worktree add --detach %s HEAD" % wt)
    assert r.returncode == 0, r.stdout
    try:
        r = sh("git -C %s apply %s" % (wt, patch))
        if r.returncode != 0:
            print("patch does not apply:", r.stdout[-300:])
            return
        env = dict(os.environ, UFW_REPO=wt)
        for p in props:
            c = sh("python3 tools/check.py %s --tier quick" % p, cwd=ROOT, env=env)
            lines = [l for l in c.stdout.split("\n") if l.startswith(("VIOLATION", "OK ", "KNOWN"))]
            print(os.path.basename(patch), p, "exit", c.returncode, "|", " ; ".join(l[:110] for l in lines if not l.startswith("KNOWN"))[:400], flush=True)
    finally:
        sh("git -C /repo worktree remove --force %s" % wt)


if __name__ == "__main__":
    main()
