#!/bin/sh
# Build /repo the way the baseline does (guard FT_UFW_VERIF off - no hooks exist)
# and run its pinned test suite; prints the TAP ok / not-ok counts.
set -e
REPO=${UFW_REPO:-/repo}
[ -d "$REPO/_build" ] || cmake -G Ninja -S "$REPO" -B "$REPO/_build" >/dev/null
cmake --build "$REPO/_build" >/dev/null
ctest --test-dir "$REPO/_build" -j8 --timeout 900 -V > /tmp/ufw-baseline.$$ 2>&1 || true
ok=$(grep -cE '^[0-9]+: ok' /tmp/ufw-baseline.$$ || true)
nok=$(grep -cE '^[0-9]+: not ok' /tmp/ufw-baseline.$$ || true)
tail -3 /tmp/ufw-baseline.$$
rm -f /tmp/ufw-baseline.$$
echo "tap ok=$ok not_ok=$nok"
[ "$nok" = 0 ] && [ "$ok" -gt 0 ]
