#!/usr/bin/env python3
"""
check.py <property> [--tier quick|thorough] [--replay FILE]

One run = regenerate the source-derived Lean files (tie A), build the property
theorems and the model driver, audit the axioms, build the C harness from
/repo's working tree, run the case set through implementation and model,
compare, write evidence, print the verdict.  See DESIGN.md section 3.4.
"""
import argparse
import collections
import importlib
import json
import os
import random
import re
import sys
import time

sys.path.insert(0, os.path.join(os.path.dirname(os.path.abspath(__file__)), "lib"))
sys.path.insert(0, os.path.dirname(os.path.abspath(__file__)))
import vf  # noqa: E402
from vf import Case  # noqa: E402


def load_corpus(prop_id):
    d = os.path.join(vf.ROOT, "corpus", prop_id)
    cases = []
    if os.path.isdir(d):
        for f in sorted(os.listdir(d)):
            if f.endswith(".ops"):
                ops = [l.rstrip("\n") for l in open(os.path.join(d, f)) if l.strip() and not l.startswith("#")]
                cases.append(Case("corpus-" + f[:-4], ops, ("corpus",)))
    return cases


def tier_cases(prop, tier, seed):
    """The case set of a tier.  Generators know two sizes ("quick", "thorough"); where the larger one costs only
    seconds it is what the quick tier runs (QUICK_LEVEL), and the thorough tier runs it for several seeds
    (THOROUGH_SEEDS: the enumerated families repeat and are dropped, the random ones differ)."""
    prop.REAL_TIER = tier       # generators whose quick tier runs their larger case set can still tell the tiers apart
    if tier == "quick":
        return prop.cases(getattr(prop, "QUICK_LEVEL", "quick"), seed)
    out, seen = [], set()
    for k in range(getattr(prop, "THOROUGH_SEEDS", 1)):
        for c in prop.cases("thorough", seed + 1000 * k):
            key = "\n".join(c.ops)
            if key in seen:
                continue
            seen.add(key)
            if k:
                c.cid = "s%d-%s" % (k, c.cid)
            out.append(c)
    return out


def run_compare(prop, hbin, dbin, cases):
    # two random draws of a generator may give the same name at some seed: the later case gets a numbered name
    # (deterministic: the order of the cases is), it is not dropped and the run does not stop
    count = {}
    for c in cases:
        count[c.cid] = count.get(c.cid, 0) + 1
        if count[c.cid] > 1:
            c.cid = "%s~%d" % (c.cid, count[c.cid])
    ids = [c.cid for c in cases]
    assert len(ids) == len(set(ids)), "case ids are not unique: %r" % [i for i in set(ids) if ids.count(i) > 1][:5]
    impl = vf.run_sharded(hbin, cases)
    model = vf.run_sharded(dbin, cases)
    diffs = []
    for c in cases:
        d = vf.compare_case(impl.get(c.cid, ["<no output>"]), model.get(c.cid, ["<no output>"]))
        if d:
            d["case"] = c
            diffs.append(d)
    return impl, model, diffs


def write_replay(prop_id, seed, n, payload):
    d = os.path.join(vf.BUILD, "replay")
    os.makedirs(d, exist_ok=True)
    path = os.path.join(d, "%s-%s-%d.json" % (prop_id, seed, n))
    with open(path, "w") as f:
        json.dump(payload, f, indent=1)
        f.write("\n")
    return path


def do_replay(prop, path):
    data = json.load(open(path))
    ops = data.get("ops")
    if not ops:
        print("replay file names a broken obligation, nothing to execute:")
        print(json.dumps(data, indent=1))
        return 0
    ok, out = vf.lake_build([prop.DRIVER])
    if not ok:
        print(out[-3000:])
        return 2
    hbin = vf.build_harness(prop.HARNESS, flavour=data.get("harness_flavour", "asan"))
    c = Case("replay", ops)
    a = vf.run_program(hbin, [c])["replay"]
    b = vf.run_program(vf.driver_path(prop.DRIVER), [c])["replay"]
    for i, op in enumerate(ops):
        x = a[i] if i < len(a) else "<no output>"
        y = b[i] if i < len(b) else "<no output>"
        print("%s %s\n    impl : %s\n    model: %s" % ("!!" if x != y else "  ", op, x, y))
    for extra in a[len(ops):]:
        print("!! impl:", extra)
    return 1 if vf.compare_case(a, b) else 0


def main():
    ap = argparse.ArgumentParser()
    ap.add_argument("prop")
    ap.add_argument("--tier", default=os.environ.get("VERIF_TIER", "quick"), choices=["quick", "thorough"])
    ap.add_argument("--replay")
    args = ap.parse_args()
    seed = int(os.environ.get("VERIF_SEED", "1"))
    t0 = time.time()
    prop = importlib.import_module("props." + args.prop)
    pid = prop.ID
    if args.replay:
        sys.exit(do_replay(prop, args.replay))

    rd = os.path.join(vf.BUILD, "replay")
    if os.path.isdir(rd):
        for f in os.listdir(rd):
            if f.startswith(pid + "-"):
                os.remove(os.path.join(rd, f))
    violations = []       # (replay path, suffix)
    known_lines = []
    problems = []         # broken obligations / correspondence (no concrete input yet)
    tie = {}

    # ---- tie A: regenerate source-derived Lean files ------------------------
    for g in getattr(prop, "GEN", []):
        try:
            tie.update(g())
        except Exception as e:  # a translator that cannot parse is "unavailable", not a verdict
            tie[getattr(g, "__name__", "gen")] = "unavailable(%s)" % str(e)[:200]

    # ---- theorems -----------------------------------------------------------
    tie_mods = list(getattr(prop, "TIE", [])) + list(getattr(prop, "EXTRA_MODULES", []))   # built, audited, re-checked with the property
    if hasattr(prop, "tie_modules"):
        tie_mods += list(prop.tie_modules())      # obligations over what the translators delivered on this run
    ok_all, out = vf.lake_build(["Ufw.Props." + pid, prop.DRIVER] + tie_mods)
    proof_ok = ok_all
    driver_ok = ok_all
    if not ok_all:
        driver_ok, dout = vf.lake_build([prop.DRIVER])
        errs = [l for l in out.split("\n") if l.startswith("error:")][:8]
        problems.append({"what": "lake build Ufw.Props.%s fails" % pid, "errors": errs})
        if not driver_ok:
            problems.append({"what": "model driver %s does not build" % prop.DRIVER,
                             "errors": [l for l in dout.split("\n") if l.startswith("error:")][:8]})
    aud = {"ok": False, "theorems": [], "problems": ["not run"]}
    if proof_ok:
        extra = prop.gen_theorems() if hasattr(prop, "gen_theorems") else []
        # obligations over the regenerated constants (tie A): every theorem of the property's Tie modules
        for m in tie_mods:
            extra = list(extra) + [full for _, full in vf.theorems_of(os.path.join(vf.LEAN, m.replace(".", "/") + ".lean"))]
        aud = vf.audit(pid, allow_bv_decide=getattr(prop, "ALLOW_BV", False), extra_theorems=extra,
                       extra_imports=list(getattr(prop, "GEN_IMPORTS", [])) + tie_mods)
        if not aud["ok"]:
            problems.append({"what": "axiom / token audit", "errors": aud["problems"][:8]})
    # thorough tier: the toolchain's independent re-checker replays the compiled declarations of the property's modules
    rechecked = []
    if proof_ok and args.tier == "thorough":
        for m in ["Ufw.Props." + pid] + tie_mods:
            r = vf.sh(["lake", "env", "leanchecker", m], cwd=vf.LEAN)
            rechecked.append({"module": m, "ok": r.returncode == 0})
            if r.returncode != 0:
                problems.append({"what": "leanchecker rejects " + m, "errors": [r.stdout[-800:]]})
    thms = aud["theorems"]
    gen_obl = getattr(prop, "GEN_OBLIGATIONS", [])
    obligations = len(thms) + len(gen_obl) if proof_ok else len(vf.theorems_of(os.path.join(vf.LEAN, "Ufw/Props/%s.lean" % pid))) + len(gen_obl)
    discharged = obligations if (proof_ok and aud["ok"]) else 0
    axioms = sorted({a for t in thms for a in t["axioms"]})

    # ---- harness ------------------------------------------------------------
    hbin = None
    try:
        hbin = vf.build_harness(prop.HARNESS)
    except vf.BuildError as e:
        problems.append({"what": "correspondence harness does not build against the current tree",
                         "errors": [str(e)[-1500:]]})

    # ---- cases --------------------------------------------------------------
    impl, model, diffs, cases = {}, {}, [], []
    tier_run = args.tier
    if hbin and driver_ok:
        cases = load_corpus(pid) + tier_cases(prop, args.tier, seed)
        impl, model, diffs = run_compare(prop, hbin, vf.driver_path(prop.DRIVER), cases)
        spec_diffs = [d for d in diffs if d["kind"] == "spec"]
        if (problems or (diffs and not spec_diffs)) and args.tier == "quick":
            # an obligation or the correspondence is broken: search harder for a concrete failing input
            vf.log("searching the thorough case set for a failing input ...")
            more = [c for c in prop.cases("thorough", seed + 7)]
            for c in more:
                c.cid = "search-" + c.cid
            i2, m2, d2 = run_compare(prop, hbin, vf.driver_path(prop.DRIVER), more)
            cases += more
            impl.update(i2)
            model.update(m2)
            diffs += d2
            tier_run = "quick+search"

    # thorough tier: the same cases against the library compiled with the flags it ships with (gcc -O2, builtin
    # swaps) and without the builtin swaps - the sanitizer build is not the only build the properties are about
    flavours_run = []
    if args.tier == "thorough" and hbin and driver_ok:
        for fl in getattr(prop, "FLAVOURS", ["ship", "noswap"]):
            try:
                hb2 = vf.build_harness(prop.HARNESS, flavour=fl)
            except vf.BuildError as e:
                problems.append({"what": "correspondence harness (%s flags) does not build" % fl, "errors": [str(e)[-1500:]]})
                continue
            impl2 = vf.run_sharded(hb2, cases)
            nd = 0
            for c in cases:
                d = vf.compare_case(impl2.get(c.cid, ["<no output>"]), model.get(c.cid, ["<no output>"]))
                if d:
                    d["case"] = c
                    d["flavour"] = fl
                    d["hbin"] = hb2
                    diffs.append(d)
                    nd += 1
            flavours_run.append({"flavour": fl, "flags": " ".join(vf.FLAVOURS[fl]), "cases": len(cases), "differences": nd})

    spec_diffs = [d for d in diffs if d["kind"] == "spec"]
    model_diffs = [d for d in diffs if d["kind"] == "model"]
    known = vf.load_known(pid)

    # ---- verdicts -----------------------------------------------------------
    reported = 0
    seen_sig = set()
    known_sig = set()
    for d in spec_diffs:
        c = d["case"]
        sig = (c.ops[d["op_index"]].split(" ")[0] if d["op_index"] < len(c.ops) else "?", d["impl"][:40], d["model"][:40],
               d.get("flavour", "asan"))
        if sig in seen_sig and reported >= 1:
            continue
        if sig in known_sig:
            continue           # same operation, same answers as a difference already matched to a listed finding
        seen_sig.add(sig)
        if reported >= 5:
            break
        hb = d.get("hbin", hbin)
        small = vf.shrink(c, hb, vf.driver_path(prop.DRIVER), keep_prefix=getattr(prop, "KEEP_PREFIX", 0))
        a = vf.run_program(hb, [small])[small.cid]
        b = vf.run_program(vf.driver_path(prop.DRIVER), [small])[small.cid]
        dd = vf.compare_case(a, b) or d
        # what a `known:` pattern is matched against: the shrunk operations and, behind " => ", what the
        # implementation answered at the first difference
        canon = " ; ".join(small.ops) + " => " + str(dd.get("impl", ""))
        hit = [k for k in known if re.search(k[0], canon)]
        if hit:
            known_lines.append("KNOWN-FINDING: property=%s %s" % (pid, hit[0][1]))
            known_sig.add(sig)
            continue
        path = write_replay(pid, seed, reported, {
            "property": pid, "kind": "implementation contradicts the property on a concrete input",
            "ops": small.ops, "first_difference_at_op": dd.get("op_index"), "harness_flavour": d.get("flavour", "asan"),
            "implementation": a, "model_and_spec": b,
            "contradicts": getattr(prop, "theorem_for", lambda d: "Ufw.Props.%s" % pid)(dd),
            "replay_cmd": "python3 tools/check.py %s --replay <this file>" % pid})
        violations.append((path, ""))
        reported += 1
    if not violations and (problems or model_diffs):
        # nothing concrete found: the property is no longer shown to hold
        first = model_diffs[0] if model_diffs else None
        payload = {"property": pid, "kind": "proof obligation or correspondence no longer checks; no failing input found",
                   "broken": problems}
        if first:
            payload["first_diverging_case"] = {"ops": first["case"].ops, "op_index": first["op_index"],
                                               "implementation": first["impl"], "model": first["model"]}
            payload["ops"] = first["case"].ops
        path = write_replay(pid, seed, 0, payload)
        violations.append((path, " no-failing-input-found"))

    # ---- evidence -----------------------------------------------------------
    hist_ops, hist_res = collections.Counter(), collections.Counter()
    distinct = set()
    nontriv = getattr(prop, "nontrivial", None)
    for c in cases:
        lines = impl.get(c.cid, [])
        for op, res in zip(c.ops, lines):
            hist_ops[op.split(" ")[0]] += 1
            hist_res[re.split(r"[ :=]", res, 1)[0][:24]] += 1
        key = "\n".join(c.ops)
        if key in distinct:
            continue
        if nontriv(c, lines) if nontriv else any(l.startswith("ok") for l in lines):
            distinct.add(key)
    rnd = random.Random(seed)
    samples = []
    for c in (rnd.sample(cases, min(3, len(cases))) if cases else []):
        samples.append({"ops": c.ops[:12], "implementation": impl.get(c.cid, [])[:12], "tags": list(c.tags)})
    coverage = {
        "obligations": max(obligations, 1), "discharged": discharged,
        "checker_cmd": "cd lean && lake build Ufw.Props.%s && lake env lean Ufw/Audit/%s.lean" % (pid, pid),
        "trusted_base": ["Lean 4 kernel"] + ["axiom " + a for a in axioms] + getattr(prop, "TRUSTED", []),
        "theorems": thms if len(thms) <= 60 else thms[:40] + [{"name": "... %d more (all audited)" % (len(thms) - 40), "axioms": []}],
        "generated_obligations": gen_obl, "translation_tie": tie,
        "evaluations": sum(len(c.ops) for c in cases), "cases": len(cases),
        "distinct_nontrivial": len(distinct), "rule": prop.RULE, "samples": samples,
        "exhaustive": bool(getattr(prop, "EXHAUSTIVE", {}).get(args.tier, False)),
        "op_histogram": dict(hist_ops.most_common(60)), "result_histogram": dict(hist_res.most_common(60)),
        "case_tags": dict(collections.Counter(t for c in cases for t in c.tags)),
        "tier_run": tier_run, "spec_level_differences": len(spec_diffs), "model_level_differences": len(model_diffs),
        "broken_obligations": problems, "leanchecker": rechecked, "other_build_flavours": flavours_run,
    }
    vf.write_evidence(pid, args.tier, seed, coverage, time.time() - t0, len(violations), prop.ASSUMPTIONS)

    for k in sorted(set(known_lines)):
        print(k)
    for path, suffix in violations:
        print("VIOLATION property=%s replay=%s%s" % (pid, path, suffix))
    if violations:
        for p in problems:
            vf.log("broken:", json.dumps(p)[:1500])
        sys.exit(1)
    print("OK property=%s tier=%s theorems=%d cases=%d ops=%d wall=%.1fs" % (
        pid, args.tier, len(thms), len(cases), coverage["evaluations"], time.time() - t0))
    sys.exit(0)


if __name__ == "__main__":
    main()
