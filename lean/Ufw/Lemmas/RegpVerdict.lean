/-
The receiver's verdict against the document's reading (C07): `parse_frame` of the model and
`Spec.Regp.classify` agree on every octet string.
-/
import Ufw.Lemmas.Regp

namespace Ufw.Lemmas.Regp
open Ufw Ufw.Model.Regp
open Ufw.Spec.Regp

theorem and_0xf (x : Nat) : x &&& 0xf = x % 16 := Nat.and_two_pow_sub_one_eq_mod x 4
theorem and_1_ne (x : Nat) : (x &&& 1 ≠ 0) ↔ x % 2 = 1 := by simpa using and_two_pow_ne_zero x 0
theorem and_4_ne (x : Nat) : (x &&& 4 ≠ 0) ↔ x / 4 % 2 = 1 := and_two_pow_ne_zero x 2
theorem and_8_ne (x : Nat) : (x &&& 8 ≠ 0) ↔ x / 8 % 2 = 1 := and_two_pow_ne_zero x 3
theorem and_4_eq (x : Nat) : (x &&& 4 = 0) ↔ ¬ (x / 4 % 2 = 1) := by
  rw [← and_4_ne]; simp
theorem hd_iff (x : Nat) : raw_with_hdcrc x = decide (x / 512 % 2 = 1) := by
  simp only [raw_with_hdcrc]; exact decide_eq_decide.mpr (and_two_pow_ne_zero x 9)
theorem pl_iff (x : Nat) : raw_with_plcrc x = decide (x / 1024 % 2 = 1) := by
  simp only [raw_with_plcrc]; exact decide_eq_decide.mpr (and_two_pow_ne_zero x 10)

/-- the model's header fields as a frame of the document, with payload `P` -/
def frameWith (t : MType) (h : Hdr) (P : List Octet) : Frame :=
  { type := t, ws16 := h.opts % 2 = 1, hdcrc := h.opts / 2 % 2 = 1, plcrc := h.opts / 4 % 2 = 1, code := h.mcode,
    seq := h.seq, addr := h.addr, size := h.bsize, payload := P }

theorem plausible_eq (h : Hdr) (P : List Octet) (t : MType) (htc : h.type = t.code) :
    payload_plausible h P.length = if sizeValid (frameWith t h P) then none else some .efault := by
  simp only [payload_plausible, and_1_ne, sizeValid, frameWith, htc]
  cases t <;> simp only [MType.code] <;> by_cases hw : h.opts % 2 = 1 <;> simp [hw] <;>
    (try (repeat' split)) <;> (try simp_all) <;> (try omega)

theorem sizeValid_len (h : Hdr) (P : List Octet) (t : MType) (hs : sizeValid (frameWith t h P) = true) :
    P = [] ∨ (if h.opts % 2 = 1 then 2 * h.bsize else h.bsize) = P.length := by
  simp only [sizeValid, frameWith] at hs
  cases t <;> by_cases hw : h.opts % 2 = 1 <;> simp [hw] at hs ⊢
  all_goals first | (left; assumption) | (right; omega) | (left; apply List.eq_nil_of_length_eq_zero; omega)

/-- the two payload tests of the model are the document's size rule and payload checksum rule -/
theorem payload_checks_eq (h : Hdr) (P : List Octet) (t : MType) (htc : h.type = t.code) :
    payload_checks h P =
      (let f := frameWith t h P
       if !sizeValid f then some .efault
       else if f.plcrc ∧ !f.payload.isEmpty ∧ h.plcrc ≠ crc16 f.payload then some .eproto
       else none) := by
  have hz : P.isEmpty = decide (P.length = 0) := by cases P <;> simp
  simp only [payload_checks, plausible_eq h P t htc]
  by_cases hs : sizeValid (frameWith t h P) = true
  · simp only [hs, ↓reduceIte, Bool.not_true, Bool.false_eq_true]
    simp only [check_payload, and_4_eq, and_1_ne, frameWith, hz, crcOf_eq]
    rcases sizeValid_len h P t hs with h0 | htk
    · simp [h0]
    · rw [htk, List.take_length]
      by_cases hp : h.opts / 4 % 2 = 1 <;> by_cases hl : P.length = 0 <;> simp [hp, hl, eq_comm]
  · simp [hs]

/-- the model's outcome as a verdict of the document -/
def verdictOf (raw : List Octet) : Except Err (Hdr × Nat) × Option (Hdr × Nat) → Option Verdict
  | (.ok _, some (h, off)) => (MType.ofCode h.type).map fun t => .accept (frameWith t h (raw.drop (2 * off)))
  | (.error e, some (h, off)) =>
    if e = .efault then (MType.ofCode h.type).map fun t => .badPayloadSize (frameWith t h (raw.drop (2 * off)))
    else if e = .eproto then (MType.ofCode h.type).map fun t => .badPayloadChecksum (frameWith t h (raw.drop (2 * off)))
    else none
  | (.error e, none) =>
    if e = .ebadmsg then some .badHeaderEncoding else if e = .eilseq then some .badHeaderChecksum else none
  | _ => none

theorem ofCode_some (n : Nat) (t : MType) (h : MType.ofCode n = some t) : n = t.code := by
  by_cases h0 : n = 0
  · simp [MType.ofCode, h0] at h; simp [← h, MType.code, h0]
  by_cases h1 : n = 1
  · simp [MType.ofCode, h1] at h; simp [← h, MType.code, h1]
  by_cases h2 : n = 2
  · simp [MType.ofCode, h2] at h; simp [← h, MType.code, h2]
  by_cases h3 : n = 3
  · simp [MType.ofCode, h3] at h; simp [← h, MType.code, h3]
  by_cases h15 : n = 15
  · simp [MType.ofCode, h15] at h; simp [← h, MType.code, h15]
  simp [MType.ofCode, h0, h1, h2, h3, h15] at h

theorem ofCode_code (t : MType) : MType.ofCode t.code = some t := by cases t <;> rfl

/-- a header that got through, followed by the payload tests -/
theorem tail_eq (raw : List Octet) (t : MType) (h : Hdr) (off : Nat) (htc : h.type = t.code) :
    verdictOf raw (parse_frame_rest raw (.ok (h, off))) =
      some (let f := frameWith t h (raw.drop (2 * off))
            if !sizeValid f then .badPayloadSize f
            else if f.plcrc ∧ !f.payload.isEmpty ∧ h.plcrc ≠ crc16 f.payload then .badPayloadChecksum f
            else .accept f) := by
  simp only [parse_frame_rest, payload_checks_eq h _ t htc]
  by_cases hs : sizeValid (frameWith t h (raw.drop (2 * off))) = true
  · simp only [hs, Bool.not_true, Bool.false_eq_true, ↓reduceIte]
    by_cases hc : (frameWith t h (List.drop (2 * off) raw)).plcrc = true ∧
        (!(frameWith t h (List.drop (2 * off) raw)).payload.isEmpty) = true ∧
          h.plcrc ≠ crc16 (frameWith t h (List.drop (2 * off) raw)).payload
    · rw [if_pos hc, if_pos hc]
      simp [verdictOf, htc, ofCode_code]
    · rw [if_neg hc, if_neg hc]
      simp [verdictOf, htc, ofCode_code]
  · simp [hs, verdictOf, htc, ofCode_code]

theorem verdict_word (raw : List Octet) (hlen : ¬ raw.length < 12) (w0 : Nat) :
    verdictOf raw (parse_frame_rest raw (parse_header_fields raw w0)) = some (classifyWord raw w0) := by
  simp only [parse_header_fields, classifyWord, and_0xf, Nat.shiftRight_eq_div_pow, and_8_ne, hd_iff, pl_iff, bit,
    Nat.reducePow]
  by_cases hv : w0 % 16 ≠ 0
  · simp [hv, parse_frame_rest, verdictOf]
  simp only [hv, ↓reduceIte]
  have e11 : (w0 / 256 % 16 / 8 % 2 = 1) ↔ (w0 / 2048 % 2 = 1) := by omega
  simp only [e11]
  by_cases h11 : w0 / 2048 % 2 = 1
  · simp only [h11, ↓reduceIte, decide_true]
    cases MType.ofCode (w0 / 16 % 16) <;> simp [parse_frame_rest, verdictOf]
  simp only [h11, ↓reduceIte, decide_false, Bool.false_eq_true]
  have e8 : w0 / 256 % 16 % 2 = w0 / 256 % 2 := by omega
  have e9 : w0 / 256 % 16 / 2 % 2 = w0 / 512 % 2 := by omega
  have e10 : w0 / 256 % 16 / 4 % 2 = w0 / 1024 % 2 := by omega
  have e15 : (1 ≤ w0 / 4096 % 16 ∧ w0 / 4096 % 16 ≤ 2) ↔ (w0 / 4096 % 16 = 1 ∨ w0 / 4096 % 16 = 2) := by omega
  -- the tail for each admissible type
  have tail : ∀ (t : MType) (hdcrc plcrc off : Nat),
      verdictOf raw (parse_frame_rest raw (.ok (Hdr.mk t.code (w0 / 256 % 16) (w0 / 4096 % 16)
          (ref (List.take 2 (List.drop 2 raw))) (ref (List.take 4 (List.drop 4 raw)))
          (ref (List.take 4 (List.drop 8 raw))) hdcrc plcrc, off))) =
      some (let f : Frame := Frame.mk t (decide (w0 / 256 % 2 = 1)) (decide (w0 / 512 % 2 = 1))
                (decide (w0 / 1024 % 2 = 1)) (w0 / 4096 % 16)
                (unbe (List.take 2 (List.drop 2 raw))) (unbe (List.take 4 (List.drop 4 raw)))
                (unbe (List.take 4 (List.drop 8 raw))) (raw.drop (2 * off))
            if !sizeValid f then .badPayloadSize f
            else if f.plcrc ∧ !f.payload.isEmpty ∧ plcrc ≠ crc16 f.payload then .badPayloadChecksum f
            else .accept f) := by
    intro t hdcrc plcrc off
    rw [tail_eq raw t _ off rfl]
    simp only [frameWith, e8, e9, e10, ref, unbe]
    try rfl
  have ht : w0 / 16 % 16 = 0 ∨ w0 / 16 % 16 = 1 ∨ w0 / 16 % 16 = 2 ∨ w0 / 16 % 16 = 3 ∨ w0 / 16 % 16 = 15 ∨
      (w0 / 16 % 16 ≠ 0 ∧ w0 / 16 % 16 ≠ 1 ∧ w0 / 16 % 16 ≠ 2 ∧ w0 / 16 % 16 ≠ 3 ∧ w0 / 16 % 16 ≠ 15) := by omega
  rcases ht with ht | ht | ht | ht | ht | ht
  · simp only [ht, MType.ofCode, ↓reduceIte, Nat.reduceEqDiff, or_false, false_or, or_true, true_or, e15]
    have tl := tail .readRequest
    simp only [MType.code] at tl
    by_cases hm : w0 / 4096 % 16 = 0
    · by_cases hd : w0 / 512 % 2 = 1 <;> by_cases pl : w0 / 1024 % 2 = 1 <;>
        simp only [hm, hd, pl, codeValid, RP_HEADER_SIZE, decide_true, decide_false, Bool.false_eq_true, true_or, or_true,
          or_false, true_and, and_true, false_and, and_false, ↓reduceIte, not_true_eq_false, Bool.not_true,
          Nat.add_zero, Nat.reduceAdd, Nat.reduceSub, Nat.reduceMul, List.append_nil, false_or, Bool.or_true,
          Bool.true_or, Bool.or_false, Bool.false_or]
      all_goals
        simp only [hm, hd, pl, decide_true, decide_false, crcOf_eq, crcOf_crc16, ref, unbe] at tl ⊢
        by_cases h16 : raw.length < 16 <;> by_cases h14 : raw.length < 14 <;>
          (try simp only [h16, h14, ↓reduceIte]) <;> (try omega) <;>
          (try (simp [parse_frame_rest, verdictOf]; done))
      all_goals
        first
        | (rw [tl]; simp [hlen]; done)
        | (simp only [eq_self, ↓reduceIte]; rw [tl]; simp [hlen]; done)
        | (split
           · rename_i hc
             simp only [hc, ne_eq, not_true_eq_false, ↓reduceIte]
             rw [tl]; simp; done
           · rename_i hc
             have hc' : ¬ Spec.Endian.loadU true (List.take 2 (List.drop 12 raw)) = _ := fun h => hc h.symm
             simp only [ne_eq, hc', not_false_eq_true, ↓reduceIte]
             simp [parse_frame_rest, verdictOf]; done)
    · simp [hm, codeValid, parse_frame_rest, verdictOf]
  · simp only [ht, MType.ofCode, ↓reduceIte, Nat.reduceEqDiff, or_false, false_or, or_true, true_or, e15]
    have tl := tail .readResponse
    simp only [MType.code] at tl
    by_cases hm : w0 / 4096 % 16 ≤ 11
    · by_cases hd : w0 / 512 % 2 = 1 <;> by_cases pl : w0 / 1024 % 2 = 1 <;>
        simp only [hm, hd, pl, codeValid, RP_HEADER_SIZE, decide_true, decide_false, Bool.false_eq_true, true_or, or_true,
          or_false, true_and, and_true, false_and, and_false, ↓reduceIte, not_true_eq_false, Bool.not_true,
          Nat.add_zero, Nat.reduceAdd, Nat.reduceSub, Nat.reduceMul, List.append_nil, false_or, Bool.or_true,
          Bool.true_or, Bool.or_false, Bool.false_or]
      all_goals
        simp only [hm, hd, pl, decide_true, decide_false, crcOf_eq, crcOf_crc16, ref, unbe] at tl ⊢
        by_cases h16 : raw.length < 16 <;> by_cases h14 : raw.length < 14 <;>
          (try simp only [h16, h14, ↓reduceIte]) <;> (try omega) <;>
          (try (simp [parse_frame_rest, verdictOf]; done))
      all_goals
        first
        | (rw [tl]; simp [hlen]; done)
        | (simp only [eq_self, ↓reduceIte]; rw [tl]; simp [hlen]; done)
        | (split
           · rename_i hc
             simp only [hc, ne_eq, not_true_eq_false, ↓reduceIte]
             rw [tl]; simp; done
           · rename_i hc
             have hc' : ¬ Spec.Endian.loadU true (List.take 2 (List.drop 12 raw)) = _ := fun h => hc h.symm
             simp only [ne_eq, hc', not_false_eq_true, ↓reduceIte]
             simp [parse_frame_rest, verdictOf]; done)
    · simp [hm, codeValid, parse_frame_rest, verdictOf]
  · simp only [ht, MType.ofCode, ↓reduceIte, Nat.reduceEqDiff, or_false, false_or, or_true, true_or, e15]
    have tl := tail .writeRequest
    simp only [MType.code] at tl
    by_cases hm : w0 / 4096 % 16 = 0
    · by_cases hd : w0 / 512 % 2 = 1 <;> by_cases pl : w0 / 1024 % 2 = 1 <;>
        simp only [hm, hd, pl, codeValid, RP_HEADER_SIZE, decide_true, decide_false, Bool.false_eq_true, true_or, or_true,
          or_false, true_and, and_true, false_and, and_false, ↓reduceIte, not_true_eq_false, Bool.not_true,
          Nat.add_zero, Nat.reduceAdd, Nat.reduceSub, Nat.reduceMul, List.append_nil, false_or, Bool.or_true,
          Bool.true_or, Bool.or_false, Bool.false_or]
      all_goals
        simp only [hm, hd, pl, decide_true, decide_false, crcOf_eq, crcOf_crc16, ref, unbe] at tl ⊢
        by_cases h16 : raw.length < 16 <;> by_cases h14 : raw.length < 14 <;>
          (try simp only [h16, h14, ↓reduceIte]) <;> (try omega) <;>
          (try (simp [parse_frame_rest, verdictOf]; done))
      all_goals
        first
        | (rw [tl]; simp [hlen]; done)
        | (simp only [eq_self, ↓reduceIte]; rw [tl]; simp [hlen]; done)
        | (split
           · rename_i hc
             simp only [hc, ne_eq, not_true_eq_false, ↓reduceIte]
             rw [tl]; simp; done
           · rename_i hc
             have hc' : ¬ Spec.Endian.loadU true (List.take 2 (List.drop 12 raw)) = _ := fun h => hc h.symm
             simp only [ne_eq, hc', not_false_eq_true, ↓reduceIte]
             simp [parse_frame_rest, verdictOf]; done)
    · simp [hm, codeValid, parse_frame_rest, verdictOf]
  · simp only [ht, MType.ofCode, ↓reduceIte, Nat.reduceEqDiff, or_false, false_or, or_true, true_or, e15]
    have tl := tail .writeResponse
    simp only [MType.code] at tl
    by_cases hm : w0 / 4096 % 16 ≤ 11
    · by_cases hd : w0 / 512 % 2 = 1 <;> by_cases pl : w0 / 1024 % 2 = 1 <;>
        simp only [hm, hd, pl, codeValid, RP_HEADER_SIZE, decide_true, decide_false, Bool.false_eq_true, true_or, or_true,
          or_false, true_and, and_true, false_and, and_false, ↓reduceIte, not_true_eq_false, Bool.not_true,
          Nat.add_zero, Nat.reduceAdd, Nat.reduceSub, Nat.reduceMul, List.append_nil, false_or, Bool.or_true,
          Bool.true_or, Bool.or_false, Bool.false_or]
      all_goals
        simp only [hm, hd, pl, decide_true, decide_false, crcOf_eq, crcOf_crc16, ref, unbe] at tl ⊢
        by_cases h16 : raw.length < 16 <;> by_cases h14 : raw.length < 14 <;>
          (try simp only [h16, h14, ↓reduceIte]) <;> (try omega) <;>
          (try (simp [parse_frame_rest, verdictOf]; done))
      all_goals
        first
        | (rw [tl]; simp [hlen]; done)
        | (simp only [eq_self, ↓reduceIte]; rw [tl]; simp [hlen]; done)
        | (split
           · rename_i hc
             simp only [hc, ne_eq, not_true_eq_false, ↓reduceIte]
             rw [tl]; simp; done
           · rename_i hc
             have hc' : ¬ Spec.Endian.loadU true (List.take 2 (List.drop 12 raw)) = _ := fun h => hc h.symm
             simp only [ne_eq, hc', not_false_eq_true, ↓reduceIte]
             simp [parse_frame_rest, verdictOf]; done)
    · simp [hm, codeValid, parse_frame_rest, verdictOf]
  · simp only [ht, MType.ofCode, ↓reduceIte, Nat.reduceEqDiff, or_false, false_or, or_true, true_or, e15]
    have tl := tail .metaMessage
    simp only [MType.code] at tl
    by_cases hm : w0 / 4096 % 16 = 1 ∨ w0 / 4096 % 16 = 2
    · by_cases hd : w0 / 512 % 2 = 1 <;> by_cases pl : w0 / 1024 % 2 = 1 <;>
        simp only [hm, hd, pl, codeValid, RP_HEADER_SIZE, decide_true, decide_false, Bool.false_eq_true, true_or, or_true,
          or_false, true_and, and_true, false_and, and_false, ↓reduceIte, not_true_eq_false, Bool.not_true,
          Nat.add_zero, Nat.reduceAdd, Nat.reduceSub, Nat.reduceMul, List.append_nil, false_or, Bool.or_true,
          Bool.true_or, Bool.or_false, Bool.false_or]
      all_goals
        simp only [hm, hd, pl, decide_true, decide_false, crcOf_eq, crcOf_crc16, ref, unbe] at tl ⊢
        by_cases h16 : raw.length < 16 <;> by_cases h14 : raw.length < 14 <;>
          (try simp only [h16, h14, ↓reduceIte]) <;> (try omega) <;>
          (try (simp [parse_frame_rest, verdictOf]; done))
      all_goals
        first
        | (rw [tl]; simp [hlen]; done)
        | (simp only [eq_self, ↓reduceIte]; rw [tl]; simp [hlen]; done)
        | (split
           · rename_i hc
             simp only [hc, ne_eq, not_true_eq_false, ↓reduceIte]
             rw [tl]; simp; done
           · rename_i hc
             have hc' : ¬ Spec.Endian.loadU true (List.take 2 (List.drop 12 raw)) = _ := fun h => hc h.symm
             simp only [ne_eq, hc', not_false_eq_true, ↓reduceIte]
             simp [parse_frame_rest, verdictOf]; done)
    · simp [hm, codeValid, parse_frame_rest, verdictOf]
  · obtain ⟨a0, a1, a2, a3, a15⟩ := ht
    simp [a0, a1, a2, a3, a15, MType.ofCode, parse_frame_rest, verdictOf]

end Ufw.Lemmas.Regp
