/-
Helper lemmas for C12 (SLIP).
-/
import Ufw.Model.Slip
import Ufw.Spec.Slip

namespace Ufw.Lemmas.Slip
open Ufw Ufw.Model.Slip

def octets (l : List Octet) : List SrcEv := l.map .octet

theorem escape_cases (o : Octet) :
    (o = RAW_ESC ∧ escape o = [RAW_ESC, ESC_ESC]) ∨ (o = RAW_EOF ∧ escape o = [RAW_ESC, ESC_EOF]) ∨
    (o ≠ RAW_ESC ∧ o ≠ RAW_EOF ∧ escape o = [o]) := by
  unfold escape
  by_cases h1 : o = RAW_ESC
  · simp [h1]
  · by_cases h2 : o = RAW_EOF
    · right; left; subst h2; simp; decide
    · right; right; simp [h1, h2]

/-- in the middle of a frame one escaped payload octet emits exactly that octet -/
theorem step_escape (sof : Bool) (o : Octet) :
    (∃ a, escape o = [a] ∧ step sof .normal false a = (.normal, false, .emit o)) ∨
    (∃ a b, escape o = [a, b] ∧ step sof .normal false a = (.normal, true, .none) ∧
      step sof .normal true b = (.normal, false, .emit o)) := by
  rcases escape_cases o with ⟨h, e⟩ | ⟨h, e⟩ | ⟨h1, h2, e⟩
  · right; refine ⟨_, _, e, ?_, ?_⟩ <;> subst h <;> simp [step] <;> decide
  · right; refine ⟨_, _, e, ?_, ?_⟩ <;> subst h <;> simp [step] <;> decide
  · left; exact ⟨_, e, by simp [step, h1, h2]⟩

theorem put_ok (s : Snk) (o : Octet) (h : 0 < s.room) :
    s.put o = .ok { s with got := s.got ++ [o], room := s.room - 1 } := by
  unfold Snk.put
  cases hr : s.room with
  | zero => omega
  | succ n => simp

theorem decodeGo_body (sof : Bool) (p : List Octet) : ∀ (rest : List SrcEv) (snk : Snk),
    p.length ≤ snk.room →
    decodeGo sof .normal false (octets (p.flatMap escape) ++ rest) snk =
      decodeGo sof .normal false rest { snk with got := snk.got ++ p, room := snk.room - p.length } := by
  induction p with
  | nil => intro rest snk _; simp [octets]
  | cons o os ih =>
    intro rest snk hroom
    simp only [List.length_cons] at hroom
    have hput := put_ok snk o (by omega)
    have key : decodeGo sof .normal false (octets (escape o) ++ (octets (os.flatMap escape) ++ rest)) snk =
        decodeGo sof .normal false (octets (os.flatMap escape) ++ rest)
          { snk with got := snk.got ++ [o], room := snk.room - 1 } := by
      rcases step_escape sof o with ⟨a, e, h1⟩ | ⟨a, b, e, h1, h2⟩
      · rw [e]; simp only [octets, List.map_cons, List.map_nil, List.cons_append, List.nil_append]
        simp only [decodeGo, h1, hput]
      · rw [e]; simp only [octets, List.map_cons, List.map_nil, List.cons_append, List.nil_append]
        simp only [decodeGo, h1, h2, hput]
    simp only [List.flatMap_cons, octets, List.map_append, List.append_assoc] at key ⊢
    rw [key]
    have := ih rest { snk with got := snk.got ++ [o], room := snk.room - 1 } (by simp; omega)
    simp only [octets] at this
    rw [this]
    congr 1
    simp only [List.append_assoc, List.singleton_append, List.length_cons]
    congr 1; omega

theorem run_body (sof : Bool) (p : List Octet) : ∀ (out rest : List Octet),
    run sof .normal false out (p.flatMap escape ++ rest) = run sof .normal false (out ++ p) rest := by
  induction p with
  | nil => intro out rest; simp
  | cons o os ih =>
    intro out rest
    have key : run sof .normal false out (escape o ++ (os.flatMap escape ++ rest)) =
        run sof .normal false (out ++ [o]) (os.flatMap escape ++ rest) := by
      rcases step_escape sof o with ⟨a, e, h1⟩ | ⟨a, b, e, h1, h2⟩
      · rw [e]; simp only [List.cons_append, List.nil_append, run, h1]
      · rw [e]; simp only [List.cons_append, List.nil_append, run, h1, h2]
    simp only [List.flatMap_cons, List.append_assoc] at key ⊢
    rw [key, ih]
    simp

theorem run_append (sof : Bool) (a : List Octet) : ∀ (st : St) (esc : Bool) (out b : List Octet),
    run sof st esc out (a ++ b) =
      ((run sof st esc out a).1 ++
         (run sof (run sof st esc out a).2.1 (run sof st esc out a).2.2.1 (run sof st esc out a).2.2.2 b).1,
       (run sof (run sof st esc out a).2.1 (run sof st esc out a).2.2.1 (run sof st esc out a).2.2.2 b).2) := by
  induction a with
  | nil => intro st esc out b; simp [run]
  | cons o os ih =>
    intro st esc out b
    simp only [List.cons_append, run]
    rcases hs : step sof st esc o with ⟨st', esc', act⟩
    cases act with
    | none => simp only [ih]
    | emit x => simp only [ih]
    | endOfFrame => simp only [ih, List.cons_append]
    | illegal => simp only [ih, List.cons_append]

theorem eof_not_in_escape (o : Octet) : RAW_EOF ∉ escape o := by
  rcases escape_cases o with ⟨_, e⟩ | ⟨_, e⟩ | ⟨_, h2, e⟩
  · rw [e]; decide
  · rw [e]; decide
  · rw [e]; simp; exact fun h => h2 h.symm

theorem eof_not_in_body (p : List Octet) : RAW_EOF ∉ p.flatMap escape := by
  simp only [List.mem_flatMap, not_exists, not_and]
  intro o _; exact eof_not_in_escape o

/-- skipping: in SEARCH_FOR_END everything up to the next delimiter is dropped silently -/
theorem run_searchEnd_skip (sof : Bool) (l : List Octet) (h : RAW_EOF ∉ l) (b : List Octet) :
    run sof .searchEnd false [] (l ++ b) = run sof .searchEnd false [] b := by
  induction l with
  | nil => rfl
  | cons o os ih =>
    have ho : o ≠ RAW_EOF := fun e => h (by simp [e])
    have hos : RAW_EOF ∉ os := fun e => h (by simp [e])
    simp only [List.cons_append, run, step, ho, ↓reduceIte]
    exact ih hos

/-- octets are pending for the sink only while a frame is being read -/
def Situation (st : St) (out : List Octet) : Prop := st ≠ .normal → out = []

theorem step_inv (sof : Bool) (st : St) (esc : Bool) (o : Octet) (out : List Octet) (h : Situation st out) :
    (∀ st' esc', step sof st esc o = (st', esc', .none) → Situation st' out) ∧
    (∀ st' esc' x, step sof st esc o = (st', esc', .emit x) → st' = .normal) := by
  cases st with
  | searchStart =>
    have ho : out = [] := h (by simp)
    subst ho
    constructor
    · intro st' esc' hs _; rfl
    · intro st' esc' x hs; simp only [step] at hs; split at hs <;> simp at hs
  | searchEnd =>
    have ho : out = [] := h (by simp)
    subst ho
    constructor
    · intro st' esc' hs _; rfl
    · intro st' esc' x hs; simp only [step] at hs; split at hs <;> simp at hs
  | normal =>
    constructor
    · intro st' esc' hs
      simp only [step] at hs
      split at hs
      · split at hs
        · simp at hs
        · split at hs <;> simp at hs
      · split at hs
        · simp only [Prod.mk.injEq, and_true] at hs; intro hn; exact absurd hs.1.symm hn
        · split at hs <;> simp at hs
    · intro st' esc' x hs
      simp only [step] at hs
      split at hs
      · split at hs
        · simp only [Prod.mk.injEq] at hs; exact hs.1.symm
        · split at hs
          · simp only [Prod.mk.injEq] at hs; exact hs.1.symm
          · simp at hs
      · split at hs
        · simp at hs
        · split at hs
          · simp at hs
          · simp only [Prod.mk.injEq] at hs; exact hs.1.symm

theorem run_inv (sof : Bool) (l : List Octet) : ∀ (st : St) (esc : Bool) (out : List Octet),
    Situation st out → Situation (run sof st esc out l).2.1 (run sof st esc out l).2.2.2 := by
  induction l with
  | nil => intro st esc out h; simpa [run] using h
  | cons o os ih =>
    intro st esc out h
    rw [run]
    obtain ⟨h1, h2⟩ := step_inv sof st esc o out h
    rcases hs : step sof st esc o with ⟨st', esc', act⟩
    cases act with
    | none => exact ih st' esc' out (h1 st' esc' hs)
    | emit x =>
      have := h2 st' esc' x hs
      exact ih st' esc' (out ++ [x]) (fun hn => absurd this hn)
    | endOfFrame => exact ih st' false [] (fun _ => rfl)
    | illegal => exact ih st' false [] (fun _ => rfl)

end Ufw.Lemmas.Slip
