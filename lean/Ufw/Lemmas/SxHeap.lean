/-
Facts about the heap view of the s-expression reader (Model/SxHeap): every allocation is reachable from the
node a function returns, and the heap view answers exactly like Model/Sx.
-/
import Ufw.Model.SxHeap
import Ufw.Lemmas.Sx
namespace Ufw.Lemmas.SxHeap
open Ufw Ufw.Model.Sx Ufw.Model.SxHeap

theorem token_h_allocs (s : List Octet) (i : Nat) : (token_h s i).allocs = (token_h s i).node.weight := rfl

/-- every allocation of a list read is part of the (possibly partial) tree it returns -/
theorem list_h_allocs (s : List Octet) (fuel i : Nat) : (list_h s fuel i).allocs = (list_h s fuel i).node.weight := by
  fun_induction list_h s fuel i with
  | case1 => simp [PTree.weight]
  | case2 => simp [PTree.weight]
  | case3 => exact token_h_allocs _ _
  | case4 => exact token_h_allocs _ _
  | case5 => exact token_h_allocs _ _
  | case6 fuel i _ tok _ _ _ car _ ih =>
    simp only [car]; split
    · exact ih
    · exact token_h_allocs _ _
  | case7 fuel i _ tok _ _ _ car _ cdr ih2 ih1 =>
    have hc : car.allocs = car.node.weight := by
      simp only [car]; split
      · exact ih2
      · exact token_h_allocs _ _
    simp only [PTree.weight, hc, cdr, ih1]; omega

theorem tokE (s : List Octet) (i : Nat) : (token_h s i).isError = (sx_parse_token s i).isError := rfl

theorem optTree_null (o : Option Tree) : optTree o = .null ↔ o = none := by
  cases o with
  | none => simp [optTree]
  | some t =>
    cases t with
    | nil => simp [optTree, ofTree]
    | sym x =>
      have h1 : (PTree.sym x == PTree.nil) = false := by rw [beq_eq_false_iff_ne]; simp
      have h2 : (Tree.sym x == Tree.nil) = false := by rw [beq_eq_false_iff_ne]; simp
      simp [optTree, ofTree, h1, h2]
    | int x =>
      have h1 : (PTree.int x == PTree.nil) = false := by rw [beq_eq_false_iff_ne]; simp
      have h2 : (Tree.int x == Tree.nil) = false := by rw [beq_eq_false_iff_ne]; simp
      simp [optTree, ofTree, h1, h2]
    | cons a d =>
      have h1 : (PTree.cons (ofTree a) (ofTree d) == PTree.nil) = false := by rw [beq_eq_false_iff_ne]; simp
      have h2 : (Tree.cons a d == Tree.nil) = false := by rw [beq_eq_false_iff_ne]; simp
      simp [optTree, ofTree, h1, h2]

theorem optTree_nil (o : Option Tree) : optTree o = .nil ↔ o = some .nil := by
  cases o with
  | none => simp [optTree]
  | some t =>
    cases t with
    | nil => simp [optTree, ofTree]
    | sym x =>
      have h1 : (PTree.sym x == PTree.nil) = false := by rw [beq_eq_false_iff_ne]; simp
      have h2 : (Tree.sym x == Tree.nil) = false := by rw [beq_eq_false_iff_ne]; simp
      simp [optTree, ofTree, h1, h2]
    | int x =>
      have h1 : (PTree.int x == PTree.nil) = false := by rw [beq_eq_false_iff_ne]; simp
      have h2 : (Tree.int x == Tree.nil) = false := by rw [beq_eq_false_iff_ne]; simp
      simp [optTree, ofTree, h1, h2]
    | cons a d =>
      have h1 : (PTree.cons (ofTree a) (ofTree d) == PTree.nil) = false := by rw [beq_eq_false_iff_ne]; simp
      have h2 : (Tree.cons a d == Tree.nil) = false := by rw [beq_eq_false_iff_ne]; simp
      simp [optTree, ofTree, h1, h2]

theorem tokN (s : List Octet) (i : Nat) : ((token_h s i).status == .success ∧ (token_h s i).node = .null) ↔
    ((sx_parse_token s i).status == .success ∧ (sx_parse_token s i).node.isNone = true) := by
  have hs : (token_h s i).status = (sx_parse_token s i).status := rfl
  have hn : (token_h s i).node = optTree (sx_parse_token s i).node := rfl
  rw [hs, hn, optTree_null, Option.isNone_iff_eq_none]

theorem tokL (s : List Octet) (i : Nat) : (token_h s i).isEmptyList = (sx_parse_token s i).isEmptyList := by
  have hs : (token_h s i).status = (sx_parse_token s i).status := rfl
  have hn : (token_h s i).node = optTree (sx_parse_token s i).node := rfl
  simp only [HRes.isEmptyList, Res.isEmptyList, hs, hn]
  cases (sx_parse_token s i).node with
  | none => simp [optTree]
  | some t =>
    cases t with
    | nil => simp [optTree, ofTree]
    | sym x =>
      have h1 : (PTree.sym x == PTree.nil) = false := by rw [beq_eq_false_iff_ne]; simp
      have h2 : (Tree.sym x == Tree.nil) = false := by rw [beq_eq_false_iff_ne]; simp
      simp [optTree, ofTree, h1, h2]
    | int x =>
      have h1 : (PTree.int x == PTree.nil) = false := by rw [beq_eq_false_iff_ne]; simp
      have h2 : (Tree.int x == Tree.nil) = false := by rw [beq_eq_false_iff_ne]; simp
      simp [optTree, ofTree, h1, h2]
    | cons a d =>
      have h1 : (PTree.cons (ofTree a) (ofTree d) == PTree.nil) = false := by rw [beq_eq_false_iff_ne]; simp
      have h2 : (Tree.cons a d == Tree.nil) = false := by rw [beq_eq_false_iff_ne]; simp
      simp [optTree, ofTree, h1, h2]


theorem nonError_status (r : Res) (h : ¬ r.isError = true) : r.status = .success ∨ r.status = .foundList := by
  simp only [Res.isError, Bool.and_eq_true, bne_iff_ne, ne_eq, not_and, Decidable.not_not] at h
  by_cases hs : r.status = .success
  · exact Or.inl hs
  · exact Or.inr (h hs)

theorem error_status (r : Res) (h : r.isError = true) : r.status ≠ .success ∧ r.status ≠ .foundList := by
  simpa [Res.isError] using h

/-- the first element of a list: a token that carries a tree, or a nested list that was read without error -/
theorem car_some (tok lst : Res) (h1 : ¬ tok.isError = true)
    (h2 : ¬ ((tok.status == .success) = true ∧ tok.node.isNone = true))
    (hl : lst.status ≠ .foundList ∧ (lst.status = .success → lst.node.isSome = true))
    (hc : ¬ (if (tok.status == .foundList) = true then lst else tok).isError = true) :
    (if (tok.status == .foundList) = true then lst else tok).node.isSome = true := by
  by_cases hf : (tok.status == .foundList) = true
  · simp only [hf, ↓reduceIte] at hc ⊢
    rcases nonError_status lst hc with h | h
    · exact hl.2 h
    · exact absurd h hl.1
  · simp only [hf, Bool.false_eq_true, ↓reduceIte]
    rcases nonError_status tok h1 with h | h
    · cases hn : tok.node with
      | none => exact absurd ⟨by simp [h], by simp [hn]⟩ h2
      | some t => rfl
    · simp [h] at hf

theorem list_status (s : List Octet) (fuel i : Nat) :
    (sx_parse_list s fuel i).status ≠ .foundList ∧
    ((sx_parse_list s fuel i).status = .success → (sx_parse_list s fuel i).node.isSome = true) := by
  fun_induction sx_parse_list s fuel i with
  | case1 => simp
  | case2 => simp
  | case3 _ _ _ tok herr =>
    obtain ⟨e1, e2⟩ := error_status tok herr
    exact ⟨e2, fun h => absurd h e1⟩
  | case4 => simp
  | case5 _ _ _ tok _ _ hel =>
    simp only [Res.isEmptyList, Bool.and_eq_true, beq_iff_eq] at hel
    exact ⟨by rw [hel.1]; simp, fun _ => by rw [hel.2]; rfl⟩
  | case6 _ _ _ tok _ _ _ car hcar _ =>
    obtain ⟨e1, e2⟩ := error_status car hcar
    exact ⟨e2, fun h => absurd h e1⟩
  | case7 _ _ _ tok _ _ _ car _ cdr a d _ _ _ ih1 => exact ⟨ih1.1, fun _ => rfl⟩
  | case8 _ _ _ tok h1 h2 _ car hcar cdr hx ih2 ih1 =>
    refine ⟨ih1.1, fun hs => ?_⟩
    exfalso
    have hc := car_some tok _ h1 h2 ih2 hcar
    have hd := ih1.2 hs
    cases hcn : car.node with
    | none => simp only [car] at hcn; rw [hcn] at hc; simp at hc
    | some a =>
      cases hdn : cdr.node with
      | none => simp only [cdr] at hdn; rw [hdn] at hd; simp at hd
      | some d => exact hx a d hcn hdn



/-- the relation between what the heap view and Model/Sx answer -/
def Rel (h : HRes) (r : Res) : Prop :=
  h.status = r.status ∧ h.pos = r.pos ∧ (r.isError = false → h.node = optTree r.node)

theorem tok_rel (s : List Octet) (i : Nat) : Rel (token_h s i) (sx_parse_token s i) := ⟨rfl, rfl, fun _ => rfl⟩

theorem list_h_refines (s : List Octet) (fuel i : Nat) : Rel (list_h s fuel i) (sx_parse_list s fuel i) := by
  fun_induction list_h s fuel i with
  | case1 => simp [Rel, sx_parse_list, Res.isError]
  | case2 _ _ hge => simp [Rel, sx_parse_list, hge, Res.isError]
  | case3 _ i hge tok herr =>
    have herr' : (sx_parse_token s i).isError = true := herr
    simp only [sx_parse_list, hge, ↓reduceIte, herr']
    refine ⟨rfl, rfl, fun h => ?_⟩
    simp only [Res.isError] at h herr'; rw [herr'] at h; simp at h
  | case4 _ i hge tok herr hnone =>
    have herr' : ¬ (sx_parse_token s i).isError = true := herr
    have hn' := (tokN s i).mp hnone
    simp only [sx_parse_list, hge, ↓reduceIte, herr', hn', and_self, Bool.false_eq_true]
    exact ⟨rfl, rfl, fun h => by simp [Res.isError] at h⟩
  | case5 _ i hge tok herr hnone hel =>
    have herr' : ¬ (sx_parse_token s i).isError = true := herr
    have hn' : ¬ (((sx_parse_token s i).status == .success) = true ∧ (sx_parse_token s i).node.isNone = true) :=
      fun h => hnone ((tokN s i).mpr h)
    have hel' : (sx_parse_token s i).isEmptyList = true := by rw [← tokL]; exact hel
    simp only [sx_parse_list, hge, ↓reduceIte, herr', hn', hel', Bool.false_eq_true]
    exact tok_rel s i
  | case6 fuel i hge tok herr hnone hel car hcar ih =>
    have herr' : ¬ (sx_parse_token s i).isError = true := herr
    have hn' : ¬ (((sx_parse_token s i).status == .success) = true ∧ (sx_parse_token s i).node.isNone = true) :=
      fun h => hnone ((tokN s i).mpr h)
    have hel' : ¬ (sx_parse_token s i).isEmptyList = true := by rw [← tokL]; exact hel
    -- the first element on both sides
    have hcr : Rel car (if ((sx_parse_token s i).status == .foundList) = true then sx_parse_list s fuel (sx_parse_token s i).pos
        else sx_parse_token s i) := by
      simp only [car]
      by_cases hf : ((sx_parse_token s i).status == .foundList) = true
      · have hf' : (tok.status == .foundList) = true := hf
        simp only [hf, hf', ↓reduceIte]; exact ih
      · have hf' : ¬ (tok.status == .foundList) = true := hf
        simp only [hf, hf', Bool.false_eq_true, ↓reduceIte]; exact tok_rel s i
    have hce : (if ((sx_parse_token s i).status == .foundList) = true then sx_parse_list s fuel (sx_parse_token s i).pos
        else sx_parse_token s i).isError = true := by
      have : car.isError = true := hcar
      simp only [HRes.isError, hcr.1] at this
      exact this
    simp only [sx_parse_list, hge, ↓reduceIte, herr', hn', hel', hce, Bool.false_eq_true]
    refine ⟨hcr.1, hcr.2.1, fun h => ?_⟩
    simp only [Res.isError] at h hce; rw [hce] at h; simp at h
  | case7 fuel i hge tok herr hnone hel car hcar cdr ih2 ih1 =>
    have herr' : ¬ (sx_parse_token s i).isError = true := herr
    have hn' : ¬ (((sx_parse_token s i).status == .success) = true ∧ (sx_parse_token s i).node.isNone = true) :=
      fun h => hnone ((tokN s i).mpr h)
    have hel' : ¬ (sx_parse_token s i).isEmptyList = true := by rw [← tokL]; exact hel
    have hcr : Rel car (if ((sx_parse_token s i).status == .foundList) = true then sx_parse_list s fuel (sx_parse_token s i).pos
        else sx_parse_token s i) := by
      simp only [car]
      by_cases hf : ((sx_parse_token s i).status == .foundList) = true
      · have hf' : (tok.status == .foundList) = true := hf
        simp only [hf, hf', ↓reduceIte]; exact ih2
      · have hf' : ¬ (tok.status == .foundList) = true := hf
        simp only [hf, hf', Bool.false_eq_true, ↓reduceIte]; exact tok_rel s i
    have hce : ¬ (if ((sx_parse_token s i).status == .foundList) = true then sx_parse_list s fuel (sx_parse_token s i).pos
        else sx_parse_token s i).isError = true := by
      have : ¬ car.isError = true := hcar
      simp only [HRes.isError, hcr.1] at this
      exact this
    have hcs := car_some (sx_parse_token s i) (sx_parse_list s fuel (sx_parse_token s i).pos) herr' hn'
      (list_status s fuel _) hce
    simp only [sx_parse_list, hge, ↓reduceIte, herr', hn', hel', hce, Bool.false_eq_true]
    generalize (if ((sx_parse_token s i).status == .foundList) = true then sx_parse_list s fuel (sx_parse_token s i).pos
        else sx_parse_token s i) = carM at *
    have hpos : car.pos = carM.pos := hcr.2.1
    have ih1' : Rel cdr (sx_parse_list s fuel carM.pos) := by simp only [cdr, hpos]; rw [hpos] at ih1; exact ih1
    cases hcn : carM.node with
    | none => rw [hcn] at hcs; simp at hcs
    | some a =>
      have hca : car.node = ofTree a := by
        have := hcr.2.2 (by simpa using hce); rw [hcn] at this; exact this
      cases hdn : (sx_parse_list s fuel carM.pos).node with
      | none =>
        simp only
        refine ⟨ih1'.1, ih1'.2.1, fun hne => ?_⟩
        exfalso
        have hl := list_status s fuel carM.pos
        rcases nonError_status _ (by simpa using hne) with h | h
        · have := hl.2 h; rw [hdn] at this; simp at this
        · exact hl.1 h
      | some d =>
        simp only
        refine ⟨ih1'.1, ih1'.2.1, fun hne => ?_⟩
        have hdd : cdr.node = ofTree d := by
          have := ih1'.2.2 (by simpa [Res.isError] using hne); rw [hdn] at this; exact this
        rw [hca, hdd]; rfl


end Ufw.Lemmas.SxHeap
