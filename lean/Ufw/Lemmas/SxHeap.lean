/-
Facts about the heap view of the s-expression reader (Model/SxHeap): every allocation is reachable from the
node a function returns, and the heap view answers exactly like Model/Sx.
-/
import Ufw.Model.SxHeap
import Ufw.Lemmas.Sx

namespace Ufw.Lemmas.SxHeap
open Ufw Ufw.Model.Sx Ufw.Model.SxHeap

/-- every allocation of a list read is part of the (possibly partial) tree it returns -/
theorem list_h_allocs (s : List Octet) : ∀ (fuel i : Nat), (list_h s fuel i).allocs = (list_h s fuel i).node.weight := by
  intro fuel
  induction fuel with
  | zero => intro i; simp [list_h, PTree.weight]
  | succ fuel ih =>
    intro i
    simp only [list_h]
    split
    · simp [PTree.weight]
    split
    · simp [token_h]
    split
    · simp [token_h]
    split
    · simp [token_h]
    split
    · split
      · exact ih _
      · simp [token_h]
    · simp only [PTree.weight]
      rw [ih]
      split
      · rw [ih]; omega
      · simp only [token_h]; omega

/-- what a list read of Model/Sx never answers, and that success comes with a tree -/
theorem list_status (s : List Octet) : ∀ (fuel i : Nat),
    (sx_parse_list s fuel i).status ≠ .foundList ∧
    ((sx_parse_list s fuel i).status = .success → (sx_parse_list s fuel i).node.isSome = true) := by
  intro fuel
  induction fuel with
  | zero => intro i; simp [sx_parse_list]
  | succ fuel ih =>
    intro i
    simp only [sx_parse_list]
    split
    · simp
    split
    · rename_i herr
      simp only [Res.isError, Bool.and_eq_true, bne_iff_ne, ne_eq] at herr
      exact ⟨herr.2, fun h => absurd h herr.1⟩
    split
    · simp
    split
    · rename_i hel
      simp only [Res.isEmptyList, Bool.and_eq_true, beq_iff_eq] at hel
      exact ⟨by rw [hel.1]; simp, fun _ => by rw [hel.2]; rfl⟩
    rename_i hnerr hnone hnel
    split
    · rename_i herr
      simp only [Res.isError, Bool.and_eq_true, bne_iff_ne, ne_eq] at herr
      exact ⟨herr.2, fun h => absurd h herr.1⟩
    · rename_i hcar
      have hcdr := ih (if (sx_parse_token s i).status == .foundList then sx_parse_list s fuel (sx_parse_token s i).pos
        else sx_parse_token s i).pos
      -- the first element has a tree
      have hcarnode : (if (sx_parse_token s i).status == .foundList then sx_parse_list s fuel (sx_parse_token s i).pos
          else sx_parse_token s i).node.isSome = true := by
        by_cases hf : ((sx_parse_token s i).status == .foundList) = true
        · simp only [hf, ↓reduceIte] at hcar ⊢
          have hl := ih (sx_parse_token s i).pos
          apply hl.2
          simp only [Res.isError, Bool.and_eq_true, bne_iff_ne, ne_eq, not_and, Decidable.not_not] at hcar
          by_cases hs : (sx_parse_list s fuel (sx_parse_token s i).pos).status = .success
          · exact hs
          · exact absurd (hcar hs) hl.1
        · simp only [hf, Bool.false_eq_true, ↓reduceIte] at hcar ⊢
          simp only [Res.isError, Bool.and_eq_true, bne_iff_ne, ne_eq, not_and, Decidable.not_not] at hnerr
          have hs : (sx_parse_token s i).status = .success := by
            by_cases hs : (sx_parse_token s i).status = .success
            · exact hs
            · have := hnerr hs; simp only [beq_iff_eq] at hf; exact absurd this hf
          simp only [hs, beq_self_eq_true, true_and] at hnone
          cases hn : (sx_parse_token s i).node with
          | none => rw [hn] at hnone; simp at hnone
          | some t => rfl
      generalize (if (sx_parse_token s i).status == .foundList then sx_parse_list s fuel (sx_parse_token s i).pos
          else sx_parse_token s i) = car at *
      cases hcn : car.node with
      | none => rw [hcn] at hcarnode; simp at hcarnode
      | some a =>
        simp only
        cases hdn : (sx_parse_list s fuel car.pos).node with
        | none =>
          simp only
          refine ⟨hcdr.1, fun h => ?_⟩
          have := hcdr.2 h; rw [hdn] at this; simp at this
        | some d => exact ⟨hcdr.1, fun _ => rfl⟩

theorem optTree_null (o : Option Tree) : optTree o = .null ↔ o = none := by
  cases o with
  | none => simp [optTree]
  | some t => cases t <;> simp [optTree, ofTree]

theorem optTree_nil (o : Option Tree) : optTree o = .nil ↔ o = some .nil := by
  cases o with
  | none => simp [optTree]
  | some t => cases t <;> simp [optTree, ofTree]

/-- the heap view of a list read agrees with Model/Sx: same status, same position, and - unless it is an error,
    where Model/Sx drops the partial tree - the same tree -/
theorem list_h_refines (s : List Octet) : ∀ (fuel i : Nat),
    (list_h s fuel i).status = (sx_parse_list s fuel i).status ∧
    (list_h s fuel i).pos = (sx_parse_list s fuel i).pos ∧
    ((sx_parse_list s fuel i).isError = false → (list_h s fuel i).node = optTree (sx_parse_list s fuel i).node) := by
  intro fuel
  induction fuel with
  | zero => intro i; simp [list_h, sx_parse_list, Res.isError]
  | succ fuel ih =>
    intro i
    simp only [list_h, sx_parse_list]
    by_cases hge : i ≥ s.length
    · simp [hge, Res.isError]
    simp only [hge, ↓reduceIte]
    have hte : (token_h s i).isError = (sx_parse_token s i).isError := by simp [HRes.isError, Res.isError, token_h]
    rw [hte]
    by_cases herr : (sx_parse_token s i).isError = true
    · simp only [herr, ↓reduceIte]
      refine ⟨by simp [token_h], by simp [token_h], ?_⟩
      intro h; simp only [Res.isError] at h herr; rw [herr] at h; simp at h
    simp only [herr, Bool.false_eq_true, ↓reduceIte]
    have hnone : ((token_h s i).status == .success ∧ (token_h s i).node = .null) ↔
        ((sx_parse_token s i).status == .success ∧ (sx_parse_token s i).node.isNone = true) := by
      simp only [token_h, optTree_null, Option.isNone_iff_eq_none]
    by_cases hn : ((sx_parse_token s i).status == .success ∧ (sx_parse_token s i).node.isNone = true)
    · simp only [hnone.mpr hn, hn, and_self, ↓reduceIte]
      refine ⟨rfl, by simp [token_h], ?_⟩
      intro h; simp [Res.isError] at h
    simp only [fun h => hn (hnone.mp h), hn, ↓reduceIte]
    have hel : (token_h s i).isEmptyList = (sx_parse_token s i).isEmptyList := by
      simp only [HRes.isEmptyList, Res.isEmptyList, token_h]
      congr 1
      by_cases h : (sx_parse_token s i).node = some .nil
      · simp [h, optTree, ofTree]
      · have : ¬ optTree (sx_parse_token s i).node = .nil := fun hh => h ((optTree_nil _).mp hh)
        simp [h, this]
    rw [hel]
    by_cases he : (sx_parse_token s i).isEmptyList = true
    · simp only [he, ↓reduceIte]
      exact ⟨by simp [token_h], by simp [token_h], fun _ => by simp [token_h]⟩
    simp only [he, Bool.false_eq_true, ↓reduceIte]
    have hts : (token_h s i).status = (sx_parse_token s i).status := rfl
    have htp : (token_h s i).pos = (sx_parse_token s i).pos := rfl
    rw [hts, htp]
    -- the first element
    obtain ⟨c1, c2, c3⟩ : (if (sx_parse_token s i).status == .foundList then list_h s fuel (sx_parse_token s i).pos else token_h s i).status =
        (if (sx_parse_token s i).status == .foundList then sx_parse_list s fuel (sx_parse_token s i).pos else sx_parse_token s i).status ∧
        (if (sx_parse_token s i).status == .foundList then list_h s fuel (sx_parse_token s i).pos else token_h s i).pos =
        (if (sx_parse_token s i).status == .foundList then sx_parse_list s fuel (sx_parse_token s i).pos else sx_parse_token s i).pos ∧
        ((if (sx_parse_token s i).status == .foundList then sx_parse_list s fuel (sx_parse_token s i).pos else sx_parse_token s i).isError = false →
          (if (sx_parse_token s i).status == .foundList then list_h s fuel (sx_parse_token s i).pos else token_h s i).node =
          optTree (if (sx_parse_token s i).status == .foundList then sx_parse_list s fuel (sx_parse_token s i).pos else sx_parse_token s i).node) := by
      by_cases hf : ((sx_parse_token s i).status == .foundList) = true
      · simp only [hf, ↓reduceIte]; exact ih _
      · simp only [hf, Bool.false_eq_true, ↓reduceIte]; exact ⟨rfl, rfl, fun _ => rfl⟩
    -- both first elements are lists or tokens whose tree is present
    have hcarsome : (if (sx_parse_token s i).status == .foundList then sx_parse_list s fuel (sx_parse_token s i).pos else sx_parse_token s i).isError = false →
        (if (sx_parse_token s i).status == .foundList then sx_parse_list s fuel (sx_parse_token s i).pos else sx_parse_token s i).node.isSome = true := by
      intro hcar
      by_cases hf : ((sx_parse_token s i).status == .foundList) = true
      · simp only [hf, ↓reduceIte] at hcar ⊢
        have hl := list_status s fuel (sx_parse_token s i).pos
        apply hl.2
        simp only [Res.isError, Bool.and_eq_false_imp, bne_iff_ne, ne_eq] at hcar
        by_cases hs : (sx_parse_list s fuel (sx_parse_token s i).pos).status = .success
        · exact hs
        · have := hcar hs; simp only [bne_eq_false_iff_eq] at this; exact absurd this hl.1
      · simp only [hf, Bool.false_eq_true, ↓reduceIte] at hcar ⊢
        simp only [Res.isError, Bool.and_eq_true, bne_iff_ne, ne_eq, not_and, Decidable.not_not] at herr
        have hs : (sx_parse_token s i).status = .success := by
          by_cases hs : (sx_parse_token s i).status = .success
          · exact hs
          · have := herr hs; simp only [beq_iff_eq] at hf; exact absurd this hf
        simp only [hs, beq_self_eq_true, true_and] at hn
        cases hnn : (sx_parse_token s i).node with
        | none => rw [hnn] at hn; simp at hn
        | some t => rfl
    generalize (if (sx_parse_token s i).status == .foundList then list_h s fuel (sx_parse_token s i).pos else token_h s i) = carh at *
    generalize (if (sx_parse_token s i).status == .foundList then sx_parse_list s fuel (sx_parse_token s i).pos else sx_parse_token s i) = car at *
    have hce : carh.isError = car.isError := by simp [HRes.isError, Res.isError, c1]
    rw [hce]
    by_cases hcerr : car.isError = true
    · simp only [hcerr, ↓reduceIte]
      refine ⟨c1, c2, ?_⟩
      intro h; simp only [Res.isError] at h hcerr; rw [hcerr] at h; simp at h
    simp only [hcerr, Bool.false_eq_true, ↓reduceIte]
    rw [c2]
    obtain ⟨d1, d2, d3⟩ := ih car.pos
    have hcs := hcarsome (by simpa using hcerr)
    cases hcn : car.node with
    | none => rw [hcn] at hcs; simp at hcs
    | some a =>
      have hca : carh.node = ofTree a := by
        have := c3 (by simpa using hcerr); rw [hcn] at this; exact this
      cases hdn : (sx_parse_list s fuel car.pos).node with
      | none =>
        simp only
        refine ⟨d1, d2, ?_⟩
        intro hne
        exfalso
        have hl := list_status s fuel car.pos
        simp only [Res.isError, Bool.and_eq_false_imp, bne_iff_ne, ne_eq] at hne
        by_cases hs : (sx_parse_list s fuel car.pos).status = .success
        · have := hl.2 hs; rw [hdn] at this; simp at this
        · have := hne hs; simp only [bne_eq_false_iff_eq] at this; exact absurd this hl.1
      | some d =>
        simp only
        refine ⟨d1, d2, ?_⟩
        intro hne
        have hdd : (list_h s fuel car.pos).node = ofTree d := by
          have := d3 (by simpa [Res.isError] using hne); rw [hdn] at this; exact this
        rw [hca, hdd]; rfl

end Ufw.Lemmas.SxHeap
