/-
`register_init` (C04): where a register is located, what the default-loading loop leaves, what the
areas record.  Helper lemmas; the property theorems are in Props/C04.
-/
import Ufw.Props.C01
import Ufw.Props.C05
import Ufw.Lemmas.RegWrite
import Ufw.Lemmas.RegBlock
namespace Ufw.Lemmas.RegInit
open Ufw Ufw.Model.RegTable Ufw.Lemmas.RegTable

/-- everything about an area except what its storage holds -/
def strip (a : Area) : Area := { a with mem := [] }

/-- a register lies wholly inside an area -/
def Inside (a : Area) (e : Entry) : Prop := a.base ≤ e.address ∧ e.address + e.type.size ≤ a.base + a.size

theorem size_pos (t : RType) : 0 < t.size := by cases t <;> simp [RType.size]

/-- areas pairwise disjoint, in terms of indices -/
def Disjoint (areas : List Area) : Prop :=
  ∀ (i j : Nat) (a b : Area), i ≠ j → areas[i]? = some a → areas[j]? = some b →
    a.base + a.size ≤ b.base ∨ b.base + b.size ≤ a.base

theorem part_of_strip (a : Area) (x : Nat) : ra_addr_is_part_of a x = ra_addr_is_part_of (strip a) x := rfl

theorem findIdx_strip (p : Area → Bool) (hp : ∀ a, p a = p (strip a)) :
    ∀ (l l1 : List Area), l.map strip = l1.map strip → l.findIdx? p = l1.findIdx? p := by
  intro l
  induction l with
  | nil => intro l1 h; cases l1 with
    | nil => rfl
    | cons b r => simp at h
  | cons a r ih =>
    intro l1 h
    cases l1 with
    | nil => simp at h
    | cons b r1 =>
      simp only [List.map_cons, List.cons.injEq] at h
      simp only [List.findIdx?_cons]
      rw [hp a, hp b, h.1, ih r1 h.2]

theorem getElem_strip (l l1 : List Area) (h : l.map strip = l1.map strip) (k : Nat) :
    (l[k]?).map strip = (l1[k]?).map strip := by
  have := congrArg (fun x => x[k]?) h
  simpa using this

/-- where a register is located depends on the areas' geometry only -/
theorem located_congr (t t1 : Table) (e : Entry) (h : t.areas.map strip = t1.areas.map strip) :
    reg_entry_is_in_memory t e = reg_entry_is_in_memory t1 e := by
  simp only [reg_entry_is_in_memory]
  rw [findIdx_strip (fun a => ra_addr_is_part_of a e.address) (fun a => part_of_strip a e.address) _ _ h]
  cases hf : List.findIdx? (fun a => ra_addr_is_part_of a e.address) t1.areas with
  | none => rfl
  | some i =>
    simp only
    have hk := getElem_strip _ _ h i
    cases ha : t.areas[i]? with
    | none =>
      cases hb : t1.areas[i]? with
      | none => rfl
      | some b => rw [ha, hb] at hk; simp at hk
    | some a =>
      cases hb : t1.areas[i]? with
      | none => rw [ha, hb] at hk; simp at hk
      | some b =>
        rw [ha, hb] at hk
        simp only [Option.map_some, Option.some.injEq] at hk
        have h1 : a.base = b.base := congrArg (fun x => x.base) hk
        have h2 : a.size = b.size := congrArg (fun x => x.size) hk
        simp only [h1, h2]

/-- located: the area the register lies wholly inside, and the offset in it -/
theorem located_some (t : Table) (e : Entry) (k off : Nat) (h : reg_entry_is_in_memory t e = some (k, off)) :
    ∃ a, t.areas[k]? = some a ∧ Inside a e ∧ off = e.address - a.base := by
  simp only [reg_entry_is_in_memory] at h
  cases hf : List.findIdx? (fun a => ra_addr_is_part_of a e.address) t.areas with
  | none => simp [hf] at h
  | some i =>
    simp only [hf] at h
    cases ha : t.areas[i]? with
    | none => simp [ha] at h
    | some a =>
      simp only [ha] at h
      split at h
      · rename_i hfit
        simp only [Option.some.injEq, Prod.mk.injEq] at h
        obtain ⟨rfl, rfl⟩ := h
        have hp := List.findIdx?_eq_some_iff_getElem.mp hf
        obtain ⟨hi, hpi, _⟩ := hp
        have : t.areas[i] = a := by
          have := List.getElem?_eq_getElem hi; rw [ha] at this; exact (Option.some.inj this).symm
        rw [this] at hpi
        simp only [ra_addr_is_part_of, Bool.and_eq_true, decide_eq_true_eq] at hpi
        exact ⟨a, ha, ⟨hpi.1, hfit⟩, rfl⟩
      · simp at h

theorem inside_part_of (a : Area) (e : Entry) (h : Inside a e) : ra_addr_is_part_of a e.address = true := by
  have := size_pos e.type
  simp only [ra_addr_is_part_of, Bool.and_eq_true, decide_eq_true_eq]
  exact ⟨h.1, by have := h.2; omega⟩

/-- among disjoint areas a register inside area k is located there -/
theorem located_of_inside (t : Table) (hd : Disjoint t.areas) (e : Entry) (k : Nat) (a : Area)
    (ha : t.areas[k]? = some a) (hin : Inside a e) :
    reg_entry_is_in_memory t e = some (k, e.address - a.base) := by
  have hpart := inside_part_of a e hin
  have hk : k < t.areas.length := by
    rcases Nat.lt_or_ge k t.areas.length with h | h
    · exact h
    · rw [List.getElem?_eq_none h] at ha; simp at ha
  have hka : t.areas[k] = a := by
    have := List.getElem?_eq_getElem hk; rw [ha] at this; exact (Option.some.inj this).symm
  have hf : List.findIdx? (fun a => ra_addr_is_part_of a e.address) t.areas = some k := by
    rw [List.findIdx?_eq_some_iff_getElem]
    refine ⟨hk, by rw [hka]; exact hpart, ?_⟩
    intro j hjk
    have hj : j < t.areas.length := by omega
    cases hb : ra_addr_is_part_of t.areas[j] e.address with
    | false => simp
    | true =>
      exfalso
      have := hd j k t.areas[j] a (by omega) (List.getElem?_eq_getElem hj) ha
      simp only [ra_addr_is_part_of, Bool.and_eq_true, decide_eq_true_eq] at hb hpart
      omega
  simp only [reg_entry_is_in_memory, hf, ha]
  rw [if_pos hin.2]

/-- ... and a register no area wholly contains is located nowhere -/
theorem located_none_iff (t : Table) (hd : Disjoint t.areas) (e : Entry) :
    reg_entry_is_in_memory t e = none ↔ ∀ a ∈ t.areas, ¬ Inside a e := by
  constructor
  · intro h a ha hin
    obtain ⟨k, hk, hka⟩ := List.getElem_of_mem ha
    have := located_of_inside t hd e k a (by rw [List.getElem?_eq_getElem hk, hka]) hin
    rw [h] at this; simp at this
  · intro h
    cases hl : reg_entry_is_in_memory t e with
    | none => rfl
    | some v =>
      obtain ⟨k, off⟩ := v
      obtain ⟨a, ha, hin, _⟩ := located_some t e k off hl
      exact absurd hin (h a (List.mem_of_getElem? ha))

/-! ### the ordering rule -/

/-- items (address, size) are ascending and do not overlap -/
def Ordered : List (Nat × Nat) → Prop
  | [] => True
  | [_] => True
  | (a, s) :: (b, sb) :: rest => a + s ≤ b ∧ Ordered ((b, sb) :: rest)

/-- consecutive items in order = every earlier item ends before every later one starts -/
theorem ordered_pairwise : ∀ (l : List (Nat × Nat)), Ordered l ↔ l.Pairwise (fun x y => x.1 + x.2 ≤ y.1) := by
  intro l
  induction l with
  | nil => simp [Ordered]
  | cons x rest ih =>
    cases rest with
    | nil => simp [Ordered]
    | cons y r =>
      obtain ⟨a, s⟩ := x
      obtain ⟨b, sb⟩ := y
      simp only [Ordered]
      rw [ih, List.pairwise_cons (a := (a, s))]
      constructor
      · intro ⟨h1, h2⟩
        refine ⟨?_, h2⟩
        intro z hz
        rcases List.mem_cons.mp hz with rfl | hz
        · exact h1
        · have := (List.pairwise_cons.mp h2).1 z hz
          simp only at this ⊢; omega
      · intro ⟨h1, h2⟩
        exact ⟨h1 (b, sb) (List.mem_cons_self), h2⟩

def areaGeo (t : Table) : List (Nat × Nat) := t.areas.map fun a => (a.base, a.size)
def entryGeo (t : Table) : List (Nat × Nat) := t.entries.map fun e => (e.address, e.type.size)

theorem ordered_areas_disjoint (t : Table) (h : Ordered (areaGeo t)) : Disjoint t.areas := by
  rw [ordered_pairwise, areaGeo, List.pairwise_map] at h
  have key : ∀ (i j : Nat) (a b : Area), i < j → t.areas[i]? = some a → t.areas[j]? = some b → a.base + a.size ≤ b.base := by
    intro i j a b hij ha hb
    have hj : j < t.areas.length := by
      rcases Nat.lt_or_ge j t.areas.length with h | h
      · exact h
      · rw [List.getElem?_eq_none h] at hb; simp at hb
    have := (List.pairwise_iff_getElem.mp h) i j (by omega) hj hij
    rw [List.getElem?_eq_getElem (by omega)] at ha
    rw [List.getElem?_eq_getElem hj] at hb
    rw [Option.some.inj ha, Option.some.inj hb] at this
    exact this
  intro i j a b hij ha hb
  rcases Nat.lt_or_ge i j with h1 | h1
  · left; exact key i j a b h1 ha hb
  · right; exact key j i b a (by omega) hb ha

theorem ordered_entries (t : Table) (h : Ordered (entryGeo t)) (i j : Nat) (e e' : Entry) (hij : i < j)
    (he : t.entries[i]? = some e) (he' : t.entries[j]? = some e') : e.address + e.type.size ≤ e'.address := by
  rw [ordered_pairwise, entryGeo, List.pairwise_map] at h
  have hj : j < t.entries.length := by
    rcases Nat.lt_or_ge j t.entries.length with h | h
    · exact h
    · rw [List.getElem?_eq_none h] at he'; simp at he'
  have := (List.pairwise_iff_getElem.mp h) i j (by omega) hj hij
  rw [List.getElem?_eq_getElem (by omega)] at he
  rw [List.getElem?_eq_getElem hj] at he'
  rw [Option.some.inj he, Option.some.inj he'] at this
  exact this

/-! ### loading one default -/

/-- a default the register accepts for itself while the table is being set up, and that can be stored -/
def DefaultOk (cb : Nat → Value → Bool) (be : Bool) (e : Entry) : Prop :=
  checkOk cb true e ⟨e.type, e.default⟩ = true ∧ (ser be e.type e.default).isSome = true

theorem checkOk_congr (cb : Nat → Value → Bool) (d : Bool) (e e' : Entry) (v : Value) (ht : e'.type = e.type)
    (hc : e'.check = e.check) : checkOk cb d e' v = checkOk cb d e v := by
  simp only [checkOk, ht, hc]

/-- loading a default into a register that lies inside a writable area succeeds exactly when the default is
    acceptable -/
theorem set_default_iff (cb : Nat → Value → Bool) (t : Table) (i : Nat) (e : Entry) (a : Area)
    (hi : t.initialised = true) (hd : t.duringInit = true) (he : t.entries[i]? = some e)
    (ha : t.areas[e.area]? = some a) (hw : a.hasWrite = true) (hfit : e.offset + e.type.size ≤ a.mem.length) :
    (register_set cb t i ⟨e.type, e.default⟩).1.code = .success ↔ DefaultOk cb t.bigEndian e := by
  simp only [register_set, register_setx, hi, he, ha, hw, rv_validate, hd, DefaultOk, Bool.not_true, Bool.false_eq_true,
    ↓reduceIte, beq_self_eq_true, Bool.true_and, Bool.not_eq_true']
  cases hc : checkOk cb true e ⟨e.type, e.default⟩ with
  | false => simp
  | true =>
    simp only [Bool.true_eq_false, ↓reduceIte, true_and]
    cases hs : ser t.bigEndian e.type e.default with
    | none => simp
    | some raw =>
      have hl := ser_length _ _ _ _ hs
      simp only [Area.write, hl, hfit, ↓reduceIte, Option.isSome_some]


/-! ### the default-loading loop -/

theorem get_congr (t t' : Table) (j : Nat) (hi : t'.initialised = t.initialised) (hb : t'.bigEndian = t.bigEndian)
    (ha : t'.areas = t.areas) (he : t'.entries[j]? = t.entries[j]?) : register_get t' j = register_get t j := by
  simp only [register_get, hi, hb, ha, he]

theorem map_strip_set (l : List Area) (k : Nat) (a a' : Area) (ha : l[k]? = some a) (hs : strip a' = strip a) :
    (l.set k a').map strip = l.map strip := by
  apply List.ext_getElem?
  intro n
  simp only [List.getElem?_map, List.getElem?_set]
  split
  · rename_i hkn
    subst hkn
    split
    · rw [ha]; simp [hs]
    · rename_i hlt
      rw [List.getElem?_eq_none (by omega)]
  · rfl

/-- state of the loop: registers below `i` are linked to the area they are located in, the defaults of registers
    below `d` (those in areas that load defaults) are stored and acceptable, all other storage is as in `t1` -/
structure LoadInv (cb : Nat → Value → Bool) (t1 : Table) (i d : Nat) (t : Table) : Prop where
  init : t.initialised = true
  during : t.duringInit = true
  endian : t.bigEndian = t1.bigEndian
  geo : t.areas.map strip = t1.areas.map strip
  sized : ∀ a ∈ t.areas, a.mem.length = a.size
  len : t.entries.length = t1.entries.length
  done : ∀ j e1, j < i → t1.entries[j]? = some e1 → ∃ k off, reg_entry_is_in_memory t1 e1 = some (k, off) ∧
           t.entries[j]? = some { e1 with area := k, offset := off }
  rest : ∀ j, i ≤ j → t.entries[j]? = t1.entries[j]?
  defaults : ∀ j e1 k off a1, j < d → t1.entries[j]? = some e1 → reg_entry_is_in_memory t1 e1 = some (k, off) →
           t1.areas[k]? = some a1 → need_to_load_default a1 = true →
           DefaultOk cb t1.bigEndian e1 ∧
           (e1.default < 2 ^ e1.type.bits → register_get t j = (⟨.success, 0⟩, some ⟨e1.type, e1.default⟩))
  cells : ∀ k a a1, t.areas[k]? = some a → t1.areas[k]? = some a1 → ∀ c,
           (∀ j e1 off, j < d → t1.entries[j]? = some e1 → reg_entry_is_in_memory t1 e1 = some (k, off) →
               need_to_load_default a1 = true → ¬ (off ≤ c ∧ c < off + e1.type.size)) → a.mem.getD c 0 = a1.mem.getD c 0

theorem getElem?_lt {α : Type} (l : List α) (i : Nat) (x : α) (h : l[i]? = some x) : i < l.length := by
  rcases Nat.lt_or_ge i l.length with h' | h'
  · exact h'
  · rw [List.getElem?_eq_none h'] at h; simp at h

/-- linking register `i` to its area -/
theorem link_step (cb : Nat → Value → Bool) (t1 t : Table) (i : Nat) (h : LoadInv cb t1 i i t) (e1 : Entry) (k off : Nat)
    (he1 : t1.entries[i]? = some e1) (hloc : reg_entry_is_in_memory t1 e1 = some (k, off)) :
    LoadInv cb t1 (i + 1) i { t with entries := t.entries.set i { e1 with area := k, offset := off } } := by
  have hil : i < t.entries.length := by rw [h.len]; exact getElem?_lt _ _ _ he1
  refine ⟨h.init, h.during, h.endian, h.geo, h.sized, by simp only [List.length_set]; exact h.len, ?_, ?_, ?_, h.cells⟩
  · intro j e hj he
    by_cases hji : j = i
    · subst hji
      rw [he1] at he
      have := Option.some.inj he; subst this
      exact ⟨k, off, hloc, by simp [hil]⟩
    · obtain ⟨k', off', l1, l2⟩ := h.done j e (by omega) he
      refine ⟨k', off', l1, ?_⟩
      simp only [List.getElem?_set]
      rw [if_neg (fun hh => hji hh.symm)]
      exact l2
  · intro j hj
    simp only [List.getElem?_set]
    rw [if_neg (by omega)]
    exact h.rest j (by omega)
  · intro j e k' off' a1 hj he hl ha hn
    obtain ⟨d1, d2⟩ := h.defaults j e k' off' a1 hj he hl ha hn
    refine ⟨d1, fun hb => ?_⟩
    rw [← d2 hb]
    refine get_congr t _ j ?_ ?_ ?_ ?_
    · rfl
    · rfl
    · rfl
    · simp only [List.getElem?_set]
      rw [if_neg (by omega)]

/-- a register whose area does not load defaults needs nothing more -/
theorem skip_step (cb : Nat → Value → Bool) (t1 t : Table) (i : Nat) (h : LoadInv cb t1 (i + 1) i t) (e1 : Entry) (k off : Nat)
    (a1 : Area) (he1 : t1.entries[i]? = some e1) (hloc : reg_entry_is_in_memory t1 e1 = some (k, off))
    (ha1 : t1.areas[k]? = some a1) (hn : need_to_load_default a1 = false) : LoadInv cb t1 (i + 1) (i + 1) t := by
  refine ⟨h.init, h.during, h.endian, h.geo, h.sized, h.len, h.done, h.rest, ?_, ?_⟩
  · intro j e k' off' a1' hj he hl ha hn'
    by_cases hji : j = i
    · subst hji
      rw [he1] at he; have := Option.some.inj he; subst this
      rw [hloc] at hl; simp only [Option.some.injEq, Prod.mk.injEq] at hl
      obtain ⟨rfl, rfl⟩ := hl
      rw [ha1] at ha; have := Option.some.inj ha; subst this
      rw [hn] at hn'; simp at hn'
    · exact h.defaults j e k' off' a1' (by omega) he hl ha hn'
  · intro k' a a1' ha ha1' c hc
    apply h.cells k' a a1' ha ha1' c
    intro j e off' hj he hl hn'
    exact hc j e off' (by omega) he hl hn'

theorem strip_flags (a a1 : Area) (h : strip a = strip a1) :
    a.base = a1.base ∧ a.size = a1.size ∧ a.hasWrite = a1.hasWrite ∧ need_to_load_default a = need_to_load_default a1 := by
  have e1 : a.base = a1.base := congrArg (fun x => x.base) h
  have e2 : a.size = a1.size := congrArg (fun x => x.size) h
  have e3 : a.hasWrite = a1.hasWrite := congrArg (fun x => x.hasWrite) h
  have e4 : a.skipDefaults = a1.skipDefaults := congrArg (fun x => x.skipDefaults) h
  exact ⟨e1, e2, e3, by simp only [need_to_load_default, e3, e4]⟩

theorem area_of_geo (t t1 : Table) (hg : t.areas.map strip = t1.areas.map strip) (k : Nat) (a1 : Area)
    (ha1 : t1.areas[k]? = some a1) : ∃ a, t.areas[k]? = some a ∧ strip a = strip a1 := by
  have := getElem_strip _ _ hg k
  rw [ha1] at this
  cases ha : t.areas[k]? with
  | none => rw [ha] at this; simp at this
  | some a => rw [ha] at this; exact ⟨a, rfl, by simpa using this⟩

theorem strip_write (a a' : Area) (hm : a' = { a with mem := a'.mem }) : strip a' = strip a := by
  rw [hm]; rfl

/-- loading the default of register `i` (its area loads defaults): it succeeds exactly when the default is
    acceptable, and then the loop state advances -/
theorem load_step (cb : Nat → Value → Bool) (t1 t : Table) (i : Nat) (hord : Ordered (entryGeo t1))
    (h : LoadInv cb t1 (i + 1) i t) (e1 : Entry) (k off : Nat) (a1 : Area) (he1 : t1.entries[i]? = some e1)
    (hloc : reg_entry_is_in_memory t1 e1 = some (k, off)) (ha1 : t1.areas[k]? = some a1)
    (hn : need_to_load_default a1 = true) :
    ((register_set cb t i ⟨e1.type, e1.default⟩).1.code = .success ↔ DefaultOk cb t1.bigEndian e1) ∧
    ((register_set cb t i ⟨e1.type, e1.default⟩).1.code = .success →
      LoadInv cb t1 (i + 1) (i + 1) (register_set cb t i ⟨e1.type, e1.default⟩).2) := by
  -- the linked entry
  have he' : t.entries[i]? = some { e1 with area := k, offset := off } := by
    obtain ⟨k', off', l1, l2⟩ := h.done i e1 (by omega) he1
    rw [hloc] at l1; simp only [Option.some.injEq, Prod.mk.injEq] at l1
    obtain ⟨rfl, rfl⟩ := l1
    exact l2
  obtain ⟨a1', ha1', hin, hoff⟩ := located_some t1 e1 k off hloc
  rw [ha1] at ha1'; have := Option.some.inj ha1'; subst this
  obtain ⟨a, ha, hsa⟩ := area_of_geo t t1 h.geo k a1 ha1
  obtain ⟨fb, fs, fw, fn⟩ := strip_flags a a1 hsa
  have hw : a.hasWrite = true := by
    rw [fw]; simp only [need_to_load_default, Bool.and_eq_true] at hn; exact hn.1
  have hsz : a.mem.length = a.size := h.sized a (List.mem_of_getElem? ha)
  have hfit : off + e1.type.size ≤ a.mem.length := by
    rw [hsz, fs, hoff]; have := hin.1; have := hin.2; omega
  have hiff := set_default_iff cb t i { e1 with area := k, offset := off } a h.init h.during he' ha hw hfit
  have hdo : DefaultOk cb t.bigEndian { e1 with area := k, offset := off } ↔ DefaultOk cb t1.bigEndian e1 := by
    simp only [DefaultOk, h.endian]
    rw [checkOk_congr cb true e1 { e1 with area := k, offset := off } ⟨e1.type, e1.default⟩ rfl rfl]
  refine ⟨hiff.trans hdo, ?_⟩
  intro hok
  have hdok : DefaultOk cb t1.bigEndian e1 := (hiff.trans hdo).mp hok
  rcases hres : register_set cb t i ⟨e1.type, e1.default⟩ with ⟨⟨code, adr⟩, t'⟩
  rw [hres] at hok
  simp only at hok
  subst hok
  obtain ⟨_, e, a0, raw, a', he, _, ha0, _, hser, hwr, ht'⟩ :=
    Ufw.Props.C01.set_success_inv cb t t' i ⟨e1.type, e1.default⟩ true adr hres
  rw [he'] at he; have := Option.some.inj he; subst this
  simp only at ha0 hser hwr ht'
  rw [ha] at ha0; have := Option.some.inj ha0; subst this
  obtain ⟨hm, hlen, hcells⟩ := write_cells a a' off raw hwr
  have hrl : raw.length = e1.type.size := ser_length _ _ _ _ hser
  subst ht'
  refine ⟨h.init, h.during, h.endian, ?_, ?_, h.len, h.done, h.rest, ?_, ?_⟩
  · show (t.areas.set k a').map strip = t1.areas.map strip
    rw [map_strip_set t.areas k a a' ha (strip_write a a' hm)]; exact h.geo
  · intro x hx
    rcases List.mem_or_eq_of_mem_set hx with hx | hx
    · exact h.sized x hx
    · subst hx
      have : x.size = a.size := by rw [hm]
      rw [hlen, this]; exact hsz
  · intro j ej kj offj aj hj hej hlj haj hnj
    by_cases hji : j = i
    · subst hji
      rw [he1] at hej; have := Option.some.inj hej; subst this
      refine ⟨hdok, fun hb => ?_⟩
      exact Ufw.Props.C01.checked_set_get cb t _ j ⟨e1.type, e1.default⟩ adr hres hb
    · obtain ⟨d1, d2⟩ := h.defaults j ej kj offj aj (by omega) hej hlj haj hnj
      refine ⟨d1, fun hb => ?_⟩
      rw [← d2 hb]
      apply Ufw.Props.C05.set_other_get_pair cb t _ i j ⟨e1.type, e1.default⟩ true adr hres
      intro x y hx hy
      rw [he'] at hx; have := Option.some.inj hx; subst this
      obtain ⟨kj', offj', m1, m2⟩ := h.done j ej (by omega) hej
      rw [hlj] at m1; simp only [Option.some.injEq, Prod.mk.injEq] at m1
      obtain ⟨rfl, rfl⟩ := m1
      rw [m2] at hy; have := Option.some.inj hy; subst this
      by_cases hk : k = kj
      · subst hk
        rw [ha1] at haj; have := Option.some.inj haj; subst this
        obtain ⟨aj', haj', hinj, hoffj⟩ := located_some t1 ej k offj hlj
        rw [ha1] at haj'; have := Option.some.inj haj'; subst this
        have := ordered_entries t1 hord j i ej e1 (by omega) hej he1
        right; right
        show offj + ej.type.size ≤ off
        have := hinj.1; have := hin.1
        omega
      · left; exact hk
  · intro k' x x1 hx hx1 c hc
    by_cases hk : k' = k
    · subst hk
      rw [set_getElem t.areas k' a a' ha] at hx
      have := Option.some.inj hx; subst this
      rw [ha1] at hx1; have := Option.some.inj hx1; subst this
      rw [hcells c]
      have hnot := hc i e1 off (by omega) he1 hloc hn
      rw [hrl, if_neg hnot]
      apply h.cells k' a a1 ha ha1 c
      intro j ej offj hj hej hlj hnj
      exact hc j ej offj (by omega) hej hlj hnj
    · have : (t.areas.set k a')[k']? = t.areas[k']? := by
        simp only [List.getElem?_set]
        rw [if_neg (fun hh => hk hh.symm)]
      rw [this] at hx
      apply h.cells k' x x1 hx hx1 c
      intro j ej offj hj hej hlj hnj
      exact hc j ej offj (by omega) hej hlj hnj

/-- how `register_init` gives up -/
abbrev failWith (c : InitCode) (p : Nat) (t : Table) : InitRes × Table :=
  (⟨c, p⟩, { t with initialised := false, duringInit := false })

/-- loading stops at register `p` with code `c` -/
def FailsAt (cb : Nat → Value → Bool) (t1 : Table) (c : InitCode) (p : Nat) : Prop :=
  ∃ e1, t1.entries[p]? = some e1 ∧
    ((c = .entryInMemoryHole ∧ reg_entry_is_in_memory t1 e1 = none) ∨
     (c = .entryInvalidDefault ∧ ∃ k off a1, reg_entry_is_in_memory t1 e1 = some (k, off) ∧ t1.areas[k]? = some a1 ∧
        need_to_load_default a1 = true ∧ ¬ DefaultOk cb t1.bigEndian e1))

/-- the loop as a whole: either every register is linked and loaded, or it stops at the first register that is
    located nowhere or whose default is refused -/
theorem load_spec (cb : Nat → Value → Bool) (t1 : Table) (hord : Ordered (entryGeo t1)) :
    ∀ (todo i : Nat) (t : Table), LoadInv cb t1 i i t → i + todo = t1.entries.length →
      ((register_init.load cb failWith todo i t).1 = ⟨.success, 0⟩ ∧
        LoadInv cb t1 t1.entries.length t1.entries.length (register_init.load cb failWith todo i t).2) ∨
      (∃ p tp, i ≤ p ∧ LoadInv cb t1 p p tp ∧ FailsAt cb t1 (register_init.load cb failWith todo i t).1.code p ∧
        (register_init.load cb failWith todo i t).1.pos = p ∧
        (register_init.load cb failWith todo i t).2.initialised = false) := by
  intro todo
  induction todo with
  | zero =>
    intro i t h hlen
    left
    have : i = t1.entries.length := by omega
    subst this
    refine ⟨by simp only [register_init.load], ?_⟩
    simp only [register_init.load]
    exact h
  | succ todo ih =>
    intro i t h hlen
    have hil : i < t1.entries.length := by omega
    have he1 : t1.entries[i]? = some t1.entries[i] := List.getElem?_eq_getElem hil
    generalize t1.entries[i] = e1 at he1
    have het : t.entries[i]? = some e1 := by rw [h.rest i (Nat.le_refl _)]; exact he1
    simp only [register_init.load, het, located_congr t t1 e1 h.geo]
    cases hloc : reg_entry_is_in_memory t1 e1 with
    | none =>
      right
      exact ⟨i, t, Nat.le_refl _, h, ⟨e1, he1, Or.inl ⟨rfl, hloc⟩⟩, rfl, rfl⟩
    | some v =>
      obtain ⟨k, off⟩ := v
      simp only
      have h2 := link_step cb t1 t i h e1 k off he1 hloc
      obtain ⟨a1, ha1, _, _⟩ := located_some t1 e1 k off hloc
      obtain ⟨a, ha, hsa⟩ := area_of_geo t t1 h.geo k a1 ha1
      simp only [ha]
      obtain ⟨_, _, _, fn⟩ := strip_flags a a1 hsa
      cases hn : need_to_load_default a1 with
      | false =>
        rw [fn, hn]
        simp only [Bool.false_eq_true, ↓reduceIte]
        rcases ih (i + 1) _ (skip_step cb t1 _ i h2 e1 k off a1 he1 hloc ha1 hn) (by omega) with r | ⟨p, tp, hp, r⟩
        · exact Or.inl r
        · exact Or.inr ⟨p, tp, by omega, r⟩
      | true =>
        rw [fn, hn]
        simp only [↓reduceIte]
        obtain ⟨s1, s2⟩ := load_step cb t1 _ i hord h2 e1 k off a1 he1 hloc ha1 hn
        rcases hres : register_set cb { t with entries := t.entries.set i { e1 with area := k, offset := off } } i
            ⟨e1.type, e1.default⟩ with ⟨⟨code, adr⟩, t'⟩
        rw [hres] at s1 s2
        simp only at s1 s2
        by_cases hc : code = .success
        · subst hc
          simp only
          rcases ih (i + 1) t' (s2 rfl) (by omega) with r | ⟨p, tp, hp, r⟩
          · exact Or.inl r
          · exact Or.inr ⟨p, tp, by omega, r⟩
        · right
          have hnd : ¬ DefaultOk cb t1.bigEndian e1 := fun hd => hc (s1.mpr hd)
          refine ⟨i, t, Nat.le_refl _, h, ?_, ?_, ?_⟩
          · cases code <;> first | exact absurd rfl hc | exact ⟨e1, he1, Or.inr ⟨rfl, k, off, a1, hloc, ha1, hn, hnd⟩⟩
          · cases code <;> first | exact absurd rfl hc | rfl
          · cases code <;> first | exact absurd rfl hc | rfl

/-! ### what the areas record -/

theorem takeWhile_spec {α : Type} (p : α → Bool) : ∀ (l : List α),
    (∀ i x, i < (l.takeWhile p).length → l[i]? = some x → p x = true) ∧
    (∀ x, l[(l.takeWhile p).length]? = some x → p x = false) := by
  intro l
  induction l with
  | nil => simp
  | cons a r ih =>
    by_cases hp : p a = true
    · simp only [List.takeWhile_cons, hp, ↓reduceIte, List.length_cons]
      refine ⟨?_, ?_⟩
      · intro i x hi hx
        cases i with
        | zero => simp only [List.getElem?_cons_zero, Option.some.injEq] at hx; subst hx; exact hp
        | succ i => simp only [List.getElem?_cons_succ] at hx; exact ih.1 i x (by omega) hx
      · intro x hx
        simp only [List.getElem?_cons_succ] at hx
        exact ih.2 x hx
    · simp only [List.takeWhile_cons, hp, Bool.false_eq_true, ↓reduceIte, List.length_nil]
      refine ⟨fun i x hi => absurd hi (by omega), ?_⟩
      intro x hx
      simp only [List.getElem?_cons_zero, Option.some.injEq] at hx
      subst hx
      simpa using hp

/-- area `b` records exactly the registers of `es` whose address lies in it: `count` of them, the contiguous run
    `first .. last` (all three zero when there is none) -/
def Records (es : List Entry) (b : Area) : Prop :=
  (∀ (j : Nat) (e : Entry), es[j]? = some e → (ra_addr_is_part_of b e.address = true ↔ (b.count ≠ 0 ∧ b.first ≤ j ∧ j ≤ b.last))) ∧
  (b.count ≠ 0 → b.last + 1 = b.first + b.count) ∧ (b.count = 0 → b.first = 0 ∧ b.last = 0)

theorem linkAreas_records (es : List Entry)
    (hasc : ∀ (i j : Nat) (e e' : Entry), i < j → es[i]? = some e → es[j]? = some e' → e.address < e'.address) :
    ∀ (areas : List Area) (n : Nat), areas.Pairwise (fun a b => a.base + a.size ≤ b.base) →
      (∀ (j : Nat) (e : Entry), es[j]? = some e → j < n → ∀ a ∈ areas, ra_addr_is_part_of a e.address = false) →
      (∀ (j : Nat) (e : Entry), es[j]? = some e → n ≤ j → ∃ a ∈ areas, ra_addr_is_part_of a e.address = true) →
      ∀ (k : Nat) (b : Area), (linkAreas es areas n)[k]? = some b → Records es b := by
  intro areas
  induction areas with
  | nil => intro n _ _ _ k b h; simp [linkAreas] at h
  | cons a rest ih =>
    intro n hpw h1 h2 k b hb
    have hpw' := (List.pairwise_cons.mp hpw)
    -- a register that lies in a later area lies behind `a`
    have later : ∀ x : Nat, (∃ a' ∈ rest, ra_addr_is_part_of a' x = true) → a.base + a.size ≤ x := by
      intro x ⟨a', ha', hx⟩
      have := hpw'.1 a' ha'
      simp only [ra_addr_is_part_of, Bool.and_eq_true, decide_eq_true_eq] at hx
      omega
    have notin : ∀ x : Nat, a.base + a.size ≤ x → ra_addr_is_part_of a x = false := by
      intro x hx
      simp only [ra_addr_is_part_of, Bool.and_eq_false_imp, decide_eq_true_eq, decide_eq_false_iff_not]
      intro _; omega
    have inrest : ∀ j e, es[j]? = some e → n ≤ j → ra_addr_is_part_of a e.address = false →
        ∃ a' ∈ rest, ra_addr_is_part_of a' e.address = true := by
      intro j e he hj hna
      obtain ⟨a', ha', hp⟩ := h2 j e he hj
      rcases List.mem_cons.mp ha' with rfl | ha'
      · rw [hna] at hp; simp at hp
      · exact ⟨a', ha', hp⟩
    simp only [linkAreas] at hb
    cases hn : es[n]? with
    | none =>
      simp only [hn] at hb
      have hnl : es.length ≤ n := by
        rcases Nat.lt_or_ge n es.length with h | h
        · rw [List.getElem?_eq_getElem h] at hn; simp at hn
        · exact h
      cases k with
      | zero =>
        simp only [List.getElem?_cons_zero, Option.some.injEq] at hb
        subst hb
        refine ⟨?_, by simp, by simp⟩
        intro j e he
        have hj : j < n := by have := getElem?_lt _ _ _ he; omega
        have := h1 j e he hj a List.mem_cons_self
        simp only [ra_addr_is_part_of] at this ⊢
        simp [this]
      | succ k =>
        simp only [List.getElem?_cons_succ] at hb
        exact ih n hpw'.2 (fun j e he hj a' ha' => h1 j e he hj a' (List.mem_cons_of_mem _ ha'))
          (fun j e he hj => by have := getElem?_lt _ _ _ he; omega) k b hb
    | some e0 =>
      simp only [hn] at hb
      by_cases hp0 : ra_addr_is_part_of a e0.address = true
      · simp only [hp0, ↓reduceIte] at hb
        have tw := takeWhile_spec (fun x : Entry => ra_addr_is_part_of a x.address) (es.drop (n + 1))
        generalize hrun : ((es.drop (n + 1)).takeWhile fun x => ra_addr_is_part_of a x.address).length = run at hb tw
        -- the run [n, n + 1 + run) lies in `a`, what follows does not
        have inrun : ∀ j e, es[j]? = some e → n ≤ j → j < n + 1 + run → ra_addr_is_part_of a e.address = true := by
          intro j e he hj1 hj2
          by_cases hjn : j = n
          · subst hjn; rw [hn] at he; have := Option.some.inj he; subst this; exact hp0
          · apply tw.1 (j - (n + 1)) e (by omega)
            rw [List.getElem?_drop]
            have : n + 1 + (j - (n + 1)) = j := by omega
            rw [this]; exact he
        have stop : ∀ e, es[n + 1 + run]? = some e → ra_addr_is_part_of a e.address = false := by
          intro e he
          apply tw.2 e
          rw [List.getElem?_drop]; exact he
        have after : ∀ j e, es[j]? = some e → n + 1 + run ≤ j → ra_addr_is_part_of a e.address = false := by
          intro j e he hj
          have hjl := getElem?_lt _ _ _ he
          have hsl : n + 1 + run < es.length := by omega
          have hs := stop es[n + 1 + run] (List.getElem?_eq_getElem hsl)
          have hge := later _ (inrest (n + 1 + run) _ (List.getElem?_eq_getElem hsl) (by omega) hs)
          by_cases hjs : j = n + 1 + run
          · subst hjs
            rw [List.getElem?_eq_getElem hsl] at he; have := Option.some.inj he; subst this; exact hs
          · have := hasc (n + 1 + run) j _ e (by omega) (List.getElem?_eq_getElem hsl) he
            exact notin _ (by omega)
        cases k with
        | zero =>
          simp only [List.getElem?_cons_zero, Option.some.injEq] at hb
          subst hb
          refine ⟨?_, by simp; omega, by simp; omega⟩
          intro j e he
          simp only
          constructor
          · intro hp
            have hp' : ra_addr_is_part_of a e.address = true := hp
            refine ⟨by omega, ?_, ?_⟩
            · rcases Nat.lt_or_ge j n with h | h
              · have := h1 j e he h a List.mem_cons_self; rw [this] at hp'; simp at hp'
              · exact h
            · rcases Nat.lt_or_ge j (n + 1 + run) with h | h
              · omega
              · have := after j e he h; rw [this] at hp'; simp at hp'
          · intro ⟨_, hj1, hj2⟩
            exact inrun j e he hj1 (by omega)
        | succ k =>
          simp only [List.getElem?_cons_succ] at hb
          refine ih (n + 1 + run) hpw'.2 ?_ ?_ k b hb
          · intro j e he hj a' ha'
            rcases Nat.lt_or_ge j n with h | h
            · exact h1 j e he h a' (List.mem_cons_of_mem _ ha')
            · have hp := inrun j e he h hj
              have := hpw'.1 a' ha'
              simp only [ra_addr_is_part_of, Bool.and_eq_true, decide_eq_true_eq] at hp
              simp only [ra_addr_is_part_of, Bool.and_eq_false_imp, decide_eq_true_eq, decide_eq_false_iff_not]
              intro _; omega
          · intro j e he hj
            exact inrest j e he (by omega) (after j e he hj)
      · have hp0' : ra_addr_is_part_of a e0.address = false := by simpa using hp0
        simp only [hp0', Bool.false_eq_true, ↓reduceIte] at hb
        have hge0 := later _ (inrest n e0 hn (Nat.le_refl _) hp0')
        have after : ∀ j e, es[j]? = some e → n ≤ j → ra_addr_is_part_of a e.address = false := by
          intro j e he hj
          by_cases hjn : j = n
          · subst hjn; rw [hn] at he; have := Option.some.inj he; subst this; exact hp0'
          · have := hasc n j e0 e (by omega) hn he
            exact notin _ (by omega)
        cases k with
        | zero =>
          simp only [List.getElem?_cons_zero, Option.some.injEq] at hb
          subst hb
          refine ⟨?_, by simp, by simp⟩
          intro j e he
          have : ra_addr_is_part_of a e.address = false := by
            rcases Nat.lt_or_ge j n with h | h
            · exact h1 j e he h a List.mem_cons_self
            · exact after j e he h
          simp only [ra_addr_is_part_of] at this ⊢
          simp [this]
        | succ k =>
          simp only [List.getElem?_cons_succ] at hb
          exact ih n hpw'.2 (fun j e he hj a' ha' => h1 j e he hj a' (List.mem_cons_of_mem _ ha'))
            (fun j e he hj => inrest j e he hj (after j e he hj)) k b hb

theorem areaGeo_strip (t t1 : Table) (h : t.areas.map strip = t1.areas.map strip) : areaGeo t = areaGeo t1 := by
  have e : ∀ l : List Area, l.map (fun a => (a.base, a.size)) = (l.map strip).map (fun a => (a.base, a.size)) := by
    intro l; simp [List.map_map, Function.comp_def, strip]
  simp only [areaGeo]
  rw [e t.areas, e t1.areas, h]

theorem ordered_areas_pairwise (t : Table) (h : Ordered (areaGeo t)) :
    t.areas.Pairwise (fun a b => a.base + a.size ≤ b.base) := by
  rw [ordered_pairwise, areaGeo, List.pairwise_map] at h
  exact h

end Ufw.Lemmas.RegInit





