/-
Helper lemmas for the register-protocol theorems (C06-C09): bit tests as arithmetic, the link
between the model's CRC calls and the CRC spec, the header codec in closed form.
-/
import Ufw.Model.Regp
import Ufw.Spec.Regp
import Ufw.Lemmas.EndianSpec
import Ufw.Props.C16
import Ufw.Props.C12

namespace Ufw.Lemmas.Regp
open Ufw Ufw.Model.Regp
open Ufw.Spec.Regp (be unbe crc16)

/-! ### bits -/

theorem and_two_pow_eq (x i : Nat) : x &&& 2 ^ i = 2 ^ i * (x / 2 ^ i % 2) := by
  have h1 : (x &&& 2 ^ i) / 2 ^ i = x / 2 ^ i % 2 := by
    rw [Nat.and_div_two_pow, Nat.div_self (Nat.two_pow_pos i), Nat.and_one_is_mod]
  have h2 : (x &&& 2 ^ i) % 2 ^ i = 0 := by
    rw [Nat.and_mod_two_pow, Nat.mod_self, Nat.and_zero]
  have := Nat.div_add_mod (x &&& 2 ^ i) (2 ^ i)
  rw [h1, h2] at this
  omega

theorem and_two_pow_ne_zero (x i : Nat) : (x &&& 2 ^ i ≠ 0) ↔ x / 2 ^ i % 2 = 1 := by
  rw [and_two_pow_eq]
  have : 0 < 2 ^ i := Nat.two_pow_pos i
  constructor
  · intro h
    have : x / 2 ^ i % 2 ≠ 0 := by intro h0; rw [h0] at h; simp at h
    omega
  · intro h; rw [h]; omega

theorem motv_arith : ∀ t, t < 16 → ∀ o, o < 8 → ∀ m, m < 16 →
    (((t &&& 0xf) <<< 4) ||| (o <<< 8) ||| (m <<< 12)) % 65536 = m * 4096 + o * 256 + t * 16 := by
  decide +kernel

theorem flags_arith : ∀ t, t < 16 → ∀ o, o < 8 → ∀ m, m < 16 →
    raw_with_hdcrc (m * 4096 + o * 256 + t * 16) = decide (o / 2 % 2 = 1) ∧
    raw_with_plcrc (m * 4096 + o * 256 + t * 16) = decide (o / 4 % 2 = 1) := by
  decide +kernel

/-! ### CRC -/

theorem crcOf_eq (l : List Octet) : crcOf 0 l = crc16 l := by
  simp only [crcOf, crc16, Ufw.Props.C16.crc_eq_spec]

theorem crcOf_append (a b : List Octet) : crcOf (crcOf 0 a) b = crcOf 0 (a ++ b) := by
  simp only [crcOf, Ufw.Model.Crc.ufw_crc16_arc, List.foldl_append, BitVec.ofNat_toNat, BitVec.setWidth_eq]

theorem crcOf_crc16 (a b : List Octet) : crcOf (crc16 a) b = crc16 (a ++ b) := by
  rw [← crcOf_eq, crcOf_append, crcOf_eq]

theorem crcOf_lt (i : Nat) (l : List Octet) : crcOf i l < 65536 := by
  simp only [crcOf]; exact (Ufw.Model.Crc.ufw_crc16_arc _ l).isLt

theorem crc16_lt (l : List Octet) : crc16 l < 65536 := by
  rw [← crcOf_eq]; exact crcOf_lt 0 l

/-! ### endian helpers -/

theorem be_length (n v : Nat) : (be n v).length = n := Ufw.Lemmas.EndianSpec.store_length true n v
theorem be16_length (v : Nat) : (be16 v).length = 2 := Ufw.Lemmas.EndianSpec.store_length true 2 v
theorem be32_length (v : Nat) : (be32 v).length = 4 := Ufw.Lemmas.EndianSpec.store_length true 4 v

theorem unbe_be (n v : Nat) : unbe (be n v) = v % 256 ^ n := Ufw.Lemmas.EndianSpec.load_store true n v
theorem ref_be16 (v : Nat) : ref (be16 v) = v % 65536 := Ufw.Lemmas.EndianSpec.load_store true 2 v
theorem ref_be32 (v : Nat) : ref (be32 v) = v % 4294967296 := Ufw.Lemmas.EndianSpec.load_store true 4 v

/-! ### the header in closed form -/

/-- WORD-SIZE-16 as the emitters choose it -/
def ws16Of (c : Cfg) (msem : Msem) : Bool := (msem = .auto ∧ c.mem16) ∨ msem = .s16

/-- does the emitter declare a payload checksum -/
def plOf (c : Cfg) (t n : Nat) : Bool := c.serial ∧ n > 0 ∧ t ≠ 0

def optsOf (c : Cfg) (msem : Msem) (t n : Nat) : Nat :=
  (if ws16Of c msem then 1 else 0) + (if c.serial then 2 else 0) + (if plOf c t n then 4 else 0)

/-- the twelve octets every header starts with -/
def headOf (c : Cfg) (msem : Msem) (t code seq addr n : Nat) : List Octet :=
  be 2 (code * 4096 + optsOf c msem t n * 256 + t * 16) ++ be 2 seq ++ be 4 addr ++ be 4 n

theorem headOf_length (c : Cfg) (msem : Msem) (t code seq addr n : Nat) :
    (headOf c msem t code seq addr n).length = 12 := by
  simp [headOf, be_length]

theorem opts_or_eq (c : Cfg) (msem : Msem) (t n : Nat) :
    ((if (msem = .auto ∧ c.mem16) ∨ msem = .s16 then 1 else 0) ||| (if c.serial then 2 else 0)
      ||| (if c.serial ∧ n > 0 ∧ t ≠ 0 then 4 else 0)) = optsOf c msem t n := by
  simp only [optsOf, ws16Of, plOf]
  by_cases h1 : (msem = .auto ∧ c.mem16) ∨ msem = .s16 <;> by_cases h2 : c.serial = true <;>
    by_cases h3 : n > 0 ∧ t ≠ 0 <;> simp [h1, h2, h3]

theorem optsOf_lt (c : Cfg) (msem : Msem) (t n : Nat) : optsOf c msem t n < 8 := by
  simp only [optsOf]; split <;> split <;> split <;> omega

theorem optsOf_bits (c : Cfg) (msem : Msem) (t n : Nat) :
    decide (optsOf c msem t n / 2 % 2 = 1) = c.serial ∧ decide (optsOf c msem t n / 4 % 2 = 1) = plOf c t n := by
  simp only [optsOf]
  by_cases a : ws16Of c msem = true <;> by_cases b : c.serial = true <;> by_cases d : plOf c t n = true <;>
    simp [a, b, d]

/-- `encode_header` = the document's header layout -/
theorem encode_header_eq (c : Cfg) (msem : Msem) (t code seq addr n plcrc : Nat) (ht : t < 16) (hc : code < 16) :
    encode_header c msem t code seq addr n plcrc =
      let head := headOf c msem t code seq addr n
      let plc := if plOf c t n then be 2 plcrc else []
      let hdc := if c.serial then be 2 (crc16 (head ++ plc)) else []
      head ++ hdc ++ plc := by
  have hm : make_motv c msem code t n = code * 4096 + optsOf c msem t n * 256 + t * 16 := by
    simp only [make_motv, opts_or_eq]
    exact motv_arith t ht _ (optsOf_lt c msem t n) code hc
  have hlt : code * 4096 + optsOf c msem t n * 256 + t * 16 < 65536 := by
    have := optsOf_lt c msem t n; omega
  have hfl := flags_arith t ht _ (optsOf_lt c msem t n) code hc
  have hb := optsOf_bits c msem t n
  have hbuf : populate_header c msem t code seq addr n plcrc =
      headOf c msem t code seq addr n ++ ([0#8, 0#8] ++ be16 plcrc) := by
    simp only [populate_header, hm, headOf, be16, be32, be, List.append_assoc]
  have hlen := headOf_length c msem t code seq addr n
  have hmotv : ref ((headOf c msem t code seq addr n ++ ([0#8, 0#8] ++ be16 plcrc)).take 2) =
      code * 4096 + optsOf c msem t n * 256 + t * 16 := by
    have : (headOf c msem t code seq addr n ++ ([0#8, 0#8] ++ be16 plcrc)).take 2 =
        be16 (code * 4096 + optsOf c msem t n * 256 + t * 16) := by
      simp only [headOf, List.append_assoc]
      exact List.take_left' (be_length 2 _)
    rw [this, ref_be16, Nat.mod_eq_of_lt hlt]
  simp only [encode_header, hbuf, hmotv, hfl.1, hfl.2, hb.1, hb.2]
  have t12 : (headOf c msem t code seq addr n ++ ([0#8, 0#8] ++ be16 plcrc)).take 12 = headOf c msem t code seq addr n :=
    List.take_left' hlen
  have d14 : (headOf c msem t code seq addr n ++ ([0#8, 0#8] ++ be16 plcrc)).drop 14 = be16 plcrc := by
    rw [← List.append_assoc]
    exact List.drop_left' (by simp [hlen])
  rw [t12, d14]
  have tk2 : (be16 plcrc).take 2 = be16 plcrc := List.take_of_length_le (by simp [be16_length])
  rw [tk2]
  cases hs : c.serial <;> cases hp : plOf c t n
  · simp [hlen]
  · simp [plOf, hs] at hp
  · simp only [Bool.false_eq_true, ↓reduceIte, Nat.add_zero, List.append_nil]
    have key : ∀ (A B : List Octet), A.length = 2 →
        List.take (2 * (6 + 1)) (headOf c msem t code seq addr n ++ A ++ B) = headOf c msem t code seq addr n ++ A := by
      intro A B hA
      exact List.take_left' (by rw [List.length_append, hlen, hA])
    rw [key _ _ (be16_length _), crcOf_eq]; rfl
  · simp only [↓reduceIte]
    rw [← crcOf_eq, crcOf_append, crcOf_eq, List.take_of_length_le (by simp [hlen, be16_length])]
    simp [be16, be, crcOf_eq]

/-! ### a spec frame in the emitters' terms -/

open Ufw.Spec.Regp (Frame MType) in
/-- the octets the document prescribes for a frame on a transport are the emitters' header
    followed by the payload, provided the emitter's word-size choice and its "has payload" test
    (block size > 0 and not a read request) agree with the frame -/
theorem frame_octets_eq (c : Cfg) (msem : Msem) (f : Frame)
    (hws : ws16Of c msem = f.ws16)
    (hpl : plOf c f.type.code f.size = (c.serial && !f.payload.isEmpty))
    (hcode : f.code < 16) :
    (f.onTransport c.serial).octets =
      encode_header c msem f.type.code f.code f.seq f.addr f.size (crc16 f.payload) ++ f.payload := by
  have ht : f.type.code < 16 := by cases f.type <;> simp [MType.code]
  rw [encode_header_eq c msem _ _ _ _ _ _ ht hcode]
  have hopt : (f.onTransport c.serial).options = optsOf c msem f.type.code f.size := by
    simp only [Frame.options, Frame.onTransport, optsOf, hws, hpl]
    first | rfl | (split <;> split <;> split <;> simp_all)
  simp only [Frame.octets, Frame.word0, hopt, headOf]
  simp only [Frame.onTransport, hpl]
  cases hs : c.serial <;> simp

/-! ### sending -/

open Ufw.Model.Slip (Snk) in
theorem putAll_ok : ∀ (l : List Octet) (s : Snk), l.length ≤ s.room →
    s.putAll l = (none, { s with got := s.got ++ l, room := s.room - l.length }) := by
  intro l; induction l with
  | nil => intro s _; simp [Snk.putAll]
  | cons o os ih =>
    intro s h
    simp only [List.length_cons] at h
    simp only [Snk.putAll, Ufw.Lemmas.Slip.put_ok s o (by omega)]
    rw [ih _ (by simp; omega)]
    simp only [List.append_assoc, List.singleton_append, List.length_cons]
    congr 2; omega

theorem encode_eq_leb128 (n : Nat) : Ufw.Model.Varint.encode n = Ufw.Spec.Regp.leb128 n := by
  induction n using Nat.strongRecOn with
  | _ n ih =>
    rw [Ufw.Model.Varint.encode, Ufw.Spec.Regp.leb128]
    by_cases h : n < 128
    · have : n / 128 = 0 := by omega
      simp [h, this, Nat.mod_eq_of_lt h]
    · have : ¬ n / 128 = 0 := by omega
      simp only [h, this, ↓reduceDIte]
      rw [ih (n / 128) (by omega)]

open Ufw.Model.Slip (Snk) in
/-- `send_memory` into a sink with enough room: the frame octets in the transport's framing -/
theorem send_memory_spec (c : Cfg) (snk : Snk) (hdr : List Octet) (pl : Option (List Octet))
    (hroom : (if c.serial then Ufw.Spec.Slip.frame false (hdr ++ pl.getD [])
              else Ufw.Spec.Regp.leb128 (hdr ++ pl.getD []).length ++ (hdr ++ pl.getD [])).length ≤ snk.room) :
    (send_memory c snk hdr pl).rc = none ∧
    (send_memory c snk hdr pl).snk.got = snk.got ++
      (if c.serial then Ufw.Spec.Slip.frame false (hdr ++ pl.getD [])
       else Ufw.Spec.Regp.leb128 (hdr ++ pl.getD []).length ++ (hdr ++ pl.getD [])) := by
  cases hs : c.serial
  · simp only [hs, Bool.false_eq_true, ↓reduceIte, List.length_append] at hroom ⊢
    simp only [send_memory, hs, Bool.false_eq_true, ↓reduceIte, encode_eq_leb128, List.length_append]
    rw [putAll_ok _ snk (by omega)]
    simp only
    rw [putAll_ok hdr _ (by simp; omega)]
    simp only
    rw [putAll_ok (pl.getD []) _ (by simp; omega)]
    simp [List.append_assoc]
  · simp only [hs, ↓reduceIte] at hroom ⊢
    simp only [send_memory, hs, ↓reduceIte]
    rw [← Ufw.Props.C12.enc_eq_rfc] at hroom ⊢
    exact Ufw.Props.C12.encode_emits_enc false (hdr ++ pl.getD []) snk hroom

end Ufw.Lemmas.Regp
