/-
Burst errors against the document's reading of a frame (C07): a frame that was accepted and is
then damaged by an error pattern confined to sixteen consecutive bits inside a checksummed
region (the header words behind word 0, or the payload) is no longer accepted.
-/
import Ufw.Lemmas.Regp
import Ufw.Lemmas.CrcAlgebra

namespace Ufw.Lemmas.Regp
open Ufw
open Ufw.Spec.Regp
open Ufw.Lemmas.CrcAlgebra (xorL Burst16 Detectable)

/-- header length announced by the first header word -/
def hlenOf (w0 : Nat) : Nat := 12 + (if bit w0 9 then 2 else 0) + (if bit w0 10 then 2 else 0)

/-- the payload checksum word of a frame with first word `w0` -/
def plcWordOf (raw : List Octet) (w0 : Nat) : List Octet :=
  if bit w0 10 then (raw.drop (hlenOf w0 - 2)).take 2 else []

/-- what "accepted" means, guard by guard -/
theorem accept_inv (raw : List Octet) (f : Frame) (h : classify raw = .accept f) :
    ¬ raw.length < 12 ∧
    (unbe (raw.take 2)) % 16 = 0 ∧
    ∃ t, MType.ofCode (unbe (raw.take 2) / 16 % 16) = some t ∧
      bit (unbe (raw.take 2)) 11 = false ∧
      codeValid t (unbe (raw.take 2) / 4096 % 16) = true ∧
      ¬ raw.length < hlenOf (unbe (raw.take 2)) ∧
      (bit (unbe (raw.take 2)) 9 = true →
        unbe ((raw.drop 12).take 2) = crc16 (raw.take 12 ++ plcWordOf raw (unbe (raw.take 2)))) ∧
      f = { type := t, ws16 := bit (unbe (raw.take 2)) 8, hdcrc := bit (unbe (raw.take 2)) 9,
            plcrc := bit (unbe (raw.take 2)) 10, code := unbe (raw.take 2) / 4096 % 16,
            seq := unbe ((raw.drop 2).take 2), addr := unbe ((raw.drop 4).take 4), size := unbe ((raw.drop 8).take 4),
            payload := raw.drop (hlenOf (unbe (raw.take 2))) } ∧
      sizeValid f = true ∧
      (f.plcrc = true → f.payload ≠ [] → unbe (plcWordOf raw (unbe (raw.take 2))) = crc16 f.payload) := by
  simp only [classify] at h
  split at h
  · simp at h
  rename_i hlen
  refine ⟨hlen, ?_⟩
  simp only [classifyWord] at h
  have eH : (12 + (if bit (unbe (raw.take 2)) 9 then 2 else 0) + (if bit (unbe (raw.take 2)) 10 then 2 else 0)) =
      hlenOf (unbe (raw.take 2)) := rfl
  simp only [eH] at h
  have eW : (if bit (unbe (raw.take 2)) 10 then (raw.drop (hlenOf (unbe (raw.take 2)) - 2)).take 2 else []) =
      plcWordOf raw (unbe (raw.take 2)) := rfl
  simp only [eW] at h
  generalize hlenOf (unbe (raw.take 2)) = H at h ⊢
  generalize plcWordOf raw (unbe (raw.take 2)) = W at h ⊢
  split at h
  · simp at h
  rename_i hv
  refine ⟨by simpa using hv, ?_⟩
  split at h
  · simp at h
  rename_i t ht
  refine ⟨t, ht, ?_⟩
  split at h
  · simp at h
  rename_i h11
  refine ⟨by simpa using h11, ?_⟩
  split at h
  · simp at h
  rename_i hcv
  refine ⟨by simpa using hcv, ?_⟩
  split at h
  · simp at h
  rename_i hl
  refine ⟨hl, ?_⟩
  split at h
  · simp at h
  rename_i hcrc
  split at h
  · simp at h
  rename_i hsz
  split at h
  · simp at h
  rename_i hpc
  simp only [Verdict.accept.injEq] at h
  refine ⟨?_, h.symm, ?_, ?_⟩
  · intro hd
    by_cases he : unbe ((raw.drop 12).take 2) = crc16 (raw.take 12 ++ W)
    · exact he
    · exact absurd ⟨hd, he⟩ hcrc
  · rw [← h]; simpa using hsz
  · intro hp hne
    rw [← h] at hp hne
    simp only at hp hne
    by_cases he : unbe W = crc16 f.payload
    · exact he
    · exfalso
      apply hpc
      rw [← h] at he
      exact ⟨hp, by simpa [List.isEmpty_iff] using hne, he⟩

/-- the reading of a string whose header guards pass -/
theorem classify_of_guards (raw : List Octet) (t : MType) (hlen : ¬ raw.length < 12)
    (hv : unbe (raw.take 2) % 16 = 0) (ht : MType.ofCode (unbe (raw.take 2) / 16 % 16) = some t)
    (h11 : bit (unbe (raw.take 2)) 11 = false) (hcv : codeValid t (unbe (raw.take 2) / 4096 % 16) = true)
    (hl : ¬ raw.length < hlenOf (unbe (raw.take 2))) :
    classify raw =
      (if bit (unbe (raw.take 2)) 9 = true ∧
          unbe ((raw.drop 12).take 2) ≠ crc16 (raw.take 12 ++ plcWordOf raw (unbe (raw.take 2))) then .badHeaderChecksum
       else
        let f : Frame := Frame.mk t (bit (unbe (raw.take 2)) 8) (bit (unbe (raw.take 2)) 9)
            (bit (unbe (raw.take 2)) 10) (unbe (raw.take 2) / 4096 % 16)
            (unbe ((raw.drop 2).take 2)) (unbe ((raw.drop 4).take 4)) (unbe ((raw.drop 8).take 4))
            (raw.drop (hlenOf (unbe (raw.take 2))))
        if !sizeValid f then .badPayloadSize f
        else if bit (unbe (raw.take 2)) 10 = true ∧ !f.payload.isEmpty ∧
            unbe (plcWordOf raw (unbe (raw.take 2))) ≠ crc16 f.payload then .badPayloadChecksum f
        else .accept f) := by
  have hl' : ¬ raw.length < 12 + (if bit (unbe (raw.take 2)) 9 then 2 else 0) + (if bit (unbe (raw.take 2)) 10 then 2 else 0) := hl
  simp only [classify, hlen, ↓reduceIte, classifyWord, hv, ne_eq, not_true_eq_false, ht, h11, Bool.false_eq_true, hcv,
    Bool.not_true, hl']
  rfl

theorem crc16_ne_of_burst (m e : List Octet) (hlen : m.length = e.length) (h : Burst16 e) :
    crc16 (xorL m e) ≠ crc16 m := by
  intro h0
  simp only [crc16] at h0
  exact Ufw.Lemmas.CrcAlgebra.crc_detects_burst m e hlen h 0#16 (BitVec.eq_of_toNat_eq h0)

theorem burst_append_zeros (e : List Octet) (h : Burst16 e) (n : Nat) : Burst16 (e ++ List.replicate n 0#8) := by
  cases h with
  | one k j a h =>
    have : List.replicate k 0#8 ++ [a] ++ List.replicate j 0#8 ++ List.replicate n 0#8 =
        List.replicate k 0#8 ++ [a] ++ List.replicate (j + n) 0#8 := by
      simp [List.replicate_append_replicate]
    rw [this]; exact .one k (j + n) a h
  | two k j a b h =>
    have : List.replicate k 0#8 ++ [a, b] ++ List.replicate j 0#8 ++ List.replicate n 0#8 =
        List.replicate k 0#8 ++ [a, b] ++ List.replicate (j + n) 0#8 := by
      simp [List.replicate_append_replicate]
    rw [this]; exact .two k (j + n) a b h
  | three k j a b c hw h =>
    have : List.replicate k 0#8 ++ [a, b, c] ++ List.replicate j 0#8 ++ List.replicate n 0#8 =
        List.replicate k 0#8 ++ [a, b, c] ++ List.replicate (j + n) 0#8 := by
      simp [List.replicate_append_replicate]
    rw [this]; exact .three k (j + n) a b c hw h

theorem detectable_of_burst (e : List Octet) (h : Burst16 e) : Detectable e :=
  fun n => Ufw.Lemmas.CrcAlgebra.crc_burst_ne_zero _ (burst_append_zeros e h n)

theorem crc16_ne_of_detectable (m e : List Octet) (hlen : m.length = e.length) (h : Detectable e) :
    crc16 (xorL m e) ≠ crc16 m := by
  intro h0
  simp only [crc16] at h0
  exact Ufw.Lemmas.CrcAlgebra.crc_detects m e hlen h 0#16 (BitVec.eq_of_toNat_eq h0)

theorem xorL_zeros (l : List Octet) : xorL l (List.replicate l.length 0#8) = l := by
  induction l with
  | nil => rfl
  | cons x xs ih => simp only [xorL, List.length_cons, List.replicate_succ, List.zipWith_cons_cons, BitVec.xor_zero] at ih ⊢; rw [ih]

theorem xorL_append (a b c d : List Octet) (h : a.length = c.length) :
    xorL (a ++ b) (c ++ d) = xorL a c ++ xorL b d := by
  simp only [xorL]; exact List.zipWith_append h

theorem agree {α : Type} (P Q Q' : List α) (i j : Nat) (h : i + j ≤ P.length) :
    ((P ++ Q).drop i).take j = ((P ++ Q').drop i).take j := by
  rw [List.drop_append_of_le_length (by omega), List.drop_append_of_le_length (by omega),
    List.take_append_of_le_length (by simp; omega), List.take_append_of_le_length (by simp; omega)]

theorem agree_take {α : Type} (P Q Q' : List α) (j : Nat) (h : j ≤ P.length) :
    (P ++ Q).take j = (P ++ Q').take j := by
  have := agree P Q Q' 0 j (by omega)
  simpa using this

theorem burst_ne_nil (e : List Octet) (h : Burst16 e) : e ≠ [] := by
  cases h <;> simp

theorem hlenOf_ge (w0 : Nat) : 12 ≤ hlenOf w0 ∧ (bit w0 9 = true → 14 ≤ hlenOf w0) ∧
    (bit w0 10 = true → 14 ≤ hlenOf w0 ∧ hlenOf w0 - 2 + 2 = hlenOf w0) := by
  simp only [hlenOf]
  cases bit w0 9 <;> cases bit w0 10 <;> simp

/-- a detectable error pattern (burst of up to sixteen bits, two-bit error) inside the payload of an
    accepted frame that declares a payload checksum: the damaged frame is classified as bad payload checksum -/
theorem payload_burst_classified (raw : List Octet) (f : Frame) (hacc : classify raw = .accept f)
    (hpl : f.plcrc = true) (e : List Octet) (hlen : e.length = f.payload.length) (hb : Detectable e) :
    ∃ f', classify (raw.take (hlenOf (unbe (raw.take 2))) ++ xorL f.payload e) = .badPayloadChecksum f' := by
  obtain ⟨h12, hv, t, ht, h11, hcv, hl, hcrc, hf, hsz, hpc⟩ := accept_inv raw f hacc
  generalize hw : unbe (raw.take 2) = w0 at *
  obtain ⟨g12, g9, g10⟩ := hlenOf_ge w0
  have hpay : f.payload = raw.drop (hlenOf w0) := by rw [hf]
  have hb10 : bit w0 10 = true := by rw [hf] at hpl; exact hpl
  obtain ⟨g14, gH⟩ := g10 hb10
  -- raw = P ++ Q
  have hsplit : raw = raw.take (hlenOf w0) ++ raw.drop (hlenOf w0) := (List.take_append_drop _ _).symm
  have hP : (raw.take (hlenOf w0)).length = hlenOf w0 := by simp only [List.length_take]; omega
  rw [hpay]
  have hlenQ : e.length = (raw.drop (hlenOf w0)).length := by rw [hlen, hpay]
  have hne : raw.drop (hlenOf w0) ≠ [] := by
    intro h0; rw [h0] at hlenQ; exact Ufw.Lemmas.CrcAlgebra.detectable_ne_nil e hb (List.length_eq_zero_iff.mp hlenQ)
  have hlen' : (raw.take (hlenOf w0) ++ xorL (raw.drop (hlenOf w0)) e).length = raw.length := by
    rw [List.length_append, Ufw.Lemmas.CrcAlgebra.xorL_length _ _ hlenQ.symm, ← List.length_append,
      List.take_append_drop]
  have t2 : (raw.take (hlenOf w0) ++ xorL (raw.drop (hlenOf w0)) e).take 2 = raw.take 2 := by
    conv => rhs; rw [hsplit]
    exact agree_take _ _ _ 2 (by omega)
  have t12 : (raw.take (hlenOf w0) ++ xorL (raw.drop (hlenOf w0)) e).take 12 = raw.take 12 := by
    conv => rhs; rw [hsplit]
    exact agree_take _ _ _ 12 (by omega)
  have tW : plcWordOf (raw.take (hlenOf w0) ++ xorL (raw.drop (hlenOf w0)) e) w0 = plcWordOf raw w0 := by
    simp only [plcWordOf, hb10, ↓reduceIte]
    conv => rhs; rw [hsplit]
    exact agree _ _ _ _ 2 (by omega)
  have tD : (raw.take (hlenOf w0) ++ xorL (raw.drop (hlenOf w0)) e).drop (hlenOf w0) = xorL (raw.drop (hlenOf w0)) e :=
    List.drop_left' hP
  have hcl := classify_of_guards (raw.take (hlenOf w0) ++ xorL (raw.drop (hlenOf w0)) e) t
    (by rw [hlen']; exact h12) (by rw [t2, hw]; exact hv) (by rw [t2, hw]; exact ht) (by rw [t2, hw]; exact h11)
    (by rw [t2, hw]; exact hcv) (by rw [t2, hw, hlen']; exact hl)
  rw [t2, hw, t12, tW, tD] at hcl
  -- the header checksum still verifies
  have hhd : ¬ (bit w0 9 = true ∧
      unbe (((raw.take (hlenOf w0) ++ xorL (raw.drop (hlenOf w0)) e).drop 12).take 2) ≠
        crc16 (raw.take 12 ++ plcWordOf raw w0)) := by
    rintro ⟨h9, hne'⟩
    have : ((raw.take (hlenOf w0) ++ xorL (raw.drop (hlenOf w0)) e).drop 12).take 2 = (raw.drop 12).take 2 := by
      conv => rhs; rw [hsplit]
      exact agree _ _ _ 12 2 (by have := g9 h9; omega)
    rw [this] at hne'
    exact hne' (hcrc h9)
  rw [if_neg hhd] at hcl
  -- the size rule depends on the payload length only
  have hlx : (xorL (raw.drop (hlenOf w0)) e).length = (raw.drop (hlenOf w0)).length :=
    Ufw.Lemmas.CrcAlgebra.xorL_length _ _ hlenQ.symm
  have hsz' : sizeValid { f with payload := xorL (raw.drop (hlenOf w0)) e } = true := by
    have := hsz
    simp only [sizeValid, hlx] at this ⊢
    rw [hpay] at this
    exact this
  have hxne : xorL (raw.drop (hlenOf w0)) e ≠ [] := by
    intro h0; rw [h0] at hlx; exact hne (List.length_eq_zero_iff.mp hlx.symm)
  have hstored : unbe (plcWordOf raw w0) = crc16 (raw.drop (hlenOf w0)) := by
    have := hpc hpl (by rw [hpay]; exact hne)
    rw [hpay] at this; exact this
  have hcrcne : unbe (plcWordOf raw w0) ≠ crc16 (xorL (raw.drop (hlenOf w0)) e) := by
    rw [hstored]; exact (crc16_ne_of_detectable _ _ hlenQ.symm hb).symm
  refine ⟨{ f with payload := xorL (raw.drop (hlenOf w0)) e }, ?_⟩
  rw [hcl]
  simp only
  have hfe : ({ f with payload := xorL (raw.drop (hlenOf w0)) e } : Frame) =
      Frame.mk t (bit w0 8) (bit w0 9) (bit w0 10) (w0 / 4096 % 16)
        (unbe (((raw.take (hlenOf w0) ++ xorL (raw.drop (hlenOf w0)) e).drop 2).take 2))
        (unbe (((raw.take (hlenOf w0) ++ xorL (raw.drop (hlenOf w0)) e).drop 4).take 4))
        (unbe (((raw.take (hlenOf w0) ++ xorL (raw.drop (hlenOf w0)) e).drop 8).take 4))
        (xorL (raw.drop (hlenOf w0)) e) := by
    rw [hf]
    have a2 := agree (raw.take (hlenOf w0)) (xorL (raw.drop (hlenOf w0)) e) (raw.drop (hlenOf w0)) 2 2 (by omega)
    have a4 := agree (raw.take (hlenOf w0)) (xorL (raw.drop (hlenOf w0)) e) (raw.drop (hlenOf w0)) 4 4 (by omega)
    have a8 := agree (raw.take (hlenOf w0)) (xorL (raw.drop (hlenOf w0)) e) (raw.drop (hlenOf w0)) 8 4 (by omega)
    rw [List.take_append_drop] at a2 a4 a8
    simp only [a2, a4, a8]
  simp only [← hfe]
  simp only [hsz', Bool.not_true, Bool.false_eq_true, ↓reduceIte, hb10, true_and]
  rw [if_pos ⟨by simpa [List.isEmpty_iff] using hxne, hcrcne⟩]

/-- a detectable error pattern inside the header words behind the first one (sequence number,
    address, block size) of an accepted frame that carries a header checksum: the damaged frame is
    classified as bad header checksum -/
theorem header_burst_classified (raw : List Octet) (f : Frame) (hacc : classify raw = .accept f)
    (hhd : f.hdcrc = true) (E : List Octet) (hE : E.length = 12) (hE2 : E.take 2 = [0#8, 0#8]) (hb : Detectable E) :
    classify (xorL (raw.take 12) E ++ raw.drop 12) = .badHeaderChecksum := by
  obtain ⟨h12, hv, t, ht, h11, hcv, hl, hcrc, hf, hsz, hpc⟩ := accept_inv raw f hacc
  generalize hw : unbe (raw.take 2) = w0 at *
  obtain ⟨g12, g9, g10⟩ := hlenOf_ge w0
  have hb9 : bit w0 9 = true := by rw [hf] at hhd; exact hhd
  have hA : (raw.take 12).length = 12 := by simp only [List.length_take]; omega
  have hX : (xorL (raw.take 12) E).length = 12 := by
    rw [Ufw.Lemmas.CrcAlgebra.xorL_length _ _ (by rw [hA, hE]), hA]
  have hlen' : (xorL (raw.take 12) E ++ raw.drop 12).length = raw.length := by
    rw [List.length_append, hX, List.length_drop]; omega
  have t2 : (xorL (raw.take 12) E ++ raw.drop 12).take 2 = raw.take 2 := by
    rw [List.take_append_of_le_length (by omega)]
    simp only [xorL, List.take_zipWith, hE2, List.take_take]
    have : (List.take (min 2 12) raw).length = 2 := by simp only [List.length_take]; omega
    have hz := xorL_zeros (List.take (min 2 12) raw)
    rw [this] at hz
    simpa [xorL] using hz
  have t12 : (xorL (raw.take 12) E ++ raw.drop 12).take 12 = xorL (raw.take 12) E := List.take_left' hX
  have tD : ∀ k, (xorL (raw.take 12) E ++ raw.drop 12).drop (12 + k) = raw.drop (12 + k) := by
    intro k
    rw [← List.drop_drop, List.drop_left' hX, List.drop_drop]
  have tS : ((xorL (raw.take 12) E ++ raw.drop 12).drop 12).take 2 = (raw.drop 12).take 2 := by
    rw [List.drop_left' hX]
  have tW : plcWordOf (xorL (raw.take 12) E ++ raw.drop 12) w0 = plcWordOf raw w0 := by
    simp only [plcWordOf]
    by_cases h10 : bit w0 10 = true
    · have : hlenOf w0 - 2 = 12 + (hlenOf w0 - 14) := by have := (g10 h10).1; omega
      simp only [h10, ↓reduceIte, this, tD]
    · simp [h10]
  have hcl := classify_of_guards (xorL (raw.take 12) E ++ raw.drop 12) t
    (by rw [hlen']; exact h12) (by rw [t2, hw]; exact hv) (by rw [t2, hw]; exact ht) (by rw [t2, hw]; exact h11)
    (by rw [t2, hw]; exact hcv) (by rw [t2, hw, hlen']; exact hl)
  rw [t2, hw, t12, tW, tS] at hcl
  rw [hcl]
  have hne : unbe ((raw.drop 12).take 2) ≠ crc16 (xorL (raw.take 12) E ++ plcWordOf raw w0) := by
    rw [hcrc hb9]
    have hz : plcWordOf raw w0 = xorL (plcWordOf raw w0) (List.replicate (plcWordOf raw w0).length 0#8) :=
      (xorL_zeros _).symm
    have : xorL (raw.take 12) E ++ plcWordOf raw w0 =
        xorL (raw.take 12 ++ plcWordOf raw w0) (E ++ List.replicate (plcWordOf raw w0).length 0#8) := by
      rw [xorL_append _ _ _ _ (by rw [hA, hE]), ← hz]
    rw [this]
    exact (crc16_ne_of_detectable _ _ (by simp [hA, hE]) (Ufw.Lemmas.CrcAlgebra.detectable_append_zeros E hb _)).symm
  rw [if_pos ⟨hb9, hne⟩]

end Ufw.Lemmas.Regp
