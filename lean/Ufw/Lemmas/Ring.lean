/-
Helper lemmas for C19 (ring buffer): list surgery behind the refinement proof.
-/
import Ufw.Model.Ring
import Ufw.Spec.Queue

namespace Ufw.Lemmas.Ring
open Ufw.Model.Ring
open Ufw.Spec.Queue (Q Wf absItems abs)

theorem succ_mod (h cap : Nat) (hlt : h < cap) : (h + 1) % cap = if h + 1 = cap then 0 else h + 1 := by
  split
  · next e => rw [e, Nat.mod_self]
  · next e => exact Nat.mod_eq_of_lt (by omega)

theorem tail_drop (l : List Nat) (n : Nat) : (l.drop n).tail = l.drop (n + 1) := by
  simp [List.tail_drop]

theorem advance_tail_abs (c : Ring) (h : Wf c) (hne : c.tail ≠ c.cap) :
    Wf (advance_tail c) ∧ absItems (advance_tail c) = (absItems c).tail ∧
    c.data[c.tail]? = (absItems c).head? := by
  obtain ⟨h0, hd, hh, ht⟩ := h
  have htl : c.tail < c.cap := by omega
  have hdl : c.tail < c.data.length := by omega
  refine ⟨?_, ?_, ?_⟩
  · simp only [advance_tail, succ_mod c.tail c.cap htl, Wf]
    split <;> split <;> simp <;> omega
  · simp only [advance_tail, succ_mod c.tail c.cap htl, absItems, hne, ↓reduceIte]
    by_cases hw : c.tail + 1 = c.cap
    · simp only [hw, ↓reduceIte]
      have hnl : ¬ c.tail < c.head := by omega
      by_cases hz : 0 = c.head
      · have hz' : c.head = 0 := hz.symm
        simp only [hz', ↓reduceIte, Nat.not_lt_zero, List.take_zero, List.append_nil]
        simp [List.tail_drop]; omega
      · have h1 : ¬ (0 = c.cap) := by omega
        have h2 : 0 < c.head := by omega
        simp only [hz, ↓reduceIte, h1, h2, hnl]
        rw [List.tail_append_of_ne_nil (by simp; omega)]
        simp [List.tail_drop]; omega
    · simp only [hw, ↓reduceIte]
      by_cases hf : c.tail + 1 = c.head
      · have : c.tail < c.head := by omega
        simp only [hf, ↓reduceIte, this]
        simp [List.tail_drop, ← hf]
      · have h1 : ¬ (c.tail + 1 = c.cap) := hw
        simp only [hf, ↓reduceIte, h1]
        by_cases hl : c.tail < c.head
        · have : c.tail + 1 < c.head := by omega
          simp [hl, this, List.tail_drop]
        · have : ¬ c.tail + 1 < c.head := by omega
          simp only [hl, this, ↓reduceIte]
          rw [List.tail_append_of_ne_nil (by simp; omega)]
          simp [List.tail_drop]
  · simp only [absItems, hne, ↓reduceIte]
    split
    · simp [List.head?_drop, List.getElem?_take]; omega
    · simp [List.head?_drop, hdl]

theorem take_succ_set (l : List Nat) (n x : Nat) (h : n < l.length) :
    (l.set n x).take (n + 1) = l.take n ++ [x] := by
  apply List.ext_getElem
  · simp; omega
  · intro i h1 h2
    simp only [List.getElem_take, List.getElem_set, List.getElem_append]
    simp at h1
    by_cases hi : n = i
    · simp [hi]; intro h; omega
    · have : i < n := by omega
      simp [hi, this, List.length_take]
      intro h3; omega

theorem drop_set_lt (l : List Nat) (n m x : Nat) (h : n < m) : (l.set n x).drop m = l.drop m := by
  apply List.ext_getElem
  · simp
  · intro i h1 h2
    simp [List.getElem_set]
    intro h3; omega

theorem take_set_ge (l : List Nat) (n m x : Nat) (h : m ≤ n) : (l.set n x).take m = l.take m := by
  apply List.ext_getElem
  · simp
  · intro i h1 h2
    simp at h1
    simp [List.getElem_set]
    intro h3; omega

theorem push_abs (c : Ring) (x : Nat) (h : Wf c) (hnf : c.tail = c.cap ∨ c.head ≠ c.tail) :
    Wf (advance_head { (if empty c then { c with tail := c.head } else c) with
            data := c.data.set c.head x }) ∧
    absItems (advance_head { (if empty c then { c with tail := c.head } else c) with
            data := c.data.set c.head x }) = absItems c ++ [x] := by
  obtain ⟨h0, hd, hh, ht⟩ := h
  have hhl : c.head < c.data.length := by omega
  simp only [empty, beq_iff_eq]
  by_cases he : c.tail = c.cap
  · simp only [he, ↓reduceIte, advance_head, succ_mod c.head c.cap hh, Wf, absItems]
    by_cases hw : c.head + 1 = c.cap
    · have : c.head ≠ c.cap := by omega
      simp only [hw, ↓reduceIte, this, Nat.not_lt_zero, List.take_zero, List.append_nil, List.nil_append]
      refine ⟨⟨h0, by simp [hd], h0, by omega⟩, ?_⟩
      apply List.ext_getElem
      · simp; omega
      · intro i h1 h2
        simp at h1
        have : i = 0 := by omega
        subst this
        simp
    · have : c.head ≠ c.cap := by omega
      simp only [hw, ↓reduceIte, this, Nat.lt_add_one, List.nil_append]
      refine ⟨⟨h0, by simp [hd], by omega, by omega⟩, ?_⟩
      rw [take_succ_set _ _ _ hhl]
      have hl : (List.take c.head c.data).length = c.head := by simp; omega
      rw [List.drop_append_of_le_length (by omega), List.drop_eq_nil_of_le (by omega)]
      simp
  · have htl : c.tail < c.cap := by omega
    have hne : c.head ≠ c.tail := by rcases hnf with h | h; exact absurd h he; exact h
    simp only [he, ↓reduceIte, advance_head, succ_mod c.head c.cap hh, Wf, absItems]
    by_cases hl : c.tail < c.head
    · by_cases hw : c.head + 1 = c.cap
      · simp only [hw, ↓reduceIte, hl, Nat.not_lt_zero, List.take_zero, List.append_nil]
        refine ⟨⟨h0, by simp [hd], h0, ht⟩, ?_⟩
        apply List.ext_getElem
        · simp; omega
        · intro i h1 h2
          simp at h1
          simp only [List.getElem_drop, List.getElem_set, List.getElem_append, List.getElem_take, List.length_drop, List.length_take]
          by_cases hi : c.head = c.tail + i
          · have : ¬ (i < min c.head c.data.length - c.tail) := by omega
            simp [hi]; intro h; omega
          · have : i < min c.head c.data.length - c.tail := by omega
            simp [hi, this]
      · have : c.tail < c.head + 1 := by omega
        simp only [hw, ↓reduceIte, hl, this]
        refine ⟨⟨h0, by simp [hd], by omega, ht⟩, ?_⟩
        rw [take_succ_set _ _ _ hhl]
        rw [List.drop_append_of_le_length (by simp; omega)]
    · have hgt : c.head < c.tail := by omega
      have hw : ¬ (c.head + 1 = c.cap) := by omega
      have hnl : ¬ (c.tail < c.head + 1) := by omega
      simp only [hw, ↓reduceIte, hl, hnl]
      refine ⟨⟨h0, by simp [hd], by omega, ht⟩, ?_⟩
      rw [take_succ_set _ _ _ hhl, drop_set_lt _ _ _ _ hgt]
      simp

theorem advance_tail_frame (c : Ring) (h : Wf c) (hne : c.tail ≠ c.cap) :
    (advance_tail c).head = c.head ∧ (advance_tail c).data = c.data ∧ (advance_tail c).cap = c.cap ∧
    (advance_tail c).ovr = c.ovr ∧
    ((advance_tail c).tail = c.cap ∨ c.head ≠ (advance_tail c).tail) := by
  obtain ⟨h0, hd, hh, ht⟩ := h
  have htl : c.tail < c.cap := by omega
  simp only [advance_tail, succ_mod c.tail c.cap htl]
  split <;> split <;> simp <;> omega

theorem push_spec (c : Ring) (x : Nat) (h : Wf c) (hnf : c.tail = c.cap ∨ c.head ≠ c.tail) :
    ∃ c', push c x = some c' ∧ Wf c' ∧ absItems c' = absItems c ++ [x] ∧ c'.cap = c.cap ∧ c'.ovr = c.ovr := by
  have hp := push_abs c x h hnf
  obtain ⟨h0, hd, hh, ht⟩ := h
  simp only [push]
  by_cases he : empty c = true
  · simp only [he, ↓reduceIte] at hp ⊢
    have : c.head < c.data.length := by omega
    simp only [this, ↓reduceIte]
    exact ⟨_, rfl, hp.1, hp.2, rfl, rfl⟩
  · simp only [he, ↓reduceIte] at hp ⊢
    have : c.head < c.data.length := by omega
    simp only [this, ↓reduceIte, Bool.false_eq_true]
    exact ⟨_, rfl, hp.1, hp.2, rfl, rfl⟩

def rot (data : List Nat) (i : Nat) : List Nat := data.drop i ++ data.take i
def rrot (data : List Nat) (j : Nat) : List Nat := (data.take (j + 1)).reverse ++ (data.drop (j + 1)).reverse

theorem rot_step (data : List Nat) (i n : Nat) (hi : i < data.length) (hn : n + 1 ≤ data.length) :
    (rot data i).take (n + 1) = data[i] :: (rot data ((i + 1) % data.length)).take n := by
  rw [succ_mod i data.length hi]
  simp only [rot]
  rw [List.drop_eq_getElem_cons hi]
  simp only [List.cons_append, List.take_succ_cons, List.cons.injEq, true_and]
  by_cases hw : i + 1 = data.length
  · simp only [hw, ↓reduceIte, List.drop_length, List.nil_append, List.drop_zero, List.take_zero,
      List.append_nil, List.take_take]
    congr 1; omega
  · simp only [hw, ↓reduceIte]
    rw [List.take_succ_eq_append_getElem hi, ← List.append_assoc]
    rw [List.take_append_of_le_length (l₂ := [data[i]]) (by simp; omega)]

theorem rrot_step (data : List Nat) (j n : Nat) (hj : j < data.length) (hn : n + 1 ≤ data.length) :
    (rrot data j).take (n + 1) =
      data[j] :: (rrot data (if j = 0 then data.length - 1 else j - 1)).take n := by
  simp only [rrot]
  rw [List.take_succ_eq_append_getElem hj]
  simp only [List.reverse_append, List.reverse_cons, List.reverse_nil, List.nil_append,
    List.singleton_append, List.cons_append, List.take_succ_cons, List.cons.injEq, true_and]
  by_cases hz : j = 0
  · subst hz
    have h1 : data.length - 1 + 1 = data.length := by omega
    simp only [↓reduceIte, List.take_zero, List.reverse_nil, List.nil_append, h1, List.take_length,
      List.drop_length, List.append_nil]
    have : data = data[0] :: data.drop 1 := by
      rw [← List.drop_eq_getElem_cons hj]; simp
    conv => rhs; rw [this]
    simp only [List.reverse_cons]
    rw [List.take_append_of_le_length (by simp; omega)]
  · have h1 : j - 1 + 1 = j := by omega
    simp only [hz, ↓reduceIte, h1]
    rw [List.drop_eq_getElem_cons hj]
    simp only [List.reverse_cons, ← List.append_assoc]
    rw [List.take_append_of_le_length (l₂ := [data[j]]) (by simp; omega)]

theorem collect_old (c : Ring) (n : Nat) : ∀ (i s : Nat), c.data.length = c.cap → i < c.cap → n ≤ c.cap →
    collectFrom c ⟨s, i, c.cap, .oldToNew⟩ n = some ((rot c.data i).take n) := by
  induction n with
  | zero => intros; simp [collectFrom]
  | succ n ih =>
    intro i s hd hi hn
    have hil : i < c.data.length := by omega
    have hm : (i + 1) % c.cap < c.cap := Nat.mod_lt _ (by omega)
    simp only [collectFrom, inspect, List.getElem?_eq_getElem hil, rb_iter_advance]
    rw [ih _ _ hd hm (by omega)]
    rw [rot_step c.data i n hil (by omega), hd]

theorem collect_new (c : Ring) (n : Nat) : ∀ (j s : Nat), c.data.length = c.cap → j < c.cap → n ≤ c.cap →
    collectFrom c ⟨s, j, c.cap, .newToOld⟩ n = some ((rrot c.data j).take n) := by
  induction n with
  | zero => intros; simp [collectFrom]
  | succ n ih =>
    intro j s hd hj hn
    have hjl : j < c.data.length := by omega
    have hm : (if j = 0 then c.cap - 1 else j - 1) < c.cap := by split <;> omega
    simp only [collectFrom, inspect, List.getElem?_eq_getElem hjl, rb_iter_advance]
    rw [ih _ _ hd hm (by omega)]
    rw [rrot_step c.data j n hjl (by omega), hd]

theorem size_le (c : Ring) (h : Wf c) : size c ≤ c.cap := by
  obtain ⟨h0, hd, hh, ht⟩ := h
  simp only [size, empty, beq_iff_eq]
  split
  · omega
  · split <;> omega

end Ufw.Lemmas.Ring
