/-
Obligations over the regenerated CRC table (tie A) and the step algebra used by
C16 (and later C07).  `bv_decide` is used for fixed-width bit-vector identities;
each use adds an axiom `<thm>._native.bv_decide.ax_*` (see DESIGN.md section 6).
-/
import Std.Tactic.BVDecide
import Ufw.Spec.Crc
import Ufw.Model.Crc

namespace Ufw.Lemmas.Crc
open Ufw Ufw.Spec.Crc Ufw.Gen.CrcTable

/-- Gen obligation: the table extracted from the source has 256 entries -/
theorem table_length : table.length = 256 := by decide +kernel

/-- Gen obligation: every entry is the register after shifting its index through
    an all-zero register (256 closed instances, kernel evaluation) -/
theorem table_eq_bitwise : ∀ x : BitVec 8, tableAt x.toNat = step8 0#16 x := by decide +kernel

/-- the table-driven formula, for all 2^24 (state, octet) pairs at once -/
theorem octet_formula (c : BitVec 16) (d : BitVec 8) :
    step8 c d = (c >>> 8) ^^^ step8 0#16 (d ^^^ c.truncate 8) := by
  unfold step8 stepBit
  bv_decide

theorem index_eq (c : BitVec 16) (d : BitVec 8) :
    ((c ^^^ (BitVec.zeroExtend 16 d &&& 0xff#16)) &&& 0xff#16) = BitVec.zeroExtend 16 (d ^^^ c.truncate 8) := by
  bv_decide

end Ufw.Lemmas.Crc
