/-
Damage to the first header word (C07): a single flipped bit in word 0 of a frame that was accepted
and carries a header checksum (every frame on a serial link) is never accepted again.  Three
mechanisms: bits other than the two checksum options are covered by the header checksum (the
options, hence header length and checksum position, stay); clearing a checksum option shortens
the header by two octets, which then count as payload and violate the size rule; setting the
payload-checksum option on a frame without payload announces a header longer than the frame.
-/
import Ufw.Lemmas.RegpBurst
namespace Ufw.Lemmas.Regp
open Ufw Ufw.Spec.Regp
open Ufw.Lemmas.CrcAlgebra (xorL Burst16 Detectable)

theorem unbe2 (x y : Octet) : unbe [x, y] = x.toNat * 256 + y.toNat := by
  simp [unbe, Ufw.Spec.Endian.loadU, Ufw.Spec.Endian.valueLE]; omega

/-- the option bits of the first header word live in the first octet -/
theorem bit_opts (x y : Octet) :
    bit (unbe [x, y]) 9 = decide (x.toNat / 2 % 2 = 1) ∧ bit (unbe [x, y]) 10 = decide (x.toNat / 4 % 2 = 1) := by
  have := y.isLt
  simp only [unbe2, bit]
  have e9 : (x.toNat * 256 + y.toNat) / 2 ^ 9 % 2 = x.toNat / 2 % 2 := by omega
  have e10 : (x.toNat * 256 + y.toNat) / 2 ^ 10 % 2 = x.toNat / 4 % 2 := by omega
  rw [e9, e10]; exact ⟨rfl, rfl⟩

/-- a single flipped bit other than the two checksum options leaves both options as they are -/
theorem flip_keeps_opts : ∀ (x : Octet) (i : Fin 8), i.val ≠ 1 → i.val ≠ 2 →
    ((x ^^^ (1#8 <<< i.val)).toNat / 2 % 2 = x.toNat / 2 % 2) ∧ ((x ^^^ (1#8 <<< i.val)).toNat / 4 % 2 = x.toNat / 4 % 2) := by
  decide
theorem flip_hd : ∀ (x : Octet), x.toNat / 2 % 2 = 1 →
    ((x ^^^ 2#8).toNat / 2 % 2 = 0) ∧ ((x ^^^ 2#8).toNat / 4 % 2 = x.toNat / 4 % 2) := by decide
theorem flip_pl : ∀ (x : Octet),
    ((x ^^^ 4#8).toNat / 2 % 2 = x.toNat / 2 % 2) ∧ ((x ^^^ 4#8).toNat / 4 % 2 = 1 - x.toNat / 4 % 2) := by decide


theorem hlenOf_congr (w w' : Nat) (h9 : bit w' 9 = bit w 9) (h10 : bit w' 10 = bit w 10) : hlenOf w' = hlenOf w := by
  simp only [hlenOf, h9, h10]

/-- the damaged string: the first two octets xor-ed with (a, b) -/
def flipWord0 (raw : List Octet) (a b : Octet) : List Octet := xorL (raw.take 2) [a, b] ++ raw.drop 2

theorem take2_of_len (raw : List Octet) (h : 2 ≤ raw.length) : ∃ r0 r1, raw.take 2 = [r0, r1] := by
  match raw, h with
  | r0 :: r1 :: _, _ => exact ⟨r0, r1, rfl⟩

theorem flipWord0_facts (raw : List Octet) (a b : Octet) (h : 12 ≤ raw.length) (r0 r1 : Octet) (hr : raw.take 2 = [r0, r1]) :
    (flipWord0 raw a b).take 2 = [r0 ^^^ a, r1 ^^^ b] ∧ (flipWord0 raw a b).length = raw.length ∧
    (∀ k, (flipWord0 raw a b).drop (2 + k) = raw.drop (2 + k)) ∧
    (flipWord0 raw a b).take 12 = xorL (raw.take 12) ([a, b] ++ List.replicate 10 0#8) := by
  have hx : xorL (raw.take 2) [a, b] = [r0 ^^^ a, r1 ^^^ b] := by rw [hr]; rfl
  have hxl : (xorL (raw.take 2) [a, b]).length = 2 := by rw [hx]; rfl
  refine ⟨?_, ?_, ?_, ?_⟩
  · simp only [flipWord0]; rw [List.take_left' hxl, hx]
  · simp only [flipWord0, List.length_append, hxl, List.length_drop]; omega
  · intro k
    simp only [flipWord0]
    rw [← List.drop_drop, List.drop_left' hxl, List.drop_drop]
  · simp only [flipWord0]
    have e12 : raw.take 12 = raw.take 2 ++ (raw.drop 2).take 10 := by
      rw [← List.take_append_drop 2 (raw.take 12), List.take_take, List.drop_take]; rfl
    rw [e12, xorL_append _ _ _ _ (by rw [hr]; rfl)]
    rw [List.take_append, hxl]
    have : (xorL (raw.take 2) [a, b]).take 12 = xorL (raw.take 2) [a, b] := List.take_of_length_le (by omega)
    rw [this]
    congr 1
    have hl : ((raw.drop 2).take 10).length = 10 := by simp only [List.length_take, List.length_drop]; omega
    have hz := xorL_zeros ((raw.drop 2).take 10)
    rw [hl] at hz
    rw [hz]


theorem plcWordOf_flip (raw : List Octet) (a b : Octet) (w w' : Nat) (h10 : bit w' 10 = bit w 10)
    (hl : hlenOf w' = hlenOf w) (hd : ∀ k, (flipWord0 raw a b).drop (2 + k) = raw.drop (2 + k)) :
    plcWordOf (flipWord0 raw a b) w' = plcWordOf raw w := by
  simp only [plcWordOf, h10, hl]
  by_cases hb : bit w 10 = true
  · simp only [hb, ↓reduceIte]
    have := (hlenOf_ge w).2.2 hb
    have e : hlenOf w - 2 = 2 + (hlenOf w - 4) := by omega
    rw [e, hd]
  · simp [hb]

/-- damage to the first header word that leaves both checksum option bits as they are: the header
    checksum covers that word, so the string is no longer accepted - whatever it is read as -/
theorem word0_keep_opts_rejected (raw : List Octet) (f : Frame) (hacc : classify raw = .accept f)
    (hhd : f.hdcrc = true) (a b : Octet) (hne : a ≠ 0#8 ∨ b ≠ 0#8)
    (hkeep : ∀ x : Octet, (x ^^^ a).toNat / 2 % 2 = x.toNat / 2 % 2 ∧ (x ^^^ a).toNat / 4 % 2 = x.toNat / 4 % 2) :
    ∀ f', classify (flipWord0 raw a b) ≠ .accept f' := by
  intro f' hacc'
  obtain ⟨h12, hv, t, ht, h11, hcv, hl, hcrc, hf, hsz, hpc⟩ := accept_inv raw f hacc
  obtain ⟨h12', hv', t', ht', h11', hcv', hl', hcrc', hf', hsz', hpc'⟩ := accept_inv _ f' hacc'
  have hlen : 12 ≤ raw.length := by omega
  obtain ⟨r0, r1, hr⟩ := take2_of_len raw (by omega)
  obtain ⟨ft2, flen, fdrop, ft12⟩ := flipWord0_facts raw a b hlen r0 r1 hr
  rw [ft2] at hcrc'
  rw [hr] at hcrc hf
  have hb9 : bit (unbe [r0, r1]) 9 = true := by rw [hf] at hhd; exact hhd
  obtain ⟨o9, o10⟩ := bit_opts r0 r1
  obtain ⟨o9', o10'⟩ := bit_opts (r0 ^^^ a) (r1 ^^^ b)
  obtain ⟨k9, k10⟩ := hkeep r0
  have e9 : bit (unbe [r0 ^^^ a, r1 ^^^ b]) 9 = bit (unbe [r0, r1]) 9 := by rw [o9, o9', k9]
  have e10 : bit (unbe [r0 ^^^ a, r1 ^^^ b]) 10 = bit (unbe [r0, r1]) 10 := by rw [o10, o10', k10]
  have ehl := hlenOf_congr _ _ e9 e10
  have eW := plcWordOf_flip raw a b _ _ e10 ehl fdrop
  have hc' := hcrc' (by rw [e9]; exact hb9)
  have hc := hcrc hb9
  have ed : ((flipWord0 raw a b).drop 12).take 2 = (raw.drop 12).take 2 := by
    have := fdrop 10; simpa using congrArg (List.take 2) this
  rw [ed, eW, ft12, hc] at hc'
  -- the stored checksum would have to fit both the original and the damaged header
  generalize plcWordOf raw (unbe [r0, r1]) = W at hc'
  have hA : (raw.take 12).length = 12 := by simp only [List.length_take]; omega
  have hz : W = xorL W (List.replicate W.length 0#8) := (xorL_zeros _).symm
  have hre : xorL (raw.take 12) ([a, b] ++ List.replicate 10 0#8) ++ W =
      xorL (raw.take 12 ++ W) (([a, b] ++ List.replicate 10 0#8) ++ List.replicate W.length 0#8) := by
    rw [xorL_append _ _ _ _ (by rw [hA]; rfl), ← hz]
  rw [hre] at hc'
  have hb : Burst16 ([a, b] ++ List.replicate 10 0#8) := by
    have := Burst16.two 0 10 a b hne
    simpa using this
  exact crc16_ne_of_detectable _ _ (by simp [hA]; omega) (Ufw.Lemmas.CrcAlgebra.detectable_append_zeros _ (detectable_of_burst _ hb) _) hc'.symm


theorem size_incompat (f f' : Frame) (ht : f'.type = f.type) (hw : f'.ws16 = f.ws16) (hs : f'.size = f.size)
    (hp : f'.payload.length = f.payload.length + 2) (h : sizeValid f = true) (h' : sizeValid f' = true) : False := by
  simp only [sizeValid, ht, hw, hs, hp] at h h'
  cases hws : f.ws16 <;> simp only [hws, Bool.false_eq_true, false_and, true_and, ↓reduceIte, ne_eq] at h h'
  · cases hty : f.type <;> simp only [hty, decide_eq_true_eq] at h h' <;> omega
  · by_cases hodd : f.payload.length % 2 = 0
    · have hodd' : (f.payload.length + 2) % 2 = 0 := by omega
      simp only [hodd, hodd', not_true_eq_false, ↓reduceIte] at h h'
      cases hty : f.type <;> simp only [hty, decide_eq_true_eq] at h h' <;> omega
    · simp [hodd] at h

theorem word_fields (x y : Octet) :
    unbe [x, y] / 16 % 16 = y.toNat / 16 ∧ unbe [x, y] % 16 = y.toNat % 16 ∧
    bit (unbe [x, y]) 8 = decide (x.toNat % 2 = 1) := by
  have := y.isLt
  simp only [unbe2, bit]
  refine ⟨by omega, by omega, ?_⟩
  have : (x.toNat * 256 + y.toNat) / 2 ^ 8 % 2 = x.toNat % 2 := by omega
  rw [this]

theorem flip_parity : ∀ (x : Octet), (x ^^^ 2#8).toNat % 2 = x.toNat % 2 ∧ (x ^^^ 4#8).toNat % 2 = x.toNat % 2 := by decide

/-- damage that makes the header two octets shorter (a checksum option bit cleared) while type, word size
    and block size stay: the two checksum octets become payload and the size rule objects -/
theorem shrunk_header_rejected (raw : List Octet) (f : Frame) (hacc : classify raw = .accept f) (a : Octet)
    (hpar : ∀ x : Octet, (x ^^^ a).toNat % 2 = x.toNat % 2)
    (hshrink : ∀ r0 r1 : Octet, raw.take 2 = [r0, r1] → hlenOf (unbe [r0 ^^^ a, r1]) + 2 = hlenOf (unbe [r0, r1])) :
    ∀ f', classify (flipWord0 raw a 0#8) ≠ .accept f' := by
  intro f' hacc'
  obtain ⟨h12, hv, t, ht, h11, hcv, hl, hcrc, hf, hsz, hpc⟩ := accept_inv raw f hacc
  obtain ⟨h12', hv', t', ht', h11', hcv', hl', hcrc', hf', hsz', hpc'⟩ := accept_inv _ f' hacc'
  have hlen : 12 ≤ raw.length := by omega
  obtain ⟨r0, r1, hr⟩ := take2_of_len raw (by omega)
  obtain ⟨ft2, flen, fdrop, ft12⟩ := flipWord0_facts raw a 0#8 hlen r0 r1 hr
  have hsh := hshrink r0 r1 hr
  rw [ft2, BitVec.xor_zero] at ht' hf' hl'
  rw [hr] at ht hf hl
  obtain ⟨g12, _, _⟩ := hlenOf_ge (unbe [r0 ^^^ a, r1])
  obtain ⟨w1, _, w3⟩ := word_fields r0 r1
  obtain ⟨w1', _, w3'⟩ := word_fields (r0 ^^^ a) r1
  have htt : t' = t := by
    rw [w1'] at ht'; rw [w1] at ht
    rw [ht] at ht'; exact (Option.some.inj ht').symm
  have hd8 : (flipWord0 raw a 0#8).drop 8 = raw.drop 8 := fdrop 6
  have hdp : (flipWord0 raw a 0#8).drop (hlenOf (unbe [r0 ^^^ a, r1])) = raw.drop (hlenOf (unbe [r0 ^^^ a, r1])) := by
    have e : hlenOf (unbe [r0 ^^^ a, r1]) = 2 + (hlenOf (unbe [r0 ^^^ a, r1]) - 2) := by omega
    rw [e]; exact fdrop _
  apply size_incompat f f' _ _ _ _ hsz hsz'
  · rw [hf', hf]; exact htt
  · rw [hf', hf]; simp only; rw [w3, w3', hpar r0]
  · rw [hf', hf]; simp only; rw [hd8]
  · rw [hf', hf]; simp only
    rw [hdp, List.length_drop, List.length_drop]
    omega


theorem hlenOf_bits (w : Nat) : hlenOf w = 12 + (if bit w 9 then 2 else 0) + (if bit w 10 then 2 else 0) := rfl

/-- the header-checksum option bit cleared -/
theorem word0_hd_cleared_rejected (raw : List Octet) (f : Frame) (hacc : classify raw = .accept f) (hhd : f.hdcrc = true) :
    ∀ f', classify (flipWord0 raw 2#8 0#8) ≠ .accept f' := by
  apply shrunk_header_rejected raw f hacc 2#8 (fun x => (flip_parity x).1)
  intro r0 r1 hr
  obtain ⟨_, _, _, _, _, _, _, _, hf, _, _⟩ := accept_inv raw f hacc
  rw [hr] at hf
  have hb9 : bit (unbe [r0, r1]) 9 = true := by rw [hf] at hhd; exact hhd
  obtain ⟨o9, o10⟩ := bit_opts r0 r1
  obtain ⟨o9', o10'⟩ := bit_opts (r0 ^^^ 2#8) r1
  have h1 : r0.toNat / 2 % 2 = 1 := by rw [o9] at hb9; simpa using hb9
  obtain ⟨k9, k10⟩ := flip_hd r0 h1
  simp only [hlenOf_bits, o9, o10, o9', o10', k9, k10, h1]
  simp
  split <;> omega

/-- the payload-checksum option bit cleared -/
theorem word0_pl_cleared_rejected (raw : List Octet) (f : Frame) (hacc : classify raw = .accept f) (hpl : f.plcrc = true) :
    ∀ f', classify (flipWord0 raw 4#8 0#8) ≠ .accept f' := by
  apply shrunk_header_rejected raw f hacc 4#8 (fun x => (flip_parity x).2)
  intro r0 r1 hr
  obtain ⟨_, _, _, _, _, _, _, _, hf, _, _⟩ := accept_inv raw f hacc
  rw [hr] at hf
  have hb10 : bit (unbe [r0, r1]) 10 = true := by rw [hf] at hpl; exact hpl
  obtain ⟨o9, o10⟩ := bit_opts r0 r1
  obtain ⟨o9', o10'⟩ := bit_opts (r0 ^^^ 4#8) r1
  have h1 : r0.toNat / 4 % 2 = 1 := by rw [o10] at hb10; simpa using hb10
  obtain ⟨k9, k10⟩ := flip_pl r0
  simp only [hlenOf_bits, o9, o10, o9', o10', k9, k10, h1]
  simp

/-- the payload-checksum option bit set on a frame that has neither that checksum nor a payload: the
    announced header is longer than the frame -/
theorem word0_pl_set_rejected (raw : List Octet) (f : Frame) (hacc : classify raw = .accept f) (hpl : f.plcrc = false)
    (hempty : f.payload = []) : ∀ f', classify (flipWord0 raw 4#8 0#8) ≠ .accept f' := by
  intro f' hacc'
  obtain ⟨h12, _, _, _, _, _, hl, _, hf, _, _⟩ := accept_inv raw f hacc
  obtain ⟨_, _, _, _, _, _, hl', _, _, _, _⟩ := accept_inv _ f' hacc'
  have hlen : 12 ≤ raw.length := by omega
  obtain ⟨r0, r1, hr⟩ := take2_of_len raw (by omega)
  obtain ⟨ft2, flen, _, _⟩ := flipWord0_facts raw 4#8 0#8 hlen r0 r1 hr
  rw [ft2, flen, BitVec.xor_zero] at hl'
  rw [hr] at hf hl
  have hb10 : bit (unbe [r0, r1]) 10 = false := by rw [hf] at hpl; exact hpl
  have hp : raw.drop (hlenOf (unbe [r0, r1])) = [] := by rw [hf] at hempty; exact hempty
  have hle : raw.length ≤ hlenOf (unbe [r0, r1]) := by
    have := congrArg List.length hp
    simp only [List.length_drop, List.length_nil] at this; omega
  obtain ⟨o9, o10⟩ := bit_opts r0 r1
  obtain ⟨o9', o10'⟩ := bit_opts (r0 ^^^ 4#8) r1
  have h0 : r0.toNat / 4 % 2 = 0 := by
    rw [o10] at hb10
    have : ¬ r0.toNat / 4 % 2 = 1 := by simpa using hb10
    omega
  obtain ⟨k9, k10⟩ := flip_pl r0
  simp only [hlenOf_bits, o9, o10, o9', o10', k9, k10, h0] at hl' hle
  simp at hl' hle
  split at hle <;> split at hl' <;> simp_all <;> omega

/-- exactly one bit set in the two octets of the first header word -/
def OneBit16 (a b : Octet) : Prop :=
  (∃ i : Fin 8, a = 1#8 <<< i.val ∧ b = 0#8) ∨ (∃ i : Fin 8, a = 0#8 ∧ b = 1#8 <<< i.val)

theorem bit_ne_zero : ∀ i : Fin 8, (1#8 <<< i.val) ≠ 0#8 := by decide

/-- a single-bit error in the first header word of an accepted frame that carries a header checksum and,
    as every frame on a serial link, a payload checksum exactly when it has a payload: never accepted -/
theorem word0_single_bit_classified (raw : List Octet) (f : Frame) (hacc : classify raw = .accept f)
    (hhd : f.hdcrc = true) (hser : f.plcrc = false → f.payload = []) (a b : Octet) (h1 : OneBit16 a b) :
    ∀ f', classify (flipWord0 raw a b) ≠ .accept f' := by
  rcases h1 with ⟨i, ha, hb⟩ | ⟨i, ha, hb⟩
  · subst ha hb
    by_cases h1 : i.val = 1
    · have : (1#8 <<< i.val) = 2#8 := by rw [h1]; decide
      rw [this]; exact word0_hd_cleared_rejected raw f hacc hhd
    · by_cases h2 : i.val = 2
      · have : (1#8 <<< i.val) = 4#8 := by rw [h2]; decide
        rw [this]
        cases hp : f.plcrc with
        | true => exact word0_pl_cleared_rejected raw f hacc hp
        | false => exact word0_pl_set_rejected raw f hacc hp (hser hp)
      · exact word0_keep_opts_rejected raw f hacc hhd _ _ (Or.inl (bit_ne_zero i))
          (fun x => flip_keeps_opts x i h1 h2)
  · subst ha hb
    exact word0_keep_opts_rejected raw f hacc hhd _ _ (Or.inr (bit_ne_zero i)) (fun x => by simp)

end Ufw.Lemmas.Regp
