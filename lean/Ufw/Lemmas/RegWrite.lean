/-
Block writes in terms of storage cells and of registers (C02, C05): the write loop changes exactly the
addressed cells, and the content of every register afterwards is the overlay that the validation examined.
-/
import Ufw.Lemmas.RegFlat
namespace Ufw.Lemmas.RegTable
open Ufw Ufw.Model.RegTable

/-- areas sized to their storage and pairwise disjoint (by index) - what `register_init` establishes and what
    every write preserves, because writes change storage content only -/
structure Shape (t : Table) : Prop where
  sized : ∀ a ∈ t.areas, a.mem.length = a.size
  disj  : ∀ (i j : Nat) (a b : Area), i ≠ j → t.areas[i]? = some a → t.areas[j]? = some b →
            a.base + a.size ≤ b.base ∨ b.base + b.size ≤ a.base

theorem Shape.wf {t : Table} (h : Shape t) : WfAreas t := by
  refine ⟨h.sized, ?_⟩
  intro a ha x hx
  have hsome : (areaOf t x).isSome := by
    simp only [areaOf, List.find?_isSome]
    exact ⟨a, ha, hx⟩
  obtain ⟨b, hb⟩ := Option.isSome_iff_exists.mp hsome
  obtain ⟨hbm, hbx⟩ := areaOf_mem t x b hb
  obtain ⟨i, hi, hia⟩ := List.getElem_of_mem ha
  obtain ⟨j, hj, hjb⟩ := List.getElem_of_mem hbm
  by_cases hij : i = j
  · subst hij
    rw [hb]; congr 1; rw [← hia, ← hjb]
  · have := h.disj i j a b hij (by rw [List.getElem?_eq_getElem hi, hia]) (by rw [List.getElem?_eq_getElem hj, hjb])
    simp only [ra_addr_is_part_of, Bool.and_eq_true, decide_eq_true_eq] at hx hbx
    omega

/-- what a write into an area does to each cell of its storage -/
theorem write_cells (a a' : Area) (off : Nat) (d : List Atom) (h : a.write off d = some a') :
    a' = { a with mem := a'.mem } ∧ a'.mem.length = a.mem.length ∧
    ∀ o, a'.mem.getD o 0 = if off ≤ o ∧ o < off + d.length then d.getD (o - off) 0 else a.mem.getD o 0 := by
  simp only [Area.write] at h
  split at h
  · rename_i hle
    simp only [Option.some.injEq] at h
    subst h
    have htl : (a.mem.take off).length = off := by simp only [List.length_take]; omega
    refine ⟨rfl, by simp only [List.length_append, List.length_take, List.length_drop]; omega, ?_⟩
    intro o
    simp only [List.getD_eq_getElem?_getD]
    by_cases h1 : o < off
    · have : ¬ (off ≤ o ∧ o < off + d.length) := by omega
      simp only [this, ↓reduceIte]
      rw [List.getElem?_append_left (by omega), List.getElem?_take]
      simp [h1]
    · by_cases h2 : o < off + d.length
      · have : off ≤ o ∧ o < off + d.length := by omega
        simp only [this, and_self, ↓reduceIte]
        rw [List.getElem?_append_right (by omega), htl, List.getElem?_append_left (by omega)]
      · have : ¬ (off ≤ o ∧ o < off + d.length) := by omega
        simp only [this, ↓reduceIte]
        rw [List.getElem?_append_right (by omega), htl, List.getElem?_append_right (by omega), List.getElem?_drop]
        congr 2; omega
  · simp at h


theorem getD_take {α} (l : List α) (w k : Nat) (d : α) (h : k < w) : (l.take w).getD k d = l.getD k d := by
  simp [List.getD_eq_getElem?_getD, h]

theorem getD_drop {α} (l : List α) (w k : Nat) (d : α) : (l.drop w).getD k d = l.getD (w + k) d := by
  simp [List.getD_eq_getElem?_getD, List.getElem?_drop]

theorem set_get_ne (l : List Area) (i j : Nat) (x : Area) (h : i ≠ j) : (l.set i x)[j]? = l[j]? := by
  simp [h]

/-- the block-write loop in terms of storage cells: areas keep everything but their content, and the cell of
    area i at offset o holds the new word exactly when its address lies inside the request -/
theorem blockWrite_spec : ∀ (fuel : Nat) (t : Table) (addr : Nat) (buf : List Atom) (t' : Table), Shape t →
    blockWriteLoop fuel t addr buf = some t' →
    Shape t' ∧ t' = { t with areas := t'.areas } ∧ t'.areas.length = t.areas.length ∧
    ∀ (i : Nat) (a : Area), t.areas[i]? = some a →
      ∃ a', t'.areas[i]? = some a' ∧ a' = { a with mem := a'.mem } ∧ a'.mem.length = a.mem.length ∧
        ∀ o, o < a.size → a'.mem.getD o 0 =
          if addr ≤ a.base + o ∧ a.base + o < addr + buf.length then buf.getD (a.base + o - addr) 0 else a.mem.getD o 0 := by
  intro fuel
  induction fuel with
  | zero =>
    intro t addr buf t' hs h
    cases buf with
    | nil =>
      simp only [blockWriteLoop, Option.some.injEq] at h
      subst h
      exact ⟨hs, rfl, rfl, fun i a ha => ⟨a, ha, rfl, rfl, fun o _ => by
        simp only [List.length_nil, Nat.add_zero]; rw [if_neg (by omega)]⟩⟩
    | cons b bs => simp [blockWriteLoop] at h
  | succ fuel ih =>
    intro t addr buf t' hs h
    cases buf with
    | nil =>
      simp only [blockWriteLoop, Option.some.injEq] at h
      subst h
      exact ⟨hs, rfl, rfl, fun i a ha => ⟨a, ha, rfl, rfl, fun o _ => by
        simp only [List.length_nil, Nat.add_zero]; rw [if_neg (by omega)]⟩⟩
    | cons b bs =>
      simp only [blockWriteLoop] at h
      generalize han : ra_find_area_by_addr t addr = an at h
      cases hga : t.areas[an]? with
      | none => simp [hga] at h
      | some a0 =>
        simp only [hga] at h
        have hao : areaOf t addr = some a0 := by rw [← find_area, han]; exact hga
        obtain ⟨ha0m, ha0x⟩ := areaOf_mem t addr a0 hao
        have hin : a0.base ≤ addr ∧ addr < a0.base + a0.size := by simpa [ra_addr_is_part_of] using ha0x
        generalize hw : min (a0.base + a0.size - addr) (bs.length + 1) = w at h
        have hw1 : 1 ≤ w ∧ w ≤ bs.length + 1 ∧ addr + w ≤ a0.base + a0.size := by omega
        have hw0 : ¬ w = 0 := by omega
        simp only [hw0, ↓reduceIte] at h
        cases hwr : a0.write (addr - a0.base) ((b :: bs).take w) with
        | none => simp [hwr] at h
        | some a1 =>
          simp only [hwr] at h
          obtain ⟨e1, l1, c1⟩ := write_cells a0 a1 _ _ hwr
          have hbase : a1.base = a0.base := by rw [e1]
          have hsize : a1.size = a0.size := by rw [e1]
          have htk : ((b :: bs).take w).length = w := by simp only [List.length_take, List.length_cons]; omega
          -- the table after this round
          have hs1 : Shape { t with areas := t.areas.set an a1 } := by
            refine ⟨?_, ?_⟩
            · intro x hx
              rcases List.mem_or_eq_of_mem_set hx with hx | hx
              · exact hs.sized x hx
              · subst hx; rw [l1, hsize]; exact hs.sized a0 ha0m
            · intro i j x y hij hx hy
              have gx : ∃ x0, t.areas[i]? = some x0 ∧ x.base = x0.base ∧ x.size = x0.size := by
                by_cases hi : an = i
                · subst hi; simp only [set_getElem _ _ _ _ hga] at hx
                  exact ⟨a0, hga, by simp at hx; rw [← hx, hbase], by simp at hx; rw [← hx, hsize]⟩
                · simp only [set_get_ne _ _ _ _ hi] at hx; exact ⟨x, hx, rfl, rfl⟩
              have gy : ∃ y0, t.areas[j]? = some y0 ∧ y.base = y0.base ∧ y.size = y0.size := by
                by_cases hj : an = j
                · subst hj; simp only [set_getElem _ _ _ _ hga] at hy
                  exact ⟨a0, hga, by simp at hy; rw [← hy, hbase], by simp at hy; rw [← hy, hsize]⟩
                · simp only [set_get_ne _ _ _ _ hj] at hy; exact ⟨y, hy, rfl, rfl⟩
              obtain ⟨x0, hx0, bx, sx⟩ := gx
              obtain ⟨y0, hy0, by_, sy⟩ := gy
              have := hs.disj i j x0 y0 hij hx0 hy0
              omega
          obtain ⟨s', eq', len', cells'⟩ := ih _ (addr + w) ((b :: bs).drop w) t' hs1 h
          refine ⟨s', ?_, by rw [len']; simp, ?_⟩
          · rw [eq']
          · intro i a ha
            by_cases hi : an = i
            · subst hi
              have hae : a = a0 := by rw [hga] at ha; exact (Option.some.inj ha).symm
              subst hae
              obtain ⟨a', g1, g2, g3, g4⟩ := cells' an a1 (set_getElem _ _ _ _ hga)
              refine ⟨a', g1, by rw [g2, e1], by rw [g3, l1], ?_⟩
              intro o ho
              have := g4 o (by rw [hsize]; exact ho)
              rw [this, hbase, c1 o]
              simp only [List.length_drop, List.length_cons, htk]
              by_cases k1 : a.base + o < addr
              · have n1 : ¬ (addr + w ≤ a.base + o ∧ a.base + o < addr + w + (bs.length + 1 - w)) := by omega
                have n2 : ¬ (addr - a.base ≤ o ∧ o < addr - a.base + w) := by omega
                have n3 : ¬ (addr ≤ a.base + o ∧ a.base + o < addr + (bs.length + 1)) := by omega
                simp only [n1, n2, n3, ↓reduceIte]
              · by_cases k2 : a.base + o < addr + w
                · have n1 : ¬ (addr + w ≤ a.base + o ∧ a.base + o < addr + w + (bs.length + 1 - w)) := by omega
                  have n2 : addr - a.base ≤ o ∧ o < addr - a.base + w := by omega
                  have n3 : addr ≤ a.base + o ∧ a.base + o < addr + (bs.length + 1) := by omega
                  simp only [n1, n2, n3, and_self, ↓reduceIte]
                  rw [getD_take _ _ _ _ (by omega)]
                  congr 1; omega
                · have hwl : w = bs.length + 1 := by omega
                  have n1 : ¬ (addr + w ≤ a.base + o ∧ a.base + o < addr + w + (bs.length + 1 - w)) := by omega
                  have n2 : ¬ (addr - a.base ≤ o ∧ o < addr - a.base + w) := by omega
                  have n3 : ¬ (addr ≤ a.base + o ∧ a.base + o < addr + (bs.length + 1)) := by omega
                  simp only [n1, n2, n3, ↓reduceIte]
            · have hai : ({ t with areas := t.areas.set an a1 } : Table).areas[i]? = some a := by
                simp only [set_get_ne _ _ _ _ hi]; exact ha
              obtain ⟨a', g1, g2, g3, g4⟩ := cells' i a hai
              refine ⟨a', g1, g2, g3, ?_⟩
              intro o ho
              rw [g4 o ho]
              have hd := hs.disj an i a0 a hi hga ha
              simp only [List.length_drop, List.length_cons]
              by_cases k1 : addr + w ≤ a.base + o ∧ a.base + o < addr + w + (bs.length + 1 - w)
              · have n3 : addr ≤ a.base + o ∧ a.base + o < addr + (bs.length + 1) := by omega
                simp only [k1, n3, and_self, ↓reduceIte]
                rw [getD_drop]
                congr 1; omega
              · have n3 : ¬ (addr ≤ a.base + o ∧ a.base + o < addr + (bs.length + 1)) := by omega
                simp only [k1, n3, ↓reduceIte]


theorem eq_of_getD (l1 l2 : List Atom) (h : l1.length = l2.length)
    (hk : ∀ k, k < l1.length → l1.getD k 0 = l2.getD k 0) : l1 = l2 := by
  apply List.ext_getElem h
  intro i h1 h2
  have := hk i h1
  simpa [List.getD_eq_getElem?_getD, List.getElem?_eq_getElem h1, List.getElem?_eq_getElem h2] using this

/-- a read in terms of cells -/
theorem read_cells (a : Area) (off n : Nat) (raw : List Atom) (h : a.read off n = some raw) :
    off + n ≤ a.mem.length ∧ raw.length = n ∧ ∀ k, k < n → raw.getD k 0 = a.mem.getD (off + k) 0 := by
  simp only [Area.read] at h
  split at h
  · rename_i hle
    simp only [Option.some.injEq] at h
    subst h
    refine ⟨hle, by simp only [List.length_take, List.length_drop]; omega, ?_⟩
    intro k hk
    simp [List.getD_eq_getElem?_getD, hk, List.getElem?_drop]
  · simp at h

theorem read_some (a : Area) (off n : Nat) (h : off + n ≤ a.mem.length) : ∃ raw, a.read off n = some raw := by
  simp only [Area.read, h, ↓reduceIte]; exact ⟨_, rfl⟩

/-- every register lies inside the area it is linked to, at the recorded offset (what `register_init` sets up) -/
def Linked (t : Table) : Prop :=
  ∀ (i : Nat) (e : Entry), t.entries[i]? = some e →
    ∃ a, t.areas[e.area]? = some a ∧ a.base ≤ e.address ∧ e.offset = e.address - a.base ∧
      e.address + e.type.size ≤ a.base + a.size

/-- the storage of a register after a successful block-write loop: the new words where the request
    overlaps it, the old ones elsewhere - exactly the overlay the validation looked at -/
theorem blockWrite_register (fuel : Nat) (t t' : Table) (addr : Nat) (buf : List Atom) (hs : Shape t) (hl : Linked t)
    (h : blockWriteLoop fuel t addr buf = some t') (i : Nat) (e : Entry) (he : t.entries[i]? = some e)
    (a : Area) (ha : t.areas[e.area]? = some a) (raw : List Atom) (hr : a.read e.offset e.type.size = some raw) :
    ∃ a', t'.areas[e.area]? = some a' ∧
      a'.read e.offset e.type.size = some
        (if e.address + e.type.size ≤ addr ∨ addr + buf.length ≤ e.address then raw
         else
          let rs := max addr e.address - e.address
          let bs := max addr e.address - addr
          let rlen := min (addr + buf.length) (e.address + e.type.size) - max addr e.address
          raw.take rs ++ ((buf.drop bs).take rlen ++ raw.drop (rs + rlen))) := by
  obtain ⟨_, _, _, cells⟩ := blockWrite_spec fuel t addr buf t' hs h
  obtain ⟨a', g1, g2, g3, g4⟩ := cells e.area a ha
  obtain ⟨a0, ha0, lb, lo, le⟩ := hl i e he
  have : a0 = a := by rw [ha0] at ha; exact Option.some.inj ha
  subst this
  obtain ⟨r1, r2, r3⟩ := read_cells a0 _ _ raw hr
  have hsz := hs.sized a0 (List.mem_of_getElem? ha)
  obtain ⟨raw2, hr2⟩ := read_some a' e.offset e.type.size (by rw [g3]; exact r1)
  obtain ⟨q1, q2, q3⟩ := read_cells a' _ _ raw2 hr2
  refine ⟨a', g1, ?_⟩
  rw [hr2]
  congr 1
  by_cases hov : e.address + e.type.size ≤ addr ∨ addr + buf.length ≤ e.address
  · simp only [hov, ↓reduceIte]
    apply eq_of_getD _ _ (by rw [q2, r2])
    intro k hk
    rw [q2] at hk
    rw [q3 k hk, r3 k hk, g4 _ (by omega)]
    rw [if_neg (by omega)]
  · simp only [hov, ↓reduceIte]
    have hlen : (raw.take (max addr e.address - e.address) ++
        ((buf.drop (max addr e.address - addr)).take (min (addr + buf.length) (e.address + e.type.size) - max addr e.address) ++
          raw.drop (max addr e.address - e.address + (min (addr + buf.length) (e.address + e.type.size) - max addr e.address)))).length
        = e.type.size := by
      simp only [List.length_append, List.length_take, List.length_drop, r2]; omega
    apply eq_of_getD _ _ (by rw [q2, hlen])
    intro k hk
    rw [q2] at hk
    rw [q3 k hk, g4 _ (by omega)]
    generalize hrs : max addr e.address - e.address = rs
    generalize hbs : max addr e.address - addr = bs
    generalize hrl : min (addr + buf.length) (e.address + e.type.size) - max addr e.address = rlen
    simp only [List.getD_eq_getElem?_getD]
    by_cases c1 : k < rs
    · rw [if_neg (by omega), List.getElem?_append_left (by simp only [List.length_take, r2]; omega), List.getElem?_take]
      simp only [c1, ↓reduceIte]
      have := r3 k hk
      simp only [List.getD_eq_getElem?_getD] at this
      rw [this]
    · by_cases c2 : k < rs + rlen
      · rw [if_pos (by omega), List.getElem?_append_right (by simp only [List.length_take, r2]; omega)]
        have htl : (raw.take rs).length = rs := by simp only [List.length_take, r2]; omega
        rw [htl, List.getElem?_append_left (by simp only [List.length_take, List.length_drop]; omega), List.getElem?_take]
        rw [if_pos (by omega), List.getElem?_drop]
        congr 2; omega
      · rw [if_neg (by omega), List.getElem?_append_right (by simp only [List.length_take, r2]; omega)]
        have htl : (raw.take rs).length = rs := by simp only [List.length_take, r2]; omega
        rw [htl, List.getElem?_append_right (by simp only [List.length_take, List.length_drop]; omega)]
        have htl2 : ((buf.drop bs).take rlen).length = rlen := by simp only [List.length_take, List.length_drop]; omega
        rw [htl2, List.getElem?_drop]
        have := r3 k hk
        simp only [List.getD_eq_getElem?_getD] at this
        have ek : rs + rlen + (k - rs - rlen) = k := by omega
        rw [ek, this]

theorem malformed_eq (cb : Nat → Value → Bool) (t : Table) (addr : Nat) (buf : List Atom) :
    ra_malformed_write cb t addr buf = ra_malformed_write.go cb t addr buf buf.length t.entries := rfl

/-- what a successful get consists of -/
theorem get_success_inv (t : Table) (idx : Nat) (v : Value) (h : register_get t idx = (⟨.success, 0⟩, some v)) :
    t.initialised = true ∧ ∃ e a raw, t.entries[idx]? = some e ∧ t.areas[e.area]? = some a ∧
      a.read e.offset e.type.size = some raw ∧ des t.bigEndian e.type raw = (v, true) := by
  simp only [register_get] at h
  split at h
  · simp at h
  rename_i hi
  split at h
  · simp at h
  rename_i e he
  split at h
  · simp [oob] at h
  rename_i a ha
  split at h
  · simp [oob] at h
  rename_i raw hr
  rcases hd : des t.bigEndian e.type raw with ⟨v', ok⟩
  rw [hd] at h
  simp only at h
  cases ok with
  | false => simp at h
  | true =>
    simp only [↓reduceIte, Prod.mk.injEq, Option.some.injEq, true_and] at h
    subst h
    exact ⟨by simpa using hi, e, a, raw, he, ha, hr, hd⟩

theorem validate_congr (cb : Nat → Value → Bool) (t t' : Table) (e e' : Entry) (v : Value)
    (hd : t'.duringInit = t.duringInit) (ht : e'.type = e.type) (hc : e'.check = e.check) :
    rv_validate cb t' e' v = rv_validate cb t e v := by
  simp only [rv_validate, checkOk, hd, ht, hc]

/-- a validation that passes answers `success` with address 0 -/
theorem malformed_succ (cb : Nat → Value → Bool) (t : Table) (addr : Nat) (buf : List Atom) :
    ∀ (es : List Entry), (ra_malformed_write.go cb t addr buf buf.length es).code = .success →
      ra_malformed_write.go cb t addr buf buf.length es = ⟨.success, 0⟩ := by
  intro es
  induction es with
  | nil => intro _; rfl
  | cons x rest ih =>
    intro h
    simp only [ra_malformed_write.go] at h ⊢
    split
    · rename_i c1; simp only [c1, ↓reduceIte] at h; exact ih h
    · rename_i c1
      simp only [c1, ↓reduceIte] at h
      split
      · rfl
      · rename_i c2
        simp only [c2, ↓reduceIte] at h
        cases ha : t.areas[x.area]? with
        | none => simp [ha, oob] at h
        | some a =>
          simp only [ha] at h ⊢
          cases hr : a.read x.offset x.type.size with
          | none => simp [hr, oob] at h
          | some raw =>
            simp only [hr] at h ⊢
            split
            · rename_i c3; simp [c3] at h
            · rename_i c3
              simp only [c3, ↓reduceIte] at h
              split
              · rename_i c4; simp [c4] at h
              · rename_i c4
                simp only [c4, ↓reduceIte] at h
                exact ih h

theorem taint_areas (t : Table) (addr n : Nat) : (reg_taint_in_range t addr n).areas = t.areas := rfl

end Ufw.Lemmas.RegTable
