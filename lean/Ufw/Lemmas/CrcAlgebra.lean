/-
Algebra of CRC-16/ARC used by C07: the register update is linear over GF(2) and injective in
the register, hence every non-zero error pattern that is confined to sixteen consecutive bits
(in transmission order: octet by octet, least significant bit first) changes the checksum of
any message, whatever its length.  The per-octet facts are decided by bv_decide (SAT with a
checked certificate); the statements for messages of any length are inductions.
-/
import Std.Tactic.BVDecide
import Ufw.Spec.Crc

namespace Ufw.Lemmas.CrcAlgebra
open Ufw Ufw.Spec.Crc

theorem step8_xor (a b : BitVec 16) (x y : BitVec 8) :
    step8 (a ^^^ b) (x ^^^ y) = step8 a x ^^^ step8 b y := by
  simp only [step8, stepBit]
  bv_decide

theorem step8_inj (a b : BitVec 16) (x : BitVec 8) (h : step8 a x = step8 b x) : a = b := by
  simp only [step8, stepBit] at h
  bv_decide

theorem xor_eq_self (x y : BitVec 16) (h : x ^^^ y = x) : y = 0#16 := by
  bv_decide

theorem step8_zero : step8 0#16 0#8 = 0#16 := by decide

/-- one damaged octet -/
theorem burst1 (a : BitVec 8) (h : a ≠ 0#8) : step8 0#16 a ≠ 0#16 := by
  simp only [step8, stepBit]
  bv_decide

/-- two damaged octets: any sixteen bits -/
theorem burst2 (a b : BitVec 8) (h : a ≠ 0#8 ∨ b ≠ 0#8) : step8 (step8 0#16 a) b ≠ 0#16 := by
  simp only [step8, stepBit]
  bv_decide

/-- the 24 bits of three consecutive octets in transmission order (bit i of the k-th octet at
    position 8k+i) -/
def bits24 (a b c : BitVec 8) : BitVec 24 :=
  a.zeroExtend 24 ||| (b.zeroExtend 24 <<< 8) ||| (c.zeroExtend 24 <<< 16)

/-- the set bits lie within sixteen consecutive positions -/
def window16 (a b c : BitVec 8) : Bool :=
  let e := bits24 a b c
  (e &&& ~~~0x00FFFF#24 == 0#24) || (e &&& ~~~0x01FFFE#24 == 0#24) || (e &&& ~~~0x03FFFC#24 == 0#24) ||
  (e &&& ~~~0x07FFF8#24 == 0#24) || (e &&& ~~~0x0FFFF0#24 == 0#24) || (e &&& ~~~0x1FFFE0#24 == 0#24) ||
  (e &&& ~~~0x3FFFC0#24 == 0#24) || (e &&& ~~~0x7FFF80#24 == 0#24) || (e &&& ~~~0xFFFF00#24 == 0#24)

/-- three damaged octets whose damaged bits span at most sixteen positions -/
theorem burst3 (a b c : BitVec 8) (hw : window16 a b c = true) (h : a ≠ 0#8 ∨ b ≠ 0#8 ∨ c ≠ 0#8) :
    step8 (step8 (step8 0#16 a) b) c ≠ 0#16 := by
  simp only [window16, bits24] at hw
  simp only [step8, stepBit]
  bv_decide

/-! ### messages of any length -/

/-- octet-wise exclusive or of two octet strings -/
def xorL (l m : List Octet) : List Octet := List.zipWith (· ^^^ ·) l m

theorem xorL_length (l m : List Octet) (h : l.length = m.length) : (xorL l m).length = l.length := by
  simp [xorL, h]

/-- linearity: the checksum of `m xor e` is the checksum of `m` xor the checksum of `e` -/
theorem crc_xor : ∀ (l m : List Octet) (a b : BitVec 16), l.length = m.length →
    crc (a ^^^ b) (xorL l m) = crc a l ^^^ crc b m := by
  intro l
  induction l with
  | nil => intro m a b h; cases m <;> simp_all [crc, xorL]
  | cons x xs ih =>
    intro m a b h
    cases m with
    | nil => simp at h
    | cons y ys =>
      simp only [List.length_cons, Nat.add_right_cancel_iff] at h
      have := ih ys (step8 a x) (step8 b y) h
      simp only [crc, xorL, List.zipWith_cons_cons, List.foldl_cons, step8_xor] at this ⊢
      exact this

theorem crc_inj (l : List Octet) : ∀ (a b : BitVec 16), crc a l = crc b l → a = b := by
  induction l with
  | nil => intro a b h; simpa [crc] using h
  | cons x xs ih =>
    intro a b h
    simp only [crc, List.foldl_cons] at h
    exact step8_inj a b x (ih _ _ h)

theorem crc_zeros (n : Nat) : crc 0#16 (List.replicate n 0#8) = 0#16 := by
  induction n with
  | zero => rfl
  | succ n ih => simp only [List.replicate_succ, crc, List.foldl_cons, step8_zero]; exact ih

theorem crc_append (s : BitVec 16) (a b : List Octet) : crc s (a ++ b) = crc (crc s a) b := by
  simp [crc, List.foldl_append]

/-- zeros behind a non-zero register keep it non-zero -/
theorem crc_zeros_ne (s : BitVec 16) (n : Nat) (h : s ≠ 0#16) : crc s (List.replicate n 0#8) ≠ 0#16 := by
  intro h0
  rw [← crc_zeros n] at h0
  exact h (crc_inj _ _ _ h0)

/-- an error pattern confined to sixteen consecutive bits: zero octets, then one, two or three
    damaged octets whose damaged bits span at most sixteen positions, then zero octets -/
inductive Burst16 : List Octet → Prop
  | one (k j : Nat) (a : Octet) (h : a ≠ 0#8) :
      Burst16 (List.replicate k 0#8 ++ [a] ++ List.replicate j 0#8)
  | two (k j : Nat) (a b : Octet) (h : a ≠ 0#8 ∨ b ≠ 0#8) :
      Burst16 (List.replicate k 0#8 ++ [a, b] ++ List.replicate j 0#8)
  | three (k j : Nat) (a b c : Octet) (hw : window16 a b c = true) (h : a ≠ 0#8 ∨ b ≠ 0#8 ∨ c ≠ 0#8) :
      Burst16 (List.replicate k 0#8 ++ [a, b, c] ++ List.replicate j 0#8)

/-- the checksum of a burst pattern is not zero -/
theorem crc_burst_ne_zero (e : List Octet) (h : Burst16 e) : crc 0#16 e ≠ 0#16 := by
  cases h with
  | one k j a h =>
    rw [crc_append, crc_append, crc_zeros]
    exact crc_zeros_ne _ j (by simpa [crc] using burst1 a h)
  | two k j a b h =>
    rw [crc_append, crc_append, crc_zeros]
    exact crc_zeros_ne _ j (by simpa [crc] using burst2 a b h)
  | three k j a b c hw h =>
    rw [crc_append, crc_append, crc_zeros]
    exact crc_zeros_ne _ j (by simpa [crc] using burst3 a b c hw h)

/-- CRC-16/ARC detects every burst of up to sixteen bits: for every message `m`, of any length,
    and every such error pattern `e` of the same length, the damaged message has another checksum -/
theorem crc_detects_burst (m e : List Octet) (hlen : m.length = e.length) (h : Burst16 e) (init : BitVec 16) :
    crc init (xorL m e) ≠ crc init m := by
  have hx := crc_xor m e init 0#16 hlen
  simp only [BitVec.xor_zero] at hx
  rw [hx]
  intro h0
  exact crc_burst_ne_zero e h (xor_eq_self _ _ h0)

/-- an error pattern whose remainder is non-zero, also when zero octets follow it: what the
    frame-level theorems need of a pattern (bursts and two-bit errors both are) -/
def Detectable (e : List Octet) : Prop := ∀ n : Nat, crc 0#16 (e ++ List.replicate n 0#8) ≠ 0#16

theorem detectable_append_zeros (e : List Octet) (h : Detectable e) (k : Nat) : Detectable (e ++ List.replicate k 0#8) := by
  intro n
  rw [List.append_assoc, List.replicate_append_replicate]
  exact h (k + n)

theorem detectable_ne_nil (e : List Octet) (h : Detectable e) : e ≠ [] := by
  intro h0
  subst h0
  exact h 0 (by simp [crc])

theorem crc_detects (m e : List Octet) (hlen : m.length = e.length) (h : Detectable e) (init : BitVec 16) :
    crc init (xorL m e) ≠ crc init m := by
  have hx := crc_xor m e init 0#16 hlen
  simp only [BitVec.xor_zero] at hx
  rw [hx]
  intro h0
  have := h 0
  simp only [List.replicate_zero, List.append_nil] at this
  exact this (xor_eq_self _ _ h0)

end Ufw.Lemmas.CrcAlgebra
