/-
The s-expression reader inverts rendering (C20): lemmas.  `Spec.Sx.Expr t r` (r is a rendering of
t, with any white space, any digit case, any leading zeros) implies that the reader's model,
started in front of r (after any white space), returns exactly t and the position just past r.
-/
import Ufw.Spec.Sx
import Ufw.Lemmas.Sx

namespace Ufw.Lemmas.SxRender
open Ufw Ufw.Model.Sx Ufw.Spec.Sx

/-! ### the spec's character classes are the reader's (all 256 octets) -/
theorem ws_eq : ∀ c : Octet, isWs c = isspace c := by decide
theorem dec_eq : ∀ c : Octet, isDec c = isdigit c := by decide
theorem hex_eq : ∀ c : Octet, isHex c = isxdigit c := by decide
theorem delim_eq : ∀ c : Octet, isDelim c = nextisdelimiter c := by decide
theorem symInit_imp : ∀ c : Octet, symInit c = true → issyminitch c = true := by decide
theorem symChar_imp : ∀ c : Octet, symChar c = true → issymch c = true := by decide
theorem digit_eq : ∀ c : Octet, isHex c = true → digitVal c = digit2int c := by decide
theorem delim_not_sym : ∀ c : Octet, nextisdelimiter c = true → issymch c = false := by decide
theorem delim_not_hex : ∀ c : Octet, nextisdelimiter c = true → isxdigit c = false := by decide
theorem hex_not_ws : ∀ c : Octet, isxdigit c = true → isspace c = false := by decide
theorem symInit_facts : ∀ c : Octet, symInit c = true →
    isspace c = false ∧ c.toNat ≠ 35 ∧ c.toNat ≠ 40 ∧ c.toNat ≠ 41 ∧ isdigit c = false := by decide
theorem dec_facts : ∀ c : Octet, isdigit c = true →
    isspace c = false ∧ c.toNat ≠ 35 ∧ c.toNat ≠ 40 ∧ c.toNat ≠ 41 ∧ isxdigit c = true := by decide

theorem takeWhile_stop {p : Octet → Bool} (l x : List Octet) (hl : ∀ a ∈ l, p a = true)
    (hx : ∀ c r, x = c :: r → p c = false) : (l ++ x).takeWhile p = l := by
  rw [List.takeWhile_append_of_pos hl]
  cases x with
  | nil => simp
  | cons c r => simp [hx c r rfl]

/-- white space in front of a token is skipped, and nothing else -/
theorem skip_ws_at (p w : List Octet) (c : Octet) (r : List Octet) (hw : AllWs w) (hc : isspace c = false) :
    skip_ws (p ++ (w ++ c :: r)) p.length = p.length + w.length := by
  simp only [skip_ws, List.drop_left' rfl]
  rw [takeWhile_stop w (c :: r) (fun a ha => by rw [← ws_eq]; exact hw a ha)]
  intro c' r' h
  injection h with h1 _
  rw [← h1]; exact hc

open Ufw Ufw.Model.Sx Ufw.Spec.Sx Ufw.Lemmas.SxRender

theorem look_close (q r : List Octet) : looking_at (q ++ 41#8 :: r) q.length = some .parenClose := by
  simp [looking_at]
theorem look_open (q r : List Octet) : looking_at (q ++ 40#8 :: r) q.length = some .parenOpen := by
  simp [looking_at]

theorem tok_close (p w r : List Octet) (hw : AllWs w) :
    sx_parse_token (p ++ (w ++ 41#8 :: r)) p.length = { status := .success, node := some .nil, pos := p.length + w.length + 1 } := by
  have hl := look_close (p ++ w) r
  simp only [List.append_assoc, List.length_append] at hl
  have hs := skip_ws_at p w (41#8) r hw (by decide)
  simp only [sx_parse_token, hs, hl]
  rw [if_neg (by simp)]

theorem tok_open (p w r : List Octet) (hw : AllWs w) :
    sx_parse_token (p ++ (w ++ 40#8 :: r)) p.length = { status := .foundList, pos := p.length + w.length + 1 } := by
  have hl := look_open (p ++ w) r
  simp only [List.append_assoc, List.length_append] at hl
  have hs := skip_ws_at p w (40#8) r hw (by decide)
  simp only [sx_parse_token, hs, hl]
  rw [if_neg (by simp)]

/-- a symbol: first character -/
theorem look_sym (q : List Octet) (c : Octet) (r : List Octet) (h0 : symInit c = true) :
    looking_at (q ++ c :: r) q.length = some .symbol := by
  obtain ⟨_, h35, h40, h41, hd⟩ := symInit_facts c h0
  simp [looking_at, h35, h40, h41, hd, symInit_imp c h0]

theorem look_dec (q : List Octet) (c : Octet) (r : List Octet) (h0 : isdigit c = true) :
    looking_at (q ++ c :: r) q.length = some .intDec := by
  obtain ⟨_, h35, h40, h41, hd⟩ := dec_facts c h0
  simp [looking_at, h35, h40, h41, h0]

theorem look_hex (q : List Octet) (d : Octet) (r : List Octet) (h0 : isxdigit d = true) :
    looking_at (q ++ 35#8 :: 120#8 :: d :: r) q.length = some .intHex := by
  simp [looking_at, List.getElem?_append_right, h0]

open Ufw Ufw.Model.Sx Ufw.Spec.Sx Ufw.Lemmas.SxRender

theorem atomEnd_stop {pr : Octet → Bool} (rest : List Octet) (he : AtomEnd rest)
    (hp : ∀ c : Octet, nextisdelimiter c = true → pr c = false) : ∀ c r, rest = c :: r → pr c = false := by
  intro c r h
  subst h
  exact hp c (by rw [← delim_eq]; exact he)

theorem parse_symbol_at (q a rest : List Octet) (ha : ∀ x ∈ a, issymch x = true) (he : AtomEnd rest) :
    parse_symbol (q ++ (a ++ rest)) q.length = (some (.sym a), q.length + a.length) := by
  simp only [parse_symbol, List.drop_left']
  rw [takeWhile_stop a rest ha (atomEnd_stop rest he delim_not_sym)]
  have hg : (q ++ (a ++ rest))[q.length + a.length]? = rest[0]? := by
    rw [← List.append_assoc, ← List.length_append, List.getElem?_append_right (Nat.le_refl _)]
    simp
  rw [hg]
  cases rest with
  | nil => simp
  | cons d r =>
    have : nextisdelimiter d = true := by rw [← delim_eq]; exact he
    simp [this]

theorem parse_integer_at (q pre ds rest : List Octet) (pred : Octet → Bool) (base : Nat)
    (hd : ∀ x ∈ ds, pred x = true) (he : AtomEnd rest)
    (hstop : ∀ c : Octet, nextisdelimiter c = true → pred c = false) :
    parse_integer_ (q ++ (pre ++ (ds ++ rest))) q.length pre.length pred base =
      (some (.int (digitsValue base (pre ++ ds))), q.length + pre.length + ds.length) := by
  have hdrop : (q ++ (pre ++ (ds ++ rest))).drop (q.length + pre.length) = ds ++ rest := by
    rw [← List.append_assoc, ← List.length_append, List.drop_left' rfl]
  have htake : ((q ++ (pre ++ (ds ++ rest))).drop q.length).take (pre.length + ds.length) = pre ++ ds := by
    rw [List.drop_left' rfl, ← List.append_assoc, ← List.length_append, List.take_left' rfl]
  have hg : (q ++ (pre ++ (ds ++ rest)))[q.length + pre.length + ds.length]? = rest[0]? := by
    rw [← List.append_assoc, ← List.append_assoc, ← List.length_append, ← List.length_append,
      List.getElem?_append_right (Nat.le_refl _)]
    simp
  simp only [parse_integer_, hdrop]
  rw [takeWhile_stop ds rest hd (atomEnd_stop rest he hstop), hg]
  have e : q.length + pre.length + ds.length - q.length = pre.length + ds.length := by omega
  rw [e, htake]
  cases rest with
  | nil => simp; omega
  | cons d r =>
    have : nextisdelimiter d = true := by rw [← delim_eq]; exact he
    simp [this]

theorem foldl_congr_mem {α β : Type} (f g : β → α → β) (l : List α) (h : ∀ b, ∀ a ∈ l, f b a = g b a) (b : β) :
    l.foldl f b = l.foldl g b := by
  induction l generalizing b with
  | nil => rfl
  | cons x xs ih =>
    simp only [List.foldl_cons]
    rw [h b x (by simp), ih (fun b a ha => h b a (by simp [ha]))]

theorem digitsValue_dec (ds : List Octet) (h : ∀ d ∈ ds, isDec d = true) (hv : value 10 ds < 2 ^ 64) :
    digitsValue 10 ds = value 10 ds := by
  simp only [digitsValue, value]
  rw [foldl_congr_mem (fun acc d => acc * 10 + digit2int d) (fun acc d => acc * 10 + digitVal d) ds
    (fun b a ha => by rw [digit_eq a (by simp [isHex, h a ha])])]
  exact Nat.mod_eq_of_lt hv

theorem digitsValue_hex (ds : List Octet) (h : ∀ d ∈ ds, isHex d = true) (hv : value 16 ds < 2 ^ 64) :
    digitsValue 16 ([35#8, 120#8] ++ ds) = value 16 ds := by
  simp only [digitsValue, value, List.foldl_append, List.foldl_cons, List.foldl_nil]
  have : (0 * 16 + digit2int 35#8) * 16 + digit2int 120#8 = 0 := by decide
  rw [this]
  rw [foldl_congr_mem (fun acc d => acc * 16 + digit2int d) (fun acc d => acc * 16 + digitVal d) ds
    (fun b a ha => by rw [digit_eq a (h a ha)])]
  exact Nat.mod_eq_of_lt hv

/-- a rendered leaf is read as one token: exactly that leaf, position just past it -/
theorem tok_atom (p w ra rest : List Octet) (t : Tree) (hw : AllWs w) (ha : Atom t ra) (he : AtomEnd rest) :
    sx_parse_token (p ++ (w ++ (ra ++ rest))) p.length =
      { status := .success, node := some t, pos := p.length + w.length + ra.length } := by
  have es : p ++ (w ++ (ra ++ rest)) = (p ++ w) ++ (ra ++ rest) := by simp
  cases ha with
  | sym c r h0 h =>
    obtain ⟨hsp, _⟩ := symInit_facts c h0
    have hs := skip_ws_at p w c (r ++ rest) hw hsp
    have hl := look_sym (p ++ w) c (r ++ rest) h0
    have hp := parse_symbol_at (p ++ w) (c :: r) rest
      (fun x hx => by
        rcases List.mem_cons.mp hx with rfl | hx
        · exact symChar_imp _ (by simp [symChar, h0])
        · exact symChar_imp _ (h x hx)) he
    simp only [List.append_assoc, List.length_append, List.cons_append] at hl hp hs ⊢
    simp only [sx_parse_token, hs, hl, hp]
    rw [if_neg (by simp)]
    simp
  | dec ds hne h hv =>
    obtain ⟨c, r, rfl⟩ := List.exists_cons_of_ne_nil hne
    have hc : isdigit c = true := by rw [← dec_eq]; exact h c (by simp)
    obtain ⟨hsp, _⟩ := dec_facts c hc
    have hs := skip_ws_at p w c (r ++ rest) hw hsp
    have hl := look_dec (p ++ w) c (r ++ rest) hc
    have hp := parse_integer_at (p ++ w) [] (c :: r) rest isdigit 10
      (fun x hx => by rw [← dec_eq]; exact h x hx) he
      (fun x hx => by
        have := delim_not_hex x hx
        cases hdx : isdigit x with
        | false => rfl
        | true => rw [(dec_facts x hdx).2.2.2.2] at this; exact absurd this (by decide))
    simp only [List.nil_append] at hp
    rw [digitsValue_dec (c :: r) h hv] at hp
    simp only [List.append_assoc, List.length_append, List.cons_append, List.length_nil, Nat.add_zero,
      List.nil_append] at hl hp hs ⊢
    simp only [sx_parse_token, hs, hl, hp]
    rw [if_neg (by simp)]
    simp
  | hex ds hne h hv =>
    obtain ⟨c, r, rfl⟩ := List.exists_cons_of_ne_nil hne
    have hc : isxdigit c = true := by rw [← hex_eq]; exact h c (by simp)
    have hs := skip_ws_at p w (35#8) (120#8 :: c :: r ++ rest) hw (by decide)
    have hl := look_hex (p ++ w) c (r ++ rest) hc
    have hp := parse_integer_at (p ++ w) [35#8, 120#8] (c :: r) rest isxdigit 16
      (fun x hx => by rw [← hex_eq]; exact h x hx) he delim_not_hex
    rw [digitsValue_hex (c :: r) h hv] at hp
    simp only [List.append_assoc, List.length_append, List.cons_append, List.length_cons, List.length_nil,
      List.nil_append] at hl hp hs ⊢
    simp only [sx_parse_token, hs, hl, hp]
    rw [if_neg (by simp)]
    simp; omega

open Ufw Ufw.Model.Sx Ufw.Spec.Sx Ufw.Lemmas.SxRender

theorem atom_ne_nil {t : Tree} {r : List Octet} (h : Atom t r) : t ≠ .nil := by
  cases h <;> simp

theorem items_ne_nil {t : Tree} {r : List Octet} (h : Items t r) : r ≠ [] := by
  induction h with
  | close ws hw => simp
  | atom ws a ra d rd hw ha hd hsep ih => simp [ih]
  | list ws a ra d rd hw ha hd iha ihd => simp

theorem atom_text_pos {t : Tree} {r : List Octet} (h : Atom t r) : 0 < r.length := by
  cases h with
  | sym c r h0 h => simp
  | dec ds hne h hv => exact List.length_pos_iff.mpr hne
  | hex ds hne h hv => simp

theorem atomEnd_append {rd : List Octet} (rest : List Octet) (hne : rd ≠ []) (h : AtomEnd rd) : AtomEnd (rd ++ rest) := by
  cases rd with
  | nil => exact absurd rfl hne
  | cons c r => exact h

theorem items_parse {t : Tree} {body : List Octet} (h : Items t body) :
    ∀ (p rest : List Octet) (fuel : Nat), body.length < fuel →
      sx_parse_list (p ++ (body ++ rest)) fuel p.length =
        { status := .success, node := some t, pos := p.length + body.length } := by
  induction h with
  | close ws hw =>
    intro p rest fuel hf
    cases fuel with
    | zero => omega
    | succ f =>
      have ht := tok_close p ws rest hw
      generalize hs : p ++ (ws ++ [41#8] ++ rest) = s
      have e1 : p ++ (ws ++ 41#8 :: rest) = s := by rw [← hs]; simp
      rw [e1] at ht
      have hlen : ¬ p.length ≥ s.length := by rw [← hs]; simp; omega
      simp only [sx_parse_list, hlen, ↓reduceIte, ht]
      simp [Res.isError, Res.isEmptyList]
      omega
  | atom ws a ra d rd hw ha hd hsep ih =>
    intro p rest fuel hf
    cases fuel with
    | zero => omega
    | succ f =>
      have ht := tok_atom p ws ra (rd ++ rest) a hw ha (atomEnd_append rest (items_ne_nil hd) hsep)
      have hra := atom_text_pos ha
      have hcdr := ih (p ++ ws ++ ra) rest f (by simp at hf; omega)
      generalize hs : p ++ (ws ++ ra ++ rd ++ rest) = s
      have e1 : p ++ (ws ++ (ra ++ (rd ++ rest))) = s := by rw [← hs]; simp
      have e2 : p ++ ws ++ ra ++ (rd ++ rest) = s := by rw [← hs]; simp
      rw [e1] at ht
      rw [e2] at hcdr
      simp only [List.length_append] at hcdr
      have hlen : ¬ p.length ≥ s.length := by rw [← hs]; simp; omega
      have hn := atom_ne_nil ha
      simp only [sx_parse_list, hlen, ↓reduceIte, ht]
      simp [Res.isError, Res.isEmptyList, hn, hcdr]
      omega
  | list ws a ra d rd hw ha hd iha ihd =>
    intro p rest fuel hf
    cases fuel with
    | zero => omega
    | succ f =>
      have ht := tok_open p ws (ra ++ rd ++ rest) hw
      have hcar := iha (p ++ ws ++ [40#8]) (rd ++ rest) f (by simp at hf; omega)
      have hcdr := ihd (p ++ ws ++ [40#8] ++ ra) rest f (by simp at hf; omega)
      generalize hs : p ++ (ws ++ 40#8 :: ra ++ rd ++ rest) = s
      have e1 : p ++ (ws ++ 40#8 :: (ra ++ rd ++ rest)) = s := by rw [← hs]; simp
      have e2 : p ++ ws ++ [40#8] ++ (ra ++ (rd ++ rest)) = s := by rw [← hs]; simp
      have e3 : p ++ ws ++ [40#8] ++ ra ++ (rd ++ rest) = s := by rw [← hs]; simp
      rw [e1] at ht
      rw [e2] at hcar
      rw [e3] at hcdr
      simp only [List.length_append, List.length_cons, List.length_nil] at hcar hcdr
      have hlen : ¬ p.length ≥ s.length := by rw [← hs]; simp; omega
      simp only [sx_parse_list, hlen, ↓reduceIte, ht]
      simp [Res.isError, Res.isEmptyList, hcar, hcdr]
      omega


theorem parse_atom (t : Tree) (r : List Octet) (h : Atom t r) (pre ws rest : List Octet) (hw : AllWs ws)
    (he : AtomEnd rest) :
    sx_parse (pre ++ (ws ++ (r ++ rest))) pre.length =
      { status := .success, node := some t, pos := pre.length + ws.length + r.length } := by
  have ht := tok_atom pre ws r rest t hw h he
  have hn := atom_ne_nil h
  simp only [sx_parse, ht]
  simp [Res.isError, Res.isEmptyList, hn]

theorem parse_list (t : Tree) (body : List Octet) (h : Items t body) (pre ws rest : List Octet) (hw : AllWs ws) :
    sx_parse (pre ++ (ws ++ (40#8 :: body ++ rest))) pre.length =
      { status := .success, node := some t, pos := pre.length + ws.length + (40#8 :: body).length } := by
  have ht := tok_open pre ws (body ++ rest) hw
  generalize hs : pre ++ (ws ++ (40#8 :: body ++ rest)) = s
  have e1 : pre ++ (ws ++ 40#8 :: (body ++ rest)) = s := by rw [← hs]; simp
  have e2 : pre ++ ws ++ [40#8] ++ (body ++ rest) = s := by rw [← hs]; simp
  have hl := items_parse h (pre ++ ws ++ [40#8]) rest (s.length + 1) (by rw [← hs]; simp; omega)
  rw [e1] at ht
  rw [e2] at hl
  simp only [List.length_append, List.length_cons, List.length_nil] at hl
  simp only [sx_parse, ht]
  simp [Res.isError, hl]
  omega

theorem digitVal_small : ∀ k : Fin 10, digitVal (BitVec.ofNat 8 (48 + k.val)) = k.val := by decide
theorem isDec_small : ∀ k : Fin 10, isDec (BitVec.ofNat 8 (48 + k.val)) = true := by decide

theorem value_snoc (base : Nat) (l : List Octet) (d : Octet) : value base (l ++ [d]) = value base l * base + digitVal d := by
  simp [value, List.foldl_append]

theorem decDigits_spec : ∀ n : Nat, decDigits n ≠ [] ∧ (∀ d ∈ decDigits n, isDec d = true) ∧ value 10 (decDigits n) = n := by
  intro n
  induction n using Nat.strongRecOn with
  | _ n ih =>
    rw [decDigits]
    split
    · rename_i h
      refine ⟨by simp, ?_, ?_⟩
      · intro d hd
        simp only [List.mem_singleton] at hd
        subst hd
        exact isDec_small ⟨n, h⟩
      · simp only [value, List.foldl_cons, List.foldl_nil, Nat.zero_mul, Nat.zero_add]
        exact digitVal_small ⟨n, h⟩
    · rename_i h
      obtain ⟨h1, h2, h3⟩ := ih (n / 10) (by omega)
      have hm : n % 10 < 10 := Nat.mod_lt _ (by omega)
      refine ⟨by simp, ?_, ?_⟩
      · intro d hd
        rcases List.mem_append.mp hd with hd | hd
        · exact h2 d hd
        · simp only [List.mem_singleton] at hd
          subst hd
          exact isDec_small ⟨n % 10, hm⟩
      · rw [value_snoc, h3, digitVal_small ⟨n % 10, hm⟩]
        show n / 10 * 10 + n % 10 = n
        omega

theorem atomEnd_renderTail (d : Tree) : AtomEnd (renderTail d) := by
  cases d <;> simp [renderTail, AtomEnd, isDelim] <;> decide

theorem allWs_nil : AllWs [] := by intro c hc; cases hc
theorem allWs_blank : AllWs [32#8] := by
  intro c hc
  simp only [List.mem_singleton] at hc
  subst hc; decide

/-- what the induction over the tree carries -/
def RenderOk (t : Tree) : Prop :=
  Expr t (render t) ∧ (IsList t → Items t (renderTail t) ∧ ∃ body, render t = 40#8 :: body ∧ Items t body)

theorem cons_items (ws : List Octet) (hw : AllWs ws) (a d : Tree) (pa : Proper a) (ha : RenderOk a)
    (hd : Items d (renderTail d)) : Items (.cons a d) (ws ++ render a ++ renderTail d) := by
  cases a with
  | sym s =>
    obtain ⟨c, r, rfl, h0, h⟩ := pa
    exact Items.atom ws _ _ d _ hw (Atom.sym c r h0 h) hd (atomEnd_renderTail d)
  | int n =>
    obtain ⟨h1, h2, h3⟩ := decDigits_spec n
    have hat : Atom (.int n) (decDigits n) := by
      have := Atom.dec (decDigits n) h1 h2 (by rw [h3]; exact pa)
      rw [h3] at this; exact this
    exact Items.atom ws _ _ d _ hw hat hd (atomEnd_renderTail d)
  | nil =>
    have := Items.list ws .nil [41#8] d (renderTail d) hw (Items.close [] allWs_nil) hd
    simpa [render] using this
  | cons x y =>
    obtain ⟨_, hl⟩ := ha
    obtain ⟨_, body, hb, hib⟩ := hl pa.2.2
    have := Items.list ws (.cons x y) body d (renderTail d) hw hib hd
    rw [hb]
    simpa using this

theorem render_ok : ∀ t : Tree, Proper t → RenderOk t := by
  intro t
  induction t with
  | sym s =>
    intro pt
    obtain ⟨c, r, rfl, h0, h⟩ := pt
    exact ⟨Expr.atom _ _ (Atom.sym c r h0 h), fun hl => absurd hl (by simp [IsList])⟩
  | int n =>
    intro pt
    obtain ⟨h1, h2, h3⟩ := decDigits_spec n
    have hat : Atom (.int n) (decDigits n) := by
      have := Atom.dec (decDigits n) h1 h2 (by rw [h3]; exact pt)
      rw [h3] at this; exact this
    exact ⟨Expr.atom _ _ hat, fun hl => absurd hl (by simp [IsList])⟩
  | nil =>
    intro _
    have hc : Items .nil [41#8] := Items.close [] allWs_nil
    exact ⟨Expr.list _ _ hc, fun _ => ⟨hc, [41#8], rfl, hc⟩⟩
  | cons a d iha ihd =>
    intro pt
    obtain ⟨pa, pd, ld⟩ := pt
    have hd := ((ihd pd).2 ld).1
    have h0 := cons_items [] allWs_nil a d pa (iha pa) hd
    have h1 := cons_items [32#8] allWs_blank a d pa (iha pa) hd
    simp only [List.nil_append] at h0
    refine ⟨?_, fun _ => ⟨?_, render a ++ renderTail d, ?_, h0⟩⟩
    · simpa [render] using Expr.list _ _ h0
    · simpa [renderTail] using h1
    · simp [render]

end Ufw.Lemmas.SxRender
