/-
The SLIP encoder over endpoint drivers that only fragment their transfers (C12 on top of C17): whatever
the fragmentation on the source and on the sink side, and whether the drivers are octet- or chunk-style,
`rfc1055_encode` succeeds and the sink receives exactly the RFC 1055 frame of the stream.
-/
import Ufw.Model.SlipEp
import Ufw.Lemmas.Endpoints
namespace Ufw.Lemmas.SlipEp
open Ufw Ufw.Model.Endpoints Ufw.Model.SlipEp
open Ufw.Model.Slip (RAW_EOF RAW_ESC ESC_EOF ESC_ESC escape enc)

/-- a driver that only fragments: every scripted answer is a transfer of at least one octet -/
def Plain (script : List Step) : Prop := ∀ st ∈ script, ∃ k, st = .xfer k ∧ 1 ≤ k

theorem Plain.tail {l : List Step} (h : Plain l) : Plain l.tail := fun st hs => h st (List.mem_of_mem_tail hs)

/-- one call of a fragmenting sink driver with a non-empty offer takes between one and all octets -/
theorem snk_call_plain (s : Snk) (d : List Octet) (hd : d ≠ []) (hp : Plain s.script) :
    ∃ k, 1 ≤ k ∧ k ≤ d.length ∧ (s.call d).1 = .ok k ∧ (s.call d).2.got = s.got ++ d.take k ∧
      Plain (s.call d).2.script ∧ (s.call d).2.kind = s.kind := by
  have hl : 1 ≤ d.length := List.length_pos_iff.mpr hd
  simp only [Snk.call]
  cases hh : s.script.head? with
  | none => exact ⟨d.length, hl, Nat.le_refl _, rfl, by simp, hp.tail, rfl⟩
  | some st =>
    obtain ⟨k, rfl, hk⟩ := hp st (List.mem_of_mem_head? hh)
    refine ⟨min k d.length, by omega, Nat.min_le_right _ _, rfl, ?_, hp.tail, rfl⟩
    simp only
    congr 1
    rw [List.take_eq_take_iff]; omega

theorem sink_adapt_plain : ∀ (d : List Octet) (fuel : Nat) (s : Snk) (done : Nat), Plain s.script → d.length ≤ fuel →
    (sink_adapt fuel s d done).1 = .ok (done + d.length) ∧ (sink_adapt fuel s d done).2.got = s.got ++ d ∧
    Plain (sink_adapt fuel s d done).2.script ∧ (sink_adapt fuel s d done).2.kind = s.kind := by
  intro d
  induction d with
  | nil => intro fuel s done hp _; cases fuel <;> simp [sink_adapt, hp]
  | cons o os ih =>
    intro fuel s done hp hf
    cases fuel with
    | zero => simp at hf
    | succ fuel =>
      obtain ⟨k, hk1, hk2, hc, hg, hp', hkind⟩ := snk_call_plain s [o] (by simp) hp
      have hk : k = 1 := by simp at hk2; omega
      subst hk
      simp only [sink_adapt]
      rcases hcall : s.call [o] with ⟨rc, s1⟩
      rw [hcall] at hc hg hp' hkind
      simp only at hc hg hp' hkind
      subst hc
      simp only [List.drop_succ_cons, List.drop_zero]
      obtain ⟨i1, i2, i3, i4⟩ := ih fuel s1 (done + 1) hp' (by simp at hf; omega)
      refine ⟨by rw [i1]; simp; omega, by rw [i2, hg]; simp, i3, by rw [i4, hkind]⟩


/-- one round of `sink_put_chunk` on a fragmenting sink takes between one and all octets -/
theorem once_put_plain (fuel : Nat) (s : Snk) (d : List Octet) (hd : d ≠ []) (hp : Plain s.script) (hf : d.length ≤ fuel) :
    ∃ k, 1 ≤ k ∧ k ≤ d.length ∧ (once_sink_put_chunk fuel s d).1 = .ok k ∧
      (once_sink_put_chunk fuel s d).2.got = s.got ++ d.take k ∧ Plain (once_sink_put_chunk fuel s d).2.script ∧
      (once_sink_put_chunk fuel s d).2.kind = s.kind := by
  have hl : 1 ≤ d.length := List.length_pos_iff.mpr hd
  simp only [once_sink_put_chunk]
  cases hk : s.kind with
  | chunk => simpa [hk] using snk_call_plain s d hd hp
  | octet =>
    obtain ⟨i1, i2, i3, i4⟩ := sink_adapt_plain d fuel s 0 hp hf
    exact ⟨d.length, hl, Nat.le_refl _, by simpa using i1, by simpa using i2, i3, by rw [i4, hk]⟩

/-- `sink_put_chunk` on a fragmenting sink delivers everything -/
theorem putLoop_plain : ∀ (fuel : Nat) (s : Snk) (d : List Octet) (total : Nat), Plain s.script → d.length ≤ fuel →
    (putLoop fuel s d total).1 = .ok total ∧ (putLoop fuel s d total).2.got = s.got ++ d ∧
    Plain (putLoop fuel s d total).2.script ∧ (putLoop fuel s d total).2.kind = s.kind := by
  intro fuel
  induction fuel with
  | zero =>
    intro s d total hp hf
    have : d = [] := List.length_eq_zero_iff.mp (by omega)
    subst this; simp [putLoop, hp]
  | succ fuel ih =>
    intro s d total hp hf
    cases d with
    | nil => simp [putLoop, hp]
    | cons o os =>
      obtain ⟨k, hk1, hk2, hc, hg, hp', hkind⟩ := once_put_plain (fuel + 1) s (o :: os) (by simp) hp hf
      simp only [putLoop]
      rcases hcall : once_sink_put_chunk (fuel + 1) s (o :: os) with ⟨rc, s1⟩
      rw [hcall] at hc hg hp' hkind
      simp only at hc hg hp' hkind
      subst hc
      simp only
      obtain ⟨i1, i2, i3, i4⟩ := ih s1 ((o :: os).drop k) total hp' (by simp only [List.length_drop, List.length_cons] at hf ⊢; omega)
      refine ⟨i1, ?_, i3, by rw [i4, hkind]⟩
      rw [i2, hg, List.append_assoc, List.take_append_drop]

theorem put_chunk_plain (fuel : Nat) (s : Snk) (d : List Octet) (hp : Plain s.script) (h1 : 1 ≤ d.length) (h2 : d.length ≤ fuel)
    (h3 : d.length ≤ SSIZE_MAX) :
    (sink_put_chunk fuel s d).1 = .ok d.length ∧ (sink_put_chunk fuel s d).2.got = s.got ++ d ∧
    Plain (sink_put_chunk fuel s d).2.script ∧ (sink_put_chunk fuel s d).2.kind = s.kind := by
  have : ¬ (d.length = 0 ∨ d.length > SSIZE_MAX) := by omega
  simp only [sink_put_chunk, this, ↓reduceIte]
  exact putLoop_plain fuel s d d.length hp h2

/-- one payload octet: its escape sequence reaches the sink completely -/
theorem encode_octet_plain (fuel : Nat) (s : Snk) (o : Octet) (hp : Plain s.script) (hf : 2 ≤ fuel) :
    ∃ k, (rfc1055_encode_octet fuel s o).1 = .ok k ∧ (rfc1055_encode_octet fuel s o).2.got = s.got ++ escape o ∧
      Plain (rfc1055_encode_octet fuel s o).2.script ∧ (rfc1055_encode_octet fuel s o).2.kind = s.kind := by
  have hmax : 2 ≤ SSIZE_MAX := by decide
  simp only [rfc1055_encode_octet, escape]
  by_cases h1 : o = RAW_ESC
  · simp only [h1, ↓reduceIte]
    obtain ⟨a, b, c, d⟩ := put_chunk_plain fuel s [RAW_ESC, ESC_ESC] hp (by simp) (by simpa using hf) (by simpa using hmax)
    exact ⟨_, a, b, c, d⟩
  · simp only [h1, ↓reduceIte]
    by_cases h2 : o = RAW_EOF
    · simp only [h2, ↓reduceIte]
      obtain ⟨a, b, c, d⟩ := put_chunk_plain fuel s [RAW_ESC, ESC_EOF] hp (by simp) (by simpa using hf) (by simpa using hmax)
      exact ⟨_, a, b, c, d⟩
    · simp only [h2, ↓reduceIte, sink_put_octet]
      obtain ⟨k, _, _, hc, hg, hp', hkind⟩ := snk_call_plain s [o] (by simp) hp
      have : ([o] : List Octet).take k = [o] := List.take_of_length_le (by simpa using ‹1 ≤ k›)
      exact ⟨k, hc, by rw [hg, this], hp', hkind⟩


theorem src_call1_plain (s : Src) (hp : Plain s.script) :
    (∀ o rest, s.stream = o :: rest → ∃ k, (s.call 1).1 = .ok k ∧ (s.call 1).2.1 = [o] ∧ (s.call 1).2.2.stream = rest ∧
      Plain (s.call 1).2.2.script ∧ (s.call 1).2.2.script.length ≤ s.script.length) ∧
    (s.stream = [] → (s.call 1).1 = .err .enodata) := by
  constructor
  · intro o rest hs
    simp only [Src.call]
    cases hh : s.script.head? with
    | none => simp [hs]; exact hp.tail
    | some st =>
      obtain ⟨k, rfl, hk⟩ := hp st (List.mem_of_mem_head? hh)
      have : min k 1 = 1 := by omega
      simp [hs, this]; exact hp.tail
  · intro hs
    simp only [Src.call]
    cases hh : s.script.head? with
    | none => simp [hs]
    | some st =>
      obtain ⟨k, rfl, hk⟩ := hp st (List.mem_of_mem_head? hh)
      simp [hs]

theorem close_plain (s : Snk) (hp : Plain s.script) :
    (rfc1055_close s).1 = .ok 0 ∧ (rfc1055_close s).2.got = s.got ++ [RAW_EOF] ∧ Plain (rfc1055_close s).2.script := by
  obtain ⟨k, _, _, hc, hg, hp', _⟩ := snk_call_plain s [RAW_EOF] (by simp) hp
  have : ([RAW_EOF] : List Octet).take k = [RAW_EOF] := List.take_of_length_le (by simpa using ‹1 ≤ k›)
  simp only [rfc1055_close, sink_put_octet]
  rcases hcall : s.call [RAW_EOF] with ⟨rc, s1⟩
  rw [hcall] at hc hg hp'
  simp only at hc hg hp'
  subst hc
  exact ⟨rfl, by rw [hg, this], hp'⟩

theorem encLoop_plain (fuel : Nat) (hf : 2 ≤ fuel) : ∀ (stream : List Octet) (steps : Nat) (src : Src) (snk : Snk),
    src.stream = stream → stream.length < steps → Plain src.script → Plain snk.script →
    (encLoop fuel steps src snk).1 = .ok 0 ∧
    (encLoop fuel steps src snk).2.2.got = snk.got ++ stream.flatMap escape ++ [RAW_EOF] ∧
    (encLoop fuel steps src snk).2.1.stream = [] := by
  intro stream
  induction stream with
  | nil =>
    intro steps src snk hs hst hps hpk
    cases steps with
    | zero => simp at hst
    | succ steps =>
      have he := (src_call1_plain src hps).2 hs
      obtain ⟨c1, c2, _⟩ := close_plain snk hpk
      simp only [encLoop, source_get_octet]
      rcases hcall : src.call 1 with ⟨rc, d, src1⟩
      rw [hcall] at he
      simp only at he
      subst he
      have hst1 : src1.stream = [] := by
        have := (Ufw.Lemmas.Endpoints.call_spec src 1).2.1
        rw [hcall] at this; simp only at this; rw [this, hs]; simp
      simp only [↓reduceIte]
      rcases hcl : rfc1055_close snk with ⟨r, s⟩
      rw [hcl] at c1 c2
      simp only at c1 c2 ⊢
      exact ⟨c1, by simpa using c2, hst1⟩
  | cons o rest ih =>
    intro steps src snk hs hst hps hpk
    cases steps with
    | zero => simp at hst
    | succ steps =>
      obtain ⟨k, hc, hd, hrest, hps', _⟩ := (src_call1_plain src hps).1 o rest hs
      obtain ⟨k2, e1, e2, e3, _⟩ := encode_octet_plain fuel snk o hpk hf
      simp only [encLoop, source_get_octet]
      rcases hcall : src.call 1 with ⟨rc, d, src1⟩
      rw [hcall] at hc hd hrest hps'
      simp only at hc hd hrest hps'
      subst hc hd
      simp only
      rcases henc : rfc1055_encode_octet fuel snk o with ⟨r2, snk1⟩
      rw [henc] at e1 e2 e3
      simp only at e1 e2 e3
      subst e1
      simp only
      obtain ⟨i1, i2, i3⟩ := ih steps src1 snk1 hrest (by simp at hst; omega) hps' e3
      refine ⟨i1, ?_, i3⟩
      rw [i2, e2]; simp [List.append_assoc]

/-- The encoder on top of drivers that only fragment their transfers - source and sink of either style, any
    fragmentation: every octet of the stream is read, the call succeeds, and the sink has received exactly
    the RFC 1055 frame of the stream (in particular both octets of every escape sequence). -/
theorem encode_plain (fuel : Nat) (hf : 2 ≤ fuel) (sof : Bool) (src : Src) (snk : Snk)
    (hps : Plain src.script) (hpk : Plain snk.script) :
    (rfc1055_encode fuel sof src snk).1 = .ok 0 ∧
    (rfc1055_encode fuel sof src snk).2.2.got = snk.got ++ enc sof src.stream ∧
    (rfc1055_encode fuel sof src snk).2.1.stream = [] := by
  simp only [rfc1055_encode, enc]
  cases sof with
  | false =>
    simp only [Bool.false_eq_true, ↓reduceIte, List.nil_append]
    obtain ⟨a, b, c⟩ := encLoop_plain fuel hf src.stream (src.stream.length + src.script.length + 2) src snk rfl (by omega) hps hpk
    exact ⟨a, by rw [b]; simp [List.append_assoc], c⟩
  | true =>
    simp only [↓reduceIte, sink_put_octet]
    obtain ⟨k, hk1, _, hc, hg, hp', _⟩ := snk_call_plain snk [RAW_EOF] (by simp) hpk
    have ht : ([RAW_EOF] : List Octet).take k = [RAW_EOF] := List.take_of_length_le (by simpa using hk1)
    rcases hcall : snk.call [RAW_EOF] with ⟨rc, s1⟩
    rw [hcall] at hc hg hp'
    simp only at hc hg hp'
    subst hc
    simp only
    obtain ⟨a, b, c⟩ := encLoop_plain fuel hf src.stream (src.stream.length + src.script.length + 2) src s1 rfl (by omega) hps hp'
    exact ⟨a, by rw [b, hg, ht]; simp [List.append_assoc], c⟩

end Ufw.Lemmas.SlipEp
