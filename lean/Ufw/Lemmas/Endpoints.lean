/-
Helper lemmas for C17 (endpoints).
-/
import Ufw.Model.Endpoints

namespace Ufw.Lemmas.Endpoints
open Ufw Ufw.Model.Endpoints

/-- what a source driver call does to the stream -/
theorem call_spec (s : Src) (n : Nat) :
    let r := s.call n
    r.2.1 = s.stream.take r.2.1.length ∧ r.2.2.stream = s.stream.drop r.2.1.length ∧
    r.2.2.script = s.script.tail ∧ r.2.2.kind = s.kind ∧
    (∀ m, r.1 = .ok m → m = r.2.1.length ∧ m ≤ n) ∧
    (∀ e, r.1 = .err e → r.2.1 = [] ∧ (e = .enodata ∨ e = .eintr ∨ e = .eagain ∨ Step.hard e ∈ s.script)) ∧
    r.1 ≠ .diverge := by
  have deliver : ∀ m, m ≤ n →
      let r : R × List Octet × Src :=
        if s.stream.isEmpty then (.err .enodata, [], { s with script := s.script.tail, calls := s.calls + 1 })
        else (.ok (min m s.stream.length), s.stream.take m,
              { s with script := s.script.tail, calls := s.calls + 1, stream := s.stream.drop m })
      r.2.1 = s.stream.take r.2.1.length ∧ r.2.2.stream = s.stream.drop r.2.1.length ∧
      r.2.2.script = s.script.tail ∧ r.2.2.kind = s.kind ∧
      (∀ k, r.1 = .ok k → k = r.2.1.length ∧ k ≤ n) ∧
      (∀ e, r.1 = .err e → r.2.1 = [] ∧ (e = .enodata ∨ e = .eintr ∨ e = .eagain ∨ Step.hard e ∈ s.script)) ∧
      r.1 ≠ .diverge := by
    intro m hm
    by_cases he : s.stream.isEmpty = true
    · simp [he]
    · simp only [he, Bool.false_eq_true, ↓reduceIte, List.length_take, List.take_take, Nat.min_self, true_and]
      refine ⟨?_, ?_, ?_, by simp, by simp⟩
      · rw [List.take_eq_take_iff]; omega
      · rw [List.drop_eq_drop_iff]; omega
      · intro k hk; simp only [R.ok.injEq] at hk; omega
  simp only [Src.call]
  cases hh : s.script.head? with
  | none => simpa using deliver n (Nat.le_refl n)
  | some st =>
    have hmem : st ∈ s.script := List.mem_of_mem_head? hh
    cases st with
    | xfer k => simpa using deliver (min k n) (Nat.min_le_right k n)
    | zero => simp
    | eintr => simp
    | eagain => simp
    | hard e => simp; exact Or.inr (Or.inr (Or.inr hmem))

/-- what a sink driver call does -/
theorem snk_call_spec (s : Snk) (d : List Octet) :
    let r := s.call d
    r.2.script = s.script.tail ∧ r.2.kind = s.kind ∧
    (∀ m, r.1 = .ok m → m ≤ d.length ∧ r.2.got = s.got ++ d.take m) ∧
    (∀ e, r.1 = .err e → r.2.got = s.got ∧ (e = .eintr ∨ e = .eagain ∨ Step.hard e ∈ s.script)) ∧
    r.1 ≠ .diverge := by
  simp only [Snk.call]
  cases hh : s.script.head? with
  | none => simp
  | some st =>
    have hmem : st ∈ s.script := List.mem_of_mem_head? hh
    cases st with
    | xfer k =>
      simp only [true_and, R.ok.injEq, reduceCtorEq, false_implies, implies_true, ne_eq, not_false_eq_true, and_true]
      intro m hm; subst hm
      refine ⟨Nat.min_le_right _ _, ?_⟩
      congr 1; rw [List.take_eq_take_iff]; omega
    | zero => simp
    | eintr => simp
    | eagain => simp
    | hard e => simp; exact Or.inr (Or.inr hmem)

theorem take_add_drop (l : List Octet) (a b : Nat) : l.take a ++ (l.drop a).take b = l.take (a + b) := by
  rw [List.take_add]

/-- `s'` is `s` after the driver delivered exactly the octets `d` (in order) -/
def Adv (s s' : Src) (d : List Octet) : Prop :=
  d = s.stream.take d.length ∧ s'.stream = s.stream.drop d.length ∧ s'.script <:+ s.script ∧ s'.kind = s.kind

theorem Adv.refl (s : Src) : Adv s s [] := by simp [Adv]

theorem Adv.trans {s s1 s' : Src} {d0 d1 : List Octet} (h0 : Adv s s1 d0) (h1 : Adv s1 s' d1) :
    Adv s s' (d0 ++ d1) := by
  obtain ⟨a1, a2, a3, a4⟩ := h0
  obtain ⟨b1, b2, b3, b4⟩ := h1
  refine ⟨?_, ?_, List.IsSuffix.trans b3 a3, by rw [b4, a4]⟩
  · rw [List.length_append, ← take_add_drop]
    rw [a2] at b1
    rw [← a1, ← b1]
  · rw [b2, a2, List.drop_drop, List.length_append]

theorem Adv.of_call (s : Src) (n : Nat) : Adv s (s.call n).2.2 (s.call n).2.1 := by
  obtain ⟨h1, h2, h3, h4, _⟩ := call_spec s n
  exact ⟨h1, h2, by rw [h3]; exact List.tail_suffix _, h4⟩

theorem hard_of_suffix {s s' : Src} {e : Err} (h : s'.script <:+ s.script) (hm : Step.hard e ∈ s'.script) :
    Step.hard e ∈ s.script := h.subset hm

/-- errors the exact/adapting loops can return: end of data or a hard error of the script -/
def ErrOk (s : Src) (e : Err) : Prop := e = .enodata ∨ Step.hard e ∈ s.script

theorem ErrOk.lift {s s1 : Src} {e : Err} (hs : s1.script <:+ s.script) (h : ErrOk s1 e) : ErrOk s e := by
  rcases h with h | h
  · exact Or.inl h
  · exact Or.inr (hs.subset h)

theorem isRetry_iff (e : Err) : isRetry e = true ↔ (e = .eintr ∨ e = .eagain) := by
  simp [isRetry]

theorem source_adapt_spec : ∀ (fuel : Nat) (s : Src) (rest : Nat) (acc : List Octet),
    ∃ d, (source_adapt fuel s rest acc).2.1 = acc ++ d ∧ Adv s (source_adapt fuel s rest acc).2.2 d ∧
      d.length ≤ rest ∧
      (∀ m, (source_adapt fuel s rest acc).1 = .ok m → m = (acc ++ d).length ∧ (d.length = rest ∨ acc ++ d ≠ [])) ∧
      (∀ e, (source_adapt fuel s rest acc).1 = .err e → ErrOk s e ∧ isRetry e = false) := by
  intro fuel
  induction fuel with
  | zero =>
    intro s rest acc
    cases rest with
    | zero => exact ⟨[], by simp [source_adapt], Adv.refl s, by simp, by simp [source_adapt], by simp [source_adapt]⟩
    | succ r => exact ⟨[], by simp [source_adapt], Adv.refl s, by simp, by simp [source_adapt], by simp [source_adapt]⟩
  | succ fuel ih =>
    intro s rest acc
    cases rest with
    | zero => exact ⟨[], by simp [source_adapt], Adv.refl s, by simp, by simp [source_adapt], by simp [source_adapt]⟩
    | succ r =>
      have hadv := Adv.of_call s 1
      obtain ⟨_, _, _, _, hok, herr, hnd⟩ := call_spec s 1
      simp only [source_adapt]
      rcases hc : s.call 1 with ⟨rc, d0, s1⟩
      rw [hc] at hadv hok herr hnd
      simp only at hadv hok herr hnd
      have hsuf := hadv.2.2.1
      cases rc with
      | diverge => exact absurd rfl hnd
      | ok k =>
        obtain ⟨hk1, hk2⟩ := hok k rfl
        obtain ⟨d1, e1, e2, e3, e4, e5⟩ := ih s1 (r + 1 - k) (acc ++ d0)
        refine ⟨d0 ++ d1, by simp only [e1, List.append_assoc], Adv.trans hadv e2, ?_, ?_, ?_⟩
        · simp only [List.length_append]; omega
        · intro m hm
          obtain ⟨f1, f2⟩ := e4 m hm
          refine ⟨by rw [f1]; simp [List.append_assoc], ?_⟩
          rcases f2 with f2 | f2
          · left; simp only [List.length_append]; omega
          · right; simpa [List.append_assoc] using f2
        · intro e he
          obtain ⟨h, hn⟩ := e5 e he
          exact ⟨ErrOk.lift hsuf h, hn⟩
      | err e =>
        obtain ⟨hd0, he⟩ := herr e rfl
        subst hd0
        simp only
        by_cases hr : isRetry e = true
        · simp only [hr, ↓reduceIte]
          obtain ⟨d1, e1, e2, e3, e4, e5⟩ := ih s1 (r + 1) acc
          exact ⟨d1, e1, by simpa using Adv.trans hadv e2, e3, e4, fun e he' => ⟨ErrOk.lift hsuf (e5 e he').1, (e5 e he').2⟩⟩
        · simp only [hr, Bool.false_eq_true, ↓reduceIte]
          have hnr : ¬ (e = .eintr ∨ e = .eagain) := fun h => hr ((isRetry_iff e).mpr h)
          have hE : ErrOk s e := by
            rcases he with h | h | h | h
            · exact Or.inl h
            · exact absurd (Or.inl h) hnr
            · exact absurd (Or.inr h) hnr
            · exact Or.inr h
          by_cases hp : e = .enodata ∧ ¬ acc.isEmpty = true
          · simp only [hp, not_false_eq_true, and_self, ↓reduceIte]
            refine ⟨[], by simp, by simpa using hadv, by simp, ?_, by simp⟩
            intro m hm
            exact ⟨by simpa using hm.symm, Or.inr (by simpa using hp.2)⟩
          · simp only [hp, ↓reduceIte]
            refine ⟨[], by simp, by simpa using hadv, by simp, by simp, ?_⟩
            intro e' he'
            simp only [R.err.injEq] at he'
            subst he'
            exact ⟨hE, by simpa using hr⟩

/-- one (possibly adapted) attempt to read up to n octets -/
theorem once_get_spec (fuel : Nat) (s : Src) (n : Nat) :
    let r := once_source_get_chunk fuel s n
    Adv s r.2.2 r.2.1 ∧ r.2.1.length ≤ n ∧
    (∀ m, r.1 = .ok m → m = r.2.1.length) ∧
    (∀ e, r.1 = .err e → (isRetry e = false → ErrOk s e) ∧ (isRetry e = true → r.2.1 = [])) := by
  simp only [once_source_get_chunk]
  cases hk : s.kind with
  | octet =>
    obtain ⟨d, e1, e2, e3, e4, e5⟩ := source_adapt_spec fuel s n []
    simp only [List.nil_append] at e1 e4
    simp only
    rw [e1]
    refine ⟨e2, e3, fun m hm => (e4 m hm).1, fun e he => ⟨fun _ => (e5 e he).1, fun h => ?_⟩⟩
    rw [(e5 e he).2] at h; exact absurd h (by decide)
  | chunk =>
    obtain ⟨_, _, _, _, hok, herr, hnd⟩ := call_spec s n
    have hadv := Adv.of_call s n
    simp only
    rcases hc : s.call n with ⟨rc, d0, s1⟩
    rw [hc] at hok herr hnd hadv
    simp only at hok herr hnd hadv ⊢
    refine ⟨hadv, ?_, fun m hm => (hok m hm).1, ?_⟩
    · cases rc with
      | ok m => have := hok m rfl; omega
      | err e => have := (herr e rfl).1; simp [this]
      | diverge => exact absurd rfl hnd
    · intro e he
      obtain ⟨hd, h⟩ := herr e he
      refine ⟨fun hr => ?_, fun _ => hd⟩
      have hnr : ¬ (e = .eintr ∨ e = .eagain) := fun h => by rw [(isRetry_iff e).mpr h] at hr; exact absurd hr (by decide)
      rcases h with h | h | h | h
      · exact Or.inl h
      · exact absurd (Or.inl h) hnr
      · exact absurd (Or.inr h) hnr
      · exact Or.inr h

/-- the retry loop of `source_get_chunk`: what the caller's buffer holds is `acc` followed by
    the next octets of the stream; on success exactly `rest` of them, and the driver has delivered
    nothing beyond them; on failure the driver may have delivered more (`lost`) -/
theorem getLoop_spec : ∀ (fuel : Nat) (s : Src) (rest : Nat) (acc : List Octet),
    ∃ d lost, (getLoop fuel s rest acc).2.1 = acc ++ d ∧ Adv s (getLoop fuel s rest acc).2.2 (d ++ lost) ∧
      d.length ≤ rest ∧
      (∀ m, (getLoop fuel s rest acc).1 = .ok m → m = (acc ++ d).length ∧ d.length = rest ∧ lost = []) ∧
      (∀ e, (getLoop fuel s rest acc).1 = .err e → ErrOk s e ∧ isRetry e = false) := by
  intro fuel
  induction fuel with
  | zero =>
    intro s rest acc
    cases rest <;>
      exact ⟨[], [], by simp [getLoop], by simpa [getLoop] using Adv.refl s, by simp, by simp [getLoop],
        by simp [getLoop]⟩
  | succ fuel ih =>
    intro s rest acc
    cases rest with
    | zero =>
      exact ⟨[], [], by simp [getLoop], by simpa [getLoop] using Adv.refl s, by simp, by simp [getLoop],
        by simp [getLoop]⟩
    | succ r =>
      obtain ⟨hadv, hlen, hok, herr⟩ := once_get_spec (fuel + 1) s (r + 1)
      simp only [getLoop]
      rcases hc : once_source_get_chunk (fuel + 1) s (r + 1) with ⟨rc, d0, s1⟩
      rw [hc] at hadv hlen hok herr
      simp only at hadv hlen hok herr
      have hsuf := hadv.2.2.1
      cases rc with
      | diverge => exact ⟨[], d0, by simp, by simpa using hadv, by simp, by simp, by simp⟩
      | ok k =>
        have hk := hok k rfl
        obtain ⟨d1, lost, e1, e2, e3, e4, e5⟩ := ih s1 (r + 1 - k) (acc ++ d0)
        refine ⟨d0 ++ d1, lost, by simp only [e1, List.append_assoc], ?_, ?_, ?_, ?_⟩
        · simpa [List.append_assoc] using Adv.trans hadv e2
        · simp only [List.length_append]; omega
        · intro m hm
          obtain ⟨f1, f2, f3⟩ := e4 m hm
          exact ⟨by rw [f1]; simp [List.append_assoc], by simp only [List.length_append]; omega, f3⟩
        · intro e he; exact ⟨ErrOk.lift hsuf (e5 e he).1, (e5 e he).2⟩
      | err e =>
        obtain ⟨hE, hR⟩ := herr e rfl
        simp only
        by_cases hr : isRetry e = true
        · have hd0 := hR hr
          subst hd0
          simp only [hr, ↓reduceIte]
          obtain ⟨d1, lost, e1, e2, e3, e4, e5⟩ := ih s1 (r + 1) acc
          exact ⟨d1, lost, e1, by simpa using Adv.trans hadv e2, e3, e4,
            fun e he => ⟨ErrOk.lift hsuf (e5 e he).1, (e5 e he).2⟩⟩
        · simp only [hr, Bool.false_eq_true, ↓reduceIte]
          refine ⟨[], d0, by simp, by simpa using hadv, by simp, by simp, ?_⟩
          intro e' he'
          simp only [R.err.injEq] at he'
          subst he'
          exact ⟨hE (by simpa using hr), by simpa using hr⟩

/-! ### sinks -/

/-- `s'` is `s` after the driver accepted exactly the octets `d` (in order) -/
def SnkAdv (s s' : Snk) (d : List Octet) : Prop :=
  s'.got = s.got ++ d ∧ s'.script <:+ s.script ∧ s'.kind = s.kind

theorem SnkAdv.refl (s : Snk) : SnkAdv s s [] := by simp [SnkAdv]

theorem SnkAdv.trans {s s1 s' : Snk} {d0 d1 : List Octet} (h0 : SnkAdv s s1 d0) (h1 : SnkAdv s1 s' d1) :
    SnkAdv s s' (d0 ++ d1) :=
  ⟨by rw [h1.1, h0.1, List.append_assoc], List.IsSuffix.trans h1.2.1 h0.2.1, by rw [h1.2.2, h0.2.2]⟩

def SnkErrOk (s : Snk) (e : Err) : Prop := Step.hard e ∈ s.script

theorem snk_once_call (s : Snk) (d : List Octet) :
    ∃ k, k ≤ d.length ∧ SnkAdv s (s.call d).2 (d.take k) ∧
      (∀ m, (s.call d).1 = .ok m → m = k) ∧
      (∀ e, (s.call d).1 = .err e → k = 0 ∧ (isRetry e = false → SnkErrOk s e)) ∧ (s.call d).1 ≠ .diverge := by
  obtain ⟨h1, h2, hok, herr, hnd⟩ := snk_call_spec s d
  have hsuf : (s.call d).2.script <:+ s.script := by rw [h1]; exact List.tail_suffix _
  cases hr : (s.call d).1 with
  | ok m =>
    obtain ⟨a, b⟩ := hok m hr
    exact ⟨m, a, ⟨b, hsuf, h2⟩, by simp, by simp, by simp⟩
  | err e =>
    obtain ⟨a, b⟩ := herr e hr
    refine ⟨0, by omega, ⟨by simpa using a, hsuf, h2⟩, by simp, ?_, by simp⟩
    intro e' he'
    simp only [R.err.injEq] at he'
    subst he'
    refine ⟨rfl, fun hnr => ?_⟩
    have hn : ¬ (e = .eintr ∨ e = .eagain) := fun h => by
      rw [(isRetry_iff e).mpr h] at hnr; exact absurd hnr (by decide)
    rcases b with h | h | h
    · exact absurd (Or.inl h) hn
    · exact absurd (Or.inr h) hn
    · exact h
  | diverge => exact absurd hr hnd

theorem take_take_drop (d : List Octet) (k k' : Nat) : d.take k ++ (d.drop k).take k' = d.take (k + k') := by
  rw [List.take_add]

theorem sink_adapt_spec : ∀ (fuel : Nat) (s : Snk) (d : List Octet) (done : Nat),
    ∃ k, k ≤ d.length ∧ SnkAdv s (sink_adapt fuel s d done).2 (d.take k) ∧
      (∀ m, (sink_adapt fuel s d done).1 = .ok m → m = done + d.length ∧ k = d.length) ∧
      (∀ e, (sink_adapt fuel s d done).1 = .err e → SnkErrOk s e ∧ isRetry e = false) := by
  intro fuel
  induction fuel with
  | zero =>
    intro s d done
    cases d <;> exact ⟨0, by simp, by simpa [sink_adapt] using SnkAdv.refl s, by simp [sink_adapt], by simp [sink_adapt]⟩
  | succ fuel ih =>
    intro s d done
    cases d with
    | nil => exact ⟨0, by simp, by simpa [sink_adapt] using SnkAdv.refl s, by simp [sink_adapt], by simp [sink_adapt]⟩
    | cons o os =>
      obtain ⟨k, hk, hadv, hok, herr, hnd⟩ := snk_once_call s [o]
      simp only [sink_adapt]
      rcases hc : s.call [o] with ⟨rc, s1⟩
      rw [hc] at hadv hok herr hnd
      simp only at hadv hok herr hnd
      have hsuf := hadv.2.1
      cases rc with
      | diverge => exact absurd rfl hnd
      | ok m =>
        have hm := hok m rfl
        subst hm
        simp only [List.length_singleton] at hk
        obtain ⟨k', hk', e2, e3, e4⟩ := ih s1 ((o :: os).drop m) (done + m)
        have hm1 : m = 0 ∨ m = 1 := by omega
        have htake : [o].take m = (o :: os).take m := by rcases hm1 with h | h <;> subst h <;> simp
        refine ⟨m + k', ?_, ?_, ?_, ?_⟩
        · simp only [List.length_drop] at hk'; simp only [List.length_cons] at hk' ⊢; omega
        · rw [← take_take_drop, ← htake]; exact SnkAdv.trans hadv e2
        · intro x hx
          obtain ⟨f1, f2⟩ := e3 x hx
          simp only [List.length_drop, List.length_cons] at f1 f2 ⊢
          omega
        · intro e he; exact ⟨hsuf.subset (e4 e he).1, (e4 e he).2⟩
      | err e =>
        obtain ⟨hk0, hE⟩ := herr e rfl
        subst hk0
        simp only
        by_cases hr : isRetry e = true
        · simp only [hr, ↓reduceIte]
          obtain ⟨k', hk', e2, e3, e4⟩ := ih s1 (o :: os) done
          exact ⟨k', hk', by simpa using SnkAdv.trans hadv e2, e3,
            fun e he => ⟨hsuf.subset (e4 e he).1, (e4 e he).2⟩⟩
        · simp only [hr, Bool.false_eq_true, ↓reduceIte]
          refine ⟨0, by simp, by simpa using hadv, by simp, ?_⟩
          intro e' he'
          simp only [R.err.injEq] at he'
          subst he'
          exact ⟨hE (by simpa using hr), by simpa using hr⟩

theorem once_put_spec (fuel : Nat) (s : Snk) (d : List Octet) :
    ∃ k, k ≤ d.length ∧ SnkAdv s (once_sink_put_chunk fuel s d).2 (d.take k) ∧
      (∀ m, (once_sink_put_chunk fuel s d).1 = .ok m → m = k) ∧
      (∀ e, (once_sink_put_chunk fuel s d).1 = .err e →
        (isRetry e = false → SnkErrOk s e) ∧ (isRetry e = true → k = 0)) := by
  simp only [once_sink_put_chunk]
  cases hk : s.kind with
  | octet =>
    obtain ⟨k, h1, h2, h3, h4⟩ := sink_adapt_spec fuel s d 0
    refine ⟨k, h1, h2, ?_, ?_⟩
    · intro m hm; obtain ⟨a, b⟩ := h3 m hm; omega
    · intro e he; refine ⟨fun _ => (h4 e he).1, fun h => ?_⟩
      rw [(h4 e he).2] at h; exact absurd h (by decide)
  | chunk =>
    obtain ⟨k, h1, h2, h3, h4, _⟩ := snk_once_call s d
    exact ⟨k, h1, h2, h3, fun e he => ⟨(h4 e he).2, fun _ => (h4 e he).1⟩⟩

/-- the retry loop of `sink_put_chunk`: the sink has received a prefix of `d`; on success all of it -/
theorem putLoop_spec : ∀ (fuel : Nat) (s : Snk) (d : List Octet) (total : Nat),
    ∃ k, k ≤ d.length ∧ SnkAdv s (putLoop fuel s d total).2 (d.take k) ∧
      (∀ m, (putLoop fuel s d total).1 = .ok m → m = total ∧ k = d.length) ∧
      (∀ e, (putLoop fuel s d total).1 = .err e → SnkErrOk s e ∧ isRetry e = false) := by
  intro fuel
  induction fuel with
  | zero =>
    intro s d total
    cases d <;> exact ⟨0, by simp, by simpa [putLoop] using SnkAdv.refl s, by simp [putLoop], by simp [putLoop]⟩
  | succ fuel ih =>
    intro s d total
    cases d with
    | nil => exact ⟨0, by simp, by simpa [putLoop] using SnkAdv.refl s, by simp [putLoop], by simp [putLoop]⟩
    | cons o os =>
      obtain ⟨k, hk, hadv, hok, herr⟩ := once_put_spec (fuel + 1) s (o :: os)
      simp only [putLoop]
      rcases hc : once_sink_put_chunk (fuel + 1) s (o :: os) with ⟨rc, s1⟩
      rw [hc] at hadv hok herr
      simp only at hadv hok herr
      have hsuf := hadv.2.1
      cases rc with
      | diverge => exact ⟨k, hk, hadv, by simp, by simp⟩
      | ok m =>
        have hm := hok m rfl
        subst hm
        obtain ⟨k', hk', e2, e3, e4⟩ := ih s1 ((o :: os).drop m) total
        refine ⟨m + k', ?_, ?_, ?_, ?_⟩
        · simp only [List.length_drop] at hk'; omega
        · rw [← take_take_drop]; exact SnkAdv.trans hadv e2
        · intro x hx
          obtain ⟨f1, f2⟩ := e3 x hx
          simp only [List.length_drop] at f2
          exact ⟨f1, by omega⟩
        · intro e he; exact ⟨hsuf.subset (e4 e he).1, (e4 e he).2⟩
      | err e =>
        obtain ⟨hE, hR⟩ := herr e rfl
        simp only
        by_cases hr : isRetry e = true
        · have hk0 := hR hr
          subst hk0
          simp only [hr, ↓reduceIte]
          obtain ⟨k', hk', e2, e3, e4⟩ := ih s1 (o :: os) total
          exact ⟨k', hk', by simpa using SnkAdv.trans hadv e2, e3,
            fun e he => ⟨hsuf.subset (e4 e he).1, (e4 e he).2⟩⟩
        · simp only [hr, Bool.false_eq_true, ↓reduceIte]
          refine ⟨k, hk, hadv, by simp, ?_⟩
          intro e' he'
          simp only [R.err.injEq] at he'
          subst he'
          exact ⟨hE (by simpa using hr), by simpa using hr⟩

/-! ### plumbing -/

/-- source and sink after `d` (the next octets of the stream, in order) reached the sink and
    `lost` further octets were taken from the source but not delivered -/
def Moved (src : Src) (snk : Snk) (src' : Src) (snk' : Snk) (d lost : List Octet) : Prop :=
  Adv src src' (d ++ lost) ∧ SnkAdv snk snk' d

theorem Moved.refl (src : Src) (snk : Snk) : Moved src snk src snk [] [] :=
  ⟨by simpa using Adv.refl src, SnkAdv.refl snk⟩

theorem Moved.trans {src src1 src' : Src} {snk snk1 snk' : Snk} {d0 d1 lost : List Octet}
    (h0 : Moved src snk src1 snk1 d0 []) (h1 : Moved src1 snk1 src' snk' d1 lost) :
    Moved src snk src' snk' (d0 ++ d1) lost := by
  refine ⟨?_, SnkAdv.trans h0.2 h1.2⟩
  have := Adv.trans (by simpa using h0.1) h1.1
  simpa [List.append_assoc] using this

/-- drivers that never answer 0 (needed by the per-octet plumbing, see DESIGN.md) -/
def NoZero (script : List Step) : Prop := ∀ st ∈ script, st ≠ .zero ∧ st ≠ .xfer 0

theorem NoZero.suffix {a b : List Step} (h : a <:+ b) (hb : NoZero b) : NoZero a :=
  fun st hs => hb st (h.subset hs)

theorem src_call1_nozero (s : Src) (hz : NoZero s.script) :
    ∀ k, (s.call 1).1 = .ok k → ∃ o, (s.call 1).2.1 = [o] ∧ k = 1 := by
  intro k hk
  simp only [Src.call] at hk ⊢
  have deliver1 : ∀ m, m = 1 →
      (if s.stream.isEmpty then ((R.err Err.enodata, ([] : List Octet), ({ s with script := s.script.tail, calls := s.calls + 1 } : Src)))
       else (R.ok (min m s.stream.length), s.stream.take m,
          { s with script := s.script.tail, calls := s.calls + 1, stream := s.stream.drop m })).1 = .ok k →
      ∃ o, (if s.stream.isEmpty then ((R.err Err.enodata, ([] : List Octet), ({ s with script := s.script.tail, calls := s.calls + 1 } : Src)))
       else (R.ok (min m s.stream.length), s.stream.take m,
          { s with script := s.script.tail, calls := s.calls + 1, stream := s.stream.drop m })).2.1 = [o] ∧ k = 1 := by
    intro m hm h
    subst hm
    cases hst : s.stream with
    | nil => simp [hst] at h
    | cons o os => simp [hst] at h ⊢; omega
  cases hh : s.script.head? with
  | none => rw [hh] at hk; exact deliver1 1 rfl (by simpa using hk) |> fun ⟨o, h1, h2⟩ => ⟨o, by simpa [hh] using h1, h2⟩
  | some st =>
    rw [hh] at hk
    have hmem : st ∈ s.script := List.mem_of_mem_head? hh
    obtain ⟨hz1, hz2⟩ := hz st hmem
    cases st with
    | xfer k' =>
      have hk' : min k' 1 = 1 := by
        have : k' ≠ 0 := fun h => hz2 (by rw [h])
        omega
      obtain ⟨o, h1, h2⟩ := deliver1 (min k' 1) hk' (by simpa using hk)
      exact ⟨o, by simpa [hh] using h1, h2⟩
    | zero => exact absurd rfl hz1
    | eintr => simp at hk
    | eagain => simp at hk
    | hard e => simp at hk

theorem snk_call1_nozero (s : Snk) (o : Octet) (hz : NoZero s.script) :
    ∀ k, (s.call [o]).1 = .ok k → k = 1 ∧ (s.call [o]).2.got = s.got ++ [o] := by
  intro k hk
  simp only [Snk.call] at hk ⊢
  cases hh : s.script.head? with
  | none => rw [hh] at hk; simp at hk ⊢; omega
  | some st =>
    rw [hh] at hk
    have hmem : st ∈ s.script := List.mem_of_mem_head? hh
    obtain ⟨hz1, hz2⟩ := hz st hmem
    cases st with
    | xfer k' =>
      have : k' ≠ 0 := fun h => hz2 (by rw [h])
      simp only [List.length_singleton, R.ok.injEq] at hk ⊢
      refine ⟨by omega, ?_⟩
      cases k' with
      | zero => exact absurd rfl this
      | succ n => simp
    | zero => exact absurd rfl hz1
    | eintr => simp at hk
    | eagain => simp at hk
    | hard e => simp at hk

/-- a sink that never answers 0 is asked once -/
theorem putRetry_nozero (fuel : Nat) (s : Snk) (o : Octet) (hz : NoZero s.script) :
    putRetry (fuel + 1) s o = s.call [o] := by
  simp only [putRetry, sink_put_octet]
  split
  · rename_i s' heq
    have := (snk_call1_nozero s o hz 0 (by rw [heq])).1
    omega
  · rfl

/-- one octet from source to sink (drivers never answering 0): success moves exactly one octet;
    on failure at most one octet taken from the source is lost -/
theorem sts_cbc_spec (src : Src) (snk : Snk) (hs : NoZero src.script) (hk : NoZero snk.script) :
    let r := sts_cbc src snk
    (∀ m, r.1 = .ok m → m = 1 ∧ ∃ o, Moved src snk r.2.1 r.2.2 [o] []) ∧
    (∀ e, r.1 = .err e → ∃ lost, lost.length ≤ 1 ∧ Moved src snk r.2.1 r.2.2 [] lost) ∧
    r.1 ≠ .diverge := by
  have hadv := Adv.of_call src 1
  obtain ⟨_, _, _, _, _, herr, hnd⟩ := call_spec src 1
  have hone := src_call1_nozero src hs
  simp only [sts_cbc, source_get_octet, putRetry_nozero _ snk _ hk]
  rcases hc : src.call 1 with ⟨rc, d0, src1⟩
  rw [hc] at hadv herr hnd hone
  simp only at hadv herr hnd hone ⊢
  cases rc with
  | diverge => exact absurd rfl hnd
  | err e =>
    have := (herr e rfl).1
    subst this
    exact ⟨by simp, fun e' _ => ⟨[], by simp, ⟨by simpa using hadv, SnkAdv.refl snk⟩⟩, by simp⟩
  | ok k =>
    obtain ⟨o, hd, hk1⟩ := hone k rfl
    subst hd
    simp only
    obtain ⟨k2, hk2, hsadv, hok2, herr2, hnd2⟩ := snk_once_call snk [o]
    have hone2 := snk_call1_nozero snk o hk
    rcases hc2 : snk.call [o] with ⟨rc2, snk1⟩
    rw [hc2] at hsadv hok2 herr2 hnd2 hone2
    simp only at hsadv hok2 herr2 hnd2 hone2 ⊢
    cases rc2 with
    | diverge => exact absurd rfl hnd2
    | ok m =>
      obtain ⟨hm1, hg⟩ := hone2 m rfl
      refine ⟨fun m' hm' => ⟨by simp only [R.ok.injEq] at hm'; omega, o, ?_⟩, by simp, by simp⟩
      exact ⟨by simpa using hadv, ⟨hg, hsadv.2.1, hsadv.2.2⟩⟩
    | err e =>
      have hk0 := (herr2 e rfl).1
      subst hk0
      refine ⟨by simp, fun e' _ => ⟨[o], by simp, ?_⟩, by simp⟩
      exact ⟨by simpa using hadv, by simpa using hsadv⟩

/-! ### per-octet plumbing for drivers that may answer 0 -/

theorem snk_call_zero_script (s : Snk) (d : List Octet) (hd : d ≠ []) (h : (s.call d).1 = .ok 0) : s.script ≠ [] := by
  intro hs
  simp only [Snk.call, hs, List.head?_nil] at h
  simp only [R.ok.injEq] at h
  exact hd (List.length_eq_zero_iff.mp h)

/-- the sink is asked until it takes the octet or fails: on success exactly that octet has been appended,
    on failure nothing; with more rounds than script steps it does not run out of rounds -/
theorem putRetry_spec : ∀ (fuel : Nat) (s : Snk) (o : Octet),
    (∀ m, (putRetry fuel s o).1 = .ok m → m = 1 ∧ SnkAdv s (putRetry fuel s o).2 [o]) ∧
    (∀ e, (putRetry fuel s o).1 = .err e → SnkAdv s (putRetry fuel s o).2 [] ∧ (isRetry e = false → SnkErrOk s e)) ∧
    (s.script.length < fuel → (putRetry fuel s o).1 ≠ .diverge) := by
  intro fuel
  induction fuel with
  | zero => intro s o; simp [putRetry]
  | succ fuel ih =>
    intro s o
    obtain ⟨k, hk, hadv, hok, herr, hnd⟩ := snk_once_call s [o]
    obtain ⟨hscr, _, _, _, _⟩ := snk_call_spec s [o]
    simp only [putRetry, sink_put_octet]
    rcases hc : s.call [o] with ⟨rc, s1⟩
    rw [hc] at hadv hok herr hnd hscr
    simp only at hadv hok herr hnd hscr
    cases rc with
    | diverge => exact absurd rfl hnd
    | err e =>
      obtain ⟨hk0, hE⟩ := herr e rfl
      subst hk0
      refine ⟨by simp, ?_, by simp⟩
      intro e' he'
      simp only [R.err.injEq] at he'
      subst he'
      exact ⟨by simpa using hadv, hE⟩
    | ok m =>
      have hm := hok m rfl
      subst hm
      cases m with
      | zero =>
        simp only
        obtain ⟨i1, i2, i3⟩ := ih s1 o
        have hne := snk_call_zero_script s [o] (by simp) (by rw [hc])
        have hlen : s1.script.length + 1 = s.script.length := by
          rw [hscr]; cases hs : s.script with
          | nil => exact absurd hs hne
          | cons a b => simp
        have hadv0 : SnkAdv s s1 [] := by simpa using hadv
        refine ⟨?_, ?_, fun hf => i3 (by omega)⟩
        · intro m hm
          obtain ⟨f1, f2⟩ := i1 m hm
          exact ⟨f1, by simpa using SnkAdv.trans hadv0 f2⟩
        · intro e he
          obtain ⟨f1, f2⟩ := i2 e he
          exact ⟨by simpa using SnkAdv.trans hadv0 f1, fun hr => hadv0.2.1.subset (f2 hr)⟩
      | succ m =>
        have hm0 : m = 0 := by simp at hk; omega
        subst hm0
        refine ⟨?_, by simp, by simp⟩
        intro m' hm'
        simp only [R.ok.injEq] at hm'
        exact ⟨hm'.symm, by simpa using hadv⟩


theorem src_call_zero_script (s : Src) (n : Nat) (hn : 0 < n) (h : (s.call n).1 = .ok 0) :
    (s.call n).2.2.script.length < s.script.length := by
  obtain ⟨_, _, hscr, _, _, _, _⟩ := call_spec s n
  rw [hscr]
  cases hs : s.script with
  | nil =>
    exfalso
    simp only [Src.call, hs, List.head?_nil] at h
    by_cases he : s.stream.isEmpty = true
    · simp [he] at h
    · simp only [he, Bool.false_eq_true, ↓reduceIte, R.ok.injEq] at h
      have : s.stream ≠ [] := by simpa [List.isEmpty_iff] using he
      have := List.length_pos_iff.mpr this
      omega
  | cons a b => simp

/-- one octet from source to sink, whatever the drivers answer: success moves exactly one octet, or nothing
    when the source had nothing for the moment (which uses up one step of its script); on failure at most one
    octet taken from the source is lost; it always returns -/
theorem sts_cbc_gen (src : Src) (snk : Snk) :
    let r := sts_cbc src snk
    (∀ m, r.1 = .ok m → (m = 1 ∧ ∃ o, Moved src snk r.2.1 r.2.2 [o] []) ∨
        (m = 0 ∧ Moved src snk r.2.1 r.2.2 [] [] ∧ r.2.1.script.length < src.script.length)) ∧
    (∀ e, r.1 = .err e → ∃ lost, lost.length ≤ 1 ∧ Moved src snk r.2.1 r.2.2 [] lost) ∧
    r.1 ≠ .diverge := by
  have hadv := Adv.of_call src 1
  obtain ⟨_, _, _, _, hok, herr, hnd⟩ := call_spec src 1
  have hz := src_call_zero_script src 1 (by omega)
  simp only [sts_cbc, source_get_octet]
  rcases hc : src.call 1 with ⟨rc, d0, src1⟩
  rw [hc] at hadv herr hnd hok hz
  simp only at hadv herr hnd hok hz ⊢
  cases rc with
  | diverge => exact absurd rfl hnd
  | err e =>
    have := (herr e rfl).1
    subst this
    exact ⟨by simp, fun e' _ => ⟨[], by simp, ⟨by simpa using hadv, SnkAdv.refl snk⟩⟩, by simp⟩
  | ok k =>
    obtain ⟨hk1, hk2⟩ := hok k rfl
    cases d0 with
    | nil =>
      simp only [List.length_nil] at hk1
      subst hk1
      refine ⟨fun m hm => Or.inr ⟨by simpa using hm.symm, ⟨by simpa using hadv, SnkAdv.refl snk⟩, hz rfl⟩, by simp, by simp⟩
    | cons o rest =>
      have hrest : rest = [] := by
        simp only [List.length_cons] at hk1
        have : rest.length = 0 := by omega
        exact List.length_eq_zero_iff.mp this
      subst hrest
      simp only
      obtain ⟨p1, p2, p3⟩ := putRetry_spec (snk.script.length + 1) snk o
      rcases hp : putRetry (snk.script.length + 1) snk o with ⟨rc2, snk1⟩
      rw [hp] at p1 p2 p3
      simp only at p1 p2 p3 ⊢
      cases rc2 with
      | diverge => exact absurd rfl (p3 (by omega))
      | ok m =>
        obtain ⟨hm1, hg⟩ := p1 m rfl
        refine ⟨fun m' hm' => Or.inl ⟨by simp only [R.ok.injEq] at hm'; omega, o, ?_⟩, by simp, by simp⟩
        exact ⟨by simpa using hadv, hg⟩
      | err e =>
        obtain ⟨hg, _⟩ := p2 e rfl
        refine ⟨by simp, fun e' _ => ⟨[o], by simp, ?_⟩, by simp⟩
        exact ⟨by simpa using hadv, hg⟩

end Ufw.Lemmas.Endpoints
