/-
Structural facts of a register table that every checked operation preserves (C05): areas sized and
disjoint, registers linked into their areas, registers ascending.
-/
import Ufw.Props.C01
import Ufw.Props.C02
import Ufw.Lemmas.RegWrite
namespace Ufw.Lemmas.RegTable
open Ufw Ufw.Model.RegTable

/-- registers ascending by address (what `register_init` checks) -/
def Ascending (t : Table) : Prop := t.entries.Pairwise (fun a b => a.address ≤ b.address)

/-- replacing one area by a copy that differs in content only keeps the structural facts -/
theorem structure_set (t : Table) (i : Nat) (a a' : Area) (ha : t.areas[i]? = some a)
    (hm : a' = { a with mem := a'.mem }) (hlen : a'.mem.length = a.mem.length)
    (hs : Shape t) (hl : Linked t) :
    Shape { t with areas := t.areas.set i a' } ∧ Linked { t with areas := t.areas.set i a' } := by
  have hbase : a'.base = a.base := by rw [hm]
  have hsize : a'.size = a.size := by rw [hm]
  have ham : a ∈ t.areas := List.mem_of_getElem? ha
  constructor
  · refine ⟨?_, ?_⟩
    · intro x hx
      rcases List.mem_or_eq_of_mem_set hx with hx | hx
      · exact hs.sized x hx
      · subst hx; rw [hlen, hsize]; exact hs.sized a ham
    · intro p q x y hpq hx hy
      have gx : ∃ x0, t.areas[p]? = some x0 ∧ x.base = x0.base ∧ x.size = x0.size := by
        by_cases hi : i = p
        · subst hi; simp only [set_getElem _ _ _ _ ha] at hx
          exact ⟨a, ha, by simp at hx; rw [← hx, hbase], by simp at hx; rw [← hx, hsize]⟩
        · simp only [set_get_ne _ _ _ _ hi] at hx; exact ⟨x, hx, rfl, rfl⟩
      have gy : ∃ y0, t.areas[q]? = some y0 ∧ y.base = y0.base ∧ y.size = y0.size := by
        by_cases hi : i = q
        · subst hi; simp only [set_getElem _ _ _ _ ha] at hy
          exact ⟨a, ha, by simp at hy; rw [← hy, hbase], by simp at hy; rw [← hy, hsize]⟩
        · simp only [set_get_ne _ _ _ _ hi] at hy; exact ⟨y, hy, rfl, rfl⟩
      obtain ⟨x0, hx0, bx, sx⟩ := gx
      obtain ⟨y0, hy0, by_, sy⟩ := gy
      have := hs.disj p q x0 y0 hpq hx0 hy0
      omega
  · intro k e he
    obtain ⟨b, hb, l1, l2, l3⟩ := hl k e he
    by_cases hi : i = e.area
    · have : b = a := by rw [← hi, ha] at hb; exact (Option.some.inj hb).symm
      subst this
      exact ⟨a', by simp only [← hi]; exact set_getElem _ _ _ _ ha, by rw [hbase]; exact l1, by rw [hbase]; exact l2,
        by rw [hbase, hsize]; exact l3⟩
    · exact ⟨b, by simp only [set_get_ne _ _ _ _ hi]; exact hb, l1, l2, l3⟩

/-- a typed set - accepted or refused - keeps the structural facts -/
theorem set_keeps_structure (cb : Nat → Value → Bool) (t : Table) (idx : Nat) (v : Value) (wv : Bool)
    (hs : Shape t) (hl : Linked t) (hasc : Ascending t) :
    Shape (register_setx cb t idx v wv).2 ∧ Linked (register_setx cb t idx v wv).2 ∧
    Ascending (register_setx cb t idx v wv).2 := by
  rcases hres : register_setx cb t idx v wv with ⟨⟨code, adr⟩, t'⟩
  by_cases hc : code = .success
  · subst hc
    obtain ⟨_, e, a, raw, a', he, _, ha, _, _, hwr, ht'⟩ := Ufw.Props.C01.set_success_inv cb t t' idx v wv adr hres
    obtain ⟨e1, l1, _⟩ := write_cells a a' _ _ hwr
    obtain ⟨s1, s2⟩ := structure_set t e.area a a' ha e1 l1 hs hl
    subst ht'
    exact ⟨s1, s2, hasc⟩
  · have : (register_setx cb t idx v wv).2 = t := Ufw.Props.C01.set_refused_unchanged cb t idx v wv (by rw [hres]; exact hc)
    rw [hres] at this
    simp only at this
    subst this
    exact ⟨hs, hl, hasc⟩

end Ufw.Lemmas.RegTable
