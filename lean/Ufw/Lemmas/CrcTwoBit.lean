/-
Two-bit errors against CRC-16/ARC (C07).  The zero-input register step T is injective and
T^d u ≠ u for 0 < d < 32767 (u = the register right after a single one bit): x has order 32767
modulo x^16 + x^15 + x^2 + 1, established by letting the kernel evaluate 32766 register steps.
Hence two single-bit errors at most 32766 bit positions apart leave a non-zero remainder, for
messages of any length.  Beyond that distance CRC-16/ARC really misses two-bit errors (4 095
octets; the library's default frame block holds 64).
-/
import Std.Tactic.BVDecide
import Ufw.Lemmas.CrcAlgebra
namespace Ufw.Lemmas.CrcTwoBit
open Ufw Ufw.Spec.Crc Ufw.Lemmas.CrcAlgebra

/-- the register step for a zero input bit -/
def T (s : BitVec 16) : BitVec 16 := stepBit s false
def Tn : Nat → BitVec 16 → BitVec 16
  | 0, s => s
  | n + 1, s => Tn n (T s)
/-- the register right after a single one bit entered the zero register -/
def u : BitVec 16 := stepBit 0#16 true

theorem T_inj (a b : BitVec 16) (h : T a = T b) : a = b := by
  simp only [T, stepBit] at h
  bv_decide

theorem Tn_inj : ∀ (n : Nat) (a b : BitVec 16), Tn n a = Tn n b → a = b := by
  intro n
  induction n with
  | zero => intro a b h; exact h
  | succ n ih => intro a b h; exact T_inj a b (ih _ _ h)

theorem Tn_add : ∀ (m n : Nat) (s : BitVec 16), Tn (m + n) s = Tn n (Tn m s) := by
  intro m
  induction m with
  | zero => intro n s; simp [Tn]
  | succ m ih => intro n s; rw [Nat.succ_add]; simp only [Tn]; exact ih n (T s)

def noReturn : Nat → BitVec 16 → Bool
  | 0, _ => true
  | n + 1, s => (T s != u) && noReturn n (T s)

theorem noReturn_spec : ∀ (n : Nat) (s : BitVec 16), noReturn n s = true → ∀ d, 1 ≤ d → d ≤ n → Tn d s ≠ u := by
  intro n
  induction n with
  | zero => intro s _ d h1 h2; omega
  | succ n ih =>
    intro s h d h1 h2
    simp only [noReturn, Bool.and_eq_true, bne_iff_ne, ne_eq] at h
    cases d with
    | zero => omega
    | succ d =>
      simp only [Tn]
      cases d with
      | zero => exact h.1
      | succ d => exact ih (T s) h.2 (d + 1) (by omega) (by omega)

/-- x has order 32767 modulo the polynomial: the zero-input register does not return to `u`
    within 32766 steps (kernel evaluation of 32766 register steps) -/
theorem order_ge : noReturn 32766 u = true := by decide +kernel

theorem order_spec (d : Nat) (h1 : 1 ≤ d) (h2 : d ≤ 32766) : Tn d u ≠ u :=
  noReturn_spec 32766 u order_ge d h1 h2

theorem step8_zero_eq (s : BitVec 16) : step8 s 0#8 = Tn 8 s := by
  simp [step8, Tn, T]

theorem crc_zeros_eq : ∀ (m : Nat) (s : BitVec 16), crc s (List.replicate m 0#8) = Tn (8 * m) s := by
  intro m
  induction m with
  | zero => intro s; simp [crc, Tn]
  | succ m ih =>
    intro s
    simp only [List.replicate_succ, crc, List.foldl_cons]
    have := ih (step8 s 0#8)
    simp only [crc] at this
    rw [this, step8_zero_eq, show 8 * (m + 1) = 8 + 8 * m by omega, Tn_add]

/-- an octet with the single bit i set -/
def bitOctet (i : Fin 8) : Octet := 1#8 <<< i.val

theorem step8_bit : ∀ i : Fin 8, step8 0#16 (bitOctet i) = Tn (7 - i.val) u := by decide

theorem xor_eq_zero (a b : BitVec 16) (h : a ^^^ b = 0#16) : a = b := by bv_decide

/-- the register after a one bit, `mid` zero octets and another one bit is not zero, provided the
    two bits are at most 32766 positions apart -/
theorem two_bits_ne_zero (i j : Fin 8) (mid : Nat) (hd : 8 * (mid + 1) + j.val - i.val ≤ 32766) :
    step8 (crc (step8 0#16 (bitOctet i)) (List.replicate mid 0#8)) (bitOctet j) ≠ 0#16 := by
  intro h0
  have hx := step8_xor (crc (step8 0#16 (bitOctet i)) (List.replicate mid 0#8)) 0#16 0#8 (bitOctet j)
  simp only [BitVec.xor_zero, BitVec.zero_xor] at hx
  rw [hx, step8_zero_eq, crc_zeros_eq, step8_bit, step8_bit] at h0
  have h1 := xor_eq_zero _ _ h0
  rw [← Tn_add, ← Tn_add] at h1
  have hi := i.isLt
  have hj := j.isLt
  have e : 7 - i.val + (8 * mid + 8) = (8 * (mid + 1) + j.val - i.val) + (7 - j.val) := by omega
  rw [e, Tn_add] at h1
  exact order_spec _ (by omega) hd (Tn_inj _ _ _ h1)

/-- two single-bit errors in different octets, at most 32766 bit positions apart -/
inductive TwoBit : List Octet → Prop
  | far (k mid t : Nat) (i j : Fin 8) (hd : 8 * (mid + 1) + j.val - i.val ≤ 32766) :
      TwoBit (List.replicate k 0#8 ++ [bitOctet i] ++ List.replicate mid 0#8 ++ [bitOctet j] ++ List.replicate t 0#8)

theorem crc_two_bit_ne_zero (e : List Octet) (h : TwoBit e) : crc 0#16 e ≠ 0#16 := by
  cases h with
  | far k mid t i j hd =>
    rw [crc_append, crc_append, crc_append, crc_append, crc_zeros]
    exact crc_zeros_ne _ t (by simpa [crc] using two_bits_ne_zero i j mid hd)

theorem twoBit_append_zeros (e : List Octet) (h : TwoBit e) (n : Nat) : TwoBit (e ++ List.replicate n 0#8) := by
  cases h with
  | far k mid t i j hd =>
    have : List.replicate k 0#8 ++ [bitOctet i] ++ List.replicate mid 0#8 ++ [bitOctet j] ++ List.replicate t 0#8 ++
        List.replicate n 0#8 =
        List.replicate k 0#8 ++ [bitOctet i] ++ List.replicate mid 0#8 ++ [bitOctet j] ++ List.replicate (t + n) 0#8 := by
      simp [List.replicate_append_replicate]
    rw [this]; exact .far k mid (t + n) i j hd

/-- two-bit error patterns are detectable in the sense the frame-level theorems need -/
theorem detectable_of_twoBit (e : List Octet) (h : TwoBit e) : Detectable e :=
  fun n => crc_two_bit_ne_zero _ (twoBit_append_zeros e h n)
end Ufw.Lemmas.CrcTwoBit
