/-
The receive path of the register protocol in closed form (C08, C09): what the continuable sink
holds after a frame, what the channel decoders deliver for a framed octet string.
-/
import Ufw.Lemmas.Regp
import Ufw.Props.C14

namespace Ufw.Lemmas.Regp
open Ufw Ufw.Model.Regp
open Ufw.Model.Slip (SrcEv Snk)
open Ufw.Lemmas.Slip (octets)

/-! ### the continuable sink after the octets `p` -/

def csAfter (c : Cfg) (al : Alloc) (p : List Octet) : CS × Alloc :=
  if p = [] then ({}, al)
  else if al.script.head?.getD false then
    ({ fb := p.take RP_HEADER_SIZE, err := some .ebusy, count := p.length }, { al with script := al.script.tail })
  else
    ({ blk := some (p.take (c.B - c.F)),
       err := if p.length > c.B - c.F then some .enomem else none,
       count := if p.length > c.B - c.F then min c.F c.B + p.length else 0 },
     { script := al.script.tail, live := al.live + 1 })

theorem csStep_after (c : Cfg) (al : Alloc) (p : List Octet) (o : Octet) :
    csStep c (csAfter c al p) o = csAfter c al (p ++ [o]) := by
  by_cases hp : p = []
  · subst hp
    simp only [csAfter, ↓reduceIte, csStep, List.nil_append, List.cons_ne_self, List.length_singleton]
    by_cases hf : al.script.head?.getD false = true
    · simp [hf, RP_HEADER_SIZE]
    · by_cases hcap : 0 < c.B - c.F
      · simp only [hf, Bool.false_eq_true, ↓reduceIte, hcap]
        have : ¬ 1 > c.B - c.F := by omega
        simp [this]
        exact (List.take_of_length_le (by simp; omega)).symm
      · have h0 : c.B - c.F = 0 := by omega
        simp [hf, hcap, h0]
  · have hne : p ++ [o] ≠ [] := by simp
    simp only [csAfter, hp, hne, ↓reduceIte]
    by_cases hf : al.script.head?.getD false = true
    · simp only [hf, ↓reduceIte, csStep, List.length_append, List.length_singleton]
      by_cases h16 : p.length < RP_HEADER_SIZE
      · have e1 : p.take RP_HEADER_SIZE = p := List.take_of_length_le (by omega)
        have e2 : (p ++ [o]).take RP_HEADER_SIZE = p ++ [o] := List.take_of_length_le (by simp; omega)
        simp [e1, e2, h16]
      · have e2 : (p ++ [o]).take RP_HEADER_SIZE = p.take RP_HEADER_SIZE :=
          List.take_append_of_le_length (by omega)
        have e3 : ¬ min RP_HEADER_SIZE p.length < RP_HEADER_SIZE := by
          simp only [RP_HEADER_SIZE] at *; omega
        simp [e2, e3]
    · simp only [hf, Bool.false_eq_true, ↓reduceIte, csStep, List.length_append, List.length_singleton]
      by_cases hgt : p.length > c.B - c.F
      · have e2 : (p ++ [o]).take (c.B - c.F) = p.take (c.B - c.F) := List.take_append_of_le_length (by omega)
        have e3 : ¬ min (c.B - c.F) p.length < c.B - c.F := by omega
        have e4 : p.length + 1 > c.B - c.F := by omega
        simp [hgt, e2, e3, e4]
        omega
      · simp only [hgt, ↓reduceIte]
        have e1 : p.take (c.B - c.F) = p := List.take_of_length_le (by omega)
        by_cases hlt : p.length < c.B - c.F
        · have e2 : (p ++ [o]).take (c.B - c.F) = p ++ [o] := List.take_of_length_le (by simp; omega)
          have e4 : ¬ p.length + 1 > c.B - c.F := by omega
          simp [e1, e2, hlt, e4]
        · have e2 : (p ++ [o]).take (c.B - c.F) = p := by
            rw [List.take_append_of_le_length (by omega), e1]
          have e4 : p.length + 1 > c.B - c.F := by omega
          simp [e1, e2, hlt, e4]
          omega

/-- `run_continuable_sink` over a whole frame -/
theorem csRun_eq (c : Cfg) (al : Alloc) (got : List Octet) :
    csRun c al got = csAfter c al got := by
  have key : ∀ (rest p : List Octet), rest.foldl (csStep c) (csAfter c al p) = csAfter c al (p ++ rest) := by
    intro rest
    induction rest with
    | nil => intro p; simp
    | cons o os ih =>
      intro p
      simp only [List.foldl_cons, csStep_after c al p o, ih (p ++ [o])]
      simp
  have := key got []
  simpa [csRun, csAfter] using this

/-! ### what the channel delivers for a framed octet string -/

theorem enc_length_ge (p : List Octet) : p.length ≤ (Ufw.Model.Slip.enc false p).length := by
  have h : p.length ≤ (p.flatMap Ufw.Model.Slip.escape).length := by
    induction p with
    | nil => simp
    | cons o os ih =>
      simp only [List.flatMap_cons, List.length_append, List.length_cons]
      have : 1 ≤ (Ufw.Model.Slip.escape o).length := by
        rcases Ufw.Lemmas.Slip.escape_cases o with ⟨_, e⟩ | ⟨_, e⟩ | ⟨_, _, e⟩ <;> simp [e]
      omega
  simp only [Ufw.Model.Slip.enc, Bool.false_eq_true, ↓reduceIte, List.nil_append, List.length_append,
    List.length_cons, List.length_nil]
  omega

/-- serial link: a SLIP frame (no start delimiter) followed by anything -/
theorem channelRecv_serial (c : Cfg) (hs : c.serial = true) (raw : List Octet) (rest : List SrcEv) :
    channelRecv c (octets (Ufw.Spec.Slip.frame false raw) ++ rest) = (none, raw, rest) := by
  have hroom : raw.length ≤ (octets (Ufw.Model.Slip.enc false raw) ++ rest).length + 1 := by
    have := enc_length_ge raw
    simp only [octets, List.length_append, List.length_map]; omega
  have h := Ufw.Props.C12.decode_encode false raw rest
    { room := (octets (Ufw.Model.Slip.enc false raw) ++ rest).length + 1 } hroom
  simp only [channelRecv, hs, ↓reduceIte, ← Ufw.Props.C12.enc_eq_rfc]
  simp only [Ufw.Props.C12.ready, Ufw.Model.Slip.rfc1055_context_init, Bool.false_eq_true, ↓reduceIte] at h
  rw [h]
  simp

open Ufw.Model.Varint (sourceLoop Dec) in
theorem readVarint_ok (eos : Err) (rest : List SrcEv) : ∀ (l : List Octet) (fuel i acc v k : Nat),
    sourceLoop eos l fuel i acc = .ok v k →
    readVarint fuel i acc (octets l ++ rest) = (.ok v, octets (l.drop (k - i)) ++ rest) ∧ i < k := by
  intro l
  induction l with
  | nil =>
    intro fuel i acc v k h
    cases fuel <;> simp [sourceLoop] at h
  | cons d t ih =>
    intro fuel i acc v k h
    cases fuel with
    | zero => simp [sourceLoop] at h
    | succ fuel =>
      simp only [sourceLoop] at h
      simp only [octets, List.map_cons, List.cons_append, readVarint]
      by_cases hd : Ufw.Model.Varint.varint_done d = true
      · simp only [hd, ↓reduceIte, Dec.ok.injEq] at h
        obtain ⟨h1, h2⟩ := h
        subst h2
        simp only [hd, ↓reduceIte, Ufw.Model.Varint.DMASK, Ufw.Model.Varint.DBITS] at h1 ⊢
        subst h1
        simp [octets]
      · simp only [hd, Bool.false_eq_true, ↓reduceIte] at h
        have := ih fuel (i + 1) _ v k h
        simp only [hd, Bool.false_eq_true, ↓reduceIte, Ufw.Model.Varint.DMASK, Ufw.Model.Varint.DBITS] at this ⊢
        refine ⟨?_, by omega⟩
        rw [show (octets t) = List.map SrcEv.octet t from rfl] at this
        rw [this.1]
        have : k - i = (k - (i + 1)) + 1 := by omega
        rw [this, List.drop_succ_cons]
        rfl

theorem readN_octets (rest : List SrcEv) : ∀ (raw acc : List Octet),
    readN (octets raw ++ rest) raw.length acc = (none, acc ++ raw, rest) := by
  intro raw
  induction raw with
  | nil => intro acc; cases rest <;> simp [octets, readN]
  | cons o os ih =>
    intro acc
    simp only [octets, List.map_cons, List.cons_append, List.length_cons, readN]
    have := ih (acc ++ [o])
    simp only [octets] at this
    rw [this]
    simp

/-- TCP: a varint length prefix, the announced octets, then anything -/
theorem channelRecv_tcp (c : Cfg) (hs : c.serial = false) (raw : List Octet) (rest : List SrcEv)
    (hlen : raw.length < 2 ^ 64) :
    channelRecv c (octets (Ufw.Spec.Regp.leb128 raw.length ++ raw) ++ rest) = (none, raw, rest) := by
  have h1 := Ufw.Props.C14.roundtrip_source_u64 .enodata raw.length hlen raw
  simp only [Ufw.Model.Varint.varint_u64_from_source, Ufw.Model.Varint.varint_from_source] at h1
  have h2 := (readVarint_ok .enodata rest _ _ _ _ _ _ h1).1
  simp only [Nat.sub_zero, List.drop_left] at h2
  simp only [channelRecv, hs, Bool.false_eq_true, ↓reduceIte, ← encode_eq_leb128, h2]
  have := readN_octets rest raw []
  simpa using this

/-! ### `regp_recv` once the channel has delivered the octets `raw` -/

/-- the error a parse outcome leaves in the maybe-frame -/
def errOf : Except Err (Hdr × Nat) → Option Err
  | .ok _ => none
  | .error e => some e

/-- the frame fitted into the block: it is returned, parsed, with the ledger counting it -/
theorem recv_stored (p : Inst) (raw : List Octet) (rest : List SrcEv)
    (hch : channelRecv p.cfg p.src = (none, raw, rest))
    (hne : raw ≠ []) (hal : p.al.script.head?.getD false = false) (hfit : raw.length ≤ p.cfg.B - p.cfg.F) :
    (regp_recv p).2.1 = { err := errOf (parse_frame raw).1, framesize := 0,
                          frame := some { raw := raw, hdr := (parse_frame raw).2 } } ∧
    (regp_recv p).2.2.src = rest ∧
    (regp_recv p).2.2.al = { script := p.al.script.tail, live := p.al.live + 1 } ∧
    (regp_recv p).2.2.cfg = p.cfg ∧ (regp_recv p).2.2.seq = p.seq ∧
    ((regp_recv p).1, (regp_recv p).2.2.snk) =
      (match (parse_frame raw).1 with
       | .ok _ => (none, p.snk)
       | .error e =>
         if e = .ebadmsg then ((regp_resp_meta p.cfg p.snk 1).rc, (regp_resp_meta p.cfg p.snk 1).snk)
         else if e = .eilseq then ((regp_resp_meta p.cfg p.snk 2).rc, (regp_resp_meta p.cfg p.snk 2).snk)
         else (none, p.snk)) := by
  have hgt : ¬ raw.length > p.cfg.B - p.cfg.F := by omega
  have htk : raw.take (p.cfg.B - p.cfg.F) = raw := List.take_of_length_le hfit
  simp only [regp_recv, hch, csRun_eq p.cfg p.al raw, csAfter, hne, hal, Bool.false_eq_true, ↓reduceIte, hgt, htk]
  rcases hpf : parse_frame raw with ⟨r, h⟩
  cases r with
  | ok v => simp [errOf]
  | error e =>
    by_cases h1 : e = .ebadmsg
    · simp [errOf, h1]
    · by_cases h2 : e = .eilseq
      · simp [errOf, h2]
      · simp [errOf, h1, h2]

/-- no block could be obtained: nothing is held, the reply is built from the first sixteen octets -/
theorem recv_busy (p : Inst) (raw : List Octet) (rest : List SrcEv)
    (hch : channelRecv p.cfg p.src = (none, raw, rest))
    (hne : raw ≠ []) (hal : p.al.script.head?.getD false = true) :
    (regp_recv p).2.1 = { err := some .ebusy, framesize := raw.length, frame := none } ∧
    (regp_recv p).2.2.src = rest ∧
    (regp_recv p).2.2.al = { script := p.al.script.tail, live := p.al.live } ∧
    ((regp_recv p).1, (regp_recv p).2.2.snk) =
      ((send_early_response p.cfg p.snk (raw.take RP_HEADER_SIZE) 6).rc,
       (send_early_response p.cfg p.snk (raw.take RP_HEADER_SIZE) 6).snk) := by
  simp [regp_recv, hch, csRun_eq p.cfg p.al raw, csAfter, hne, hal]

/-- the frame did not fit: the block is returned unparsed, the reply is built from what it holds -/
theorem recv_overflow (p : Inst) (raw : List Octet) (rest : List SrcEv)
    (hch : channelRecv p.cfg p.src = (none, raw, rest))
    (hal : p.al.script.head?.getD false = false) (hbig : raw.length > p.cfg.B - p.cfg.F) :
    (regp_recv p).2.1 = { err := some .enomem, framesize := min p.cfg.F p.cfg.B + raw.length,
                          frame := some { raw := raw.take (p.cfg.B - p.cfg.F) } } ∧
    (regp_recv p).2.2.src = rest ∧
    (regp_recv p).2.2.al = { script := p.al.script.tail, live := p.al.live + 1 } ∧
    ((regp_recv p).1, (regp_recv p).2.2.snk) =
      ((send_early_response p.cfg p.snk ((raw.take (p.cfg.B - p.cfg.F)).take RP_HEADER_SIZE) 4).rc,
       (send_early_response p.cfg p.snk ((raw.take (p.cfg.B - p.cfg.F)).take RP_HEADER_SIZE) 4).snk) := by
  have hne : raw ≠ [] := by intro h; rw [h] at hbig; simp at hbig
  simp [regp_recv, hch, csRun_eq p.cfg p.al raw, csAfter, hne, hal, hbig]

/-- an empty frame: no allocation, bad header encoding -/
theorem recv_empty (p : Inst) (rest : List SrcEv)
    (hch : channelRecv p.cfg p.src = (none, [], rest)) :
    (regp_recv p).2.1 = { err := some .ebadmsg, framesize := 0, frame := none } ∧
    (regp_recv p).2.2.src = rest ∧ (regp_recv p).2.2.al = p.al ∧
    ((regp_recv p).1, (regp_recv p).2.2.snk) =
      ((regp_resp_meta p.cfg p.snk 1).rc, (regp_resp_meta p.cfg p.snk 1).snk) := by
  simp [regp_recv, hch, csRun]

/-- a channel error: nothing is returned and the ledger is where it was -/
theorem recv_chan_error (p : Inst) (e : Err) (got : List Octet) (rest : List SrcEv)
    (hch : channelRecv p.cfg p.src = (some e, got, rest)) :
    (regp_recv p).1 = some e ∧ (regp_recv p).2.1 = {} ∧ (regp_recv p).2.2.al.live = p.al.live ∧
    (regp_recv p).2.2.snk = p.snk ∧ (regp_recv p).2.2.src = rest := by
  simp only [regp_recv, hch, csRun_eq p.cfg p.al got, csAfter]
  by_cases hg : got = []
  · simp [hg]
  · by_cases hal : p.al.script.head?.getD false = true <;> simp [hg, hal]

end Ufw.Lemmas.Regp
