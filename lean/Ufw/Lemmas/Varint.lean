/-
Helper lemmas for C14 (varint).
-/
import Ufw.Model.Varint
import Ufw.Spec.Leb128

namespace Ufw.Lemmas.Varint
open Ufw Ufw.Model.Varint Ufw.Spec.Leb128

theorem done_iff : ∀ d : BitVec 8, varint_done d = decide (d.toNat < 128) := by decide
theorem mask_eq : ∀ d : BitVec 8, d.toNat &&& DMASK = d.toNat % 128 := by decide

theorem or_shift (acc d i : Nat) (ha : acc < 2 ^ i) : acc ||| (d <<< i) = acc + d * 2 ^ i := by
  rw [Nat.or_comm, ← Nat.shiftLeft_add_eq_or_of_lt ha, Nat.shiftLeft_eq]; omega

theorem encode_small (n : Nat) (h : n < 128) : encode n = [BitVec.ofNat 8 n] := by
  rw [encode]; have : n / 128 = 0 := by omega
  simp [this, Nat.mod_eq_of_lt h]

theorem encode_big (n : Nat) (h : 128 ≤ n) :
    encode n = BitVec.ofNat 8 (n % 128 + 128) :: encode (n / 128) := by
  rw [encode]; have : ¬ (n / 128 = 0) := by omega
  simp [this]

theorem decodeLoop_hit (pre tail : List Octet) (o : Octet) (off fuel i acc : Nat)
    (hp : pre.length = off + i) :
    decodeLoop (pre ++ o :: tail) off (fuel + 1) i acc =
      if o.toNat < 128 then .ok (acc ||| ((o.toNat % 128) <<< (i * 7)) % 2 ^ 64) (i + 1)
      else decodeLoop (pre ++ o :: tail) off fuel (i + 1) (acc ||| ((o.toNat % 128) <<< (i * 7)) % 2 ^ 64) := by
  have hlen : ¬ (off + i ≥ (pre ++ o :: tail).length) := by simp; omega
  have hget : (pre ++ o :: tail)[off + i]? = some o := by
    rw [List.getElem?_append_right (by omega)]; simp [hp]
  simp only [decodeLoop, hlen, ↓reduceIte, hget, done_iff, mask_eq, DBITS, decide_eq_true_eq]

theorem decodeLoop_encode (n : Nat) : ∀ (pre rest : List Octet) (off fuel i acc : Nat),
    pre.length = off + i → (encode n).length ≤ fuel → acc < 2 ^ (i * 7) → n * 2 ^ (i * 7) < 2 ^ 64 →
    decodeLoop (pre ++ (encode n ++ rest)) off fuel i acc
      = .ok (acc + n * 2 ^ (i * 7)) (i + (encode n).length) := by
  induction n using Nat.strongRecOn with
  | _ n ih =>
    intro pre rest off fuel i acc hp hf ha hn
    by_cases h : n < 128
    · rw [encode_small n h] at hf ⊢
      obtain ⟨f, rfl⟩ : ∃ f, fuel = f + 1 := ⟨fuel - 1, by simp at hf; omega⟩
      simp only [List.singleton_append]
      rw [decodeLoop_hit pre rest _ off f i acc hp]
      have h1 : (BitVec.ofNat 8 n).toNat = n := by simp; omega
      simp only [h1, h, ↓reduceIte, Nat.mod_eq_of_lt h, List.length_singleton]
      rw [Nat.shiftLeft_eq, Nat.mod_eq_of_lt hn, ← Nat.shiftLeft_eq, or_shift acc n _ ha, Nat.shiftLeft_eq]
    · have hb : 128 ≤ n := by omega
      rw [encode_big n hb] at hf ⊢
      obtain ⟨f, rfl⟩ : ∃ f, fuel = f + 1 := ⟨fuel - 1, by simp at hf; omega⟩
      simp only [List.cons_append]
      rw [decodeLoop_hit pre _ _ off f i acc hp]
      have h1 : (BitVec.ofNat 8 (n % 128 + 128)).toNat = n % 128 + 128 := by simp; omega
      have h2 : ¬ (n % 128 + 128 < 128) := by omega
      have h3 : (n % 128 + 128) % 128 = n % 128 := by omega
      simp only [h1, h2, ↓reduceIte, h3]
      have hpow : 2 ^ ((i + 1) * 7) = 128 * 2 ^ (i * 7) := by
        rw [Nat.add_mul, Nat.pow_add]; simp; omega
      have hlt : n % 128 * 2 ^ (i * 7) < 2 ^ 64 := by
        calc n % 128 * 2 ^ (i * 7) ≤ n * 2 ^ (i * 7) := Nat.mul_le_mul_right _ (Nat.mod_le _ _)
          _ < 2 ^ 64 := hn
      rw [Nat.shiftLeft_eq, Nat.mod_eq_of_lt hlt, ← Nat.shiftLeft_eq, or_shift acc _ _ ha]
      have := ih (n / 128) (by omega) (pre ++ [BitVec.ofNat 8 (n % 128 + 128)]) rest off f (i + 1)
        (acc + n % 128 * 2 ^ (i * 7)) (by simp; omega) (by simp at hf; omega)
        (by rw [hpow]
            have : n % 128 * 2 ^ (i * 7) ≤ 127 * 2 ^ (i * 7) := Nat.mul_le_mul_right _ (by omega)
            omega)
        (by rw [hpow]
            have : n / 128 * (128 * 2 ^ (i * 7)) = (128 * (n / 128)) * 2 ^ (i * 7) := by
              rw [← Nat.mul_assoc, Nat.mul_comm (n / 128) 128]
            rw [this]
            calc 128 * (n / 128) * 2 ^ (i * 7) ≤ n * 2 ^ (i * 7) :=
                  Nat.mul_le_mul_right _ (Nat.mul_div_le n 128)
              _ < 2 ^ 64 := hn)
      simp only [List.append_assoc, List.singleton_append] at this
      rw [this, hpow]
      congr 1
      · have e : n / 128 * (128 * 2 ^ (i * 7)) = (128 * (n / 128)) * 2 ^ (i * 7) := by
          rw [← Nat.mul_assoc, Nat.mul_comm (n / 128) 128]
        rw [e, Nat.add_assoc, ← Nat.add_mul]
        congr 2; omega
      · simp; omega

theorem sourceLoop_cons (eos : Err) (d : Octet) (rest : List Octet) (fuel i acc : Nat) :
    sourceLoop eos (d :: rest) (fuel + 1) i acc =
      if d.toNat < 128 then .ok (acc ||| ((d.toNat % 128) <<< (i * 7)) % 2 ^ 64) (i + 1)
      else sourceLoop eos rest fuel (i + 1) (acc ||| ((d.toNat % 128) <<< (i * 7)) % 2 ^ 64) := by
  simp only [sourceLoop, done_iff, mask_eq, DBITS, decide_eq_true_eq]

/-- the buffer decoder on memory `pre ++ input`, reading at `|pre|`, computes exactly
    what the source decoder computes on a source delivering `input` and then ENODATA -/
theorem decode_eq_source (input : List Octet) : ∀ (pre : List Octet) (off fuel i acc : Nat),
    pre.length = off + i →
    decodeLoop (pre ++ input) off fuel i acc = sourceLoop .enodata input fuel i acc := by
  induction input with
  | nil =>
    intro pre off fuel i acc hp
    cases fuel with
    | zero => simp [decodeLoop, sourceLoop]
    | succ f => simp [decodeLoop, sourceLoop, hp]
  | cons d rest ih =>
    intro pre off fuel i acc hp
    cases fuel with
    | zero => simp [decodeLoop, sourceLoop]
    | succ f =>
      rw [decodeLoop_hit pre rest d off f i acc hp, sourceLoop_cons]
      split
      · rfl
      · have := ih (pre ++ [d]) off f (i + 1) (acc ||| ((d.toNat % 128) <<< (i * 7)) % 2 ^ 64)
          (by simp; omega)
        simp only [List.append_assoc, List.singleton_append] at this
        exact this

theorem sourceLoop_ok_eos (e1 e2 : Err) (input : List Octet) : ∀ (fuel i acc v c : Nat),
    sourceLoop e1 input fuel i acc = .ok v c → sourceLoop e2 input fuel i acc = .ok v c := by
  induction input with
  | nil => intro fuel i acc v c h; cases fuel <;> simp [sourceLoop] at h
  | cons d rest ih =>
    intro fuel i acc v c h
    cases fuel with
    | zero => simp [sourceLoop] at h
    | succ f =>
      rw [sourceLoop_cons] at h ⊢
      split
      · next hd => simpa [hd] using h
      · next hd => simp only [hd, ↓reduceIte] at h; exact ih _ _ _ _ _ h

theorem sourceLoop_err_eos (e1 e2 : Err) (input : List Octet) : ∀ (fuel i acc : Nat) (x : Err),
    sourceLoop e1 input fuel i acc = .err x → ∃ y, sourceLoop e2 input fuel i acc = .err y := by
  induction input with
  | nil => intro fuel i acc x h; cases fuel <;> simp [sourceLoop]
  | cons d rest ih =>
    intro fuel i acc x h
    cases fuel with
    | zero => simp [sourceLoop]
    | succ f =>
      rw [sourceLoop_cons] at h ⊢
      split
      · next hd => simp [hd] at h
      · next hd => simp only [hd, ↓reduceIte] at h; exact ih _ _ _ _ h

theorem sourceLoop_ne_oob (e : Err) (input : List Octet) : ∀ (fuel i acc : Nat),
    sourceLoop e input fuel i acc ≠ .oob := by
  induction input with
  | nil => intro fuel i acc; cases fuel <;> simp [sourceLoop]
  | cons d rest ih =>
    intro fuel i acc
    cases fuel with
    | zero => simp [sourceLoop]
    | succ f => rw [sourceLoop_cons]; split; simp; exact ih _ _ _

/-- all octets carry the continuation bit: the decoder runs out of input or of fuel -/
theorem sourceLoop_all_cont (e : Err) (input : List Octet) (hall : ∀ o ∈ input, o.toNat ≥ 128) :
    ∀ (fuel i acc : Nat),
    sourceLoop e input fuel i acc = if fuel ≤ input.length then .err .eilseq else .err e := by
  induction input with
  | nil => intro fuel i acc; cases fuel <;> simp [sourceLoop]
  | cons d rest ih =>
    intro fuel i acc
    cases fuel with
    | zero => simp [sourceLoop]
    | succ f =>
      have hd : ¬ d.toNat < 128 := by have := hall d (by simp); omega
      rw [sourceLoop_cons]
      simp only [hd, ↓reduceIte]
      rw [ih (fun o ho => hall o (by simp [ho]))]
      simp

theorem encode_value (n : Nat) : valueOf (encode n) = n := by
  induction n using Nat.strongRecOn with
  | _ n ih =>
    by_cases h : n < 128
    · rw [encode_small n h]; simp [valueOf]; omega
    · rw [encode_big n (by omega)]
      simp only [valueOf]
      rw [ih (n / 128) (by omega)]
      simp; omega

theorem encode_canonical (n : Nat) : Canonical (encode n) := by
  induction n using Nat.strongRecOn with
  | _ n ih =>
    by_cases h : n < 128
    · rw [encode_small n h]
      exact ⟨[], BitVec.ofNat 8 n, rfl, by simp, by simp; omega, by simp⟩
    · rw [encode_big n (by omega)]
      obtain ⟨init, last, he, h1, h2, h3⟩ := ih (n / 128) (by omega)
      refine ⟨BitVec.ofNat 8 (n % 128 + 128) :: init, last, by rw [he]; rfl, ?_, h2, ?_⟩
      · intro o ho
        simp only [List.mem_cons] at ho
        rcases ho with rfl | ho
        · simp; omega
        · exact h1 o ho
      · intro _
        by_cases hi : init = []
        · subst hi
          simp only [List.nil_append] at he
          intro hl; subst hl
          have := encode_value (n / 128)
          rw [he] at this
          simp [valueOf] at this
          omega
        · exact h3 hi

theorem encode_length (n : Nat) : (encode n).length = varint_u64_length n := by
  induction n using Nat.strongRecOn with
  | _ n ih =>
    by_cases h : n < 128
    · rw [encode_small n h, varint_u64_length]; have : n / 128 = 0 := by omega
      simp [this]
    · rw [encode_big n (by omega), varint_u64_length]; have : ¬ (n / 128 = 0) := by omega
      simp [this, ih (n / 128) (by omega)]; omega

theorem encode_length_le (k : Nat) : ∀ n, n < 128 ^ k → 0 < k → (encode n).length ≤ k := by
  induction k with
  | zero => intro n _ h; omega
  | succ k ih =>
    intro n hn _
    by_cases h : n < 128
    · rw [encode_small n h]; simp
    · rw [encode_big n (by omega)]
      have hk : 0 < k := by
        rcases k with _ | k
        · simp at hn; omega
        · omega
      have : n / 128 < 128 ^ k := by
        rw [Nat.pow_succ] at hn
        exact Nat.div_lt_of_lt_mul (by rw [Nat.mul_comm]; exact hn)
      have := ih (n / 128) this hk
      simp; omega

end Ufw.Lemmas.Varint
