/-
Helper lemmas for the register-table theorems (C01-C05): atoms and octets, serialiser round
trip, area storage, list updates.
-/
import Ufw.Model.RegTable
import Ufw.Lemmas.EndianSpec

namespace Ufw.Lemmas.RegTable
open Ufw Ufw.Model.RegTable

/-! ### atoms and octets -/

theorem atomsOfOctets_length : ∀ (l : List Octet), (atomsOfOctets l).length = l.length / 2
  | [] => rfl
  | [_] => by simp [atomsOfOctets]
  | a :: b :: rest => by
    simp only [atomsOfOctets, List.length_cons, atomsOfOctets_length rest]
    omega

theorem octets_atoms : ∀ (l : List Octet), l.length % 2 = 0 → octetsOfAtoms (atomsOfOctets l) = l
  | [], _ => rfl
  | [_], h => by simp at h
  | a :: b :: rest, h => by
    have hr : rest.length % 2 = 0 := by simp only [List.length_cons] at h; omega
    simp only [atomsOfOctets, octetsOfAtoms, octets_atoms rest hr]
    have ha : a.toNat < 256 := a.isLt
    have hb : b.toNat < 256 := b.isLt
    have h1 : (a.toNat + 256 * b.toNat) % 256 = a.toNat := by omega
    have h2 : (a.toNat + 256 * b.toNat) / 256 = b.toNat := by omega
    rw [h1, h2]
    simp

theorem atoms_lt : ∀ (l : List Octet), ∀ x ∈ atomsOfOctets l, x < 65536
  | [], x, h => by simp [atomsOfOctets] at h
  | [_], x, h => by simp [atomsOfOctets] at h
  | a :: b :: rest, x, h => by
    simp only [atomsOfOctets, List.mem_cons] at h
    rcases h with h | h
    · have ha : a.toNat < 256 := a.isLt
      have hb : b.toNat < 256 := b.isLt
      subst h
      show a.toNat + 256 * b.toNat < 65536
      omega
    · exact atoms_lt rest x h

/-! ### serialiser round trip -/

theorem ser_length (be : Bool) (t : RType) (bits : Nat) (raw : List Atom) (h : ser be t bits = some raw) :
    raw.length = t.size := by
  simp only [ser] at h
  split at h
  · simp only [Option.some.injEq] at h
    rw [← h, atomsOfOctets_length, Ufw.Lemmas.EndianSpec.store_length]
    omega
  · simp at h

theorem ser_floatOk (be : Bool) (t : RType) (bits : Nat) (raw : List Atom) (h : ser be t bits = some raw) :
    floatOk t bits = true := by
  simp only [ser] at h
  split at h
  · assumption
  · simp at h

theorem pow_bits (t : RType) : 256 ^ (2 * t.size) = 2 ^ t.bits := by
  cases t <;> simp [RType.size, RType.bits]

/-- what was serialised deserialises to the same pattern -/
theorem des_ser (be : Bool) (t : RType) (bits : Nat) (raw : List Atom) (h : ser be t bits = some raw)
    (hb : bits < 2 ^ t.bits) : des be t raw = (⟨t, bits⟩, true) := by
  have hl := ser_length be t bits raw h
  have hf := ser_floatOk be t bits raw h
  simp only [ser, hf, ↓reduceIte, Option.some.injEq] at h
  simp only [des]
  have htk : raw.take t.size = raw := List.take_of_length_le (by omega)
  rw [htk, ← h, octets_atoms _ (by rw [Ufw.Lemmas.EndianSpec.store_length]; omega),
    Ufw.Lemmas.EndianSpec.load_store, pow_bits, Nat.mod_eq_of_lt hb, hf]

theorem valueLE_lt : ∀ (l : List Octet), Ufw.Spec.Endian.valueLE l < 256 ^ l.length
  | [] => by simp [Ufw.Spec.Endian.valueLE]
  | o :: os => by
    have ih := valueLE_lt os
    have ho : o.toNat < 256 := o.isLt
    simp only [Ufw.Spec.Endian.valueLE, List.length_cons, Nat.pow_succ]
    omega

theorem loadU_lt (be : Bool) (l : List Octet) : Ufw.Spec.Endian.loadU be l < 256 ^ l.length := by
  simp only [Ufw.Spec.Endian.loadU]
  cases be
  · simpa using valueLE_lt l
  · simpa using valueLE_lt l.reverse

theorem octetsOfAtoms_length : ∀ (l : List Atom), (octetsOfAtoms l).length = 2 * l.length
  | [] => rfl
  | a :: rest => by simp only [octetsOfAtoms, List.length_cons, octetsOfAtoms_length rest]; omega

/-- a deserialised pattern fits the register's width (given enough atoms) -/
theorem des_bits_lt (be : Bool) (t : RType) (raw : List Atom) (hl : t.size ≤ raw.length) :
    (des be t raw).1.bits < 2 ^ t.bits ∧ (des be t raw).1.type = t := by
  simp only [des]
  refine ⟨?_, trivial⟩
  have := loadU_lt be (octetsOfAtoms (raw.take t.size))
  rw [octetsOfAtoms_length, List.length_take, Nat.min_eq_left hl, pow_bits] at this
  exact this

/-! ### area storage -/

theorem write_read (a a' : Area) (off : Nat) (d : List Atom) (h : a.write off d = some a') :
    a'.read off d.length = some d := by
  simp only [Area.write] at h
  split at h
  · rename_i hle
    simp only [Option.some.injEq] at h
    subst h
    simp only [Area.read]
    have hlen : (a.mem.take off ++ (d ++ a.mem.drop (off + d.length))).length = a.mem.length := by
      simp only [List.length_append, List.length_take, List.length_drop]; omega
    rw [if_pos (by rw [hlen]; exact hle)]
    have htl : (a.mem.take off).length = off := by simp only [List.length_take]; omega
    rw [List.drop_left' htl, List.take_left' rfl]
  · simp at h

theorem write_frame (a a' : Area) (off : Nat) (d : List Atom) (h : a.write off d = some a') :
    a'.mem.length = a.mem.length ∧ a'.mem.take off = a.mem.take off ∧
    a'.mem.drop (off + d.length) = a.mem.drop (off + d.length) ∧
    a'.base = a.base ∧ a'.size = a.size ∧ a'.hasRead = a.hasRead ∧ a'.hasWrite = a.hasWrite ∧
    a'.readable = a.readable ∧ a'.writeable = a.writeable := by
  simp only [Area.write] at h
  split at h
  · rename_i hle
    simp only [Option.some.injEq] at h
    subst h
    have htl : (a.mem.take off).length = off := by simp only [List.length_take]; omega
    refine ⟨?_, ?_, ?_, rfl, rfl, rfl, rfl, rfl, rfl⟩
    · simp only [List.length_append, List.length_take, List.length_drop]; omega
    · exact List.take_left' htl
    · have : (a.mem.take off ++ (d ++ a.mem.drop (off + d.length))) =
          (a.mem.take off ++ d) ++ a.mem.drop (off + d.length) := by simp
      rw [this]
      exact List.drop_left' (by simp [htl])
  · simp at h

theorem set_getElem (l : List Area) (i : Nat) (a x : Area) (h : l[i]? = some a) : (l.set i x)[i]? = some x := by
  have hi : i < l.length := by
    rcases Nat.lt_or_ge i l.length with h' | h'
    · exact h'
    · rw [List.getElem?_eq_none h'] at h; simp at h
  simp [List.getElem?_set, hi]

/-- a read of a range that does not meet the written one sees what it saw before -/
theorem read_write_disjoint (a a' : Area) (off : Nat) (d : List Atom) (h : a.write off d = some a')
    (off' n : Nat) (hd : off' + n ≤ off ∨ off + d.length ≤ off') : a'.read off' n = a.read off' n := by
  obtain ⟨f1, f2, f3, _⟩ := write_frame a a' off d h
  simp only [Area.read, f1]
  split
  · rename_i hle
    congr 1
    rcases hd with hd | hd
    · -- in front of the written range
      have e1 : (a'.mem.drop off').take n = ((a'.mem.take off).drop off').take n := by
        rw [List.drop_take, List.take_take]; congr 1; omega
      have e2 : (a.mem.drop off').take n = ((a.mem.take off).drop off').take n := by
        rw [List.drop_take, List.take_take]; congr 1; omega
      rw [e1, e2, f2]
    · -- behind it
      have e1 : a'.mem.drop off' = (a'.mem.drop (off + d.length)).drop (off' - (off + d.length)) := by
        rw [List.drop_drop]; congr 1; omega
      have e2 : a.mem.drop off' = (a.mem.drop (off + d.length)).drop (off' - (off + d.length)) := by
        rw [List.drop_drop]; congr 1; omega
      rw [e1, e2, f3]
  · rfl

end Ufw.Lemmas.RegTable
