/-
The flat address-space view of a register table (C02, C03): which area an address belongs to,
what is stored at an address, and the block loops of the model in terms of that view.
-/
import Ufw.Lemmas.RegTable

namespace Ufw.Lemmas.RegTable
open Ufw Ufw.Model.RegTable

/-- the area an address is mapped to -/
def areaOf (t : Table) (addr : Nat) : Option Area := t.areas.find? fun a => ra_addr_is_part_of a addr

/-- the atom a block read returns for an address: the stored word, zero in an area that cannot be read -/
def cell (t : Table) (addr : Nat) : Option Atom :=
  (areaOf t addr).map fun a => if a.hasRead && a.readable then a.mem.getD (addr - a.base) 0 else 0

/-- every area has storage for exactly its size, and an address belongs to at most one area
    (what `register_init` checks: ascending, non-overlapping areas) -/
structure WfAreas (t : Table) : Prop where
  sized  : ∀ a ∈ t.areas, a.mem.length = a.size
  unique : ∀ a ∈ t.areas, ∀ x, ra_addr_is_part_of a x = true → areaOf t x = some a

theorem find_area (t : Table) (addr : Nat) : t.areas[ra_find_area_by_addr t addr]? = areaOf t addr := by
  simp only [ra_find_area_by_addr, areaOf]
  generalize t.areas = l
  induction l with
  | nil => simp
  | cons a rest ih =>
    simp only [List.findIdx?_cons, List.find?_cons]
    by_cases h : ra_addr_is_part_of a addr = true
    · simp [h]
    · simp only [h, Bool.false_eq_true, ↓reduceIte]
      cases hf : List.findIdx? (fun a => ra_addr_is_part_of a addr) rest with
      | none =>
        simp only [hf, Option.map_none, Option.getD_none] at ih ⊢
        simp only [List.length_cons, List.getElem?_cons_succ]
        exact ih
      | some i =>
        simp only [hf, Option.map_some, Option.getD_some] at ih ⊢
        simp only [List.getElem?_cons_succ]
        exact ih

theorem areaOf_mem (t : Table) (addr : Nat) (a : Area) (h : areaOf t addr = some a) :
    a ∈ t.areas ∧ ra_addr_is_part_of a addr = true := by
  simp only [areaOf] at h
  exact ⟨List.mem_of_find?_eq_some h, by simpa using List.find?_some h⟩

/-- first unmapped address among `rest` addresses from `addr` on -/
def firstHole (t : Table) : (addr rest : Nat) → Option Nat
  | _, 0 => none
  | addr, rest + 1 => if (areaOf t addr).isNone then some addr else firstHole t (addr + 1) rest

/-- the atoms of `n` consecutive addresses (0 for an unmapped one) -/
def cellsFrom (t : Table) : (addr n : Nat) → List Atom
  | _, 0 => []
  | addr, n + 1 => (cell t addr).getD 0 :: cellsFrom t (addr + 1) n

/-- inside one area the next `used` addresses are mapped -/
theorem firstHole_skip (t : Table) (wf : WfAreas t) (a : Area) (ha : a ∈ t.areas) :
    ∀ (used addr rest : Nat), a.base ≤ addr → addr + used ≤ a.base + a.size → used ≤ rest →
      firstHole t addr rest = firstHole t (addr + used) (rest - used) := by
  intro used
  induction used with
  | zero => intro addr rest _ _ _; simp
  | succ u ih =>
    intro addr rest h1 h2 h3
    obtain ⟨r, rfl⟩ : ∃ r, rest = r + 1 := ⟨rest - 1, by omega⟩
    have hin : ra_addr_is_part_of a addr = true := by simp [ra_addr_is_part_of]; omega
    have := wf.unique a ha addr hin
    simp only [firstHole, this, Option.isNone_some, Bool.false_eq_true, ↓reduceIte]
    rw [ih (addr + 1) r (by omega) (by omega) (by omega)]
    congr 1 <;> omega

theorem touchesHole_eq (t : Table) (wf : WfAreas t) : ∀ (fuel addr rest : Nat), rest ≤ fuel →
    touchesHole t fuel addr rest = firstHole t addr rest := by
  intro fuel
  induction fuel with
  | zero =>
    intro addr rest h
    have : rest = 0 := by omega
    subst this; simp [touchesHole, firstHole]
  | succ f ih =>
    intro addr rest h
    cases rest with
    | zero => simp [touchesHole, firstHole]
    | succ r =>
      simp only [touchesHole, find_area]
      cases hao : areaOf t addr with
      | none => simp [firstHole, hao]
      | some a =>
        simp only
        obtain ⟨ham, hin⟩ := areaOf_mem t addr a hao
        have hin' : a.base ≤ addr ∧ addr < a.base + a.size := by simpa [ra_addr_is_part_of] using hin
        have hu : ¬ min (a.base + a.size - addr) (r + 1) = 0 := by omega
        simp only [hu, ↓reduceIte]
        rw [ih _ _ (by omega)]
        exact (firstHole_skip t wf a ham _ addr (r + 1) hin'.1 (by omega) (by omega)).symm

theorem cellsFrom_append (t : Table) : ∀ (u addr r : Nat),
    cellsFrom t addr (u + r) = cellsFrom t addr u ++ cellsFrom t (addr + u) r := by
  intro u
  induction u with
  | zero => intro addr r; simp [cellsFrom]
  | succ u ih =>
    intro addr r
    have : u + 1 + r = (u + r) + 1 := by omega
    rw [this]
    have e : addr + 1 + u = addr + (u + 1) := by omega
    simp only [cellsFrom, ih (addr + 1) r, List.cons_append, e]

theorem cellsFrom_length (t : Table) : ∀ (n addr : Nat), (cellsFrom t addr n).length = n := by
  intro n
  induction n with
  | zero => intro addr; rfl
  | succ n ih => intro addr; simp [cellsFrom, ih]

/-- what one round of the block-read loop fetches from an area are the cells of those addresses -/
theorem chunk_read (t : Table) (wf : WfAreas t) (a : Area) (ha : a ∈ t.areas) :
    ∀ (used addr : Nat), a.base ≤ addr → addr + used ≤ a.base + a.size →
      (if a.hasRead && a.readable then a.read (addr - a.base) used else some (List.replicate used 0)) =
        some (cellsFrom t addr used) := by
  have hsz := wf.sized a ha
  intro used
  induction used with
  | zero =>
    intro addr h1 h2
    by_cases hr : (a.hasRead && a.readable) = true
    · simp only [hr, ↓reduceIte, Area.read, cellsFrom]
      rw [if_pos (by omega)]; simp
    · simp [hr, cellsFrom]
  | succ u ih =>
    intro addr h1 h2
    have hin : ra_addr_is_part_of a addr = true := by simp [ra_addr_is_part_of]; omega
    have hao := wf.unique a ha addr hin
    have := ih (addr + 1) (by omega) (by omega)
    by_cases hr : (a.hasRead && a.readable) = true
    · simp only [hr, ↓reduceIte, Area.read] at this ⊢
      rw [if_pos (by omega)] at this
      rw [if_pos (by omega)]
      simp only [Option.some.injEq] at this ⊢
      simp only [cellsFrom, cell, hao, Option.map_some, hr, ↓reduceIte, Option.getD_some]
      have hlt : addr - a.base < a.mem.length := by omega
      rw [List.drop_eq_getElem_cons hlt, List.take_succ_cons]
      have e1 : addr + 1 - a.base = addr - a.base + 1 := by omega
      rw [e1] at this
      rw [this]
      simp [List.getD_eq_getElem?_getD, List.getElem?_eq_getElem hlt]
    · simp only [hr, Bool.false_eq_true, ↓reduceIte, Option.some.injEq] at this ⊢
      simp only [cellsFrom, cell, hao, Option.map_some, hr, Bool.false_eq_true, ↓reduceIte, Option.getD_some,
        List.replicate_succ, this]

theorem blockReadLoop_eq (t : Table) (wf : WfAreas t) : ∀ (fuel addr rest : Nat), rest ≤ fuel →
    firstHole t addr rest = none → blockReadLoop t fuel addr rest = some (cellsFrom t addr rest) := by
  intro fuel
  induction fuel with
  | zero =>
    intro addr rest h _
    have : rest = 0 := by omega
    subst this; simp [blockReadLoop, cellsFrom]
  | succ f ih =>
    intro addr rest h hh
    cases rest with
    | zero => simp [blockReadLoop, cellsFrom]
    | succ r =>
      simp only [blockReadLoop, find_area]
      cases hao : areaOf t addr with
      | none => simp [firstHole, hao] at hh
      | some a =>
        simp only
        obtain ⟨ham, hin⟩ := areaOf_mem t addr a hao
        have hin' : a.base ≤ addr ∧ addr < a.base + a.size := by simpa [ra_addr_is_part_of] using hin
        have hu : ¬ min (a.base + a.size - addr) (r + 1) = 0 := by omega
        simp only [hu, ↓reduceIte]
        have hskip := firstHole_skip t wf a ham (min (a.base + a.size - addr) (r + 1)) addr (r + 1) hin'.1
          (by omega) (by omega)
        rw [hh] at hskip
        rw [chunk_read t wf a ham _ addr hin'.1 (by omega), ih _ _ (by omega) hskip.symm]
        simp only
        rw [← cellsFrom_append]
        congr 2; omega

end Ufw.Lemmas.RegTable
