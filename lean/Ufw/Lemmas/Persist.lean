/-
Helper lemmas for C10/C11 (persistent storage).
-/
import Ufw.Model.Persist
import Ufw.Lemmas.EndianSpec

namespace Ufw.Lemmas.Persist
open Ufw Ufw.Model.Persist

/-- a medium without scripted faults on which nothing went wrong so far -/
def Clean (m : Medium) : Prop := m.faults = [] ∧ m.faulted = false

/-- data image and checksum field on the medium -/
def image (s : Store) (m : Medium) : List Octet := (m.cells.drop s.dataAddr).take s.dataSize
def field (s : Store) (m : Medium) : List Octet := (m.cells.drop s.sumAddr).take s.width

/-- the region of the instance lies on the medium -/
def Fits (s : Store) (m : Medium) : Prop := s.dataAddr + s.dataSize ≤ m.cells.length

/-- checksum functions that can be continued: the value over a ++ b is the value over b started
    from the value over a (all at the checksum width) -/
def Streamable (f : List Octet → Nat → Nat) (s : Store) : Prop :=
  ∀ a b i, trunc s (f (a ++ b) i) = trunc s (f b (trunc s (f a i)))

theorem read_clean (m : Medium) (h : Clean m) (addr n : Nat) (hr : addr + n ≤ m.cells.length) :
    m.read addr n = (n, (m.cells.drop addr).take n, { m with log := m.log ++ [(false, addr, n)] }) := by
  obtain ⟨h1, h2⟩ := h
  have hl : ((m.cells.drop addr).take n).length = n := by simp; omega
  simp [Medium.read, h1, h2, hr, hl]

theorem write_clean (m : Medium) (h : Clean m) (addr : Nat) (d : List Octet) (hr : addr + d.length ≤ m.cells.length) :
    m.write addr d = (d.length, { m with cells := m.cells.take addr ++ (d ++ m.cells.drop (addr + d.length)),
                                         log := m.log ++ [(true, addr, d.length)] }) := by
  obtain ⟨h1, h2⟩ := h
  simp [Medium.write, h1, hr]

theorem put_length (c d : List Octet) (a : Nat) (h : a + d.length ≤ c.length) :
    (c.take a ++ (d ++ c.drop (a + d.length))).length = c.length := by
  simp; omega

/-- reading back what was put -/
theorem put_get (c d : List Octet) (a : Nat) (h : a + d.length ≤ c.length) :
    ((c.take a ++ (d ++ c.drop (a + d.length))).drop a).take d.length = d := by
  have hl : (c.take a).length = a := by simp; omega
  rw [List.drop_append_of_le_length (by omega), List.drop_eq_nil_of_le (by omega)]
  simp

/-- a region that does not overlap what was put is unchanged -/
theorem put_frame (c d : List Octet) (a b n : Nat) (h : a + d.length ≤ c.length)
    (hd : b + n ≤ a ∨ a + d.length ≤ b) :
    ((c.take a ++ (d ++ c.drop (a + d.length))).drop b).take n = (c.drop b).take n := by
  apply List.ext_getElem?
  intro i
  simp only [List.getElem?_take, List.getElem?_drop]
  split
  · next hi =>
    rcases hd with hd | hd
    · rw [List.getElem?_append_left (by simp; omega), List.getElem?_take_of_lt (by omega)]
    · rw [List.getElem?_append_right (by simp; omega), List.getElem?_append_right (by simp; omega)]
      simp only [List.length_take, List.getElem?_drop]
      congr 1
      have : min a c.length = a := by omega
      omega
  · rfl

/-- two adjacent puts are one put of the concatenation -/
theorem put_put (c d1 d2 : List Octet) (a : Nat) (h : a + d1.length + d2.length ≤ c.length) :
    (c.take a ++ (d1 ++ c.drop (a + d1.length))).take (a + d1.length) ++
      (d2 ++ (c.take a ++ (d1 ++ c.drop (a + d1.length))).drop (a + d1.length + d2.length)) =
    c.take a ++ ((d1 ++ d2) ++ c.drop (a + (d1 ++ d2).length)) := by
  have hx : (c.take a ++ d1).length = a + d1.length := by simp; omega
  have e1 : (c.take a ++ (d1 ++ c.drop (a + d1.length))).take (a + d1.length) = c.take a ++ d1 := by
    rw [← List.append_assoc, ← hx, List.take_left' rfl]
  have e2 : (c.take a ++ (d1 ++ c.drop (a + d1.length))).drop (a + d1.length + d2.length) =
      c.drop (a + d1.length + d2.length) := by
    rw [← List.append_assoc]
    have : a + d1.length + d2.length = (c.take a ++ d1).length + d2.length := by rw [hx]
    rw [this, List.drop_length_add_append, List.drop_drop, hx]
  rw [e1, e2]
  simp [List.append_assoc, Nat.add_assoc]

theorem trunc_idem (s : Store) (v : Nat) : trunc s (trunc s v) = trunc s v := by
  simp [trunc]

theorem trunc_lt (s : Store) (v : Nat) : trunc s v < 256 ^ s.width := by
  simp only [trunc]
  have : 2 ^ (8 * s.width) = 256 ^ s.width := by
    rw [show (256 : Nat) = 2 ^ 8 by rfl, ← Nat.pow_mul]
  rw [this]
  exact Nat.mod_lt _ (Nat.pow_pos (by decide))

/-- the chunked checksum loop on a well-behaved medium: success, medium content unchanged, and the
    value is the checksum function applied to the whole remaining stretch -/
theorem calcLoop_spec (f : List Octet → Nat → Nat) (s : Store) (hst : Streamable f s) :
    ∀ (fuel : Nat) (m : Medium) (rest addr acc : Nat), Clean m → addr + rest ≤ m.cells.length → rest ≤ fuel →
    ∃ m', calcLoop f s fuel m rest addr acc =
        (.success, (if rest = 0 then acc else trunc s (f ((m.cells.drop addr).take rest) acc)), m') ∧
      m'.cells = m.cells ∧ Clean m' := by
  have hb : 1 ≤ s.bsize := by
    simp only [Store.bsize]; split
    · split <;> omega
    · omega
  intro fuel
  induction fuel with
  | zero =>
    intro m rest addr acc hc hr hf
    have : rest = 0 := by omega
    subst this
    exact ⟨m, by simp [calcLoop], rfl, hc⟩
  | succ fuel ih =>
    intro m rest addr acc hc hr hf
    cases rest with
    | zero => exact ⟨m, by simp [calcLoop], rfl, hc⟩
    | succ r =>
      simp only [calcLoop]
      generalize htg : (if r + 1 > s.bsize then s.bsize else r + 1) = toget
      have ht1 : 1 ≤ toget ∧ toget ≤ r + 1 := by
        rw [← htg]; split <;> omega
      rw [read_clean m hc addr toget (by omega)]
      simp only [ne_eq, not_true_eq_false, ↓reduceIte]
      have hc' : Clean { m with log := m.log ++ [(false, addr, toget)] } := hc
      obtain ⟨m', e1, e2, e3⟩ := ih { m with log := m.log ++ [(false, addr, toget)] } (r + 1 - toget) (addr + toget)
        (trunc s (f ((m.cells.drop addr).take toget) acc)) hc' (by simp; omega) (by omega)
      refine ⟨m', ?_, e2, e3⟩
      rw [e1]
      simp only [Nat.add_eq_zero, Nat.succ_ne_zero, and_false, ↓reduceIte]
      by_cases hz : r + 1 - toget = 0
      · have : toget = r + 1 := by omega
        simp [hz, this]
      · simp only [hz, ↓reduceIte]
        rw [← hst]
        congr 2
        have : (m.cells.drop (addr + toget)) = (m.cells.drop addr).drop toget := by rw [List.drop_drop]
        rw [this, ← List.take_add]
        have e : toget + (r + 1 - toget) = r + 1 := by omega
        rw [e]

/-! ### access log and fault flag, for ANY medium (faulty or not) -/

theorem read_log (m : Medium) (a n : Nat) :
    (m.read a n).2.2.log = m.log ++ [(false, a, n)] ∧
    (m.read a n).2.2.faulted = (m.faulted || decide ((m.read a n).1 ≠ n)) := by
  rcases h : m.faults.head? with _ | (_ | k) <;> simp [Medium.read, h]

theorem write_log (m : Medium) (a : Nat) (d : List Octet) :
    (m.write a d).2.log = m.log ++ [(true, a, d.length)] ∧
    (m.write a d).2.faulted = (m.faulted || decide ((m.write a d).1 ≠ d.length)) := by
  rcases h : m.faults.head? with _ | (_ | k) <;> simp only [Medium.write, h] <;>
    (try (split <;> simp)) <;> (try simp) <;> (try (cases d <;> simp))

/-- every logged access lies inside [lo, hi) -/
def LogIn (lo hi : Nat) (l : List (Bool × Nat × Nat)) : Prop := ∀ e ∈ l, lo ≤ e.2.1 ∧ e.2.1 + e.2.2 ≤ hi

theorem LogIn.append {lo hi : Nat} {a b : List (Bool × Nat × Nat)} (ha : LogIn lo hi a) (hb : LogIn lo hi b) :
    LogIn lo hi (a ++ b) := by
  intro e he
  rcases List.mem_append.mp he with h | h
  · exact ha e h
  · exact hb e h

/-- result and medium of an operation relative to the medium it started from: the new log entries are
    inside [lo, hi), and a short transfer (fault flag raised) means the result is I/O error -/
def OpOk (lo hi : Nat) (m : Medium) (a : Access) (m' : Medium) : Prop :=
  (∃ l, m'.log = m.log ++ l ∧ LogIn lo hi l) ∧ (m.faulted = false → m'.faulted = true → a = .ioError)

theorem calcLoop_op (f : List Octet → Nat → Nat) (s : Store) (lo hi : Nat) :
    ∀ (fuel : Nat) (m : Medium) (rest addr acc : Nat), lo ≤ addr → addr + rest ≤ hi →
    OpOk lo hi m (calcLoop f s fuel m rest addr acc).1 (calcLoop f s fuel m rest addr acc).2.2 := by
  intro fuel
  induction fuel with
  | zero =>
    intro m rest addr acc _ _
    cases rest <;> exact ⟨⟨[], by simp [calcLoop], by simp [LogIn]⟩, by simp [calcLoop]⟩
  | succ fuel ih =>
    intro m rest addr acc h1 h2
    cases rest with
    | zero => exact ⟨⟨[], by simp [calcLoop], by simp [LogIn]⟩, by simp [calcLoop]⟩
    | succ r =>
      simp only [calcLoop]
      generalize htg : (if r + 1 > s.bsize then s.bsize else r + 1) = toget
      have ht : toget ≤ r + 1 := by rw [← htg]; split <;> omega
      obtain ⟨l1, l2⟩ := read_log m addr toget
      rcases hrd : m.read addr toget with ⟨n, d, m1⟩
      rw [hrd] at l1 l2
      have hin : LogIn lo hi [(false, addr, toget)] := by
        intro e he; simp at he; subst he; simp; omega
      by_cases hn : n ≠ toget
      · rw [if_pos hn]
        exact ⟨⟨_, l1, hin⟩, fun _ _ => rfl⟩
      · rw [if_neg hn]
        have hn' : n = toget := by simpa using hn
        obtain ⟨⟨l, e1, e2⟩, e3⟩ := ih m1 (r + 1 - toget) (addr + toget) (trunc s (f d acc)) (by omega) (by omega)
        refine ⟨⟨[(false, addr, toget)] ++ l, by rw [e1, l1, List.append_assoc], hin.append e2⟩, ?_⟩
        intro hm hf
        have : m1.faulted = false := by rw [l2, hm]; simp [hn']
        exact e3 this hf

theorem writenLoop_op (s : Store) (item : Octet) (lo hi : Nat) :
    ∀ (fuel : Nat) (m : Medium) (rest addr : Nat), lo ≤ addr → addr + rest ≤ hi →
    OpOk lo hi m (writenLoop s item fuel m rest addr).1 (writenLoop s item fuel m rest addr).2 := by
  intro fuel
  induction fuel with
  | zero =>
    intro m rest addr _ _
    cases rest <;> exact ⟨⟨[], by simp [writenLoop], by simp [LogIn]⟩, by simp [writenLoop]⟩
  | succ fuel ih =>
    intro m rest addr h1 h2
    cases rest with
    | zero => exact ⟨⟨[], by simp [writenLoop], by simp [LogIn]⟩, by simp [writenLoop]⟩
    | succ r =>
      simp only [writenLoop]
      generalize htg : (if r + 1 > s.bsize then s.bsize else r + 1) = toput
      have ht : toput ≤ r + 1 := by rw [← htg]; split <;> omega
      obtain ⟨l1, l2⟩ := write_log m addr (List.replicate toput item)
      rcases hwr : m.write addr (List.replicate toput item) with ⟨n, m1⟩
      rw [hwr] at l1 l2
      simp only [List.length_replicate] at l1 l2 ⊢
      have hin : LogIn lo hi [(true, addr, toput)] := by
        intro e he; simp at he; subst he; simp; omega
      by_cases hn : n ≠ toput
      · rw [if_pos hn]
        exact ⟨⟨_, l1, hin⟩, fun _ _ => rfl⟩
      · rw [if_neg hn]
        have hn' : n = toput := by simpa using hn
        obtain ⟨⟨l, e1, e2⟩, e3⟩ := ih m1 (r + 1 - toput) (addr + toput) (by omega) (by omega)
        refine ⟨⟨[(true, addr, toput)] ++ l, by rw [e1, l1, List.append_assoc], hin.append e2⟩, ?_⟩
        intro hm hf
        have : m1.faulted = false := by rw [l2, hm]; simp [hn']
        exact e3 this hf

theorem OpOk.trans {lo hi : Nat} {m m1 m2 : Medium} {a1 a2 : Access}
    (h1 : OpOk lo hi m a1 m1) (h2 : OpOk lo hi m1 a2 m2) (hcont : m1.faulted = true → a1 = .ioError → False) :
    OpOk lo hi m a2 m2 := by
  obtain ⟨⟨l1, e1, i1⟩, f1⟩ := h1
  obtain ⟨⟨l2, e2, i2⟩, f2⟩ := h2
  refine ⟨⟨l1 ++ l2, by rw [e2, e1, List.append_assoc], i1.append i2⟩, ?_⟩
  intro hm hf
  by_cases h : m1.faulted = true
  · exact absurd (f1 hm h) (fun ha => hcont h ha)
  · exact f2 (by simpa using h) hf

/-- single read as an operation -/
theorem read_op (lo hi : Nat) (m : Medium) (a n : Nat) (h1 : lo ≤ a) (h2 : a + n ≤ hi) :
    OpOk lo hi m (if (m.read a n).1 ≠ n then .ioError else .success) (m.read a n).2.2 := by
  obtain ⟨l1, l2⟩ := read_log m a n
  refine ⟨⟨_, l1, by intro e he; simp at he; subst he; simp; omega⟩, ?_⟩
  intro hm hf
  rw [l2, hm] at hf
  simp only [Bool.false_or, decide_eq_true_eq] at hf
  rw [if_pos hf]

theorem write_op (lo hi : Nat) (m : Medium) (a : Nat) (d : List Octet) (h1 : lo ≤ a) (h2 : a + d.length ≤ hi) :
    OpOk lo hi m (if (m.write a d).1 ≠ d.length then .ioError else .success) (m.write a d).2 := by
  obtain ⟨l1, l2⟩ := write_log m a d
  refine ⟨⟨_, l1, by intro e he; simp at he; subst he; simp; omega⟩, ?_⟩
  intro hm hf
  rw [l2, hm] at hf
  simp only [Bool.false_or, decide_eq_true_eq] at hf
  rw [if_pos hf]

theorem OpOk.refl (lo hi : Nat) (m : Medium) (a : Access) : OpOk lo hi m a m :=
  ⟨⟨[], by simp, by simp [LogIn]⟩, fun h1 h2 => by rw [h1] at h2; exact absurd h2 (by decide)⟩

/-- an operation that returned success left the fault flag alone -/
theorem OpOk.success_clean {lo hi : Nat} {m m' : Medium} (h : OpOk lo hi m .success m') (hm : m.faulted = false) :
    m'.faulted = false := by
  cases hf : m'.faulted with
  | false => rfl
  | true => exact absurd (h.2 hm hf) (by decide)

def region (s : Store) : Nat × Nat := (s.sumAddr, s.dataAddr + s.dataSize)

theorem calc_op (f : List Octet → Nat → Nat) (s : Store) (m : Medium) :
    OpOk s.sumAddr (s.dataAddr + s.dataSize) m (persistent_calculate_checksum f s m).1 (persistent_calculate_checksum f s m).2.2 :=
  calcLoop_op f s _ _ s.dataSize m s.dataSize s.dataAddr _ (by simp [Store.dataAddr]) (Nat.le_refl _)

theorem store_checksum_op (s : Store) (m : Medium) (sum : Nat) :
    OpOk s.sumAddr (s.dataAddr + s.dataSize) m (persistent_store_checksum s m sum).1 (persistent_store_checksum s m sum).2 := by
  have hl : (sumImage s sum).length = s.width := by simp [sumImage, Ufw.Lemmas.EndianSpec.store_length]
  have := write_op s.sumAddr (s.dataAddr + s.dataSize) m s.sumAddr (sumImage s sum) (Nat.le_refl _)
    (by rw [hl]; simp [Store.dataAddr])
  rw [hl] at this
  simpa [persistent_store_checksum] using this

theorem validate_op (f : List Octet → Nat → Nat) (s : Store) (m : Medium) :
    OpOk s.sumAddr (s.dataAddr + s.dataSize) m (persistent_validate f s m).1 (persistent_validate f s m).2 := by
  have h1 := read_op s.sumAddr (s.dataAddr + s.dataSize) m s.sumAddr s.width (Nat.le_refl _) (by simp [Store.dataAddr])
  simp only [persistent_validate, persistent_fetch_checksum]
  rcases hr : m.read s.sumAddr s.width with ⟨n, d, m1⟩
  rw [hr] at h1
  simp only at h1 ⊢
  by_cases hn : n ≠ s.width
  · rw [if_pos hn] at h1 ⊢; exact h1
  · rw [if_neg hn] at h1 ⊢
    simp only
    have h2 := calc_op f s m1
    rcases hc : persistent_calculate_checksum f s m1 with ⟨a, v, m2⟩
    rw [hc] at h2
    simp only at h2
    have hcont : m1.faulted = true → Access.success = Access.ioError → False := fun _ h => by cases h
    cases a with
    | success =>
      simp only
      have := OpOk.trans h1 h2 hcont
      refine ⟨this.1, fun hm hf => ?_⟩
      exact absurd (this.2 hm hf) (by decide)
    | invalidData => exact OpOk.trans h1 h2 hcont
    | ioError => exact OpOk.trans h1 h2 hcont
    | outOfRange => exact OpOk.trans h1 h2 hcont

theorem fetch_part_op (s : Store) (m : Medium) (offset n : Nat) :
    OpOk s.sumAddr (s.dataAddr + s.dataSize) m (persistent_fetch_part s m offset n).1 (persistent_fetch_part s m offset n).2.2 := by
  simp only [persistent_fetch_part]
  by_cases hr : n > s.dataSize ∨ offset > s.dataSize - n
  · simp only [hr, ↓reduceIte]; exact OpOk.refl _ _ _ _
  · simp only [hr, ↓reduceIte]
    have := read_op s.sumAddr (s.dataAddr + s.dataSize) m (s.dataAddr + offset) n (by simp [Store.dataAddr]; omega) (by omega)
    by_cases hk : (m.read (s.dataAddr + offset) n).1 = n
    · simp only [hk, ↓reduceIte]
      rw [if_neg (by simpa using hk)] at this; exact this
    · simp only [hk, ↓reduceIte]
      rw [if_pos hk] at this; exact this

theorem store_part_op (f : List Octet → Nat → Nat) (s : Store) (m : Medium) (src : List Octet) (offset : Nat) :
    OpOk s.sumAddr (s.dataAddr + s.dataSize) m (persistent_store_part f s m src offset).1 (persistent_store_part f s m src offset).2 := by
  simp only [persistent_store_part]
  by_cases hr : src.length > s.dataSize ∨ offset > s.dataSize - src.length
  · simp only [hr, ↓reduceIte]; exact OpOk.refl _ _ _ _
  · simp only [hr, ↓reduceIte]
    have h1 := write_op s.sumAddr (s.dataAddr + s.dataSize) m (s.dataAddr + offset) src (by simp [Store.dataAddr]; omega) (by omega)
    rcases hw : m.write (s.dataAddr + offset) src with ⟨k, m1⟩
    rw [hw] at h1
    simp only at h1 ⊢
    have hcont : m1.faulted = true → Access.success = Access.ioError → False := fun _ h => by cases h
    by_cases hk : k ≠ src.length
    · rw [if_pos hk] at h1 ⊢; exact h1
    · rw [if_neg hk] at h1 ⊢
      by_cases hfull : offset = 0 ∧ src.length = s.dataSize
      · rw [if_pos hfull]
        exact OpOk.trans h1 (store_checksum_op s m1 _) hcont
      · rw [if_neg hfull]
        have h2 := calc_op f s m1
        rcases hc : persistent_calculate_checksum f s m1 with ⟨a, v, m2⟩
        rw [hc] at h2
        simp only at h2 ⊢
        have h12 := OpOk.trans h1 h2 hcont
        cases a with
        | success => exact OpOk.trans h12 (store_checksum_op s m2 v) (fun _ h => by cases h)
        | invalidData => exact h12
        | ioError => exact h12
        | outOfRange => exact h12

theorem reset_op (s : Store) (m : Medium) (item : Octet) :
    OpOk s.sumAddr (s.dataAddr + s.dataSize) m (persistent_reset s m item).1 (persistent_reset s m item).2 := by
  simp only [persistent_reset]
  have h1 := writenLoop_op s item s.sumAddr (s.dataAddr + s.dataSize) s.width m s.width s.sumAddr (Nat.le_refl _)
    (by simp [Store.dataAddr])
  rcases hw : writenLoop s item s.width m s.width s.sumAddr with ⟨a, m1⟩
  rw [hw] at h1
  simp only at h1 ⊢
  have hcont : m1.faulted = true → Access.success = Access.ioError → False := fun _ h => by cases h
  cases a with
  | success =>
    exact OpOk.trans h1 (writenLoop_op s item _ _ s.dataSize m1 s.dataSize s.dataAddr (by simp [Store.dataAddr]) (Nat.le_refl _)) hcont
  | invalidData => exact h1
  | ioError => exact h1
  | outOfRange => exact h1

end Ufw.Lemmas.Persist
