/-
Link between the two ways C15's spec is written: the bit-vector forms used by the
obligations over the generated definitions (`s0 ++ s1 ++ …` = most significant first,
`extractLsb'` lanes) and the arithmetic spec of Ufw/Spec/Endian.lean (Σ octet·256^i).
Independent of the C code.  (File produced once by a script; statements are uniform in
the number of octets n = 2..8 and the octet order.)
-/
import Ufw.Spec.Endian

namespace Ufw.Lemmas.EndianLink
open Ufw Ufw.Spec.Endian

theorem or_add (a b k : Nat) (hb : b < 2 ^ k) : a <<< k ||| b = a * 2 ^ k + b := by
  rw [← Nat.shiftLeft_add_eq_or_of_lt hb, Nat.shiftLeft_eq]

theorem cat_be2 (s0 s1 : BitVec 8) : (s0 ++ s1).toNat = loadU true [s0, s1] := by
  simp only [BitVec.toNat_append]
  rw [or_add _ _ 8 s1.isLt]
  simp [loadU, valueLE]
  omega

theorem loadU_be2 (s0 s1 : BitVec 8) : ((s0 ++ s1).setWidth 16).toNat = loadU true [s0, s1] := by
  rw [BitVec.toNat_setWidth, cat_be2, Nat.mod_eq_of_lt]
  have := cat_be2 s0 s1
  have h : (s0 ++ s1).toNat < 2 ^ 16 := (s0 ++ s1).isLt
  omega

theorem loadS_be2 (s0 s1 : BitVec 8) : ((s0 ++ s1).signExtend 16).toInt = loadS true [s0, s1] := by
  rw [BitVec.toInt_signExtend_of_le (by decide), BitVec.toInt_eq_toNat_cond, cat_be2]
  simp only [loadS, List.length_cons, List.length_nil]
  have := cat_be2 s0 s1
  have hlt : loadU true [s0, s1] < 2 ^ 16 := by rw [← this]; exact (s0 ++ s1).isLt
  split <;> split <;> simp_all <;> omega

theorem store_be2 (v : BitVec 16) : [v.extractLsb' 8 8, v.extractLsb' 0 8] = store true 2 v.toNat := by
  simp only [store, octetsLE, ↓reduceIte, Bool.false_eq_true, List.reverse_cons, List.reverse_nil, List.nil_append,
    List.cons_append]
  simp only [List.cons.injEq, and_true]
  refine ⟨?_, ?_⟩ <;>
    (apply BitVec.eq_of_toNat_eq; simp [BitVec.extractLsb'_toNat, Nat.shiftRight_eq_div_pow, Nat.div_div_eq_div_mul])

theorem cat_le2 (s0 s1 : BitVec 8) : (s1 ++ s0).toNat = loadU false [s0, s1] := by
  simp only [BitVec.toNat_append]
  rw [or_add _ _ 8 s0.isLt]
  simp [loadU, valueLE]
  omega

theorem loadU_le2 (s0 s1 : BitVec 8) : ((s1 ++ s0).setWidth 16).toNat = loadU false [s0, s1] := by
  rw [BitVec.toNat_setWidth, cat_le2, Nat.mod_eq_of_lt]
  have := cat_le2 s0 s1
  have h : (s1 ++ s0).toNat < 2 ^ 16 := (s1 ++ s0).isLt
  omega

theorem loadS_le2 (s0 s1 : BitVec 8) : ((s1 ++ s0).signExtend 16).toInt = loadS false [s0, s1] := by
  rw [BitVec.toInt_signExtend_of_le (by decide), BitVec.toInt_eq_toNat_cond, cat_le2]
  simp only [loadS, List.length_cons, List.length_nil]
  have := cat_le2 s0 s1
  have hlt : loadU false [s0, s1] < 2 ^ 16 := by rw [← this]; exact (s1 ++ s0).isLt
  split <;> split <;> simp_all <;> omega

theorem store_le2 (v : BitVec 16) : [v.extractLsb' 0 8, v.extractLsb' 8 8] = store false 2 v.toNat := by
  simp only [store, octetsLE, ↓reduceIte, Bool.false_eq_true, List.reverse_cons, List.reverse_nil, List.nil_append,
    List.cons_append]
  simp only [List.cons.injEq, and_true]
  refine ⟨?_, ?_⟩ <;>
    (apply BitVec.eq_of_toNat_eq; simp [BitVec.extractLsb'_toNat, Nat.shiftRight_eq_div_pow, Nat.div_div_eq_div_mul])

theorem cat_be3 (s0 s1 s2 : BitVec 8) : (s0 ++ s1 ++ s2).toNat = loadU true [s0, s1, s2] := by
  simp only [BitVec.toNat_append]
  rw [or_add _ _ 8 s2.isLt, or_add _ _ 8 s1.isLt]
  simp [loadU, valueLE]
  omega

theorem loadU_be3 (s0 s1 s2 : BitVec 8) : ((s0 ++ s1 ++ s2).setWidth 32).toNat = loadU true [s0, s1, s2] := by
  rw [BitVec.toNat_setWidth, cat_be3, Nat.mod_eq_of_lt]
  have := cat_be3 s0 s1 s2
  have h : (s0 ++ s1 ++ s2).toNat < 2 ^ 24 := (s0 ++ s1 ++ s2).isLt
  omega

theorem loadS_be3 (s0 s1 s2 : BitVec 8) : ((s0 ++ s1 ++ s2).signExtend 32).toInt = loadS true [s0, s1, s2] := by
  rw [BitVec.toInt_signExtend_of_le (by decide), BitVec.toInt_eq_toNat_cond, cat_be3]
  simp only [loadS, List.length_cons, List.length_nil]
  have := cat_be3 s0 s1 s2
  have hlt : loadU true [s0, s1, s2] < 2 ^ 24 := by rw [← this]; exact (s0 ++ s1 ++ s2).isLt
  split <;> split <;> simp_all <;> omega

theorem store_be3 (v : BitVec 32) : [v.extractLsb' 16 8, v.extractLsb' 8 8, v.extractLsb' 0 8] = store true 3 v.toNat := by
  simp only [store, octetsLE, ↓reduceIte, Bool.false_eq_true, List.reverse_cons, List.reverse_nil, List.nil_append,
    List.cons_append]
  simp only [List.cons.injEq, and_true]
  refine ⟨?_, ?_, ?_⟩ <;>
    (apply BitVec.eq_of_toNat_eq; simp [BitVec.extractLsb'_toNat, Nat.shiftRight_eq_div_pow, Nat.div_div_eq_div_mul])

theorem cat_le3 (s0 s1 s2 : BitVec 8) : (s2 ++ s1 ++ s0).toNat = loadU false [s0, s1, s2] := by
  simp only [BitVec.toNat_append]
  rw [or_add _ _ 8 s0.isLt, or_add _ _ 8 s1.isLt]
  simp [loadU, valueLE]
  omega

theorem loadU_le3 (s0 s1 s2 : BitVec 8) : ((s2 ++ s1 ++ s0).setWidth 32).toNat = loadU false [s0, s1, s2] := by
  rw [BitVec.toNat_setWidth, cat_le3, Nat.mod_eq_of_lt]
  have := cat_le3 s0 s1 s2
  have h : (s2 ++ s1 ++ s0).toNat < 2 ^ 24 := (s2 ++ s1 ++ s0).isLt
  omega

theorem loadS_le3 (s0 s1 s2 : BitVec 8) : ((s2 ++ s1 ++ s0).signExtend 32).toInt = loadS false [s0, s1, s2] := by
  rw [BitVec.toInt_signExtend_of_le (by decide), BitVec.toInt_eq_toNat_cond, cat_le3]
  simp only [loadS, List.length_cons, List.length_nil]
  have := cat_le3 s0 s1 s2
  have hlt : loadU false [s0, s1, s2] < 2 ^ 24 := by rw [← this]; exact (s2 ++ s1 ++ s0).isLt
  split <;> split <;> simp_all <;> omega

theorem store_le3 (v : BitVec 32) : [v.extractLsb' 0 8, v.extractLsb' 8 8, v.extractLsb' 16 8] = store false 3 v.toNat := by
  simp only [store, octetsLE, ↓reduceIte, Bool.false_eq_true, List.reverse_cons, List.reverse_nil, List.nil_append,
    List.cons_append]
  simp only [List.cons.injEq, and_true]
  refine ⟨?_, ?_, ?_⟩ <;>
    (apply BitVec.eq_of_toNat_eq; simp [BitVec.extractLsb'_toNat, Nat.shiftRight_eq_div_pow, Nat.div_div_eq_div_mul])

theorem cat_be4 (s0 s1 s2 s3 : BitVec 8) : (s0 ++ s1 ++ s2 ++ s3).toNat = loadU true [s0, s1, s2, s3] := by
  simp only [BitVec.toNat_append]
  rw [or_add _ _ 8 s3.isLt, or_add _ _ 8 s2.isLt, or_add _ _ 8 s1.isLt]
  simp [loadU, valueLE]
  omega

theorem loadU_be4 (s0 s1 s2 s3 : BitVec 8) : ((s0 ++ s1 ++ s2 ++ s3).setWidth 32).toNat = loadU true [s0, s1, s2, s3] := by
  rw [BitVec.toNat_setWidth, cat_be4, Nat.mod_eq_of_lt]
  have := cat_be4 s0 s1 s2 s3
  have h : (s0 ++ s1 ++ s2 ++ s3).toNat < 2 ^ 32 := (s0 ++ s1 ++ s2 ++ s3).isLt
  omega

theorem loadS_be4 (s0 s1 s2 s3 : BitVec 8) : ((s0 ++ s1 ++ s2 ++ s3).signExtend 32).toInt = loadS true [s0, s1, s2, s3] := by
  rw [BitVec.toInt_signExtend_of_le (by decide), BitVec.toInt_eq_toNat_cond, cat_be4]
  simp only [loadS, List.length_cons, List.length_nil]
  have := cat_be4 s0 s1 s2 s3
  have hlt : loadU true [s0, s1, s2, s3] < 2 ^ 32 := by rw [← this]; exact (s0 ++ s1 ++ s2 ++ s3).isLt
  split <;> split <;> simp_all <;> omega

theorem store_be4 (v : BitVec 32) : [v.extractLsb' 24 8, v.extractLsb' 16 8, v.extractLsb' 8 8, v.extractLsb' 0 8] = store true 4 v.toNat := by
  simp only [store, octetsLE, ↓reduceIte, Bool.false_eq_true, List.reverse_cons, List.reverse_nil, List.nil_append,
    List.cons_append]
  simp only [List.cons.injEq, and_true]
  refine ⟨?_, ?_, ?_, ?_⟩ <;>
    (apply BitVec.eq_of_toNat_eq; simp [BitVec.extractLsb'_toNat, Nat.shiftRight_eq_div_pow, Nat.div_div_eq_div_mul])

theorem cat_le4 (s0 s1 s2 s3 : BitVec 8) : (s3 ++ s2 ++ s1 ++ s0).toNat = loadU false [s0, s1, s2, s3] := by
  simp only [BitVec.toNat_append]
  rw [or_add _ _ 8 s0.isLt, or_add _ _ 8 s1.isLt, or_add _ _ 8 s2.isLt]
  simp [loadU, valueLE]
  omega

theorem loadU_le4 (s0 s1 s2 s3 : BitVec 8) : ((s3 ++ s2 ++ s1 ++ s0).setWidth 32).toNat = loadU false [s0, s1, s2, s3] := by
  rw [BitVec.toNat_setWidth, cat_le4, Nat.mod_eq_of_lt]
  have := cat_le4 s0 s1 s2 s3
  have h : (s3 ++ s2 ++ s1 ++ s0).toNat < 2 ^ 32 := (s3 ++ s2 ++ s1 ++ s0).isLt
  omega

theorem loadS_le4 (s0 s1 s2 s3 : BitVec 8) : ((s3 ++ s2 ++ s1 ++ s0).signExtend 32).toInt = loadS false [s0, s1, s2, s3] := by
  rw [BitVec.toInt_signExtend_of_le (by decide), BitVec.toInt_eq_toNat_cond, cat_le4]
  simp only [loadS, List.length_cons, List.length_nil]
  have := cat_le4 s0 s1 s2 s3
  have hlt : loadU false [s0, s1, s2, s3] < 2 ^ 32 := by rw [← this]; exact (s3 ++ s2 ++ s1 ++ s0).isLt
  split <;> split <;> simp_all <;> omega

theorem store_le4 (v : BitVec 32) : [v.extractLsb' 0 8, v.extractLsb' 8 8, v.extractLsb' 16 8, v.extractLsb' 24 8] = store false 4 v.toNat := by
  simp only [store, octetsLE, ↓reduceIte, Bool.false_eq_true, List.reverse_cons, List.reverse_nil, List.nil_append,
    List.cons_append]
  simp only [List.cons.injEq, and_true]
  refine ⟨?_, ?_, ?_, ?_⟩ <;>
    (apply BitVec.eq_of_toNat_eq; simp [BitVec.extractLsb'_toNat, Nat.shiftRight_eq_div_pow, Nat.div_div_eq_div_mul])

theorem cat_be5 (s0 s1 s2 s3 s4 : BitVec 8) : (s0 ++ s1 ++ s2 ++ s3 ++ s4).toNat = loadU true [s0, s1, s2, s3, s4] := by
  simp only [BitVec.toNat_append]
  rw [or_add _ _ 8 s4.isLt, or_add _ _ 8 s3.isLt, or_add _ _ 8 s2.isLt, or_add _ _ 8 s1.isLt]
  simp [loadU, valueLE]
  omega

theorem loadU_be5 (s0 s1 s2 s3 s4 : BitVec 8) : ((s0 ++ s1 ++ s2 ++ s3 ++ s4).setWidth 64).toNat = loadU true [s0, s1, s2, s3, s4] := by
  rw [BitVec.toNat_setWidth, cat_be5, Nat.mod_eq_of_lt]
  have := cat_be5 s0 s1 s2 s3 s4
  have h : (s0 ++ s1 ++ s2 ++ s3 ++ s4).toNat < 2 ^ 40 := (s0 ++ s1 ++ s2 ++ s3 ++ s4).isLt
  omega

theorem loadS_be5 (s0 s1 s2 s3 s4 : BitVec 8) : ((s0 ++ s1 ++ s2 ++ s3 ++ s4).signExtend 64).toInt = loadS true [s0, s1, s2, s3, s4] := by
  rw [BitVec.toInt_signExtend_of_le (by decide), BitVec.toInt_eq_toNat_cond, cat_be5]
  simp only [loadS, List.length_cons, List.length_nil]
  have := cat_be5 s0 s1 s2 s3 s4
  have hlt : loadU true [s0, s1, s2, s3, s4] < 2 ^ 40 := by rw [← this]; exact (s0 ++ s1 ++ s2 ++ s3 ++ s4).isLt
  split <;> split <;> simp_all <;> omega

theorem store_be5 (v : BitVec 64) : [v.extractLsb' 32 8, v.extractLsb' 24 8, v.extractLsb' 16 8, v.extractLsb' 8 8, v.extractLsb' 0 8] = store true 5 v.toNat := by
  simp only [store, octetsLE, ↓reduceIte, Bool.false_eq_true, List.reverse_cons, List.reverse_nil, List.nil_append,
    List.cons_append]
  simp only [List.cons.injEq, and_true]
  refine ⟨?_, ?_, ?_, ?_, ?_⟩ <;>
    (apply BitVec.eq_of_toNat_eq; simp [BitVec.extractLsb'_toNat, Nat.shiftRight_eq_div_pow, Nat.div_div_eq_div_mul])

theorem cat_le5 (s0 s1 s2 s3 s4 : BitVec 8) : (s4 ++ s3 ++ s2 ++ s1 ++ s0).toNat = loadU false [s0, s1, s2, s3, s4] := by
  simp only [BitVec.toNat_append]
  rw [or_add _ _ 8 s0.isLt, or_add _ _ 8 s1.isLt, or_add _ _ 8 s2.isLt, or_add _ _ 8 s3.isLt]
  simp [loadU, valueLE]
  omega

theorem loadU_le5 (s0 s1 s2 s3 s4 : BitVec 8) : ((s4 ++ s3 ++ s2 ++ s1 ++ s0).setWidth 64).toNat = loadU false [s0, s1, s2, s3, s4] := by
  rw [BitVec.toNat_setWidth, cat_le5, Nat.mod_eq_of_lt]
  have := cat_le5 s0 s1 s2 s3 s4
  have h : (s4 ++ s3 ++ s2 ++ s1 ++ s0).toNat < 2 ^ 40 := (s4 ++ s3 ++ s2 ++ s1 ++ s0).isLt
  omega

theorem loadS_le5 (s0 s1 s2 s3 s4 : BitVec 8) : ((s4 ++ s3 ++ s2 ++ s1 ++ s0).signExtend 64).toInt = loadS false [s0, s1, s2, s3, s4] := by
  rw [BitVec.toInt_signExtend_of_le (by decide), BitVec.toInt_eq_toNat_cond, cat_le5]
  simp only [loadS, List.length_cons, List.length_nil]
  have := cat_le5 s0 s1 s2 s3 s4
  have hlt : loadU false [s0, s1, s2, s3, s4] < 2 ^ 40 := by rw [← this]; exact (s4 ++ s3 ++ s2 ++ s1 ++ s0).isLt
  split <;> split <;> simp_all <;> omega

theorem store_le5 (v : BitVec 64) : [v.extractLsb' 0 8, v.extractLsb' 8 8, v.extractLsb' 16 8, v.extractLsb' 24 8, v.extractLsb' 32 8] = store false 5 v.toNat := by
  simp only [store, octetsLE, ↓reduceIte, Bool.false_eq_true, List.reverse_cons, List.reverse_nil, List.nil_append,
    List.cons_append]
  simp only [List.cons.injEq, and_true]
  refine ⟨?_, ?_, ?_, ?_, ?_⟩ <;>
    (apply BitVec.eq_of_toNat_eq; simp [BitVec.extractLsb'_toNat, Nat.shiftRight_eq_div_pow, Nat.div_div_eq_div_mul])

theorem cat_be6 (s0 s1 s2 s3 s4 s5 : BitVec 8) : (s0 ++ s1 ++ s2 ++ s3 ++ s4 ++ s5).toNat = loadU true [s0, s1, s2, s3, s4, s5] := by
  simp only [BitVec.toNat_append]
  rw [or_add _ _ 8 s5.isLt, or_add _ _ 8 s4.isLt, or_add _ _ 8 s3.isLt, or_add _ _ 8 s2.isLt, or_add _ _ 8 s1.isLt]
  simp [loadU, valueLE]
  omega

theorem loadU_be6 (s0 s1 s2 s3 s4 s5 : BitVec 8) : ((s0 ++ s1 ++ s2 ++ s3 ++ s4 ++ s5).setWidth 64).toNat = loadU true [s0, s1, s2, s3, s4, s5] := by
  rw [BitVec.toNat_setWidth, cat_be6, Nat.mod_eq_of_lt]
  have := cat_be6 s0 s1 s2 s3 s4 s5
  have h : (s0 ++ s1 ++ s2 ++ s3 ++ s4 ++ s5).toNat < 2 ^ 48 := (s0 ++ s1 ++ s2 ++ s3 ++ s4 ++ s5).isLt
  omega

theorem loadS_be6 (s0 s1 s2 s3 s4 s5 : BitVec 8) : ((s0 ++ s1 ++ s2 ++ s3 ++ s4 ++ s5).signExtend 64).toInt = loadS true [s0, s1, s2, s3, s4, s5] := by
  rw [BitVec.toInt_signExtend_of_le (by decide), BitVec.toInt_eq_toNat_cond, cat_be6]
  simp only [loadS, List.length_cons, List.length_nil]
  have := cat_be6 s0 s1 s2 s3 s4 s5
  have hlt : loadU true [s0, s1, s2, s3, s4, s5] < 2 ^ 48 := by rw [← this]; exact (s0 ++ s1 ++ s2 ++ s3 ++ s4 ++ s5).isLt
  split <;> split <;> simp_all <;> omega

theorem store_be6 (v : BitVec 64) : [v.extractLsb' 40 8, v.extractLsb' 32 8, v.extractLsb' 24 8, v.extractLsb' 16 8, v.extractLsb' 8 8, v.extractLsb' 0 8] = store true 6 v.toNat := by
  simp only [store, octetsLE, ↓reduceIte, Bool.false_eq_true, List.reverse_cons, List.reverse_nil, List.nil_append,
    List.cons_append]
  simp only [List.cons.injEq, and_true]
  refine ⟨?_, ?_, ?_, ?_, ?_, ?_⟩ <;>
    (apply BitVec.eq_of_toNat_eq; simp [BitVec.extractLsb'_toNat, Nat.shiftRight_eq_div_pow, Nat.div_div_eq_div_mul])

theorem cat_le6 (s0 s1 s2 s3 s4 s5 : BitVec 8) : (s5 ++ s4 ++ s3 ++ s2 ++ s1 ++ s0).toNat = loadU false [s0, s1, s2, s3, s4, s5] := by
  simp only [BitVec.toNat_append]
  rw [or_add _ _ 8 s0.isLt, or_add _ _ 8 s1.isLt, or_add _ _ 8 s2.isLt, or_add _ _ 8 s3.isLt, or_add _ _ 8 s4.isLt]
  simp [loadU, valueLE]
  omega

theorem loadU_le6 (s0 s1 s2 s3 s4 s5 : BitVec 8) : ((s5 ++ s4 ++ s3 ++ s2 ++ s1 ++ s0).setWidth 64).toNat = loadU false [s0, s1, s2, s3, s4, s5] := by
  rw [BitVec.toNat_setWidth, cat_le6, Nat.mod_eq_of_lt]
  have := cat_le6 s0 s1 s2 s3 s4 s5
  have h : (s5 ++ s4 ++ s3 ++ s2 ++ s1 ++ s0).toNat < 2 ^ 48 := (s5 ++ s4 ++ s3 ++ s2 ++ s1 ++ s0).isLt
  omega

theorem loadS_le6 (s0 s1 s2 s3 s4 s5 : BitVec 8) : ((s5 ++ s4 ++ s3 ++ s2 ++ s1 ++ s0).signExtend 64).toInt = loadS false [s0, s1, s2, s3, s4, s5] := by
  rw [BitVec.toInt_signExtend_of_le (by decide), BitVec.toInt_eq_toNat_cond, cat_le6]
  simp only [loadS, List.length_cons, List.length_nil]
  have := cat_le6 s0 s1 s2 s3 s4 s5
  have hlt : loadU false [s0, s1, s2, s3, s4, s5] < 2 ^ 48 := by rw [← this]; exact (s5 ++ s4 ++ s3 ++ s2 ++ s1 ++ s0).isLt
  split <;> split <;> simp_all <;> omega

theorem store_le6 (v : BitVec 64) : [v.extractLsb' 0 8, v.extractLsb' 8 8, v.extractLsb' 16 8, v.extractLsb' 24 8, v.extractLsb' 32 8, v.extractLsb' 40 8] = store false 6 v.toNat := by
  simp only [store, octetsLE, ↓reduceIte, Bool.false_eq_true, List.reverse_cons, List.reverse_nil, List.nil_append,
    List.cons_append]
  simp only [List.cons.injEq, and_true]
  refine ⟨?_, ?_, ?_, ?_, ?_, ?_⟩ <;>
    (apply BitVec.eq_of_toNat_eq; simp [BitVec.extractLsb'_toNat, Nat.shiftRight_eq_div_pow, Nat.div_div_eq_div_mul])

theorem cat_be7 (s0 s1 s2 s3 s4 s5 s6 : BitVec 8) : (s0 ++ s1 ++ s2 ++ s3 ++ s4 ++ s5 ++ s6).toNat = loadU true [s0, s1, s2, s3, s4, s5, s6] := by
  simp only [BitVec.toNat_append]
  rw [or_add _ _ 8 s6.isLt, or_add _ _ 8 s5.isLt, or_add _ _ 8 s4.isLt, or_add _ _ 8 s3.isLt, or_add _ _ 8 s2.isLt, or_add _ _ 8 s1.isLt]
  simp [loadU, valueLE]
  omega

theorem loadU_be7 (s0 s1 s2 s3 s4 s5 s6 : BitVec 8) : ((s0 ++ s1 ++ s2 ++ s3 ++ s4 ++ s5 ++ s6).setWidth 64).toNat = loadU true [s0, s1, s2, s3, s4, s5, s6] := by
  rw [BitVec.toNat_setWidth, cat_be7, Nat.mod_eq_of_lt]
  have := cat_be7 s0 s1 s2 s3 s4 s5 s6
  have h : (s0 ++ s1 ++ s2 ++ s3 ++ s4 ++ s5 ++ s6).toNat < 2 ^ 56 := (s0 ++ s1 ++ s2 ++ s3 ++ s4 ++ s5 ++ s6).isLt
  omega

theorem loadS_be7 (s0 s1 s2 s3 s4 s5 s6 : BitVec 8) : ((s0 ++ s1 ++ s2 ++ s3 ++ s4 ++ s5 ++ s6).signExtend 64).toInt = loadS true [s0, s1, s2, s3, s4, s5, s6] := by
  rw [BitVec.toInt_signExtend_of_le (by decide), BitVec.toInt_eq_toNat_cond, cat_be7]
  simp only [loadS, List.length_cons, List.length_nil]
  have := cat_be7 s0 s1 s2 s3 s4 s5 s6
  have hlt : loadU true [s0, s1, s2, s3, s4, s5, s6] < 2 ^ 56 := by rw [← this]; exact (s0 ++ s1 ++ s2 ++ s3 ++ s4 ++ s5 ++ s6).isLt
  split <;> split <;> simp_all <;> omega

theorem store_be7 (v : BitVec 64) : [v.extractLsb' 48 8, v.extractLsb' 40 8, v.extractLsb' 32 8, v.extractLsb' 24 8, v.extractLsb' 16 8, v.extractLsb' 8 8, v.extractLsb' 0 8] = store true 7 v.toNat := by
  simp only [store, octetsLE, ↓reduceIte, Bool.false_eq_true, List.reverse_cons, List.reverse_nil, List.nil_append,
    List.cons_append]
  simp only [List.cons.injEq, and_true]
  refine ⟨?_, ?_, ?_, ?_, ?_, ?_, ?_⟩ <;>
    (apply BitVec.eq_of_toNat_eq; simp [BitVec.extractLsb'_toNat, Nat.shiftRight_eq_div_pow, Nat.div_div_eq_div_mul])

theorem cat_le7 (s0 s1 s2 s3 s4 s5 s6 : BitVec 8) : (s6 ++ s5 ++ s4 ++ s3 ++ s2 ++ s1 ++ s0).toNat = loadU false [s0, s1, s2, s3, s4, s5, s6] := by
  simp only [BitVec.toNat_append]
  rw [or_add _ _ 8 s0.isLt, or_add _ _ 8 s1.isLt, or_add _ _ 8 s2.isLt, or_add _ _ 8 s3.isLt, or_add _ _ 8 s4.isLt, or_add _ _ 8 s5.isLt]
  simp [loadU, valueLE]
  omega

theorem loadU_le7 (s0 s1 s2 s3 s4 s5 s6 : BitVec 8) : ((s6 ++ s5 ++ s4 ++ s3 ++ s2 ++ s1 ++ s0).setWidth 64).toNat = loadU false [s0, s1, s2, s3, s4, s5, s6] := by
  rw [BitVec.toNat_setWidth, cat_le7, Nat.mod_eq_of_lt]
  have := cat_le7 s0 s1 s2 s3 s4 s5 s6
  have h : (s6 ++ s5 ++ s4 ++ s3 ++ s2 ++ s1 ++ s0).toNat < 2 ^ 56 := (s6 ++ s5 ++ s4 ++ s3 ++ s2 ++ s1 ++ s0).isLt
  omega

theorem loadS_le7 (s0 s1 s2 s3 s4 s5 s6 : BitVec 8) : ((s6 ++ s5 ++ s4 ++ s3 ++ s2 ++ s1 ++ s0).signExtend 64).toInt = loadS false [s0, s1, s2, s3, s4, s5, s6] := by
  rw [BitVec.toInt_signExtend_of_le (by decide), BitVec.toInt_eq_toNat_cond, cat_le7]
  simp only [loadS, List.length_cons, List.length_nil]
  have := cat_le7 s0 s1 s2 s3 s4 s5 s6
  have hlt : loadU false [s0, s1, s2, s3, s4, s5, s6] < 2 ^ 56 := by rw [← this]; exact (s6 ++ s5 ++ s4 ++ s3 ++ s2 ++ s1 ++ s0).isLt
  split <;> split <;> simp_all <;> omega

theorem store_le7 (v : BitVec 64) : [v.extractLsb' 0 8, v.extractLsb' 8 8, v.extractLsb' 16 8, v.extractLsb' 24 8, v.extractLsb' 32 8, v.extractLsb' 40 8, v.extractLsb' 48 8] = store false 7 v.toNat := by
  simp only [store, octetsLE, ↓reduceIte, Bool.false_eq_true, List.reverse_cons, List.reverse_nil, List.nil_append,
    List.cons_append]
  simp only [List.cons.injEq, and_true]
  refine ⟨?_, ?_, ?_, ?_, ?_, ?_, ?_⟩ <;>
    (apply BitVec.eq_of_toNat_eq; simp [BitVec.extractLsb'_toNat, Nat.shiftRight_eq_div_pow, Nat.div_div_eq_div_mul])

theorem cat_be8 (s0 s1 s2 s3 s4 s5 s6 s7 : BitVec 8) : (s0 ++ s1 ++ s2 ++ s3 ++ s4 ++ s5 ++ s6 ++ s7).toNat = loadU true [s0, s1, s2, s3, s4, s5, s6, s7] := by
  simp only [BitVec.toNat_append]
  rw [or_add _ _ 8 s7.isLt, or_add _ _ 8 s6.isLt, or_add _ _ 8 s5.isLt, or_add _ _ 8 s4.isLt, or_add _ _ 8 s3.isLt, or_add _ _ 8 s2.isLt, or_add _ _ 8 s1.isLt]
  simp [loadU, valueLE]
  omega

theorem loadU_be8 (s0 s1 s2 s3 s4 s5 s6 s7 : BitVec 8) : ((s0 ++ s1 ++ s2 ++ s3 ++ s4 ++ s5 ++ s6 ++ s7).setWidth 64).toNat = loadU true [s0, s1, s2, s3, s4, s5, s6, s7] := by
  rw [BitVec.toNat_setWidth, cat_be8, Nat.mod_eq_of_lt]
  have := cat_be8 s0 s1 s2 s3 s4 s5 s6 s7
  have h : (s0 ++ s1 ++ s2 ++ s3 ++ s4 ++ s5 ++ s6 ++ s7).toNat < 2 ^ 64 := (s0 ++ s1 ++ s2 ++ s3 ++ s4 ++ s5 ++ s6 ++ s7).isLt
  omega

theorem loadS_be8 (s0 s1 s2 s3 s4 s5 s6 s7 : BitVec 8) : ((s0 ++ s1 ++ s2 ++ s3 ++ s4 ++ s5 ++ s6 ++ s7).signExtend 64).toInt = loadS true [s0, s1, s2, s3, s4, s5, s6, s7] := by
  rw [BitVec.toInt_signExtend_of_le (by decide), BitVec.toInt_eq_toNat_cond, cat_be8]
  simp only [loadS, List.length_cons, List.length_nil]
  have := cat_be8 s0 s1 s2 s3 s4 s5 s6 s7
  have hlt : loadU true [s0, s1, s2, s3, s4, s5, s6, s7] < 2 ^ 64 := by rw [← this]; exact (s0 ++ s1 ++ s2 ++ s3 ++ s4 ++ s5 ++ s6 ++ s7).isLt
  split <;> split <;> simp_all <;> omega

theorem store_be8 (v : BitVec 64) : [v.extractLsb' 56 8, v.extractLsb' 48 8, v.extractLsb' 40 8, v.extractLsb' 32 8, v.extractLsb' 24 8, v.extractLsb' 16 8, v.extractLsb' 8 8, v.extractLsb' 0 8] = store true 8 v.toNat := by
  simp only [store, octetsLE, ↓reduceIte, Bool.false_eq_true, List.reverse_cons, List.reverse_nil, List.nil_append,
    List.cons_append]
  simp only [List.cons.injEq, and_true]
  refine ⟨?_, ?_, ?_, ?_, ?_, ?_, ?_, ?_⟩ <;>
    (apply BitVec.eq_of_toNat_eq; simp [BitVec.extractLsb'_toNat, Nat.shiftRight_eq_div_pow, Nat.div_div_eq_div_mul])

theorem cat_le8 (s0 s1 s2 s3 s4 s5 s6 s7 : BitVec 8) : (s7 ++ s6 ++ s5 ++ s4 ++ s3 ++ s2 ++ s1 ++ s0).toNat = loadU false [s0, s1, s2, s3, s4, s5, s6, s7] := by
  simp only [BitVec.toNat_append]
  rw [or_add _ _ 8 s0.isLt, or_add _ _ 8 s1.isLt, or_add _ _ 8 s2.isLt, or_add _ _ 8 s3.isLt, or_add _ _ 8 s4.isLt, or_add _ _ 8 s5.isLt, or_add _ _ 8 s6.isLt]
  simp [loadU, valueLE]
  omega

theorem loadU_le8 (s0 s1 s2 s3 s4 s5 s6 s7 : BitVec 8) : ((s7 ++ s6 ++ s5 ++ s4 ++ s3 ++ s2 ++ s1 ++ s0).setWidth 64).toNat = loadU false [s0, s1, s2, s3, s4, s5, s6, s7] := by
  rw [BitVec.toNat_setWidth, cat_le8, Nat.mod_eq_of_lt]
  have := cat_le8 s0 s1 s2 s3 s4 s5 s6 s7
  have h : (s7 ++ s6 ++ s5 ++ s4 ++ s3 ++ s2 ++ s1 ++ s0).toNat < 2 ^ 64 := (s7 ++ s6 ++ s5 ++ s4 ++ s3 ++ s2 ++ s1 ++ s0).isLt
  omega

theorem loadS_le8 (s0 s1 s2 s3 s4 s5 s6 s7 : BitVec 8) : ((s7 ++ s6 ++ s5 ++ s4 ++ s3 ++ s2 ++ s1 ++ s0).signExtend 64).toInt = loadS false [s0, s1, s2, s3, s4, s5, s6, s7] := by
  rw [BitVec.toInt_signExtend_of_le (by decide), BitVec.toInt_eq_toNat_cond, cat_le8]
  simp only [loadS, List.length_cons, List.length_nil]
  have := cat_le8 s0 s1 s2 s3 s4 s5 s6 s7
  have hlt : loadU false [s0, s1, s2, s3, s4, s5, s6, s7] < 2 ^ 64 := by rw [← this]; exact (s7 ++ s6 ++ s5 ++ s4 ++ s3 ++ s2 ++ s1 ++ s0).isLt
  split <;> split <;> simp_all <;> omega

theorem store_le8 (v : BitVec 64) : [v.extractLsb' 0 8, v.extractLsb' 8 8, v.extractLsb' 16 8, v.extractLsb' 24 8, v.extractLsb' 32 8, v.extractLsb' 40 8, v.extractLsb' 48 8, v.extractLsb' 56 8] = store false 8 v.toNat := by
  simp only [store, octetsLE, ↓reduceIte, Bool.false_eq_true, List.reverse_cons, List.reverse_nil, List.nil_append,
    List.cons_append]
  simp only [List.cons.injEq, and_true]
  refine ⟨?_, ?_, ?_, ?_, ?_, ?_, ?_, ?_⟩ <;>
    (apply BitVec.eq_of_toNat_eq; simp [BitVec.extractLsb'_toNat, Nat.shiftRight_eq_div_pow, Nat.div_div_eq_div_mul])

end Ufw.Lemmas.EndianLink
