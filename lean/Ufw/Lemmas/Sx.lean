/-
Facts about the s-expression reader model (C20) that hold for EVERY input: no read outside the
input, termination with fuel length + 1, positions only move forward.
-/
import Ufw.Model.Sx

namespace Ufw.Lemmas.Sx
open Ufw Ufw.Model.Sx

theorem tw_len {α : Type} (p : α → Bool) (l : List α) : (l.takeWhile p).length ≤ l.length :=
  (List.takeWhile_sublist p).length_le

theorem skip_ws_le (s : List Octet) (i : Nat) (h : i ≤ s.length) : skip_ws s i ≤ s.length ∧ i ≤ skip_ws s i := by
  simp only [skip_ws]
  have := tw_len isspace (s.drop i)
  simp only [List.length_drop] at this
  omega

/-- what a token read can answer -/
inductive TokenShape (s : List Octet) (i : Nat) : Res → Prop
  | atEnd : TokenShape s i { status := .success }
  | atom (t : Tree) (pos : Nat) (h1 : i < pos) (h2 : pos ≤ s.length) :
      TokenShape s i { status := .success, node := some t, pos := pos }
  | openParen (pos : Nat) (h1 : i < pos) (h2 : pos ≤ s.length) : TokenShape s i { status := .foundList, pos := pos }
  | broken (st : Status) (n : Option Tree) (pos : Nat)
      (h : st = .brokenInteger ∨ st = .brokenSymbol ∨ st = .unknownInput) (hn : n = none) :
      TokenShape s i { status := st, node := n, pos := pos }

theorem takeWhile_pos {p : Octet → Bool} (l : List Octet) (c : Octet) (rest : List Octet) (hl : l = c :: rest)
    (hc : p c = true) : 0 < (l.takeWhile p).length := by
  subst hl; simp [List.takeWhile_cons, hc]

theorem drop_cons_of_lt (s : List Octet) (j : Nat) (h : j < s.length) : s.drop j = s[j] :: s.drop (j + 1) :=
  List.drop_eq_getElem_cons h

theorem symbol_result (s : List Octet) (j : Nat) (hj : j < s.length) (hc : issymch s[j] = true) :
    (∃ t pos, parse_symbol s j = (some t, pos) ∧ j < pos ∧ pos ≤ s.length) ∨ (∃ pos, parse_symbol s j = (none, pos)) := by
  have hb : 0 < ((s.drop j).takeWhile issymch).length :=
    takeWhile_pos _ _ _ (drop_cons_of_lt s j hj) hc
  have hle := tw_len issymch (s.drop j)
  simp only [List.length_drop] at hle
  simp only [parse_symbol]
  split
  · split
    · left; exact ⟨_, _, rfl, by omega, by omega⟩
    · right; exact ⟨_, rfl⟩
  · left; exact ⟨_, _, rfl, by omega, by omega⟩

theorem symbol_shape (s : List Octet) (i j : Nat) (hij : i ≤ j) (hj : j < s.length) (hc : issymch s[j] = true) :
    TokenShape s i
      { status := if (parse_symbol s j).1.isNone then .brokenSymbol else .success,
        node := (parse_symbol s j).1, pos := (parse_symbol s j).2 } := by
  rcases symbol_result s j hj hc with ⟨t, pos, h, h1, h2⟩ | ⟨pos, h⟩
  · rw [h]; exact .atom t pos (by omega) h2
  · rw [h]; exact .broken _ _ _ (Or.inr (Or.inl rfl)) rfl

theorem integer_result (s : List Octet) (j offset : Nat) (pred : Octet → Bool) (base : Nat)
    (hj : j + offset < s.length) (hc : pred s[j + offset] = true) :
    (∃ t pos, parse_integer_ s j offset pred base = (some t, pos) ∧ j < pos ∧ pos ≤ s.length) ∨
    (∃ pos, parse_integer_ s j offset pred base = (none, pos)) := by
  have hb : 0 < ((s.drop (j + offset)).takeWhile pred).length :=
    takeWhile_pos _ _ _ (drop_cons_of_lt s (j + offset) hj) hc
  have hle := tw_len pred (s.drop (j + offset))
  simp only [List.length_drop] at hle
  simp only [parse_integer_]
  split
  · split
    · left; exact ⟨_, _, rfl, by omega, by omega⟩
    · right; exact ⟨_, rfl⟩
  · left; exact ⟨_, _, rfl, by omega, by omega⟩

theorem integer_shape (s : List Octet) (i j offset : Nat) (pred : Octet → Bool) (base : Nat) (hij : i ≤ j)
    (hj : j + offset < s.length) (hc : pred s[j + offset] = true) :
    TokenShape s i
      { status := if (parse_integer_ s j offset pred base).1.isNone then .brokenInteger else .success,
        node := (parse_integer_ s j offset pred base).1, pos := (parse_integer_ s j offset pred base).2 } := by
  rcases integer_result s j offset pred base hj hc with ⟨t, pos, h, h1, h2⟩ | ⟨pos, h⟩
  · rw [h]; exact .atom t pos (by omega) h2
  · rw [h]; exact .broken _ _ _ (Or.inl rfl) rfl

theorem looking_at_cases (s : List Octet) (j : Nat) (hj : j < s.length) :
    (looking_at s j = some .intHex ∧ ∃ h2 : j + 2 < s.length, isxdigit s[j + 2] = true) ∨
    looking_at s j = some .parenOpen ∨ looking_at s j = some .parenClose ∨
    (looking_at s j = some .intDec ∧ isdigit s[j] = true) ∨
    (looking_at s j = some .symbol ∧ issyminitch s[j] = true) ∨
    looking_at s j = some .unknown := by
  have key : ∀ (H : Bool), (H = true → ∃ h2 : j + 2 < s.length, isxdigit s[j + 2] = true) →
      let r := (if H = true then some What.intHex
        else if (s[j].toNat == 40) = true then some What.parenOpen
        else if (s[j].toNat == 41) = true then some What.parenClose
        else if isdigit s[j] = true then some What.intDec
        else if issyminitch s[j] = true then some What.symbol else some What.unknown)
      (r = some .intHex ∧ ∃ h2 : j + 2 < s.length, isxdigit s[j + 2] = true) ∨
      r = some .parenOpen ∨ r = some .parenClose ∨ (r = some .intDec ∧ isdigit s[j] = true) ∨
      (r = some .symbol ∧ issyminitch s[j] = true) ∨ r = some .unknown := by
    intro H hH
    by_cases h0 : H = true
    · left; simp only [h0, ↓reduceIte, true_and]; exact hH h0
    · right
      by_cases h40 : (s[j].toNat == 40) = true
      · left; simp [h0, h40]
      · right
        by_cases h41 : (s[j].toNat == 41) = true
        · left; simp [h0, h40, h41]
        · right
          by_cases hd : isdigit s[j] = true
          · left; simp [h0, h40, h41, hd]
          · right
            by_cases hs : issyminitch s[j] = true
            · left; simp [h0, h40, h41, hd, hs]
            · right; simp [h0, h40, h41, hd, hs]
  simp only [looking_at, List.getElem?_eq_getElem hj]
  apply key
  intro hhex
  simp only [Bool.and_eq_true, decide_eq_true_eq] at hhex
  obtain ⟨⟨hl2, _⟩, hx⟩ := hhex
  have h2' : j + 2 < s.length := hl2
  simp only [List.getElem?_eq_getElem (show j + 1 < s.length by omega), List.getElem?_eq_getElem h2',
    Bool.and_eq_true] at hx
  exact ⟨h2', hx.2⟩

/-- every token read has one of the four shapes - in particular it never reads outside the input -/
theorem token_shape (s : List Octet) (i : Nat) (h : i ≤ s.length) : TokenShape s i (sx_parse_token s i) := by
  obtain ⟨h1, h2⟩ := skip_ws_le s i h
  simp only [sx_parse_token]
  split
  · exact .atEnd
  · rename_i hne
    have hj : skip_ws s i < s.length := by omega
    generalize skip_ws s i = j at *
    rcases looking_at_cases s j hj with ⟨hw, h2', hx⟩ | hw | hw | ⟨hw, hd⟩ | ⟨hw, hs⟩ | hw
    · rw [hw]; exact integer_shape s i j 2 isxdigit 16 h2 h2' hx
    · rw [hw]; exact .openParen _ (by omega) (by omega)
    · rw [hw]; exact .atom _ _ (by omega) (by omega)
    · rw [hw]; exact integer_shape s i j 0 isdigit 10 h2 hj hd
    · rw [hw]
      have : issymch s[j] = true := by simp [issymch, hs]
      exact symbol_shape s i j h2 hj this
    · rw [hw]; exact .broken _ _ _ (Or.inr (Or.inr rfl)) rfl

/-- what a list read can answer, for every input and start position -/
structure ListShape (s : List Octet) (i : Nat) (r : Res) : Prop where
  noOob : r.status ≠ .oob
  noDiverge : r.status ≠ .diverge
  noFound : r.status ≠ .foundList
  forward : r.status = .success → i < r.pos ∧ r.pos ≤ s.length
  errNoTree : r.isError = true → r.node = none

theorem list_shape (s : List Octet) : ∀ (fuel i : Nat), i ≤ s.length → s.length - i < fuel →
    ListShape s i (sx_parse_list s fuel i) := by
  intro fuel
  induction fuel with
  | zero => intro i _ h; omega
  | succ fuel ih =>
    intro i hi hf
    simp only [sx_parse_list]
    by_cases hge : i ≥ s.length
    · simp only [hge, ↓reduceIte]
      exact ⟨by simp, by simp, by simp, by simp, by simp⟩
    · simp only [hge, ↓reduceIte]
      have hts := token_shape s i hi
      generalize sx_parse_token s i = tok at hts
      cases hts with
      | atEnd =>
        simp [Res.isError]
        exact ⟨by simp, by simp, by simp, by simp, by simp⟩
      | atom t pos h1 h2 =>
        have hcdr := ih pos h2 (by omega)
        by_cases hnil : t = .nil
        · subst hnil
          simp [Res.isError, Res.isEmptyList]
          exact ⟨by simp, by simp, by simp, by simp; omega, by simp [Res.isError]⟩
        · simp only [Res.isError, Res.isEmptyList, bne_self_eq_false, Bool.false_and, Bool.false_eq_true,
            ↓reduceIte, beq_self_eq_true, Option.isNone_some, and_false, Bool.true_and, beq_iff_eq,
            Option.some.injEq, hnil, reduceCtorEq]
          generalize sx_parse_list s fuel pos = cdr at hcdr
          obtain ⟨c1, c2, c3, c4, c5⟩ := hcdr
          cases hn : cdr.node with
          | none =>
            dsimp only
            exact ⟨c1, c2, c3, fun h => by have := c4 h; dsimp only at h ⊢; omega, fun _ => rfl⟩
          | some d =>
            dsimp only
            refine ⟨c1, c2, c3, fun h => by have := c4 h; dsimp only at h ⊢; omega, ?_⟩
            intro he
            have := c5 (by simpa [Res.isError] using he)
            rw [hn] at this; simp at this
      | openParen pos h1 h2 =>
        have hcar := ih pos h2 (by omega)
        have e1 : (Status.foundList != Status.success && Status.foundList != Status.foundList) = false := by decide
        have e2 : (Status.foundList == Status.success) = false := by decide
        have e3 : (Status.foundList == Status.foundList) = true := by decide
        simp only [Res.isError, Res.isEmptyList, e1, e2, e3, Bool.false_eq_true, ↓reduceIte, false_and, Bool.false_and]
        generalize sx_parse_list s fuel pos = car at hcar
        obtain ⟨a1, a2, a3, a4, a5⟩ := hcar
        by_cases hce : (car.status != .success && car.status != .foundList) = true
        · simp only [hce, ↓reduceIte]
          refine ⟨a1, a2, a3, ?_, fun _ => rfl⟩
          intro hs
          simp only [Bool.and_eq_true, bne_iff_ne, ne_eq] at hce
          exact absurd hs hce.1
        · simp only [hce, Bool.false_eq_true, ↓reduceIte]
          have hsucc : car.status = .success := by
            simp only [Bool.and_eq_true, bne_iff_ne, ne_eq, not_and, Decidable.not_not] at hce
            by_cases h : car.status = .success
            · exact h
            · exact absurd (hce h) a3
          have hp := a4 hsucc
          have hcdr := ih car.pos hp.2 (by omega)
          generalize sx_parse_list s fuel car.pos = cdr at hcdr
          obtain ⟨c1, c2, c3, c4, c5⟩ := hcdr
          cases hna : car.node with
          | none => dsimp only; exact ⟨c1, c2, c3, fun h => by have := c4 h; dsimp only at h ⊢; omega, fun _ => rfl⟩
          | some a =>
            cases hn : cdr.node with
            | none => dsimp only; exact ⟨c1, c2, c3, fun h => by have := c4 h; dsimp only at h ⊢; omega, fun _ => rfl⟩
            | some d =>
              dsimp only
              refine ⟨c1, c2, c3, fun h => by have := c4 h; dsimp only at h ⊢; omega, ?_⟩
              intro he
              have := c5 (by simpa [Res.isError] using he)
              rw [hn] at this; simp at this
      | broken st n pos h hn =>
        have herr : (st != .success && st != .foundList) = true := by
          rcases h with h | h | h <;> simp [h]
        simp only [Res.isError, herr, ↓reduceIte]
        refine ⟨?_, ?_, ?_, ?_, fun _ => rfl⟩ <;> rcases h with h | h | h <;> simp [h]

end Ufw.Lemmas.Sx
