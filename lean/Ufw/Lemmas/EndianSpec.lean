/-
Facts about the arithmetic endian spec (Ufw/Spec/Endian.lean) itself, for every octet count;
used by C15 (as property theorems) and by C13/C01 (as lemmas).  Independent of the C code.
-/
import Ufw.Spec.Endian

namespace Ufw.Lemmas.EndianSpec
open Ufw Ufw.Spec.Endian

/-- a store writes exactly n = width/8 octets -/
theorem store_length (big : Bool) (n v : Nat) : (store big n v).length = n := by
  have h : ∀ n v, (octetsLE n v).length = n := by
    intro n; induction n with
    | zero => intro v; rfl
    | succ n ih => intro v; simp [octetsLE, ih]
  cases big <;> simp [store, h]

theorem valueLE_octetsLE (n : Nat) : ∀ v, valueLE (octetsLE n v) = v % 256 ^ n := by
  induction n with
  | zero => intro v; simp [octetsLE, valueLE, Nat.mod_one]
  | succ n ih =>
    intro v
    simp only [octetsLE, valueLE, ih, BitVec.toNat_ofNat]
    have h1 : v % 256 % 2 ^ 8 = v % 256 := by omega
    rw [h1, Nat.pow_succ, Nat.mul_comm (256 ^ n) 256, Nat.mod_mul]

/-- loading the stored octets returns the value (its low n octets), in either order -/
theorem load_store (big : Bool) (n v : Nat) : loadU big (store big n v) = v % 256 ^ n := by
  cases big <;> simp [loadU, store, valueLE_octetsLE]

/-- big-endian is most significant octet first: memory order reversed w.r.t. little-endian -/
theorem store_big_eq_reverse (n v : Nat) : store true n v = (store false n v).reverse := by
  simp [store]

/-- the first octet of a little-endian store is the least significant one, of a big-endian
    store the most significant one -/
theorem store_first_octet (n v : Nat) :
    (store false (n + 1) v).head? = some (BitVec.ofNat 8 (v % 256)) ∧
    (store true (n + 1) v).getLast? = some (BitVec.ofNat 8 (v % 256)) := by
  simp [store, octetsLE]

/-- the swap helper reverses exactly the low n octets … -/
theorem swap_reverses (n v : Nat) : store false n (swap n v) = (store false n v).reverse := by
  have h : ∀ (l : List Octet), octetsLE l.length (valueLE l) = l := by
    intro l; induction l with
    | nil => rfl
    | cons o os ih =>
      simp only [List.length_cons, octetsLE, valueLE]
      have h1 : (o.toNat + 256 * valueLE os) % 256 = o.toNat := by have := o.isLt; omega
      have h2 : (o.toNat + 256 * valueLE os) / 256 = valueLE os := by have := o.isLt; omega
      rw [h1, h2, ih]; simp
  have hl : (octetsLE n v).reverse.length = n := by
    have := store_length false n v
    simpa [store] using this
  simp only [store, swap, Bool.false_eq_true, ↓reduceIte]
  have := h (octetsLE n v).reverse
  rw [hl] at this
  exact this

/-- … and is an involution on n-octet values -/
theorem swap_involutive (n v : Nat) : swap n (swap n v) = v % 256 ^ n := by
  have h := swap_reverses n v
  simp only [store, Bool.false_eq_true, ↓reduceIte] at h
  simp only [swap] at h ⊢
  rw [h, List.reverse_reverse, valueLE_octetsLE]

/-- signed loads sign-extend: the value of n octets read as two's complement lies in the n-octet
    signed range and is congruent to the unsigned value -/
theorem loadS_range (big : Bool) (l : List Octet) (hl : 0 < l.length) :
    inRangeS (8 * l.length) (loadS big l) = true ∧
    ((loadS big l - loadU big l) % (2 : Int) ^ (8 * l.length) = 0) := by
  have hv : ∀ l : List Octet, valueLE l < 2 ^ (8 * l.length) := by
    intro l; induction l with
    | nil => simp [valueLE]
    | cons o os ih =>
      simp only [valueLE, List.length_cons]
      have := o.isLt
      have e : 2 ^ (8 * (os.length + 1)) = 256 * 2 ^ (8 * os.length) := by
        rw [Nat.mul_add, Nat.pow_add]; simp; omega
      omega
  have hu : loadU big l < 2 ^ (8 * l.length) := by
    cases big
    · simpa [loadU] using hv l
    · have := hv l.reverse; simpa [loadU] using this
  obtain ⟨k, hk⟩ : ∃ k, 8 * l.length = k + 1 := ⟨8 * l.length - 1, by omega⟩
  simp only [loadS, inRangeS, hk, Nat.add_sub_cancel] at hu ⊢
  have e : (2 : Int) ^ (k + 1) = 2 * 2 ^ k := by rw [Int.pow_succ]; omega
  have e' : (2 : Nat) ^ (k + 1) = 2 * 2 ^ k := by rw [Nat.pow_succ]; omega
  have hp : (0 : Int) < 2 ^ k := Int.pow_pos (by decide)
  have hc : ((2 ^ k : Nat) : Int) = (2 : Int) ^ k := by simp
  split
  · next h =>
    refine ⟨?_, by rw [Int.sub_self]; rfl⟩
    simp only [Bool.and_eq_true, decide_eq_true_eq]
    omega
  · next h =>
    refine ⟨?_, ?_⟩
    rotate_left
    · have e2 : ((loadU big l : Int) - 2 ^ (k + 1) - (loadU big l : Int)) = -(2 ^ (k + 1)) := by omega
      rw [e2]; exact Int.emod_eq_zero_of_dvd (Int.dvd_neg.mpr (Int.dvd_refl _))
    simp only [Bool.and_eq_true, decide_eq_true_eq]
    omega

/-- the range predicates accept exactly the representable values -/
theorem inrange_iff_representable (bits : Nat) (v : Nat) (x : Int) :
    (inRangeU bits v = true ↔ v < 2 ^ bits) ∧
    (inRangeS bits x = true ↔ (-(2 : Int) ^ (bits - 1) ≤ x ∧ x < 2 ^ (bits - 1))) := by
  simp [inRangeU, inRangeS]

end Ufw.Lemmas.EndianSpec
