/-
Spec-level sanity of the register protocol description (C07, C08): reading the octets the
document prescribes for a well-formed frame gives that frame back.
-/
import Ufw.Lemmas.Regp

namespace Ufw.Lemmas.Regp
open Ufw
open Ufw.Spec.Regp

theorem word0_arith : ∀ t, t < 16 → ∀ o, o < 8 → ∀ m, m < 16 →
    let w := m * 4096 + o * 256 + t * 16
    w < 65536 ∧ w % 16 = 0 ∧ w / 16 % 16 = t ∧ w / 2 ^ 11 % 2 = 0 ∧ w / 4096 % 16 = m ∧
    w / 2 ^ 8 % 2 = o % 2 ∧ w / 2 ^ 9 % 2 = o / 2 % 2 ∧ w / 2 ^ 10 % 2 = o / 4 % 2 := by
  decide +kernel

/-- a frame whose fields fit their header slots and which obeys the code and size rules -/
structure WellFormed (f : Frame) : Prop where
  code  : codeValid f.type f.code = true
  seq   : f.seq < 65536
  addr  : f.addr < 4294967296
  size  : f.size < 4294967296
  sized : sizeValid f = true
  plcrc : f.plcrc = true → f.payload ≠ []

theorem codeValid_lt (t : MType) (m : Nat) (h : codeValid t m = true) : m < 16 := by
  cases t <;> simp [codeValid] at h <;> omega

theorem options_lt (f : Frame) : f.options < 8 := by
  simp only [Frame.options]; split <;> split <;> split <;> omega

theorem parts (A B C D T : List Octet) (hA : A.length = 2) (hB : B.length = 2) (hC : C.length = 4) (hD : D.length = 4) :
    (A ++ B ++ C ++ D ++ T).take 2 = A ∧ ((A ++ B ++ C ++ D ++ T).drop 2).take 2 = B ∧
    ((A ++ B ++ C ++ D ++ T).drop 4).take 4 = C ∧ ((A ++ B ++ C ++ D ++ T).drop 8).take 4 = D ∧
    (A ++ B ++ C ++ D ++ T).take 12 = A ++ B ++ C ++ D ∧ (A ++ B ++ C ++ D ++ T).drop 12 = T ∧
    (A ++ B ++ C ++ D ++ T).length = 12 + T.length := by
  refine ⟨?_, ?_, ?_, ?_, ?_, ?_, ?_⟩
  · simp only [List.append_assoc]; exact List.take_left' hA
  · simp only [List.append_assoc]; rw [List.drop_left' hA]; exact List.take_left' hB
  · have : (A ++ B ++ C ++ D ++ T) = (A ++ B) ++ (C ++ (D ++ T)) := by simp
    rw [this, List.drop_left' (by simp [hA, hB])]; exact List.take_left' hC
  · have : (A ++ B ++ C ++ D ++ T) = (A ++ B ++ C) ++ (D ++ T) := by simp
    rw [this, List.drop_left' (by simp [hA, hB, hC])]; exact List.take_left' hD
  · exact List.take_left' (by simp [hA, hB, hC, hD])
  · exact List.drop_left' (by simp [hA, hB, hC, hD])
  · simp [hA, hB, hC, hD]; omega

theorem options_bits (f : Frame) :
    decide (f.options % 2 = 1) = f.ws16 ∧ decide (f.options / 2 % 2 = 1) = f.hdcrc ∧
    decide (f.options / 4 % 2 = 1) = f.plcrc := by
  simp only [Frame.options]
  by_cases a : f.ws16 = true <;> by_cases b : f.hdcrc = true <;> by_cases d : f.plcrc = true <;> simp [a, b, d]

theorem frame_eta (f : Frame) (a b : Bool) (P : List Octet) (ha : f.hdcrc = a) (hb : f.plcrc = b)
    (hP : P = f.payload) :
    ({ type := f.type, ws16 := f.ws16, hdcrc := a, plcrc := b, code := f.code, seq := f.seq, addr := f.addr,
       size := f.size, payload := P } : Frame) = f := by
  subst ha hb hP; rfl

theorem unbe_be_crc (l : List Octet) : unbe (be 2 (crc16 l)) = crc16 l := by
  rw [unbe_be]; exact Nat.mod_eq_of_lt (crc16_lt l)

theorem classify_octets (f : Frame) (wf : WellFormed f) : classify f.octets = .accept f := by
  have hm := codeValid_lt _ _ wf.code
  have ht : f.type.code < 16 := by cases f.type <;> simp [MType.code]
  have ho := options_lt f
  obtain ⟨w1, w2, w3, w4, w5, w6, w7, w8⟩ := word0_arith _ ht _ ho _ hm
  have hw : f.word0 = f.code * 4096 + f.options * 256 + f.type.code * 16 := rfl
  rw [← hw] at w1 w2 w3 w4 w5 w6 w7 w8
  have hcode : MType.ofCode f.type.code = some f.type := by cases f.type <;> rfl
  -- the frame as head ++ tail
  obtain ⟨T, hT⟩ : ∃ T, T = (if f.hdcrc then be 2 (crc16 (be 2 f.word0 ++ be 2 f.seq ++ be 4 f.addr ++ be 4 f.size ++
      (if f.plcrc then be 2 (crc16 f.payload) else []))) else []) ++
      (if f.plcrc then be 2 (crc16 f.payload) else []) ++ f.payload := ⟨_, rfl⟩
  have hoct : f.octets = be 2 f.word0 ++ be 2 f.seq ++ be 4 f.addr ++ be 4 f.size ++ T := by
    simp only [Frame.octets, hT, List.append_assoc]
  obtain ⟨p1, p2, p3, p4, p5, p6, p7⟩ := parts (be 2 f.word0) (be 2 f.seq) (be 4 f.addr) (be 4 f.size) T
    (be_length _ _) (be_length _ _) (be_length _ _) (be_length _ _)
  rw [← hoct] at p1 p2 p3 p4 p5 p6 p7
  have hlen : ¬ f.octets.length < 12 := by omega
  simp only [classify, hlen, ↓reduceIte, p1, unbe_be, Nat.reducePow, Nat.mod_eq_of_lt w1]
  obtain ⟨o1, o2, o3⟩ := options_bits f
  simp only [classifyWord, w2, w3, hcode, bit, w4, w5, w6, w7, w8, wf.code, p2, p3, p4, p5, unbe_be, o1, o2, o3,
    Nat.reducePow, Nat.mod_eq_of_lt wf.seq, Nat.mod_eq_of_lt wf.addr, Nat.mod_eq_of_lt wf.size]
  have d : ∀ k, List.drop (12 + k) f.octets = List.drop k T := by intro k; rw [← p6, List.drop_drop]
  have hsz := wf.sized
  cases hh : f.hdcrc <;> cases hp : f.plcrc <;> simp only [hh, hp, Bool.false_eq_true, ↓reduceIte, List.nil_append,
    List.append_nil] at hT ⊢
  · -- no checksums
    have e0 : List.drop 12 f.octets = f.payload := by rw [p6, hT]
    simp [e0, frame_eta f false false f.payload hh hp rfl, hsz, hlen]
  · -- payload checksum only
    have e12 : List.take 2 (List.drop 12 f.octets) = be 2 (crc16 f.payload) := by
      rw [p6, hT]; exact List.take_left' (be_length _ _)
    have e14 : List.drop 14 f.octets = f.payload := by
      rw [d 2, hT]; exact List.drop_left' (be_length _ _)
    have hl : ¬ f.octets.length < 14 := by rw [p7, hT]; simp [be_length]; omega
    simp [e12, e14, frame_eta f false true f.payload hh hp rfl, hsz, hl, unbe_be_crc]
  · -- header checksum only
    have e12 : List.take 2 (List.drop 12 f.octets) =
        be 2 (crc16 (be 2 f.word0 ++ be 2 f.seq ++ be 4 f.addr ++ be 4 f.size)) := by
      rw [p6, hT]; exact List.take_left' (be_length _ _)
    have e14 : List.drop 14 f.octets = f.payload := by
      rw [d 2, hT]; exact List.drop_left' (be_length _ _)
    have hl : ¬ f.octets.length < 14 := by rw [p7, hT]; simp [be_length]; omega
    simp [e12, e14, frame_eta f true false f.payload hh hp rfl, hsz, hl, unbe_be_crc]
  · -- both checksums
    have e12 : List.take 2 (List.drop 12 f.octets) =
        be 2 (crc16 (be 2 f.word0 ++ be 2 f.seq ++ be 4 f.addr ++ be 4 f.size ++ be 2 (crc16 f.payload))) := by
      rw [p6, hT, List.append_assoc]; exact List.take_left' (be_length _ _)
    have e14 : List.take 2 (List.drop 14 f.octets) = be 2 (crc16 f.payload) := by
      rw [d 2, hT, List.append_assoc, List.drop_left' (be_length _ _)]; exact List.take_left' (be_length _ _)
    have e16 : List.drop 16 f.octets = f.payload := by
      rw [d 4, hT]; exact List.drop_left' (by simp [be_length])
    have hl : ¬ f.octets.length < 16 := by rw [p7, hT]; simp [be_length]; omega
    simp [e12, e14, e16, frame_eta f true true f.payload hh hp rfl, hsz, hl, unbe_be_crc]

end Ufw.Lemmas.Regp
