import Ufw.Model.Sx
namespace Ufw.Props.C20
open Ufw Ufw.Model.Sx
/-- an error status never comes with a tree -/
theorem error_no_tree (s : List Octet) (i : Nat) : (sx_parse s i).isError = true → (sx_parse s i).node = none := by
  simp only [sx_parse]
  generalize (if (sx_parse_token s i).status == Status.foundList then sx_parse_list s (s.length + 1) (sx_parse_token s i).pos
      else if (sx_parse_token s i).isEmptyList then ({ status := Status.unknownInput, pos := (sx_parse_token s i).pos } : Res)
      else if (sx_parse_token s i).status == Status.success ∧ (sx_parse_token s i).node.isNone then
        { sx_parse_token s i with status := Status.unexpectedEnd }
      else sx_parse_token s i) = r
  intro h
  by_cases hr : r.isError = true
  · simp [hr]
  · simp only [hr, Bool.false_eq_true, ↓reduceIte] at h
end Ufw.Props.C20
