/-
C20 – the s-expression reader: property theorems.

Proved for EVERY input (any octet string, any start position inside it, length-delimited without
terminator): no octet outside the input is read (`no_outside_read`), the reader terminates - the
recursion over nested lists never runs out of its fuel of length + 1 (`terminates`), an error
status never comes with a tree (`error_no_tree`), a success reports a position inside the input
and behind the start (`success_forward`).  NOT proved (correspondence only): that the rendering of
every tree parses back to that tree (`parse_render`), and leak freedom (observed by LeakSanitizer).
-/
import Ufw.Model.Sx
import Ufw.Lemmas.Sx
namespace Ufw.Props.C20
open Ufw Ufw.Model.Sx Ufw.Lemmas.Sx
/-- an error status never comes with a tree -/
theorem error_no_tree (s : List Octet) (i : Nat) : (sx_parse s i).isError = true → (sx_parse s i).node = none := by
  simp only [sx_parse]
  generalize (if (sx_parse_token s i).status == Status.foundList then sx_parse_list s (s.length + 1) (sx_parse_token s i).pos
      else if (sx_parse_token s i).isEmptyList then ({ status := Status.unknownInput, pos := (sx_parse_token s i).pos } : Res)
      else if (sx_parse_token s i).status == Status.success ∧ (sx_parse_token s i).node.isNone then
        { sx_parse_token s i with status := Status.unexpectedEnd }
      else sx_parse_token s i) = r
  intro h
  by_cases hr : r.isError = true
  · simp [hr]
  · simp only [hr, Bool.false_eq_true, ↓reduceIte] at h
/-- shape of every answer of `sx_parse` on a start position inside the input -/
private theorem parse_shape (s : List Octet) (i : Nat) (h : i ≤ s.length) :
    (sx_parse s i).status ≠ .oob ∧ (sx_parse s i).status ≠ .diverge ∧
    ((sx_parse s i).status = .success → i < (sx_parse s i).pos ∧ (sx_parse s i).pos ≤ s.length) := by
  simp only [sx_parse]
  have hts := token_shape s i h
  generalize sx_parse_token s i = tok at hts
  cases hts with
  | atEnd => simp [Res.isError, Res.isEmptyList]
  | atom t pos h1 h2 =>
    by_cases hnil : t = .nil
    · subst hnil; simp [Res.isError, Res.isEmptyList]
    · simp [Res.isError, Res.isEmptyList, hnil]; omega
  | openParen pos h1 h2 =>
    have hl := list_shape s (s.length + 1) pos h2 (by omega)
    have e2 : (Status.foundList == Status.success) = false := by decide
    have e3 : (Status.foundList == Status.foundList) = true := by decide
    simp only [e3, ↓reduceIte]
    generalize sx_parse_list s (s.length + 1) pos = r at hl
    obtain ⟨a1, a2, a3, a4, a5⟩ := hl
    by_cases he : r.isError = true
    · simp only [he, ↓reduceIte]
      refine ⟨a1, a2, ?_⟩
      intro hs
      simp [Res.isError, hs] at he
    · simp only [he, Bool.false_eq_true, ↓reduceIte]
      exact ⟨a1, a2, fun hs => by have := a4 hs; omega⟩
  | broken st n pos hb hn =>
    have herr : (st != .success && st != .foundList) = true := by
      rcases hb with h | h | h <;> simp [h]
    have e1 : (st == Status.foundList) = false := by rcases hb with h | h | h <;> simp [h]
    have e2 : (st == Status.success) = false := by rcases hb with h | h | h <;> simp [h]
    simp only [Res.isError, Res.isEmptyList, e1, e2, Bool.false_eq_true, ↓reduceIte, Bool.false_and, false_and, herr]
    rcases hb with h | h | h <;> simp [h]

/-- no octet outside the given input is read: for every octet string and every start position -/
theorem no_outside_read (s : List Octet) (i : Nat) (h : i ≤ s.length) : (sx_parse s i).status ≠ .oob :=
  (parse_shape s i h).1

/-- the reader terminates on every input: nesting never exhausts the fuel of length + 1 -/
theorem terminates (s : List Octet) (i : Nat) (h : i ≤ s.length) : (sx_parse s i).status ≠ .diverge :=
  (parse_shape s i h).2.1

/-- a success reports a position behind the start and inside the input -/
theorem success_forward (s : List Octet) (i : Nat) (h : i ≤ s.length) (hs : (sx_parse s i).status = .success) :
    i < (sx_parse s i).pos ∧ (sx_parse s i).pos ≤ s.length :=
  (parse_shape s i h).2.2 hs

/-- the same two guarantees for the list reader with any sufficient fuel and any start -/
theorem list_reader_safe (s : List Octet) (fuel i : Nat) (h : i ≤ s.length) (hf : s.length - i < fuel) :
    (sx_parse_list s fuel i).status ≠ .oob ∧ (sx_parse_list s fuel i).status ≠ .diverge :=
  ⟨(list_shape s fuel i h hf).noOob, (list_shape s fuel i h hf).noDiverge⟩

/-! #### concrete instances (these are tests, labelled as such) -/

-- "(a (1 #xFf) ())" parses to (a (1 255) ()) and reports position 15
example : sx_parse (([40, 97, 32, 40, 49, 32, 35, 120, 70, 102, 41, 32, 40, 41, 41] : List Nat).map (BitVec.ofNat 8)) 0 =
    Res.mk .success
      (some (.cons (.sym [97#8]) (.cons (.cons (.int 1) (.cons (.int 255) .nil)) (.cons .nil .nil)))) 15 := by
  decide +kernel

end Ufw.Props.C20
