/-
C20 – the s-expression reader: property theorems.

Proved for EVERY input (any octet string, any start position inside it, length-delimited without
terminator): no octet outside the input is read (`no_outside_read`), the reader terminates - the
recursion over nested lists never runs out of its fuel of length + 1 (`terminates`), an error
status never comes with a tree (`error_no_tree`), a success reports a position inside the input
and behind the start (`success_forward`).

Proved for EVERY tree of the statement and EVERY rendering of it (`Spec.Sx.Expr`: symbols, decimal
and `#x` integers with digits in either case and any leading zeros, nested proper lists including
empty ones, any white space in front of any token): the reader returns exactly that tree and the
position just past the rendering (`parse_rendering`), wherever the rendering starts in the input
and whatever follows it (a delimiter or the end, after a symbol or number).  Every such tree has a
rendering (`render_is_rendering`), hence `parse_render`: reading `render t` gives back `t`.
NOT proved: leak freedom of the C code (observed by LeakSanitizer and a malloc ledger).
-/
import Ufw.Model.Sx
import Ufw.Spec.Sx
import Ufw.Lemmas.Sx
import Ufw.Lemmas.SxRender
import Ufw.Lemmas.SxHeap
namespace Ufw.Props.C20
open Ufw Ufw.Model.Sx Ufw.Lemmas.Sx Ufw.Spec.Sx Ufw.Lemmas.SxRender
/-- an error status never comes with a tree -/
theorem error_no_tree (s : List Octet) (i : Nat) : (sx_parse s i).isError = true → (sx_parse s i).node = none := by
  simp only [sx_parse]
  generalize (if (sx_parse_token s i).status == Status.foundList then sx_parse_list s (s.length + 1) (sx_parse_token s i).pos
      else if (sx_parse_token s i).isEmptyList then ({ status := Status.unknownInput, pos := (sx_parse_token s i).pos } : Res)
      else if (sx_parse_token s i).status == Status.success ∧ (sx_parse_token s i).node.isNone then
        { sx_parse_token s i with status := Status.unexpectedEnd }
      else sx_parse_token s i) = r
  intro h
  by_cases hr : r.isError = true
  · simp [hr]
  · simp only [hr, Bool.false_eq_true, ↓reduceIte] at h
/-- shape of every answer of `sx_parse` on a start position inside the input -/
private theorem parse_shape (s : List Octet) (i : Nat) (h : i ≤ s.length) :
    (sx_parse s i).status ≠ .oob ∧ (sx_parse s i).status ≠ .diverge ∧
    ((sx_parse s i).status = .success → i < (sx_parse s i).pos ∧ (sx_parse s i).pos ≤ s.length) := by
  simp only [sx_parse]
  have hts := token_shape s i h
  generalize sx_parse_token s i = tok at hts
  cases hts with
  | atEnd => simp [Res.isError, Res.isEmptyList]
  | atom t pos h1 h2 =>
    by_cases hnil : t = .nil
    · subst hnil; simp [Res.isError, Res.isEmptyList]
    · simp [Res.isError, Res.isEmptyList, hnil]; omega
  | openParen pos h1 h2 =>
    have hl := list_shape s (s.length + 1) pos h2 (by omega)
    have e2 : (Status.foundList == Status.success) = false := by decide
    have e3 : (Status.foundList == Status.foundList) = true := by decide
    simp only [e3, ↓reduceIte]
    generalize sx_parse_list s (s.length + 1) pos = r at hl
    obtain ⟨a1, a2, a3, a4, a5⟩ := hl
    by_cases he : r.isError = true
    · simp only [he, ↓reduceIte]
      refine ⟨a1, a2, ?_⟩
      intro hs
      simp [Res.isError, hs] at he
    · simp only [he, Bool.false_eq_true, ↓reduceIte]
      exact ⟨a1, a2, fun hs => by have := a4 hs; omega⟩
  | broken st n pos hb hn =>
    have herr : (st != .success && st != .foundList) = true := by
      rcases hb with h | h | h <;> simp [h]
    have e1 : (st == Status.foundList) = false := by rcases hb with h | h | h <;> simp [h]
    have e2 : (st == Status.success) = false := by rcases hb with h | h | h <;> simp [h]
    simp only [Res.isError, Res.isEmptyList, e1, e2, Bool.false_eq_true, ↓reduceIte, Bool.false_and, false_and, herr]
    rcases hb with h | h | h <;> simp [h]

/-- no octet outside the given input is read: for every octet string and every start position -/
theorem no_outside_read (s : List Octet) (i : Nat) (h : i ≤ s.length) : (sx_parse s i).status ≠ .oob :=
  (parse_shape s i h).1

/-- the reader terminates on every input: nesting never exhausts the fuel of length + 1 -/
theorem terminates (s : List Octet) (i : Nat) (h : i ≤ s.length) : (sx_parse s i).status ≠ .diverge :=
  (parse_shape s i h).2.1

/-- a success reports a position behind the start and inside the input -/
theorem success_forward (s : List Octet) (i : Nat) (h : i ≤ s.length) (hs : (sx_parse s i).status = .success) :
    i < (sx_parse s i).pos ∧ (sx_parse s i).pos ≤ s.length :=
  (parse_shape s i h).2.2 hs

/-- the same two guarantees for the list reader with any sufficient fuel and any start -/
theorem list_reader_safe (s : List Octet) (fuel i : Nat) (h : i ≤ s.length) (hf : s.length - i < fuel) :
    (sx_parse_list s fuel i).status ≠ .oob ∧ (sx_parse_list s fuel i).status ≠ .diverge :=
  ⟨(list_shape s fuel i h hf).noOob, (list_shape s fuel i h hf).noDiverge⟩

/-- The reader inverts printing: for every tree `t` and every rendering `r` of it, reading at the start
    of `ws ++ r` (any white space `ws`), anywhere in an input (`pre` in front, `rest` behind - a
    symbol or number must be followed by a delimiter or the end), yields exactly `t` and the position
    just past `r`. -/
theorem parse_rendering (t : Tree) (r : List Octet) (h : Expr t r) (pre ws rest : List Octet) (hw : AllWs ws)
    (he : AtomEnd rest) :
    sx_parse (pre ++ (ws ++ (r ++ rest))) pre.length =
      { status := .success, node := some t, pos := pre.length + ws.length + r.length } := by
  match h with
  | .atom _ _ ha => exact parse_atom t r ha pre ws rest hw he
  | .list _ body hb => exact parse_list t body hb pre ws rest hw

/-- every tree of the statement (symbols, integers below 2^64, proper lists) has a rendering -/
theorem render_is_rendering (t : Tree) (h : Proper t) : Expr t (render t) := (render_ok t h).1

/-- reading the canonical rendering of a tree, after any white space, gives back the tree and
    reports the end of the input -/
theorem parse_render (t : Tree) (h : Proper t) (ws : List Octet) (hw : AllWs ws) :
    sx_parse (ws ++ render t) 0 = { status := .success, node := some t, pos := (ws ++ render t).length } := by
  have := parse_rendering t (render t) (render_is_rendering t h) [] ws [] hw trivial
  simpa using this

/-- every unsigned 64-bit integer in upper- or lower-case hexadecimal: a rendering in the sense above -/
theorem hex_rendering (ds : List Octet) (hne : ds ≠ []) (h : ∀ d ∈ ds, isHex d = true) (hv : value 16 ds < 2 ^ 64) :
    sx_parse (35#8 :: 120#8 :: ds) 0 =
      { status := .success, node := some (.int (value 16 ds)), pos := ds.length + 2 } := by
  have := parse_rendering _ _ (Expr.atom _ _ (Atom.hex ds hne h hv)) [] [] [] (fun _ hc => by cases hc) trivial
  simpa using this

/-! #### concrete instances (these are tests, labelled as such) -/

-- the hypotheses are satisfiable by a non-trivial tree: (ab (7 ()) x)
example : Proper (.cons (.sym [97#8, 98#8]) (.cons (.cons (.int 7) (.cons .nil .nil)) (.cons (.sym [120#8]) .nil))) := by
  refine ⟨⟨97#8, [98#8], rfl, by decide, by decide⟩,
    ⟨⟨?_, ⟨trivial, trivial, trivial⟩, trivial⟩, ⟨⟨120#8, [], rfl, by decide, by decide⟩, trivial, trivial⟩, trivial⟩, trivial⟩
  show 7 < 2 ^ 64
  decide
example : render (.cons (.sym [97#8, 98#8]) (.cons (.cons (.int 7) (.cons .nil .nil)) (.cons (.sym [120#8]) .nil))) =
    [40#8, 97#8, 98#8, 32#8, 40#8, 55#8, 32#8, 40#8, 41#8, 41#8, 32#8, 120#8, 41#8] := by
  simp [render, renderTail, decDigits]


-- "(a (1 #xFf) ())" parses to (a (1 255) ()) and reports position 15
example : sx_parse (([40, 97, 32, 40, 49, 32, 35, 120, 70, 102, 41, 32, 40, 41, 41] : List Nat).map (BitVec.ofNat 8)) 0 =
    Res.mk .success
      (some (.cons (.sym [97#8]) (.cons (.cons (.int 1) (.cons (.int 255) .nil)) (.cons .nil .nil)))) 15 := by
  decide +kernel

section Heap
open Ufw.Model.SxHeap Ufw.Lemmas.SxHeap

/-! ### no allocation leaked (heap view, Model/SxHeap) -/

/-- **no allocation leaked**: whatever the input, everything the reader allocated is either part of the tree
    it returns or has been released by the time it returns -/
theorem allocations_accounted (s : List Octet) (i : Nat) :
    (parse_h s i).allocs = (parse_h s i).freed + (parse_h s i).node.weight := by
  have hl := list_h_allocs s (s.length + 1) (token_h s i).pos
  have ht := token_h_allocs s i
  simp only [parse_h]
  split
  · split
    · simp only [PTree.weight, hl]; omega
    · simp only [hl]; omega
  · split
    · simp only [PTree.weight, ht]; omega
    · split
      · rename_i hn
        simp only [PTree.weight, ht, hn.2]
      · split
        · simp only [PTree.weight, ht]; omega
        · simp only [ht]; omega

/-- on an error nothing is left allocated, and no tree is handed out -/
theorem error_frees_everything (s : List Octet) (i : Nat)
    (h : (parse_h s i).status ≠ .success) (hf : (parse_h s i).status ≠ .foundList) :
    (parse_h s i).node = .null ∧ (parse_h s i).freed = (parse_h s i).allocs := by
  have hacc := allocations_accounted s i
  have hnull : (parse_h s i).node = .null := by
    simp only [parse_h] at h hf ⊢
    split
    · split
      · rfl
      · rename_i hne
        rename_i hfl
        simp only [hfl, ↓reduceIte, hne] at h hf
        exfalso
        simp only [HRes.isError, Bool.and_eq_true, bne_iff_ne, ne_eq, not_and, Decidable.not_not] at hne
        exact hf (hne h)
    · split
      · rfl
      · split
        · rfl
        · split
          · rfl
          · rename_i h1 h2 h3 hne
            simp only [h1, h2, h3, hne, ↓reduceIte] at h hf
            exfalso
            simp only [HRes.isError, Bool.and_eq_true, bne_iff_ne, ne_eq, not_and, Decidable.not_not] at hne
            exact hf (hne h)
  refine ⟨hnull, ?_⟩
  rw [hnull] at hacc
  simp only [PTree.weight] at hacc
  omega



/-- the heap view answers like the reader the other theorems speak about: same status, same position, same tree -/
theorem heap_view_refines (s : List Octet) (i : Nat) :
    (parse_h s i).status = (sx_parse s i).status ∧ (parse_h s i).pos = (sx_parse s i).pos ∧
    (parse_h s i).node = optTree (sx_parse s i).node := by
  obtain ⟨l1, l2, l3⟩ := list_h_refines s (s.length + 1) (sx_parse_token s i).pos
  have hts : (token_h s i).status = (sx_parse_token s i).status := rfl
  have htp : (token_h s i).pos = (sx_parse_token s i).pos := rfl
  have htn : (token_h s i).node = optTree (sx_parse_token s i).node := rfl
  have hte : (token_h s i).isError = (sx_parse_token s i).isError := rfl
  by_cases hf : ((sx_parse_token s i).status == .foundList) = true
  · have hle : (list_h s (s.length + 1) (sx_parse_token s i).pos).isError =
        (sx_parse_list s (s.length + 1) (sx_parse_token s i).pos).isError := by
      simp only [HRes.isError, Res.isError, l1]
    by_cases herr : (sx_parse_list s (s.length + 1) (sx_parse_token s i).pos).isError = true
    · simp only [parse_h, sx_parse, hts, htp, hf, ↓reduceIte, hle, herr]
      exact ⟨l1, l2, rfl⟩
    · simp only [parse_h, sx_parse, hts, htp, hf, ↓reduceIte, hle, herr, Bool.false_eq_true]
      exact ⟨l1, l2, l3 (by simpa using herr)⟩
  · by_cases hel : (sx_parse_token s i).isEmptyList = true
    · simp only [parse_h, sx_parse, hts, htp, hf, Bool.false_eq_true, ↓reduceIte, tokL, hel]
      simp [Res.isError, optTree]
    · by_cases hn : ((sx_parse_token s i).status == .success) = true ∧ (sx_parse_token s i).node.isNone = true
      · have hn' : ((sx_parse_token s i).status == .success) = true ∧ (token_h s i).node = .null := by
          have := (tokN s i).mpr hn; simpa [hts] using this
        simp only [parse_h, sx_parse, hts, htp, hf, Bool.false_eq_true, ↓reduceIte, tokL, hel, hn, hn', and_self]
        simp [Res.isError, optTree]
      · have hn' : ¬ (((sx_parse_token s i).status == .success) = true ∧ (token_h s i).node = .null) :=
          fun h => hn ((tokN s i).mp (by simpa [hts] using h))
        by_cases herr : (sx_parse_token s i).isError = true
        · simp only [parse_h, sx_parse, hts, htp, hf, Bool.false_eq_true, ↓reduceIte, tokL, hel, hn, hn', hte, herr]
          simp [optTree]
        · simp only [parse_h, sx_parse, hts, htp, hf, Bool.false_eq_true, ↓reduceIte, tokL, hel, hn, hn', hte, herr]
          exact ⟨trivial, trivial, htn⟩


end Heap

end Ufw.Props.C20
