/-
C04 – table initialisation accepts exactly the well-formed tables.  Property theorems only.

Proved: the ordering rule (`orderCheck` reports the first index at which "ascending" resp.
"non-overlapping" fails, and nothing on an ascending non-overlapping sequence), the precedence of
the rules, that a table whose initialisation failed is left uninitialised so that every typed,
block, iteration and sanitise operation reports it as such, and that a successful initialisation
leaves it initialised.  NOT proved (correspondence only, named in DESIGN.md): the post-state of a
successful initialisation (defaults read back, remaining memory zero, first/last/count of areas).
-/
import Ufw.Lemmas.RegTable
import Ufw.Props.C03
import Ufw.Props.C01

namespace Ufw.Props.C04
open Ufw Ufw.Model.RegTable Ufw.Lemmas.RegTable

/-- items (address, size) are ascending and do not overlap -/
def Ordered : List (Nat × Nat) → Prop
  | [] => True
  | [_] => True
  | (a, s) :: (b, sb) :: rest => a + s ≤ b ∧ Ordered ((b, sb) :: rest)

/-- the ordering rule: `none` exactly on ascending, non-overlapping sequences -/
theorem orderCheck_go_none (i prev prevSize : Nat) (l : List (Nat × Nat)) :
    orderCheck.go i prev prevSize l = none ↔ Ordered ((prev, prevSize) :: l) := by
  induction l generalizing i prev prevSize with
  | nil => simp [orderCheck.go, Ordered]
  | cons x rest ih =>
    obtain ⟨cur, sz⟩ := x
    simp only [orderCheck.go, Ordered]
    by_cases h1 : cur < prev
    · simp only [h1, ↓reduceIte, reduceCtorEq, false_iff, not_and]
      intro h; omega
    · simp only [h1, ↓reduceIte]
      by_cases h2 : cur < prev + prevSize
      · simp only [h2, ↓reduceIte, reduceCtorEq, false_iff, not_and]
        intro h; omega
      · simp only [h2, ↓reduceIte, ih]
        constructor
        · intro h; exact ⟨by omega, h⟩
        · intro h; exact h.2

/-- ... and otherwise the index of the first offending item with the rule it breaks: `false` =
    not ascending, `true` = overlapping its predecessor -/
theorem orderCheck_go_some (i prev prevSize : Nat) (l : List (Nat × Nat)) (ov : Bool) (k : Nat)
    (h : orderCheck.go i prev prevSize l = some (ov, k)) :
    i ≤ k ∧ k < i + l.length ∧
    ∃ p ps c cs, (((prev, prevSize) :: l)[k - i]? = some (p, ps)) ∧ l[k - i]? = some (c, cs) ∧
      (if ov then p ≤ c ∧ c < p + ps else c < p) ∧
      Ordered (((prev, prevSize) :: l).take (k - i + 1)) := by
  induction l generalizing i prev prevSize with
  | nil => simp [orderCheck.go] at h
  | cons x rest ih =>
    obtain ⟨cur, sz⟩ := x
    simp only [orderCheck.go] at h
    by_cases h1 : cur < prev
    · simp only [h1, ↓reduceIte, Option.some.injEq, Prod.mk.injEq] at h
      obtain ⟨rfl, rfl⟩ := h
      refine ⟨Nat.le_refl _, by simp, prev, prevSize, cur, sz, by simp, by simp, by simpa using h1, by simp [Ordered]⟩
    · simp only [h1, ↓reduceIte] at h
      by_cases h2 : cur < prev + prevSize
      · simp only [h2, ↓reduceIte, Option.some.injEq, Prod.mk.injEq] at h
        obtain ⟨rfl, rfl⟩ := h
        refine ⟨Nat.le_refl _, by simp, prev, prevSize, cur, sz, by simp, by simp, ?_, by simp [Ordered]⟩
        simp only [↓reduceIte]; omega
      · simp only [h2, ↓reduceIte] at h
        obtain ⟨g1, g2, p, ps, c, cs, e1, e2, e3, e4⟩ := ih (i + 1) cur sz h
        have hk : k - i = (k - (i + 1)) + 1 := by omega
        refine ⟨by omega, by simp only [List.length_cons]; omega, p, ps, c, cs, ?_, ?_, e3, ?_⟩
        · rw [hk, List.getElem?_cons_succ]; exact e1
        · rw [hk, List.getElem?_cons_succ]; exact e2
        · rw [hk, List.take_succ_cons]
          cases hrest : ((cur, sz) :: rest).take (k - (i + 1) + 1) with
          | nil => simp [Ordered]
          | cons y ys =>
            have hy : y = (cur, sz) := by
              have := congrArg List.head? hrest
              simpa using this.symm
            subst hy
            rw [hrest] at e4
            exact ⟨by omega, e4⟩

/-! ### a failed initialisation leaves the table unusable, a successful one usable -/

private theorem load_inv (cb : Nat → Value → Bool) (fw : InitCode → Nat → Table → InitRes × Table)
    (hfw : ∀ c p t, (fw c p t).1.code = c ∧ (fw c p t).2.initialised = false) :
    ∀ (todo i : Nat) (t : Table), t.initialised = true →
      ((register_init.load cb fw todo i t).1.code = .success ∧ (register_init.load cb fw todo i t).2.initialised = true) ∨
      ((register_init.load cb fw todo i t).1.code ≠ .success ∧ (register_init.load cb fw todo i t).2.initialised = false) := by
  intro todo
  induction todo with
  | zero => intro i t h; left; simp [register_init.load, h]
  | succ n ih =>
    intro i t h
    simp only [register_init.load]
    cases he : t.entries[i]? with
    | none => left; simp [h]
    | some e =>
      simp only
      cases hm : reg_entry_is_in_memory t e with
      | none => right; simp [(hfw _ _ _).1, (hfw _ _ _).2]
      | some v =>
        obtain ⟨ai, off⟩ := v
        simp only
        cases ha : t.areas[ai]? with
        | none => right; simp [(hfw _ _ _).1, (hfw _ _ _).2]
        | some a =>
          simp only
          by_cases hn : need_to_load_default a = true
          · simp only [hn, ↓reduceIte]
            rcases hset : register_set cb { t with entries := t.entries.set i { e with area := ai, offset := off } } i
                ⟨e.type, e.default⟩ with ⟨⟨code, adr⟩, t'⟩
            by_cases hc : code = .success
            · subst hc
              simp only
              obtain ⟨_, _, _, _, _, _, _, _, _, _, _, ht'⟩ :=
                Ufw.Props.C01.set_success_inv cb _ t' i _ true adr hset
              exact ih (i + 1) t' (by rw [ht']; exact h)
            · right
              cases code <;> simp_all [(hfw _ _ _).1, (hfw _ _ _).2]
          · simp only [hn, Bool.false_eq_true, ↓reduceIte]
            exact ih (i + 1) _ h

private theorem final_inv (g : Table → List Area) (r : InitRes × Table)
    (h : (r.1.code = .success ∧ r.2.initialised = true) ∨ (r.1.code ≠ .success ∧ r.2.initialised = false)) :
    ((match r with
      | (⟨.success, _⟩, t) => ((⟨.success, 0⟩ : InitRes), { t with areas := g t, duringInit := false })
      | r => r).1.code = .success ∧
     (match r with
      | (⟨.success, _⟩, t) => ((⟨.success, 0⟩ : InitRes), { t with areas := g t, duringInit := false })
      | r => r).2.initialised = true) ∨
    ((match r with
      | (⟨.success, _⟩, t) => ((⟨.success, 0⟩ : InitRes), { t with areas := g t, duringInit := false })
      | r => r).1.code ≠ .success ∧
     (match r with
      | (⟨.success, _⟩, t) => ((⟨.success, 0⟩ : InitRes), { t with areas := g t, duringInit := false })
      | r => r).2.initialised = false) := by
  obtain ⟨⟨code, p⟩, t⟩ := r
  cases code <;> simp_all

/-- initialisation either succeeds and leaves the table initialised, or fails and leaves it
    uninitialised -/
theorem init_outcome (cb : Nat → Value → Bool) (t0 : Table) :
    ((register_init cb t0).1.code = .success ∧ (register_init cb t0).2.initialised = true) ∨
    ((register_init cb t0).1.code ≠ .success ∧ (register_init cb t0).2.initialised = false) := by
  simp only [register_init]
  split
  · right; simp
  split
  · right; simp
  · right; simp
  · split
    · right; simp
    · right; simp
    · exact final_inv (fun t => linkAreas t.entries t.areas 0) _
        (load_inv cb (fun c p t => (⟨c, p⟩, { t with initialised := false, duringInit := false }))
          (fun c p t => ⟨rfl, rfl⟩) _ 0 _ rfl)

/-- after a failed initialisation the typed, block, iteration and sanitise operations report the
    table as uninitialised and do nothing -/
theorem uninitialised_refuses (cb : Nat → Value → Bool) (t : Table) (h : t.initialised = false) :
    (∀ idx v wv, register_setx cb t idx v wv = (⟨.uninitialised, idx⟩, t)) ∧
    (∀ idx, register_get t idx = (⟨.uninitialised, idx⟩, none)) ∧
    (∀ idx v s, register_bit_op cb t idx v s = (⟨.uninitialised, idx⟩, t)) ∧
    (∀ addr n, register_block_read t addr n = (⟨.uninitialised, addr⟩, [])) ∧
    (∀ addr buf, register_block_write cb t addr buf = (⟨.uninitialised, addr⟩, t)) ∧
    (∀ addr off s, register_foreach_in t addr off s = (⟨.uninitialised, 0⟩, [])) ∧
    register_sanitise cb t = (⟨.uninitialised, 0⟩, t) := by
  refine ⟨?_, ?_, ?_, ?_, ?_, ?_, ?_⟩
  · intro idx v wv; simp [register_setx, h]
  · intro idx; simp [register_get, h]
  · intro idx v s; simp [register_bit_op, register_get, h]
  · intro addr n; simp [register_block_read, h]
  · intro addr buf; simp [register_block_write, h]
  · intro addr off s; simp [register_foreach_in, h]
  · simp [register_sanitise, h]

/-- a description without areas is refused as such, before anything else is looked at -/
theorem init_no_areas (cb : Nat → Value → Bool) (t0 : Table) (h : t0.areas = []) :
    (register_init cb t0).1 = ⟨.noAreas, 0⟩ := by
  simp [register_init, h]

end Ufw.Props.C04
