/-
C04 – table initialisation accepts exactly the well-formed tables.  Property theorems (helpers are
`private`; the loop invariant of the default-loading loop and the lemmas about where a register is
located are in Lemmas/RegInit).

Proved for every description (areas with `size` atoms of storage each, `Sized`):
  * `init_success_iff`   initialisation succeeds exactly on the `WellFormed` descriptions;
  * `init_first_error`   otherwise code and index are those of the first violated rule (`FirstViolation`),
                         rules tried in the order of the statement; `orderCheck_go_none/some` is the rule
                         "ascending and non-overlapping" itself;
  * `init_outcome`, `uninitialised_refuses`   a failed initialisation leaves the table uninitialised and every
                         typed, block, iteration and sanitise operation reports that;
  * `init_post`          after success: registers keep their description and are linked to their area, every
                         register of an area that loads defaults reads back its default, every other word of
                         memory-backed areas is zero, areas keep their description;
  * `init_records`       each area records exactly the contiguous run of registers located in it;
  * `init_good`, `init_then_history`   the state C05's history theorem starts from.
-/
import Ufw.Lemmas.RegTable
import Ufw.Lemmas.RegInit
import Ufw.Props.C03
import Ufw.Props.C01

namespace Ufw.Props.C04
open Ufw Ufw.Model.RegTable Ufw.Lemmas.RegTable Ufw.Lemmas.RegInit

/-- the ordering rule: `none` exactly on ascending, non-overlapping sequences -/
theorem orderCheck_go_none (i prev prevSize : Nat) (l : List (Nat × Nat)) :
    orderCheck.go i prev prevSize l = none ↔ Ordered ((prev, prevSize) :: l) := by
  induction l generalizing i prev prevSize with
  | nil => simp [orderCheck.go, Ordered]
  | cons x rest ih =>
    obtain ⟨cur, sz⟩ := x
    simp only [orderCheck.go, Ordered]
    by_cases h1 : cur < prev
    · simp only [h1, ↓reduceIte, reduceCtorEq, false_iff, not_and]
      intro h; omega
    · simp only [h1, ↓reduceIte]
      by_cases h2 : cur < prev + prevSize
      · simp only [h2, ↓reduceIte, reduceCtorEq, false_iff, not_and]
        intro h; omega
      · simp only [h2, ↓reduceIte, ih]
        constructor
        · intro h; exact ⟨by omega, h⟩
        · intro h; exact h.2

/-- ... and otherwise the index of the first offending item with the rule it breaks: `false` =
    not ascending, `true` = overlapping its predecessor -/
theorem orderCheck_go_some (i prev prevSize : Nat) (l : List (Nat × Nat)) (ov : Bool) (k : Nat)
    (h : orderCheck.go i prev prevSize l = some (ov, k)) :
    i ≤ k ∧ k < i + l.length ∧
    ∃ p ps c cs, (((prev, prevSize) :: l)[k - i]? = some (p, ps)) ∧ l[k - i]? = some (c, cs) ∧
      (if ov then p ≤ c ∧ c < p + ps else c < p) ∧
      Ordered (((prev, prevSize) :: l).take (k - i + 1)) := by
  induction l generalizing i prev prevSize with
  | nil => simp [orderCheck.go] at h
  | cons x rest ih =>
    obtain ⟨cur, sz⟩ := x
    simp only [orderCheck.go] at h
    by_cases h1 : cur < prev
    · simp only [h1, ↓reduceIte, Option.some.injEq, Prod.mk.injEq] at h
      obtain ⟨rfl, rfl⟩ := h
      refine ⟨Nat.le_refl _, by simp, prev, prevSize, cur, sz, by simp, by simp, by simpa using h1, by simp [Ordered]⟩
    · simp only [h1, ↓reduceIte] at h
      by_cases h2 : cur < prev + prevSize
      · simp only [h2, ↓reduceIte, Option.some.injEq, Prod.mk.injEq] at h
        obtain ⟨rfl, rfl⟩ := h
        refine ⟨Nat.le_refl _, by simp, prev, prevSize, cur, sz, by simp, by simp, ?_, by simp [Ordered]⟩
        simp only [↓reduceIte]; omega
      · simp only [h2, ↓reduceIte] at h
        obtain ⟨g1, g2, p, ps, c, cs, e1, e2, e3, e4⟩ := ih (i + 1) cur sz h
        have hk : k - i = (k - (i + 1)) + 1 := by omega
        refine ⟨by omega, by simp only [List.length_cons]; omega, p, ps, c, cs, ?_, ?_, e3, ?_⟩
        · rw [hk, List.getElem?_cons_succ]; exact e1
        · rw [hk, List.getElem?_cons_succ]; exact e2
        · rw [hk, List.take_succ_cons]
          cases hrest : ((cur, sz) :: rest).take (k - (i + 1) + 1) with
          | nil => simp [Ordered]
          | cons y ys =>
            have hy : y = (cur, sz) := by
              have := congrArg List.head? hrest
              simpa using this.symm
            subst hy
            rw [hrest] at e4
            exact ⟨by omega, e4⟩

/-! ### a failed initialisation leaves the table unusable, a successful one usable -/

private theorem load_inv (cb : Nat → Value → Bool) (fw : InitCode → Nat → Table → InitRes × Table)
    (hfw : ∀ c p t, (fw c p t).1.code = c ∧ (fw c p t).2.initialised = false) :
    ∀ (todo i : Nat) (t : Table), t.initialised = true →
      ((register_init.load cb fw todo i t).1.code = .success ∧ (register_init.load cb fw todo i t).2.initialised = true) ∨
      ((register_init.load cb fw todo i t).1.code ≠ .success ∧ (register_init.load cb fw todo i t).2.initialised = false) := by
  intro todo
  induction todo with
  | zero => intro i t h; left; simp [register_init.load, h]
  | succ n ih =>
    intro i t h
    simp only [register_init.load]
    cases he : t.entries[i]? with
    | none => left; simp [h]
    | some e =>
      simp only
      cases hm : reg_entry_is_in_memory t e with
      | none => right; simp [(hfw _ _ _).1, (hfw _ _ _).2]
      | some v =>
        obtain ⟨ai, off⟩ := v
        simp only
        cases ha : t.areas[ai]? with
        | none => right; simp [(hfw _ _ _).1, (hfw _ _ _).2]
        | some a =>
          simp only
          by_cases hn : need_to_load_default a = true
          · simp only [hn, ↓reduceIte]
            rcases hset : register_set cb { t with entries := t.entries.set i { e with area := ai, offset := off } } i
                ⟨e.type, e.default⟩ with ⟨⟨code, adr⟩, t'⟩
            by_cases hc : code = .success
            · subst hc
              simp only
              obtain ⟨_, _, _, _, _, _, _, _, _, _, _, ht'⟩ :=
                Ufw.Props.C01.set_success_inv cb _ t' i _ true adr hset
              exact ih (i + 1) t' (by rw [ht']; exact h)
            · right
              cases code <;> simp_all [(hfw _ _ _).1, (hfw _ _ _).2]
          · simp only [hn, Bool.false_eq_true, ↓reduceIte]
            exact ih (i + 1) _ h

private theorem final_inv (g : Table → List Area) (r : InitRes × Table)
    (h : (r.1.code = .success ∧ r.2.initialised = true) ∨ (r.1.code ≠ .success ∧ r.2.initialised = false)) :
    ((match r with
      | (⟨.success, _⟩, t) => ((⟨.success, 0⟩ : InitRes), { t with areas := g t, duringInit := false })
      | r => r).1.code = .success ∧
     (match r with
      | (⟨.success, _⟩, t) => ((⟨.success, 0⟩ : InitRes), { t with areas := g t, duringInit := false })
      | r => r).2.initialised = true) ∨
    ((match r with
      | (⟨.success, _⟩, t) => ((⟨.success, 0⟩ : InitRes), { t with areas := g t, duringInit := false })
      | r => r).1.code ≠ .success ∧
     (match r with
      | (⟨.success, _⟩, t) => ((⟨.success, 0⟩ : InitRes), { t with areas := g t, duringInit := false })
      | r => r).2.initialised = false) := by
  obtain ⟨⟨code, p⟩, t⟩ := r
  cases code <;> simp_all

/-- initialisation either succeeds and leaves the table initialised, or fails and leaves it
    uninitialised -/
theorem init_outcome (cb : Nat → Value → Bool) (t0 : Table) :
    ((register_init cb t0).1.code = .success ∧ (register_init cb t0).2.initialised = true) ∨
    ((register_init cb t0).1.code ≠ .success ∧ (register_init cb t0).2.initialised = false) := by
  simp only [register_init]
  split
  · right; simp
  split
  · right; simp
  · right; simp
  · split
    · right; simp
    · right; simp
    · exact final_inv (fun t => linkAreas t.entries t.areas 0) _
        (load_inv cb (fun c p t => (⟨c, p⟩, { t with initialised := false, duringInit := false }))
          (fun c p t => ⟨rfl, rfl⟩) _ 0 _ rfl)

/-- after a failed initialisation the typed, block, iteration and sanitise operations report the
    table as uninitialised and do nothing -/
theorem uninitialised_refuses (cb : Nat → Value → Bool) (t : Table) (h : t.initialised = false) :
    (∀ idx v wv, register_setx cb t idx v wv = (⟨.uninitialised, idx⟩, t)) ∧
    (∀ idx, register_get t idx = (⟨.uninitialised, idx⟩, none)) ∧
    (∀ idx v s, register_bit_op cb t idx v s = (⟨.uninitialised, idx⟩, t)) ∧
    (∀ addr n, register_block_read t addr n = (⟨.uninitialised, addr⟩, [])) ∧
    (∀ addr buf, register_block_write cb t addr buf = (⟨.uninitialised, addr⟩, t)) ∧
    (∀ addr off s, register_foreach_in t addr off s = (⟨.uninitialised, 0⟩, [])) ∧
    register_sanitise cb t = (⟨.uninitialised, 0⟩, t) := by
  refine ⟨?_, ?_, ?_, ?_, ?_, ?_, ?_⟩
  · intro idx v wv; simp [register_setx, h]
  · intro idx; simp [register_get, h]
  · intro idx v s; simp [register_bit_op, register_get, h]
  · intro addr n; simp [register_block_read, h]
  · intro addr buf; simp [register_block_write, h]
  · intro addr off s; simp [register_foreach_in, h]
  · simp [register_sanitise, h]

/-- a description without areas is refused as such, before anything else is looked at -/
theorem init_no_areas (cb : Nat → Value → Bool) (t0 : Table) (h : t0.areas = []) :
    (register_init cb t0).1 = ⟨.noAreas, 0⟩ := by
  simp [register_init, h]

/-! ### initialisation succeeds exactly on the well-formed descriptions -/

private theorem orderCheck_none_iff (l : List (Nat × Nat)) :
    orderCheck (l.map Prod.fst) (l.map Prod.snd) = none ↔ Ordered l := by
  simp only [orderCheck, List.zip_map', List.map_id']
  cases l with
  | nil => simp [Ordered]
  | cons x rest =>
    obtain ⟨a, s⟩ := x
    exact orderCheck_go_none 1 a s rest

private theorem areas_check (t : Table) :
    orderCheck (t.areas.map (·.base)) (t.areas.map (·.size)) = none ↔ Ordered (areaGeo t) := by
  have := orderCheck_none_iff (areaGeo t)
  simpa [areaGeo, List.map_map, Function.comp_def] using this

private theorem entries_check (t : Table) :
    orderCheck (t.entries.map (·.address)) (t.entries.map (·.type.size)) = none ↔ Ordered (entryGeo t) := by
  have := orderCheck_none_iff (entryGeo t)
  simpa [entryGeo, List.map_map, Function.comp_def] using this

/-- what `register_init` does to an area before it loads defaults: memory-backed storage is zeroed -/
def clearArea (a : Area) : Area := if a.memBacked then { a with mem := List.replicate a.mem.length 0 } else a

/-- the table the default-loading loop starts from -/
def prep (t0 : Table) : Table :=
  { t0 with areas := t0.areas.map clearArea, initialised := true, duringInit := true }

/-- a register of the description is acceptable: it lies wholly inside one area, and if that area loads
    defaults the register accepts its own default -/
def EntryOk (cb : Nat → Value → Bool) (t : Table) (e : Entry) : Prop :=
  ∃ a ∈ t.areas, Inside a e ∧ (need_to_load_default a = true → DefaultOk cb t.bigEndian e)

/-- the well-formed descriptions of the statement -/
def WellFormed (cb : Nat → Value → Bool) (t0 : Table) : Prop :=
  t0.areas ≠ [] ∧ Ordered (areaGeo t0) ∧ Ordered (entryGeo t0) ∧ ∀ e ∈ t0.entries, EntryOk cb t0 e

/-- with at least one area and both ordering rules satisfied, initialisation is the loading loop followed by
    recording the registers of every area -/
theorem init_unfold (cb : Nat → Value → Bool) (t0 : Table) (hne : t0.areas ≠ []) (ha : Ordered (areaGeo t0))
    (he : Ordered (entryGeo t0)) :
    register_init cb t0 =
      match register_init.load cb failWith t0.entries.length 0 (prep t0) with
      | (⟨.success, _⟩, t) => (⟨.success, 0⟩, { t with areas := linkAreas t.entries t.areas 0, duringInit := false })
      | r => r := by
  have h0 : ¬ t0.areas.length = 0 := by
    intro h; exact hne (List.length_eq_zero_iff.mp h)
  have h1 := (areas_check { t0 with initialised := false, duringInit := true }).mpr ha
  have h2 := (entries_check { t0 with initialised := false, duringInit := true }).mpr he
  simp only [register_init, h0, ↓reduceIte, h1, h2]
  rfl

private theorem clear_fields (a : Area) :
    (clearArea a).base = a.base ∧ (clearArea a).size = a.size ∧ (clearArea a).mem.length = a.mem.length ∧
    need_to_load_default (clearArea a) = need_to_load_default a ∧ (clearArea a).memBacked = a.memBacked := by
  unfold clearArea
  split <;> simp [need_to_load_default]

private theorem clear_inside (a : Area) (e : Entry) : Inside (clearArea a) e ↔ Inside a e := by
  obtain ⟨h1, h2, _⟩ := clear_fields a
  simp only [Inside, h1, h2]

private theorem prep_geo (t0 : Table) : areaGeo (prep t0) = areaGeo t0 := by
  simp only [areaGeo, prep, List.map_map]
  apply List.map_congr_left
  intro a _
  obtain ⟨h1, h2, _⟩ := clear_fields a
  simp [h1, h2]

private theorem prep_area (t0 : Table) (k : Nat) (a1 : Area) (h : (prep t0).areas[k]? = some a1) :
    ∃ a, t0.areas[k]? = some a ∧ a1 = clearArea a := by
  simp only [prep, List.getElem?_map] at h
  cases ha : t0.areas[k]? with
  | none => simp [ha] at h
  | some a => simp only [ha, Option.map_some, Option.some.injEq] at h; exact ⟨a, rfl, h.symm⟩

/-- the storage description the model relies on: every area has `size` atoms of storage -/
def Sized (t : Table) : Prop := ∀ a ∈ t.areas, a.mem.length = a.size

private theorem prep_inv (cb : Nat → Value → Bool) (t0 : Table) (hs : Sized t0) : LoadInv cb (prep t0) 0 0 (prep t0) := by
  refine ⟨rfl, rfl, rfl, rfl, ?_, rfl, ?_, fun _ _ => rfl, ?_, ?_⟩
  · intro a ha
    simp only [prep, List.mem_map] at ha
    obtain ⟨a0, ha0, rfl⟩ := ha
    obtain ⟨_, h2, h3, _⟩ := clear_fields a0
    rw [h3, h2]; exact hs a0 ha0
  · intro j e hj; omega
  · intro j e k off a1 hj; omega
  · intro k a a1 ha ha1 c _
    rw [ha] at ha1; have := Option.some.inj ha1; subst this; rfl

/-- a register acceptable in the description is acceptable in the table the loop starts from, and conversely -/
private theorem entryOk_prep (cb : Nat → Value → Bool) (t0 : Table) (e : Entry) : EntryOk cb (prep t0) e ↔ EntryOk cb t0 e := by
  constructor
  · intro ⟨a1, ha1, hin, hd⟩
    simp only [prep, List.mem_map] at ha1
    obtain ⟨a, ha, rfl⟩ := ha1
    obtain ⟨_, _, _, h4, _⟩ := clear_fields a
    exact ⟨a, ha, (clear_inside a e).mp hin, fun hn => hd (by rw [h4]; exact hn)⟩
  · intro ⟨a, ha, hin, hd⟩
    obtain ⟨_, _, _, h4, _⟩ := clear_fields a
    exact ⟨clearArea a, by simp only [prep, List.mem_map]; exact ⟨a, ha, rfl⟩, (clear_inside a e).mpr hin,
      fun hn => hd (by rw [← h4]; exact hn)⟩

/-- the loop's view of an acceptable register: located somewhere, and its default accepted if that area loads -/
private theorem entryOk_located (cb : Nat → Value → Bool) (t1 : Table) (hd : Disjoint t1.areas) (e : Entry) :
    EntryOk cb t1 e ↔ ∃ k off a1, reg_entry_is_in_memory t1 e = some (k, off) ∧ t1.areas[k]? = some a1 ∧
      (need_to_load_default a1 = true → DefaultOk cb t1.bigEndian e) := by
  constructor
  · intro ⟨a, ha, hin, hdo⟩
    obtain ⟨k, hk, hka⟩ := List.getElem_of_mem ha
    have hk' : t1.areas[k]? = some a := by rw [List.getElem?_eq_getElem hk, hka]
    exact ⟨k, _, a, located_of_inside t1 hd e k a hk' hin, hk', hdo⟩
  · intro ⟨k, off, a1, hl, ha1, hdo⟩
    obtain ⟨a, ha, hin, _⟩ := located_some t1 e k off hl
    rw [ha1] at ha; have := Option.some.inj ha; subst this
    exact ⟨a1, List.mem_of_getElem? ha1, hin, hdo⟩

/-- **Initialisation succeeds exactly when** the description has at least one area, areas are ascending and
    non-overlapping, registers are ascending and non-overlapping, every register lies wholly inside one area, and
    every default that gets loaded is acceptable to its own register. -/
theorem init_success_iff (cb : Nat → Value → Bool) (t0 : Table) (hs : Sized t0) :
    (register_init cb t0).1.code = .success ↔ WellFormed cb t0 := by
  by_cases hne : t0.areas = []
  · simp [init_no_areas cb t0 hne, WellFormed, hne]
  by_cases ha' : ¬ Ordered (areaGeo t0)
  · have ha := ha'
    have h0 : ¬ t0.areas.length = 0 := fun h => hne (List.length_eq_zero_iff.mp h)
    have h1 : orderCheck ((t0.areas.map (·.base))) (t0.areas.map (·.size)) ≠ none :=
      fun h => ha ((areas_check { t0 with initialised := false, duringInit := true }).mp h)
    constructor
    · intro h
      exfalso
      simp only [register_init, h0, ↓reduceIte] at h
      split at h
      · simp at h
      · simp at h
      · rename_i hh; exact h1 hh
    · intro h; exact absurd h.2.1 ha
  have ha : Ordered (areaGeo t0) := Classical.not_not.mp ha'
  by_cases he' : ¬ Ordered (entryGeo t0)
  · have he := he'
    have h0 : ¬ t0.areas.length = 0 := fun h => hne (List.length_eq_zero_iff.mp h)
    have h1 := (areas_check { t0 with initialised := false, duringInit := true }).mpr ha
    have h2 : orderCheck ((t0.entries.map (·.address))) (t0.entries.map (·.type.size)) ≠ none :=
      fun h => he ((entries_check { t0 with initialised := false, duringInit := true }).mp h)
    constructor
    · intro h
      exfalso
      simp only [register_init, h0, ↓reduceIte, h1] at h
      split at h
      · simp at h
      · simp at h
      · rename_i hh; exact h2 hh
    · intro h; exact absurd h.2.2.1 he
  have he : Ordered (entryGeo t0) := Classical.not_not.mp he'
  rw [init_unfold cb t0 hne ha he]
  have hd : Disjoint (prep t0).areas := ordered_areas_disjoint (prep t0) (by rw [prep_geo]; exact ha)
  have hspec := load_spec cb (prep t0) he t0.entries.length 0 (prep t0) (prep_inv cb t0 hs) (by simp [prep])
  rcases hres : register_init.load cb failWith t0.entries.length 0 (prep t0) with ⟨⟨code, pos⟩, t'⟩
  rw [hres] at hspec
  rcases hspec with ⟨h1, h2⟩ | ⟨p, tp, _, hp, hf, _, _⟩
  · simp only [InitRes.mk.injEq] at h1
    obtain ⟨rfl, rfl⟩ := h1
    simp only [true_iff]
    refine ⟨hne, ha, he, ?_⟩
    intro e hemem
    obtain ⟨j, hj, hje⟩ := List.getElem_of_mem hemem
    have hej : (prep t0).entries[j]? = some e := by
      show t0.entries[j]? = some e
      rw [List.getElem?_eq_getElem hj, hje]
    rw [← entryOk_prep, entryOk_located cb (prep t0) hd]
    obtain ⟨k, off, hl, _⟩ := h2.done j e (by show j < t0.entries.length; exact hj) hej
    obtain ⟨a1, ha1, _, _⟩ := located_some (prep t0) e k off hl
    exact ⟨k, off, a1, hl, ha1, fun hn => (h2.defaults j e k off a1 (by show j < t0.entries.length; exact hj) hej hl ha1 hn).1⟩
  · have hcode : code ≠ .success := by
      obtain ⟨e1, _, hf⟩ := hf
      rcases hf with ⟨hc, _⟩ | ⟨hc, _⟩ <;> (simp only at hc; rw [hc]; simp)
    have hlhs : ¬ ((match ((⟨code, pos⟩ : InitRes), t') with
        | (⟨.success, _⟩, t) => ((⟨.success, 0⟩ : InitRes), { t with areas := linkAreas t.entries t.areas 0, duringInit := false })
        | r => r).1.code = .success) := by
      cases code <;> first | exact absurd rfl hcode | simp
    simp only [hlhs, false_iff]
    intro hw
    obtain ⟨e1, he1, hf⟩ := hf
    have hmem : e1 ∈ t0.entries := List.mem_of_getElem? (by exact he1)
    have hok := (entryOk_located cb (prep t0) hd e1).mp ((entryOk_prep cb t0 e1).mpr (hw.2.2.2 e1 hmem))
    obtain ⟨k, off, a1, hl, ha1, hdo⟩ := hok
    rcases hf with ⟨_, hnone⟩ | ⟨_, k', off', a1', hl', ha1', hn, hnd⟩
    · rw [hl] at hnone; simp at hnone
    · rw [hl] at hl'; simp only [Option.some.injEq, Prod.mk.injEq] at hl'
      obtain ⟨rfl, rfl⟩ := hl'
      rw [ha1] at ha1'; have := Option.some.inj ha1'; subst this
      exact hnd (hdo hn)

/-! ### otherwise it reports the first violated rule with the index of the offending area or register -/

/-- the rule "ascending and non-overlapping" first fails at item `k`: item `k` starts before its predecessor
    (`ov = false`) or inside it (`ov = true`), and the items in front of `k` are in order -/
def OrderFailsAt (l : List (Nat × Nat)) (ov : Bool) (k : Nat) : Prop :=
  1 ≤ k ∧ ∃ p ps c cs, l[k - 1]? = some (p, ps) ∧ l[k]? = some (c, cs) ∧
    (if ov then p ≤ c ∧ c < p + ps else c < p) ∧ Ordered (l.take k)

private theorem orderCheck_some (l : List (Nat × Nat)) (ov : Bool) (k : Nat)
    (h : orderCheck (l.map Prod.fst) (l.map Prod.snd) = some (ov, k)) : OrderFailsAt l ov k := by
  simp only [orderCheck, List.zip_map', List.map_id'] at h
  cases l with
  | nil => simp at h
  | cons x rest =>
    obtain ⟨a, s⟩ := x
    have h' : orderCheck.go 1 a s rest = some (ov, k) := h
    obtain ⟨g1, g2, p, ps, c, cs, e1, e2, e3, e4⟩ := orderCheck_go_some 1 a s rest ov k h'
    refine ⟨g1, p, ps, c, cs, e1, ?_, e3, ?_⟩
    · have : k = (k - 1) + 1 := by omega
      rw [this, List.getElem?_cons_succ]; exact e2
    · have : k = k - 1 + 1 := by omega
      rw [this]; exact e4

private theorem areas_check_some (t : Table) (ov : Bool) (k : Nat)
    (h : orderCheck (t.areas.map (·.base)) (t.areas.map (·.size)) = some (ov, k)) : OrderFailsAt (areaGeo t) ov k := by
  apply orderCheck_some
  simpa [areaGeo, List.map_map, Function.comp_def] using h

private theorem entries_check_some (t : Table) (ov : Bool) (k : Nat)
    (h : orderCheck (t.entries.map (·.address)) (t.entries.map (·.type.size)) = some (ov, k)) :
    OrderFailsAt (entryGeo t) ov k := by
  apply orderCheck_some
  simpa [entryGeo, List.map_map, Function.comp_def] using h

/-- what a failed initialisation reports: the rules are tried in the order of the statement, the first one that
    is violated is named, with the index of the first item that violates it -/
def FirstViolation (cb : Nat → Value → Bool) (t0 : Table) (c : InitCode) (p : Nat) : Prop :=
  (t0.areas = [] ∧ c = .noAreas ∧ p = 0) ∨
  (t0.areas ≠ [] ∧ ((c = .areaInvalidOrder ∧ OrderFailsAt (areaGeo t0) false p) ∨
                    (c = .areaAddressOverlap ∧ OrderFailsAt (areaGeo t0) true p))) ∨
  (t0.areas ≠ [] ∧ Ordered (areaGeo t0) ∧ ((c = .entryInvalidOrder ∧ OrderFailsAt (entryGeo t0) false p) ∨
                                          (c = .entryAddressOverlap ∧ OrderFailsAt (entryGeo t0) true p))) ∨
  (t0.areas ≠ [] ∧ Ordered (areaGeo t0) ∧ Ordered (entryGeo t0) ∧
    (∀ j e, j < p → t0.entries[j]? = some e → EntryOk cb t0 e) ∧
    ∃ e, t0.entries[p]? = some e ∧
      ((c = .entryInMemoryHole ∧ ∀ a ∈ t0.areas, ¬ Inside a e) ∨
       (c = .entryInvalidDefault ∧ ∃ a ∈ t0.areas, Inside a e ∧ need_to_load_default a = true ∧
          ¬ DefaultOk cb t0.bigEndian e)))

theorem init_first_error (cb : Nat → Value → Bool) (t0 : Table) (hs : Sized t0)
    (hc : (register_init cb t0).1.code ≠ .success) :
    FirstViolation cb t0 (register_init cb t0).1.code (register_init cb t0).1.pos := by
  by_cases hne : t0.areas = []
  · left; rw [init_no_areas cb t0 hne]; exact ⟨hne, rfl, rfl⟩
  have h0 : ¬ t0.areas.length = 0 := fun h => hne (List.length_eq_zero_iff.mp h)
  cases hA : orderCheck (t0.areas.map (·.base)) (t0.areas.map (·.size)) with
  | some v =>
    obtain ⟨ov, k⟩ := v
    have hf := areas_check_some t0 ov k hA
    right; left
    refine ⟨hne, ?_⟩
    cases ov with
    | false => left; simp only [register_init, h0, ↓reduceIte, hA]; exact ⟨trivial, hf⟩
    | true => right; simp only [register_init, h0, ↓reduceIte, hA]; exact ⟨trivial, hf⟩
  | none =>
  have ha : Ordered (areaGeo t0) := (areas_check t0).mp hA
  cases hE : orderCheck (t0.entries.map (·.address)) (t0.entries.map (·.type.size)) with
  | some v =>
    obtain ⟨ov, k⟩ := v
    have hf := entries_check_some t0 ov k hE
    right; right; left
    refine ⟨hne, ha, ?_⟩
    cases ov with
    | false => left; simp only [register_init, h0, ↓reduceIte, hA, hE]; exact ⟨trivial, hf⟩
    | true => right; simp only [register_init, h0, ↓reduceIte, hA, hE]; exact ⟨trivial, hf⟩
  | none =>
  have he : Ordered (entryGeo t0) := (entries_check t0).mp hE
  right; right; right
  refine ⟨hne, ha, he, ?_⟩
  rw [init_unfold cb t0 hne ha he] at hc ⊢
  have hd : Disjoint (prep t0).areas := ordered_areas_disjoint (prep t0) (by rw [prep_geo]; exact ha)
  have hspec := load_spec cb (prep t0) he t0.entries.length 0 (prep t0) (prep_inv cb t0 hs) (by simp [prep])
  rcases hres : register_init.load cb failWith t0.entries.length 0 (prep t0) with ⟨⟨code, pos⟩, t'⟩
  rw [hres] at hspec hc
  rcases hspec with ⟨h1, _⟩ | ⟨p, tp, _, hp, hf, hpos, _⟩
  · simp only [InitRes.mk.injEq] at h1
    obtain ⟨rfl, rfl⟩ := h1
    simp at hc
  · simp only at hpos hf
    subst hpos
    have hcode : code ≠ .success := by
      obtain ⟨e1, _, hf⟩ := hf
      rcases hf with ⟨hc, _⟩ | ⟨hc, _⟩ <;> (rw [hc]; simp)
    have hres2 : (match ((⟨code, pos⟩ : InitRes), t') with
        | (⟨.success, _⟩, t) => ((⟨.success, 0⟩ : InitRes), { t with areas := linkAreas t.entries t.areas 0, duringInit := false })
        | r => r) = (⟨code, pos⟩, t') := by
      cases code <;> first | exact absurd rfl hcode | rfl
    rw [hres2]
    simp only
    refine ⟨?_, ?_⟩
    · intro j e hj hej
      rw [← entryOk_prep, entryOk_located cb (prep t0) hd]
      obtain ⟨k, off, hl, _⟩ := hp.done j e hj hej
      obtain ⟨a1, ha1, _, _⟩ := located_some (prep t0) e k off hl
      exact ⟨k, off, a1, hl, ha1, fun hn => (hp.defaults j e k off a1 hj hej hl ha1 hn).1⟩
    · obtain ⟨e1, he1, hf⟩ := hf
      refine ⟨e1, he1, ?_⟩
      rcases hf with ⟨hcc, hnone⟩ | ⟨hcc, k, off, a1, hl, ha1, hn, hnd⟩
      · left
        refine ⟨hcc, ?_⟩
        intro a ha hin
        have := (located_none_iff (prep t0) hd e1).mp hnone (clearArea a)
          (by simp only [prep, List.mem_map]; exact ⟨a, ha, rfl⟩)
        exact this ((clear_inside a e1).mpr hin)
      · right
        obtain ⟨a, ha, rfl⟩ := prep_area t0 k a1 ha1
        obtain ⟨a1', ha1', hin, _⟩ := located_some (prep t0) e1 k off hl
        rw [ha1] at ha1'; have := Option.some.inj ha1'; subst this
        obtain ⟨_, _, _, h4, _⟩ := clear_fields a
        exact ⟨hcc, a, List.mem_of_getElem? ha, (clear_inside a e1).mp hin, by rw [← h4]; exact hn, hnd⟩

/-! ### the state a successful initialisation leaves -/

/-- a successful initialisation is the completed loading loop followed by the recording of each area's registers -/
private theorem init_success_state (cb : Nat → Value → Bool) (t0 : Table) (hs : Sized t0)
    (hok : (register_init cb t0).1.code = .success) :
    WellFormed cb t0 ∧
    ∃ t', LoadInv cb (prep t0) t0.entries.length t0.entries.length t' ∧
      register_init cb t0 = (⟨.success, 0⟩, { t' with areas := linkAreas t'.entries t'.areas 0, duringInit := false }) := by
  have hw := (init_success_iff cb t0 hs).mp hok
  obtain ⟨hne, ha, he, _⟩ := id hw
  refine ⟨hw, ?_⟩
  rw [init_unfold cb t0 hne ha he] at hok ⊢
  have hspec := load_spec cb (prep t0) he t0.entries.length 0 (prep t0) (prep_inv cb t0 hs) (by simp [prep])
  rcases hres : register_init.load cb failWith t0.entries.length 0 (prep t0) with ⟨⟨code, pos⟩, t'⟩
  rw [hres] at hspec hok
  rcases hspec with ⟨h1, h2⟩ | ⟨p, tp, _, _, hf, _, _⟩
  · simp only [InitRes.mk.injEq] at h1
    obtain ⟨rfl, rfl⟩ := h1
    exact ⟨t', h2, rfl⟩
  · exfalso
    obtain ⟨e1, _, hf⟩ := hf
    rcases hf with ⟨hc, _⟩ | ⟨hc, _⟩ <;> (simp only at hc; subst hc; simp at hok)

/-- recording the registers of each area changes nothing but the three link fields -/
private theorem linkAreas_same (es : List Entry) : ∀ (areas : List Area) (n k : Nat) (b : Area),
    (linkAreas es areas n)[k]? = some b →
    ∃ a, areas[k]? = some a ∧ b = { a with first := b.first, last := b.last, count := b.count } := by
  intro areas
  induction areas with
  | nil => intro n k b h; simp [linkAreas] at h
  | cons a rest ih =>
    intro n k b h
    simp only [linkAreas] at h
    split at h
    · split at h
      · cases k with
        | zero => simp only [List.getElem?_cons_zero, Option.some.injEq] at h; subst h; exact ⟨a, rfl, rfl⟩
        | succ k => simp only [List.getElem?_cons_succ] at h ⊢; exact ih _ k b h
      · cases k with
        | zero => simp only [List.getElem?_cons_zero, Option.some.injEq] at h; subst h; exact ⟨a, rfl, rfl⟩
        | succ k => simp only [List.getElem?_cons_succ] at h ⊢; exact ih _ k b h
    · cases k with
      | zero => simp only [List.getElem?_cons_zero, Option.some.injEq] at h; subst h; exact ⟨a, rfl, rfl⟩
      | succ k => simp only [List.getElem?_cons_succ] at h ⊢; exact ih _ k b h

private theorem linkAreas_length (es : List Entry) : ∀ (areas : List Area) (n : Nat), (linkAreas es areas n).length = areas.length := by
  intro areas
  induction areas with
  | nil => intro n; simp [linkAreas]
  | cons a rest ih =>
    intro n
    simp only [linkAreas]
    split
    · split <;> simp [ih]
    · simp [ih]

private theorem linkAreas_get (es : List Entry) (areas : List Area) (n k : Nat) (a : Area) (h : areas[k]? = some a) :
    ∃ b, (linkAreas es areas n)[k]? = some b ∧ b = { a with first := b.first, last := b.last, count := b.count } := by
  have hk := getElem?_lt _ _ _ h
  have hk' : k < (linkAreas es areas n).length := by rw [linkAreas_length]; exact hk
  refine ⟨(linkAreas es areas n)[k], List.getElem?_eq_getElem hk', ?_⟩
  obtain ⟨a', ha', hb⟩ := linkAreas_same es areas n k _ (List.getElem?_eq_getElem hk')
  rw [h] at ha'; have := Option.some.inj ha'; subst this
  exact hb

/-- ... so what a register reads as does not depend on it -/
private theorem get_links (t : Table) (las : List Area) (d : Bool)
    (h : ∀ (k : Nat) (a : Area), t.areas[k]? = some a →
      ∃ b : Area, las[k]? = some b ∧ b = { a with first := b.first, last := b.last, count := b.count })
    (hn : ∀ k : Nat, t.areas[k]? = none → las[k]? = none) (j : Nat) :
    register_get { t with areas := las, duringInit := d } j = register_get t j := by
  simp only [register_get]
  split
  · rfl
  · cases he : t.entries[j]? with
    | none => rfl
    | some e =>
      simp only
      cases ha : t.areas[e.area]? with
      | none => rw [hn _ ha]
      | some a =>
        obtain ⟨b, hb, hab⟩ := h _ a ha
        rw [hb]
        simp only
        have : b.read e.offset e.type.size = a.read e.offset e.type.size := by
          rw [hab]; rfl
        rw [this]

private theorem strip_eq (a b : Area) (h : strip a = strip b) : a = { b with mem := a.mem } := by
  cases a; cases b
  simp only [strip, Area.mk.injEq] at h ⊢
  obtain ⟨h1, h2, h3, h4, h5, h6, h7, h8, _, h10, h11, h12⟩ := h
  exact ⟨h1, h2, h3, h4, h5, h6, h7, h8, trivial, h10, h11, h12⟩

private theorem clear_eq (a : Area) : clearArea a = { a with mem := (clearArea a).mem } := by
  unfold clearArea; split <;> rfl

private theorem clear_getD (a : Area) (c : Nat) :
    (clearArea a).mem.getD c 0 = if a.memBacked then 0 else a.mem.getD c 0 := by
  unfold clearArea
  split
  · simp only [List.getD_eq_getElem?_getD, List.getElem?_replicate]
    split <;> rfl
  · rfl

/-- **After success** the table is usable; every register keeps its description and is linked to the area it lies
    in; each register of an area that loads defaults reads back its default; every area keeps its description, and
    every word of its storage that is not covered by a loaded default is zero if the area is memory backed (and
    untouched otherwise). -/
theorem init_post (cb : Nat → Value → Bool) (t0 : Table) (hs : Sized t0)
    (hok : (register_init cb t0).1.code = .success) :
    (register_init cb t0).2.initialised = true ∧ (register_init cb t0).2.duringInit = false ∧
    (register_init cb t0).2.bigEndian = t0.bigEndian ∧
    (register_init cb t0).2.entries.length = t0.entries.length ∧
    (register_init cb t0).2.areas.length = t0.areas.length ∧
    (∀ (j : Nat) (e0 : Entry), t0.entries[j]? = some e0 →
      ∃ (k : Nat) (a0 : Area), t0.areas[k]? = some a0 ∧ Inside a0 e0 ∧
        (register_init cb t0).2.entries[j]? = some { e0 with area := k, offset := e0.address - a0.base } ∧
        (need_to_load_default a0 = true → e0.default < 2 ^ e0.type.bits →
          register_get (register_init cb t0).2 j = (⟨.success, 0⟩, some ⟨e0.type, e0.default⟩))) ∧
    (∀ (k : Nat) (a0 : Area), t0.areas[k]? = some a0 →
      ∃ a : Area, (register_init cb t0).2.areas[k]? = some a ∧
        a = { a0 with mem := a.mem, first := a.first, last := a.last, count := a.count } ∧
        a.mem.length = a0.mem.length ∧
        ∀ c, ¬ (need_to_load_default a0 = true ∧ ∃ e0 ∈ t0.entries, Inside a0 e0 ∧ e0.address ≤ a0.base + c ∧
                  a0.base + c < e0.address + e0.type.size) →
          a.mem.getD c 0 = if a0.memBacked then 0 else a0.mem.getD c 0) := by
  obtain ⟨hw, t', hinv, heq⟩ := init_success_state cb t0 hs hok
  rw [heq]
  simp only
  have hlinks : ∀ (k : Nat) (a : Area), t'.areas[k]? = some a →
      ∃ b : Area, (linkAreas t'.entries t'.areas 0)[k]? = some b ∧ b = { a with first := b.first, last := b.last, count := b.count } :=
    fun k a h => linkAreas_get t'.entries t'.areas 0 k a h
  have hnone : ∀ k : Nat, t'.areas[k]? = none → (linkAreas t'.entries t'.areas 0)[k]? = none := by
    intro k h
    rw [List.getElem?_eq_none_iff] at h ⊢
    rw [linkAreas_length]; exact h
  have hgl : t'.areas.length = t0.areas.length := by
    have := congrArg List.length hinv.geo
    simpa [prep] using this
  refine ⟨hinv.init, trivial, hinv.endian, hinv.len, by rw [linkAreas_length]; exact hgl, ?_, ?_⟩
  · intro j e0 he0
    have hj : j < t0.entries.length := getElem?_lt _ _ _ he0
    obtain ⟨k, off, hl, hent⟩ := hinv.done j e0 hj he0
    obtain ⟨a1, ha1, hin, hoff⟩ := located_some (prep t0) e0 k off hl
    obtain ⟨a0, ha0, rfl⟩ := prep_area t0 k a1 ha1
    obtain ⟨c1, _, _, c4, _⟩ := clear_fields a0
    refine ⟨k, a0, ha0, (clear_inside a0 e0).mp hin, by rw [hent, hoff, c1], ?_⟩
    intro hn hb
    rw [get_links t' _ false hlinks hnone j]
    exact (hinv.defaults j e0 k off (clearArea a0) hj he0 hl ha1 (by rw [c4]; exact hn)).2 hb
  · intro k a0 ha0
    have hp : (prep t0).areas[k]? = some (clearArea a0) := by simp [prep, ha0]
    obtain ⟨a', ha', hsa⟩ := area_of_geo t' (prep t0) hinv.geo k (clearArea a0) hp
    obtain ⟨b, hb, hba⟩ := hlinks k a' ha'
    have e1 := strip_eq a' (clearArea a0) hsa
    have e2 := clear_eq a0
    obtain ⟨c1, c2, c3, c4, _⟩ := clear_fields a0
    have hbm : b.mem = a'.mem := by rw [hba]
    refine ⟨b, hb, ?_, ?_, ?_⟩
    · rw [hba, e1, e2]
    · rw [hbm, hinv.sized a' (List.mem_of_getElem? ha'), hs a0 (List.mem_of_getElem? ha0)]
      have : a'.size = (clearArea a0).size := (strip_flags a' (clearArea a0) hsa).2.1
      rw [this, c2]
    · intro c hc
      rw [hbm, ← clear_getD]
      apply hinv.cells k a' (clearArea a0) ha' hp c
      intro j e1 off hj he1 hl hn hoc
      apply hc
      obtain ⟨a1', ha1', hin, hoff⟩ := located_some (prep t0) e1 k off hl
      rw [hp] at ha1'; have := Option.some.inj ha1'; subst this
      have hin0 := (clear_inside a0 e1).mp hin
      refine ⟨by rw [← c4]; exact hn, e1, List.mem_of_getElem? he1, hin0, ?_, ?_⟩
      · rw [c1] at hoff; have := hin0.1; omega
      · rw [c1] at hoff; have := hin0.1; omega

/-- **After success each area records exactly the contiguous run of registers located in it.** -/
theorem init_records (cb : Nat → Value → Bool) (t0 : Table) (hs : Sized t0)
    (hok : (register_init cb t0).1.code = .success) (k : Nat) (b : Area)
    (hb : (register_init cb t0).2.areas[k]? = some b) : Records (register_init cb t0).2.entries b := by
  obtain ⟨⟨hne, ha, he, _⟩, t', hinv, heq⟩ := init_success_state cb t0 hs hok
  rw [heq] at hb ⊢
  simp only at hb ⊢
  have hent : ∀ (j : Nat) (e : Entry), t'.entries[j]? = some e →
      ∃ e1 k off, t0.entries[j]? = some e1 ∧ reg_entry_is_in_memory (prep t0) e1 = some (k, off) ∧ e.address = e1.address := by
    intro j e hje
    have hj : j < t0.entries.length := by have := hinv.len; have := getElem?_lt _ _ _ hje; simp only [prep] at *; omega
    obtain ⟨k, off, hl, hent⟩ := hinv.done j t0.entries[j] hj (List.getElem?_eq_getElem hj)
    rw [hent] at hje; have := Option.some.inj hje; subst this
    exact ⟨_, k, off, List.getElem?_eq_getElem hj, hl, rfl⟩
  refine linkAreas_records t'.entries ?_ t'.areas 0 ?_ ?_ ?_ k b hb
  · intro i j e e' hij hie hje
    obtain ⟨e1, _, _, h1, _, a1⟩ := hent i e hie
    obtain ⟨e2, _, _, h2, _, a2⟩ := hent j e' hje
    have := ordered_entries t0 he i j e1 e2 hij h1 h2
    have := size_pos e1.type
    omega
  · apply ordered_areas_pairwise
    rw [areaGeo_strip t' (prep t0) hinv.geo, prep_geo]; exact ha
  · intro j e _ hj; omega
  · intro j e hje _
    obtain ⟨e1, k, off, _, hl, haddr⟩ := hent j e hje
    obtain ⟨a1, ha1, hin, _⟩ := located_some (prep t0) e1 k off hl
    obtain ⟨a', ha', hsa⟩ := area_of_geo t' (prep t0) hinv.geo k a1 ha1
    obtain ⟨fb, fs, _, _⟩ := strip_flags a' a1 hsa
    refine ⟨a', List.mem_of_getElem? ha', ?_⟩
    have := inside_part_of a1 e1 hin
    simp only [ra_addr_is_part_of, fb, fs, haddr] at this ⊢
    exact this

/-! ### initialisation establishes the invariant of C05 -/

/-- a description all of whose areas load defaults, without always-fail registers, with defaults that fit -/
structure LoadsAll (t0 : Table) : Prop where
  loads : ∀ a ∈ t0.areas, need_to_load_default a = true
  nofail : ∀ e ∈ t0.entries, e.check ≠ .fail
  fit : ∀ e ∈ t0.entries, e.default < 2 ^ e.type.bits

/-- **A successful initialisation of such a description leaves the table in the state from which C05's
    `history_preserves_constraints` starts**: structure as every checked operation keeps it, and every register
    decoding and satisfying its own constraint. -/
theorem init_good (cb : Nat → Value → Bool) (t0 : Table) (hs : Sized t0) (hl : LoadsAll t0)
    (hok : (register_init cb t0).1.code = .success) : Ufw.Props.C05.Good cb (register_init cb t0).2 := by
  obtain ⟨hne, ha, he, hwf⟩ := (init_success_iff cb t0 hs).mp hok
  obtain ⟨p1, p2, p3, p4, p5, pe, pa⟩ := init_post cb t0 hs hok
  generalize register_init cb t0 = r at *
  obtain ⟨res, t⟩ := r
  simp only at *
  -- every register of the result comes from the description
  have hent : ∀ (j : Nat) (e : Entry), t.entries[j]? = some e →
      ∃ (e0 : Entry) (k : Nat) (a0 : Area), t0.entries[j]? = some e0 ∧ t0.areas[k]? = some a0 ∧ Inside a0 e0 ∧
        e = { e0 with area := k, offset := e0.address - a0.base } ∧
        register_get t j = (⟨.success, 0⟩, some ⟨e0.type, e0.default⟩) := by
    intro j e hje
    have hj : j < t0.entries.length := by rw [← p4]; exact getElem?_lt _ _ _ hje
    have he0 := List.getElem?_eq_getElem hj
    obtain ⟨k, a0, ha0, hin, hent, hget⟩ := pe j _ he0
    rw [hent] at hje
    exact ⟨_, k, a0, he0, ha0, hin, (Option.some.inj hje).symm,
      hget (hl.loads a0 (List.mem_of_getElem? ha0)) (hl.fit _ (List.mem_of_getElem? he0))⟩
  have hd0 : Disjoint t0.areas := ordered_areas_disjoint t0 ha
  refine ⟨⟨?_, ⟨?_, ?_⟩, ?_, ?_, ?_⟩, p1, ?_⟩
  · -- layout
    intro i j e e' hij hie hje
    obtain ⟨e1, k1, a1, h1, g1, in1, rfl, _⟩ := hent i e hie
    obtain ⟨e2, k2, a2, h2, g2, in2, rfl, _⟩ := hent j e' hje
    simp only [Ufw.Props.C05.Apart]
    by_cases hk : k1 = k2
    · subst hk
      rw [g1] at g2; have := Option.some.inj g2; subst this
      right
      rcases Nat.lt_or_ge i j with h | h
      · have := ordered_entries t0 he i j e1 e2 h h1 h2
        left; have := in1.1; have := in2.1; omega
      · have := ordered_entries t0 he j i e2 e1 (by omega) h2 h1
        right; have := in1.1; have := in2.1; omega
    · left; exact hk
  · -- sized
    intro a ham
    obtain ⟨k, hk, hka⟩ := List.getElem_of_mem ham
    have hk0 : k < t0.areas.length := by omega
    obtain ⟨a', ha', hsame, hlen, _⟩ := pa k _ (List.getElem?_eq_getElem hk0)
    rw [List.getElem?_eq_getElem hk, hka] at ha'
    have := Option.some.inj ha'; subst this
    rw [hlen, hs _ (List.getElem_mem hk0), hsame]
  · -- disjoint
    intro i j a b hij hia hjb
    have hi0 : i < t0.areas.length := by rw [← p5]; exact getElem?_lt _ _ _ hia
    have hj0 : j < t0.areas.length := by rw [← p5]; exact getElem?_lt _ _ _ hjb
    obtain ⟨a', ha', hsa, _, _⟩ := pa i _ (List.getElem?_eq_getElem hi0)
    obtain ⟨b', hb', hsb, _, _⟩ := pa j _ (List.getElem?_eq_getElem hj0)
    rw [hia] at ha'; have := Option.some.inj ha'; subst this
    rw [hjb] at hb'; have := Option.some.inj hb'; subst this
    have := hd0 i j _ _ hij (List.getElem?_eq_getElem hi0) (List.getElem?_eq_getElem hj0)
    rw [hsa, hsb]; exact this
  · -- linked
    intro j e hje
    obtain ⟨e0, k, a0, h0, g0, in0, rfl, _⟩ := hent j e hje
    obtain ⟨a, hka, hsa, _, _⟩ := pa k a0 g0
    refine ⟨a, hka, ?_, ?_, ?_⟩
    · rw [hsa]; exact in0.1
    · rw [hsa]
    · rw [hsa]; exact in0.2
  · -- ascending
    simp only [Ascending]
    rw [List.pairwise_iff_getElem]
    intro i j hi hj hij
    obtain ⟨e1, _, _, h1, _, _, q1, _⟩ := hent i _ (List.getElem?_eq_getElem hi)
    obtain ⟨e2, _, _, h2, _, _, q2, _⟩ := hent j _ (List.getElem?_eq_getElem hj)
    have := ordered_entries t0 he i j e1 e2 hij h1 h2
    rw [q1, q2]; simp only; omega
  · -- defaults fit
    intro e hem
    obtain ⟨j, hj, hje⟩ := List.getElem_of_mem hem
    obtain ⟨e0, _, _, h0, _, _, q, _⟩ := hent j e (by rw [List.getElem?_eq_getElem hj, hje])
    rw [q]; exact hl.fit e0 (List.mem_of_getElem? h0)
  · -- every register satisfies its constraint
    intro j hj
    obtain ⟨e0, k, a0, h0, g0, in0, q, hget⟩ := hent j _ (List.getElem?_eq_getElem hj)
    refine ⟨_, ⟨e0.type, e0.default⟩, List.getElem?_eq_getElem hj, hget, ?_⟩
    have hmem : e0 ∈ t0.entries := List.mem_of_getElem? h0
    obtain ⟨a, ham, _, hdo⟩ := hwf e0 hmem
    have hdok := (hdo (hl.loads a ham)).1
    have hnf := hl.nofail e0 hmem
    rw [q]
    simp only [rv_validate, beq_self_eq_true, Bool.true_and, p2]
    simp only [checkOk] at hdok ⊢
    cases hc : e0.check <;> simp only [hc] at hdok hnf ⊢ <;> first | exact hdok | exact absurd rfl hnf

/-- initialisation followed by any history of checked operations: every register keeps decoding and satisfying
    its constraint (C04 `init_good` composed with C05 `history_preserves_constraints`) -/
theorem init_then_history (cb : Nat → Value → Bool) (t0 : Table) (hs : Sized t0) (hl : LoadsAll t0)
    (hok : (register_init cb t0).1.code = .success) (ops : List Ufw.Props.C05.CheckedOp) (hwf : ∀ o ∈ ops, o.wf) :
    Ufw.Props.C05.Good cb (ops.foldl (Ufw.Props.C05.apply cb) (register_init cb t0).2) :=
  Ufw.Props.C05.history_preserves_constraints cb ops _ hwf (init_good cb t0 hs hl hok)

/-! ### non-vacuity: a description that meets every hypothesis above -/

/-- two areas with a hole between them; stale content in the storage; a register with a range constraint -/
def demoDescription : Table :=
  { areas := [{ base := 16, size := 4, mem := [9, 9, 9, 9] }, { base := 32, size := 2, mem := [7, 7] }],
    entries := [{ type := .u16, default := 7, address := 16 },
                { type := .u32, default := 5, address := 17, check := .range 1 100 },
                { type := .s16, default := 65535, address := 33, check := .max 3 }],
    bigEndian := true }

example : Sized demoDescription := by
  intro a ha; simp [demoDescription] at ha; rcases ha with rfl | rfl <;> rfl

example : LoadsAll demoDescription := by
  refine ⟨?_, ?_, ?_⟩
  · intro a ha; simp [demoDescription] at ha; rcases ha with rfl | rfl <;> rfl
  · intro e he; simp [demoDescription] at he; rcases he with rfl | rfl | rfl <;> simp
  · intro e he; simp [demoDescription] at he; rcases he with rfl | rfl | rfl <;> decide

example : (register_init (fun _ _ => true) demoDescription).1.code = .success := by decide

/-- and one that violates a rule: the second register straddles the end of the first area -/
example : (register_init (fun _ _ => true)
    { demoDescription with entries := [{ type := .u16, default := 7, address := 16 },
                                       { type := .u64, default := 5, address := 18 }] }).1 = ⟨.entryInMemoryHole, 1⟩ := by
  decide

end Ufw.Props.C04
