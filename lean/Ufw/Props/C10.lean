import Ufw.Model.Persist
namespace Ufw.Props.C10
open Ufw Ufw.Model.Persist
/-- part accesses reaching beyond the data size - as natural numbers, so also pairs whose sum wraps in
    size_t - are refused without touching the medium -/
theorem part_bounds (f : List Octet → Nat → Nat) (s : Store) (m : Medium) (src : List Octet) (offset n : Nat) :
    (offset + src.length > s.dataSize → persistent_store_part f s m src offset = (.outOfRange, m)) ∧
    (offset + n > s.dataSize → persistent_fetch_part s m offset n = (.outOfRange, [], m)) := by
  constructor
  · intro h
    have : src.length > s.dataSize ∨ offset > s.dataSize - src.length := by omega
    simp [persistent_store_part, this]
  · intro h
    have : n > s.dataSize ∨ offset > s.dataSize - n := by omega
    simp [persistent_fetch_part, this]
end Ufw.Props.C10
